#!/usr/bin/env python3
"""Regenerate /verif/MANIFEST.json from manifest_table.py (development tool)."""
import json, os, sys, subprocess
HERE = os.path.dirname(os.path.abspath(__file__)); VERIF = os.path.dirname(HERE)
sys.path.insert(0, HERE)
from manifest_table import CHECKS, NOT_APPLICABLE, ENGINES, NOTES
props = [json.loads(l) for l in open(os.path.join(VERIF, "properties.jsonl"))]
ids = [p["id"] for p in props]
m = {
 "version": 1,
 "setup_cmd": "./setup.sh",
 "hooks": {
  "guard": "verif",
  "enable": "none: static analysis needs no instrumentation; /repo carries no hook commits, only fix: commits",
  "baseline_off_cmd": "cd /repo && GOFLAGS=-mod=mod go test -vet=off -count=1 ./...",
  "source_commits": [],
  "add_only": True,
 },
 "engines": ENGINES,
 "checks": [],
 "notes": NOTES,
 "not_applicable": [],
}
for pid in ids:
    if pid in CHECKS:
        c = CHECKS[pid]
        m["checks"].append({
         "property_id": pid,
         "quick_cmd": f"bin/sizercheck -prop {pid} -tier quick",
         "thorough_cmd": f"bin/sizercheck -prop {pid} -tier thorough",
         "evidence_file": f"/verif/evidence/{pid}.json",
         "replay_cmd_template": f"bin/sizercheck -prop {pid} -explain {{path}}",
         "engine": "sizercheck",
         "level_claimed": {"category": "other", "text": c["text"], "design_ref": c.get("ref", "DESIGN.md section 4, " + pid)},
         "level_note": c["note"],
         "technique": c["technique"],
        })
    else:
        m["not_applicable"].append({"property_id": pid, "reason": NOT_APPLICABLE.get(pid, "check not built yet (build in progress)")})
json.dump(m, open(os.path.join(VERIF, "MANIFEST.json"), "w"), indent=1)
print("checks:", len(m["checks"]), "not_applicable:", len(m["not_applicable"]))
