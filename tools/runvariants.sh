#!/bin/bash
# Development driver: apply each variant patch to a scratch copy of /repo and
# run the analyzer for its property. breaking/* must be reported, silent/*
# must stay quiet. Usage: runvariants.sh [prop|id-substring ...]
export GOFLAGS=-mod=mod GOPROXY=off GOSUMDB=off GOTOOLCHAIN=local; unset GOWORK
V=$(cd "$(dirname "$0")/.." && pwd)
T=$(mktemp -d -t runvar-XXXXXX)
trap 'rm -rf "$T"' EXIT
git clone -q /repo "$T/repo"
pass=0; fail=0
for kind in breaking silent; do
 for p in "$V"/variants/$kind/*/*.patch; do
  [ -e "$p" ] || continue
  prop=$(basename "$(dirname "$p")"); id=$(basename "$p" .patch)
  case "$prop" in C[0-9][0-9]) ;; *) continue;; esac   # R* corpora: tools/silent_all.sh
  if [ $# -gt 0 ]; then m=0; for a in "$@"; do case "$prop/$id" in *$a*) m=1;; esac; done; [ $m = 1 ] || continue; fi
  (cd "$T/repo" && git checkout -q . && git apply "$p") || { echo "$kind $prop/$id: PATCH-DOES-NOT-APPLY"; continue; }
  props=$prop
  extra=$(python3 -c "import json,sys; print(' '.join(json.load(open('${p%.patch}.json')).get('also',[])))" 2>/dev/null)
  out=$("$V/bin/sizercheck" -prop "$prop" -repo "$T/repo" -no-evidence 2>&1); rc=$?
  if [ $kind = breaking ]; then
    if [ $rc = 1 ]; then pass=$((pass+1)); echo "ok   $kind $prop/$id: $(echo "$out" | grep -E '^  (VIOLATED|UNDECIDED)' | head -2 | cut -c1-230 | tr '\n' '|')";
    else fail=$((fail+1)); echo "MISS $kind $prop/$id rc=$rc $(echo "$out" | grep CHECK-ERROR | head -2)"; fi
  else
    if [ $rc = 0 ]; then pass=$((pass+1)); echo "ok   $kind $prop/$id silent";
    else fail=$((fail+1)); echo "FALSE-ALARM $kind $prop/$id rc=$rc: $(echo "$out" | grep -E '^  (VIOLATED|UNDECIDED)|CHECK-ERROR' | head -3 | cut -c1-230 | tr '\n' '|')"; fi
  fi
 done
done
echo "pass=$pass fail=$fail"
