#!/bin/bash
# take_seed.sh <PROP> <worktree> <n> [extra props to run...]
# Independently confirm seeded change n delivered by a sub-agent in <worktree>/seed:
#   patch applies to a fresh scratch clone of /repo, builds, passes the pinned tests,
#   demo fails with it and passes without it. Then run the /verif checks for PROP
#   (and extra props) against the patched scratch copy and store everything under
#   /verif/seeded/<PROP>-<tag>/ . Development tool.
set -u
export GOFLAGS=-mod=mod GOPROXY=off GOSUMDB=off GOTOOLCHAIN=local; unset GOWORK
PROP=$1; WT=$2; N=$3; shift 3
V=$(cd "$(dirname "$0")/.." && pwd)
SD="$WT/seed"
[ -f "$SD/patch$N.diff" ] || { echo "no patch$N.diff in $SD"; exit 2; }
T=$(mktemp -d -t takeseed-XXXXXX); trap 'rm -rf "$T"' EXIT
git clone -q /repo "$T/repo"; mkdir -p "$T/repo/seed"; cp -r "$SD"/. "$T/repo/seed/"
cd "$T/repo"
# demos write temporary files under /tmp/seed/work-<ID>
mkdir -p /tmp/seed/work-$PROP /tmp/seed/work-${PROP}b
res="prop=$PROP n=$N"
bash seed/demo$N.sh >"$T/clean.log" 2>&1; rc_clean=$?
git apply seed/patch$N.diff || { echo "$res PATCH-DOES-NOT-APPLY"; exit 1; }
go build ./... 2>"$T/build.log" || { echo "$res BUILD-FAIL"; cat "$T/build.log"; exit 1; }
tests=$("$V/tools/pinned_tests.sh" "$T/repo" 2>&1 | tail -1)
bash seed/demo$N.sh >"$T/patched.log" 2>&1; rc_patched=$?
echo "$res demo(clean)=$rc_clean demo(patched)=$rc_patched tests: $tests"
ok=1
[ $rc_clean = 0 ] || ok=0; [ $rc_patched != 0 ] || ok=0
case "$tests" in *"pinned tests ok"*) ;; *) ok=0;; esac
det=""
for p in $PROP "$@"; do
  out=$("$V/bin/sizercheck" -prop $p -repo "$T/repo" -no-evidence 2>&1); rc=$?
  rules=$(echo "$out" | grep -E '^  (VIOLATED|UNDECIDED)' | awk '{print $2":"$3}' | sort -u | head -4 | tr '\n' ' ')
  echo "   check $p rc=$rc $rules"
  echo "$out" | grep -E '^  (VIOLATED|UNDECIDED)' | head -3 | cut -c1-300 | sed 's/^/      /'
  [ $rc = 1 ] && det="$det $p[$rules]"
done
if [ $ok = 1 ]; then
  tag=$(python3 -c "import json,re;m=json.load(open('$SD/meta$N.json'));print(re.sub(r'[^a-z0-9]+','-',m['summary'].lower())[:40].strip('-'))" 2>/dev/null || echo change$N)
  D="$V/seeded/$PROP-${ROUND:-}$N-$tag"; mkdir -p "$D"
  cp "$SD/patch$N.diff" "$D/patch.diff"; cp "$SD/demo$N.sh" "$D/demo.sh"
  for f in "$SD"/*; do case "$(basename $f)" in patch*|demo*.sh|meta*) ;; *) cp -r "$f" "$D/";; esac; done
  python3 - "$SD/meta$N.json" "$D/meta.json" "$PROP" "$N" "$det" "$tests" <<'PY'
import json,sys
m=json.load(open(sys.argv[1]))
m.update({"property":sys.argv[3],"origin":"independent sub-agent, given only the property text and a scratch worktree","demo":"bash seed/demo%s.sh from the worktree root (copy this directory to <tree>/seed first; demo.sh here is demo%s.sh)"%(sys.argv[4],sys.argv[4]),
 "confirmed":{"applies_builds":True,"pinned_tests":sys.argv[6],"demo_unmodified_exit":0,"demo_patched_exit":"non-zero"},
 "detected_by":sys.argv[5].strip() or "NOT DETECTED"})
json.dump(m,open(sys.argv[2],"w"),indent=1)
PY
  echo "   kept as $D  detected_by:${det:- NOT DETECTED}"
else
  echo "   NOT KEPT (confirmation failed)"; tail -5 "$T/clean.log" "$T/patched.log"
fi
