#!/bin/bash
# Re-run every kept seeded change against the check(s) recorded as detecting it.
export GOFLAGS=-mod=mod GOPROXY=off GOSUMDB=off GOTOOLCHAIN=local; unset GOWORK
V=$(cd "$(dirname "$0")/.." && pwd)
one() {
  d=$1; V=$2
  id=$(basename "$d")
  props=$(python3 -c "import json,re;print(' '.join(re.findall(r'(C\d+)\[', json.load(open('$d/meta.json'))['detected_by'])))")
  [ -z "$props" ] && props=$(python3 -c "import json;print(json.load(open('$d/meta.json'))['property'])")
  T=$(mktemp -d -t reseed-XXXXXX)
  rsync -a --exclude .git /repo/ "$T/repo/"
  (cd "$T/repo" && git apply --whitespace=nowarn "$d/patch.diff" 2>/dev/null) || { echo "$id PATCH-DOES-NOT-APPLY"; rm -rf "$T"; return; }
  for p in $props; do
    "$V/bin/sizercheck" -prop $p -repo "$T/repo" -no-evidence >/dev/null 2>&1; rc=$?
    [ $rc = 1 ] || echo "LOST $id on $p rc=$rc"
  done
  rm -rf "$T"
}
export -f one
ls -d "$V"/seeded/*/ | xargs -P 6 -I{} bash -c 'one {} '"$V"
echo "reseed done"
