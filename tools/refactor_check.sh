#!/bin/bash
# refactor_check.sh <dir with refactorN.diff> : a behaviour-preserving patch must leave all checks silent.
export GOFLAGS=-mod=mod GOPROXY=off GOSUMDB=off GOTOOLCHAIN=local; unset GOWORK
V=$(cd "$(dirname "$0")/.." && pwd)
one() {
  p=$1; V=$2
  id=$(basename "$(dirname "$(dirname "$p")")")/$(basename "$p" .diff)
  T=$(mktemp -d -t refchk-XXXXXX)
  git clone -q /repo "$T/repo"
  (cd "$T/repo" && git apply --whitespace=nowarn "$p") || { echo "$id PATCH-DOES-NOT-APPLY"; rm -rf "$T"; return; }
  t=$("$V/tools/pinned_tests.sh" "$T/repo" 2>&1 | tail -1)
  case "$t" in *"pinned tests ok"*) ;; *) echo "$id TESTS: $t";; esac
  for prop in $("$V/bin/sizercheck" -list); do
    out=$("$V/bin/sizercheck" -prop $prop -repo "$T/repo" -no-evidence 2>&1); rc=$?
    if [ $rc != 0 ]; then echo "ALARM $id on $prop rc=$rc: $(echo "$out" | grep -E '^  (VIOLATED|UNDECIDED)|CHECK-ERROR' | head -3 | cut -c1-330 | tr '\n' '|')"; fi
  done
  echo "done $id"
  rm -rf "$T"
}
export -f one
ls "$1"/refactor*.diff | xargs -P 5 -I{} bash -c 'one {} '"$V"
