#!/usr/bin/env python3
"""Regenerate checker/known_funcs.go from the functions of the reference tree (/repo).
Development tool: run after a fix: commit that adds or removes a named function."""
import subprocess, os, sys, json
V = os.path.dirname(os.path.dirname(os.path.abspath(__file__)))
exe = sys.argv[1] if len(sys.argv) > 1 else os.path.join(V, "bin", "sizercheck")
env = dict(os.environ, SIZERCHECK_NOINLINE="1", GOFLAGS="-mod=mod", GOPROXY="off", GOSUMDB="off", GOTOOLCHAIN="local")
env.pop("GOWORK", None)
out = subprocess.run([exe, "-dump", "funcs"], env=env, capture_output=True, text=True).stdout
names, sigs = [], {}
for line in out.splitlines():
    if "\t" not in line:
        continue
    n, s = line.split("\t", 1)
    if n not in sigs:
        names.append(n)
        sigs[n] = s
w = max(len(n) for n in names) + 3
with open(os.path.join(V, "checker", "known_funcs.go"), "w") as f:
    f.write('''package main

// knownFuncs: the named functions of the reference tree (union over the
// linux/amd64, linux/386, windows/amd64 and darwin/amd64 configurations),
// knownSigs: their package|receiver|signature keys (used to recognise a
// rename), knownOrder: their source order (ties between renamed functions of
// equal signature are resolved in declaration order). A named module
// function outside this table is a helper introduced by a later change;
// inline.go expands it at its call sites.
// Generated with tools/gen_known.py.
var knownFuncs = map[string]bool{
''')
    for n in sorted(names):
        f.write('\t%-*s true,\n' % (w, '"%s":' % n))
    f.write('}\n\nvar knownSigs = map[string]string{\n')
    for n in sorted(names):
        f.write('\t%-*s "%s",\n' % (w, '"%s":' % n, sigs[n]))
    f.write('}\n\nvar knownOrder = map[string]int{\n')
    for i, n in enumerate(names):
        f.write('\t%-*s %d,\n' % (w, '"%s":' % n, i))
    f.write('}\n')
print(len(names), "functions")

# ---- types ----
out = subprocess.run([exe, "-dump", "types"], env=env, capture_output=True, text=True).stdout
seen, rows = set(), []
for line in out.splitlines():
    parts = line.split("\t")
    if len(parts) != 5 or parts[0] in seen:
        continue
    seen.add(parts[0])
    rows.append(parts)
with open(os.path.join(V, "checker", "known_types.go"), "w") as f:
    f.write('''package main

// knownTypes: the named types of the reference tree in source order, with
// their shape (exact, and with the names of fields, methods and module
// types erased) and their field names; used to recognise a renamed type or
// field (renames.go). Generated with tools/gen_known.py.
var knownTypes = map[string]knownType{
''')
    for i, (k, shape, erased, fields, ftypes) in enumerate(rows):
        fl = ", ".join('"%s"' % x for x in fields.split(",") if x)
        tl = ", ".join(json.dumps(x) for x in ftypes.split("\x1f") if x)
        f.write('\t"%s": {Order: %d, Shape: %s, Erased: %s, Fields: []string{%s}, FieldTypes: []string{%s}},\n' % (k, i, shape, erased, fl, tl))
    f.write('}\n')
print(len(rows), "types")
