ENGINES = [
 {"name": "sizercheck", "path": "/verif/checker", "serves_properties": [],
  "kind_free_text": "repository-specific static analyzer over go/packages + go/ssa + call graph of /repo's working tree (x/tools v0.29.0); never runs git-sizer, its tests or git"},
]
NOTES = ("Technique family: static analysis only. Every claim is at level 'other': structural necessary conditions of the property decided "
         "from /repo's source on every run; what is not decided is listed per property in level_note and DESIGN.md section 6. "
         "Exit 0 = held, 1 = VIOLATION line(s), 2 = CHECK-ERROR (the check itself could not run).")
NOT_APPLICABLE = {}
CHECKS = {}
def add(pid, technique, text, note):
    CHECKS[pid] = {"technique": technique, "text": text, "note": note}
    ENGINES[0]["serves_properties"].append(pid)

add("C13", "who-may-spawn call-site table + argv/env shape of GitCommand + dominance (must-pass-through IsFull) over SSA",
    "Decides the structural part of C13: all git processes are built by GitCommand (one named exception), GitCommand forces --no-replace-objects, GIT_DIR and GIT_GRAFT_FILE=os.DevNull with nothing overriding them, every constructed Repository passed the shallow test on all paths, and the git directory is never re-pointed. A static shape argument is the right level because these are who-may-call / dominance facts; equality of reports across addressing modes is a relation between runs and is not decided.",
    "Trusted: git honours the flags and environment as documented; os/exec passes Args/Env through; go/ssa and go/types model the source faithfully. Not decided: identity of reports across ways of addressing the repository.")
