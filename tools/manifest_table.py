ENGINES = [
 {"name": "sizercheck", "path": "/verif/checker", "serves_properties": [],
  "kind_free_text": "repository-specific static analyzer over go/packages + go/ssa + call graph of /repo's working tree (x/tools v0.29.0); never runs git-sizer, its tests or git"},
]
NOTES = ("Technique family: static analysis only. Every claim is at level 'other': structural necessary conditions of the property decided "
         "from /repo's source on every run; what is not decided is listed per property in level_note and DESIGN.md section 6. "
         "Exit 0 = held, 1 = VIOLATION line(s), 2 = CHECK-ERROR (the check itself could not run).")
NOT_APPLICABLE = {}
CHECKS = {}
def add(pid, technique, text, note):
    CHECKS[pid] = {"technique": technique, "text": text, "note": note}
    ENGINES[0]["serves_properties"].append(pid)

add("C13", "who-may-spawn call-site table + argv/env shape of GitCommand + dominance (must-pass-through IsFull) over SSA",
    "Decides the structural part of C13: all git processes are built by GitCommand (one named exception), GitCommand forces --no-replace-objects, GIT_DIR and GIT_GRAFT_FILE=os.DevNull with nothing overriding them, every constructed Repository passed the shallow test on all paths, and the git directory is never re-pointed. A static shape argument is the right level because these are who-may-call / dominance facts; equality of reports across addressing modes is a relation between runs and is not decided.",
    "Trusted: git honours the flags and environment as documented; os/exec passes Args/Env through; go/ssa and go/types model the source faithfully. Not decided: identity of reports across ways of addressing the repository.")

TB = "Trusted: go/packages, go/types and go/ssa model the source faithfully; the field-based heap model (one node per struct field); the library/git contracts named in the evidence assumptions."
add("C01", "update-effect graph vs. frozen oracle + CFG path rules (guards, exactly-once-per-iteration) + constant-folded argv of the rev-list site",
    "Decides structural necessary conditions of the census: which quantities are added into the eight census counters with which operator on every path (exactly the edges the statement demands), that each header is dispatched exactly once and each listed object requested/read/registered exactly once, that only walked roots reach rev-list, that rev-list's argv cannot add or hide objects, and that the scanned roots are exactly references + ROOT arguments. Shape-of-code facts on all paths, including branches no test executes; numeric equality with the reachable set is not decided.",
    TB + " Not decided: that git enumerates exactly the reachable set; the numeric equality itself.")
add("C02", "finite-domain abstract interpretation of AdjustMax* over the 3 orderings + update-effect graph + unconditional-execution path rule",
    "Decides that the four single-object maxima are fed by MAX of exactly the quantity the statement names, on every path from registration (position-independent), that the max primitives implement max in all orderings, and that parents are counted per `parent` header. Operator semantics are decided exhaustively over a finite abstract domain; concrete repositories are not run.",
    TB)
add("C03", "argv flag rule + loop-shape recognition (descending request/read loops, index cross-check) + update-effect graph + guard rules",
    "Decides the ordering flag, the reverse processing of the commit list with its order cross-check, panics on missing parent/tree sizes (no silent zero), depth = 1 + MAX over parents with one MAX per parent, tag depth additions only for tag referents in both delivery orders. The longest-chain equality on concrete DAGs and git's ordering guarantee are not decided.",
    TB + " Trusted: git's documented ordering for --date-order/--topo-order/--author-date-order.")
add("C04", "mode-constant facts on dominating branch edges + per-iteration event counting with listener credit + update-effect graph vs. oracle",
    "Decides the entry-kind classification constants, that every path through one tree-entry iteration bumps exactly one kind counter and each path maximum once in the arm of its own kind, the combine edges of the recursive expansion (ADD per occurrence / MAX for depth and length / tree itself counted), and that the seven checkout maxima are unconditional MAXes of their own quantity. Numeric equality on concrete tree DAGs is not decided.",
    TB)
add("C05", "finite-domain abstract interpretation (wrapped/not-wrapped case split) + who-may-apply-raw-arithmetic scan with marks from the effect graph + sibling cross-check + call-graph single-caller rules",
    "Decides the saturating primitives for all operands through the one theorem of w-bit unsigned addition, that no raw arithmetic/conversion touches a counter outside package counts, that sibling size parsers agree, the overflow rendering rules, and that each tree is expanded from exactly one place. Two widenings of a 32-bit-clamped blob size are a recorded known finding. Run time and saturation on concrete repositories are not decided.",
    TB)
add("C06", "finite-domain abstract interpretation over opaque match atoms (truth tables) + fold/guard rules on SSA + registration table from composite literals + concatenation-shape rule for the anchored regexp",
    "Decides the four Combine identities and the helper filters' truth tables exhaustively over atoms, the fold shape at all six extension sites, the all/none default and its single caller, the option registration table, the prefix boundary table with its in-bounds index, the grouping of a user regexp inside its anchors, and the /REGEXP/ @GROUP PREFIX dispatch. The last-matching-rule semantics follows from these by induction on the option list (on paper). Regexp matching and pflag's ordering are trusted.",
    TB)
add("C07", "zone-domain bounds obligations for the renderer + update-effect graph + per-iteration event counting + guard rules + argv rule",
    "Decides that no index/slice in the table renderer can go out of bounds for any refgroup depth or name, that every reference is registered exactly once regardless of Walk(), one root per listed reference with its own Categorize result, one tally bump per group symbol, the `ignored` iff-not-walked guard and the own-filter early return, the refgroup row symbols/indentation, and an unrestricted for-each-ref. The recursive tally semantics over arbitrary forests is not decided.",
    TB)
add("C08", "control-dependence (guard) rule pairing each witness update with the AdjustMax* of its own metric + item/witness table cross-check + finite-domain interpretation of the name-style switch",
    "Decides that a witness is recorded exactly when its own metric reached a new maximum, for the object being compared and with the right kind, that each report item cites the witness paired with its value, and that --names=none produces no citation. That a printed description resolves through git rev-parse is not decided (run-time strings and git's revision grammar).",
    TB)
add("C09", "sibling cross-check of update-edge multisets (immediate branch vs. deferred listener) + pending-counter path rules",
    "Decides that both delivery orders of a subtree / referent tag execute the same size-affecting updates the same number of times, that the pending counter is incremented once per registered listener and decremented once per notification followed by the finalisation step, that initialisation ends in that step, and that finalisation publishes then notifies under pending==0. Invariance between runs (root order, timestamps, storage layout) is not decided.",
    TB)
add("C10", "error-flow discipline over every error-producing operation (non-nil edge regions) + must-observe-end-of-stream dominance rule + who-may-write-stdout + channel close/capacity rules + bounds obligations of the driver",
    "Decides that no error produced anywhere in the module is dropped or swallowed (enumerated single-construct exceptions), that short reads and wrong object types leave with an error, that success is returned only after each pipeline's Wait() error was observed, that the report is written only after a successful scan and nothing else can write stdout, and the close/capacity discipline that prevents the consumer or a feeder from blocking forever. General absence of hangs and equality with the fault-free report are not decided.",
    TB + " Trusted: go-pipe and os/exec report failing children through Wait()/Output().")
add("C13", CHECKS["C13"]["technique"], CHECKS["C13"]["text"], CHECKS["C13"]["note"])
add("C15", "delimiter-discipline rule (record terminator before field separator) + zone-domain bounds/progress obligations + truth table of the key-prefix matcher + key/polarity table of the augment switch",
    "Decides that the gitconfig listing is cut at NUL before LF is searched, that the reader cannot index out of bounds or loop forever, that no scope restriction is passed to git config, the '.'-boundary truth table of the key matcher, and that a group is folded from exactly the five documented keys with the right polarity and pattern kind in listing order. Agreement with git's own parser on arbitrary configurations is not decided.",
    TB)
add("C16", "zone (difference-bound) domain bounds obligations on every index/slice of package git + cursor-progress rule + grammar constant agreement + writer/reader format cross-check",
    "Decides absence of out-of-range panics and of non-termination in the object and listing parsers for every input (an undischarged obligation is reported as the crash it allows), the tree-entry grammar constants, single duplicate-rejecting header arms, the header block ending at the first blank line, and agreement between git's output formats and the readers' field indices. Losslessness (re-serialisation equality) is not decided.",
    TB + " Int wrap-around is not modelled by the zone domain.")
# keep engine list free of duplicates
ENGINES[0]["serves_properties"] = sorted(set(ENGINES[0]["serves_properties"]))

add("C11", "item/field bijection table from the item-list builder + finite-domain interpretation of the concern rule + guard rules for row emission and the empty-table line",
    "Decides that the three formats are fed from one item list covering each of the 22 measurements exactly once, that a row formats / JSON v2 emits / the concern rule judges the same value with positive scale constants, the exact concern rule (overflow, alert<threshold, alert>30, stars[:int(alert)]) over all assignments of its atoms, that a row is emitted iff that rule says so, and the `No problems` / section-header conditions. Monotonicity follows from alert<threshold being the only use of the threshold; it is not observed between runs.",
    TB)
add("C12", "constant-table evaluation (go/types constants of the prefix literals) + guard/shape rules of FormatNumber + interval reasoning over the precision switch",
    "Decides only the structural part of C12: the prefix tables are 1000^i / 1024^i with the standard names, values below the first prefix are printed exactly, the prefix scan keeps the largest fitting prefix, and every precision branch yields >= 3 significant digits and <= 5 characters for its whole-part interval. This is the thinnest claim: correct rounding, the half-unit bound and monotonicity over 2^64 values are numeric and NOT decided by any static argument in reach.",
    TB + " Not decided: rounding, half-unit error bound, monotonicity (numeric properties of float formatting).")
add("C14", "option-family inference from the registrations (which variable each pflag.Value writes) + control-dependence of each gitconfig read on !Changed(f) for the whole family + constant/alias tables",
    "Decides that each sizer.* gitconfig read happens only when no option of the family writing the same variable was given, the documented constants of the threshold family and the short options, that gitconfig values use the options' own parsers, and that the deprecated aliases reach the same filter constructors with the same combiner. Byte-identical output of paired runs is not observed.",
    TB + " Trusted: pflag's Changed/Set semantics.")
add("C17", "sub-command allow-list + who-may-call scan for mutating APIs (with positive controls) + goroutine-capture classification and parent-write rule + call-graph reachability scan for nondeterminism sources + must-hold locksets and lock-order graph",
    "Decides read-only plumbing use, absence of file-system mutation, confinement of the aggregation state to the consumer goroutine (captures classified by type, no parent write after go), absence of map-range/clock/random/environment on the report and scan paths, lock release on all exits and an acyclic class-level lock order. Positive controls in /verif/controls must fire on every run. Schedule-independence and race-freedom inside go-pipe, os/exec and the runtime are not decided.",
    TB)
add("C18", "stream-parameter provenance + must-hold lockset per meter field + dominance of every ticker write by the identity test inside one critical section + Start/Inc/Done bracket automaton over the scanner's CFG + per-iteration Inc counting",
    "Decides that progress goes to the stderr stream only, that every meter field is immutable, atomic or lock-protected, that a replaced ticker goroutine can no longer print (identity test and write in one critical section; Done replaces the ticker and prints under the lock), that phases are properly bracketed on every path and every processed item is counted exactly once. Ticker timing and the equality of the printed number with the census on concrete runs are not decided.",
    TB)
add("C19", "who-builds-JSON rule over every MarshalJSON and the --json write + footnote numbering guard rules + pipeline-stage scan for length-capped line readers downstream of name-carrying git commands",
    "Decides that JSON bytes come unmodified from encoding/json (object ids: hex between constant quotes), the footnote discipline (number = count+1 in the unseen-text branch, print by position, empty text no citation, every citation printed in its row), and that no 64 KiB-capped line scanner reads lines carrying path or reference names. Validity of the emitted JSON/table for concrete byte strings relies on encoding/json's escaping.",
    TB)
ENGINES[0]["serves_properties"] = sorted(set(ENGINES[0]["serves_properties"]))
