#!/bin/bash
# Run every behaviour-preserving (silent) variant against ALL properties; any alarm is a checker defect.
export GOFLAGS=-mod=mod GOPROXY=off GOSUMDB=off GOTOOLCHAIN=local; unset GOWORK
V=$(cd "$(dirname "$0")/.." && pwd)
one() {
  p=$1; V=$2
  id=$(basename "$p" .patch)
  T=$(mktemp -d -t silent-XXXXXX)
  rsync -a --exclude .git /repo/ "$T/repo/"
  (cd "$T/repo" && git apply --whitespace=nowarn "$p") || { echo "$id PATCH-DOES-NOT-APPLY"; rm -rf "$T"; return; }
  for prop in $("$V/bin/sizercheck" -list); do
    out=$("$V/bin/sizercheck" -prop $prop -repo "$T/repo" -no-evidence 2>&1); rc=$?
    if [ $rc != 0 ]; then echo "FALSE-ALARM $id on $prop rc=$rc: $(echo "$out" | grep -E '^  (VIOLATED|UNDECIDED)|CHECK-ERROR' | head -2 | cut -c1-260 | tr '\n' '|')"; fi
  done
  echo "done $id"
  rm -rf "$T"
}
export -f one
ls "$V"/variants/silent/*/*.patch | xargs -P 6 -I{} bash -c 'one {} '"$V"
