#!/bin/bash
# Run the repository's pinned test suite in $1 (default /repo); print unexpected failures.
export GOFLAGS=-mod=mod GOPROXY=off GOSUMDB=off GOTOOLCHAIN=local; unset GOWORK
cd "${1:-/repo}" || exit 2
go build ./... || { echo BUILD-FAIL; exit 2; }
out=$(go test -vet=off -count=1 ./... 2>&1)
fails=$(echo "$out" | grep -E "^\s*--- FAIL" | grep -v -E "TestExec|TestRefSelections|TestRefgroups")
passes=$(go test -vet=off -count=1 -v ./... 2>&1 | grep -c -E "^\s*--- PASS")
if [ -n "$fails" ]; then echo "UNEXPECTED FAILURES:"; echo "$fails"; exit 1; fi
echo "pinned tests ok ($passes PASS lines; the 3 always-failing tests need bin/git-sizer)"
