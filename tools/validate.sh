#!/bin/bash
# validate MANIFEST.json and evidence/*.json against the given schemas
python3-vt - <<'PY'
import json,jsonschema,glob
jsonschema.validate(json.load(open('/verif/MANIFEST.json')), json.load(open('/root/.vp/MANIFEST.schema.json')))
n=0
for f in sorted(glob.glob('/verif/evidence/C*.json')):
    jsonschema.validate(json.load(open(f)), json.load(open('/root/.vp/EVIDENCE.schema.json'))); n+=1
print('manifest valid; evidence files valid:', n)
PY
