#!/bin/bash
# redetect.sh [seed-dir-substring ...]: re-run the checks against kept seeded changes and
# rewrite meta.json "detected_by" from what the checker reports now. Development tool.
export GOFLAGS=-mod=mod GOPROXY=off GOSUMDB=off GOTOOLCHAIN=local; unset GOWORK
V=$(cd "$(dirname "$0")/.." && pwd)
one() {
  d=${1%/}; V=$2
  id=$(basename "$d")
  props=$(python3 -c "
import json,re
m=json.load(open('$d/meta.json'))
ps=[m['property']]+re.findall(r'(C\d+)\[', str(m.get('detected_by','')))
out=[]
for p in ps:
    if p not in out: out.append(p)
print(' '.join(out))")
  T=$(mktemp -d -t redet-XXXXXX)
  rsync -a --exclude .git /repo/ "$T/repo/"
  (cd "$T/repo" && git apply --whitespace=nowarn "$d/patch.diff" 2>/dev/null) || { echo "$id PATCH-DOES-NOT-APPLY"; rm -rf "$T"; return; }
  det=""
  for p in $props; do
    out=$("$V/bin/sizercheck" -prop $p -repo "$T/repo" -no-evidence 2>&1); rc=$?
    rules=$(echo "$out" | grep -E '^  (VIOLATED|UNDECIDED)' | awk '{print $2":"$3}' | sort -u | head -4 | tr '\n' ' ')
    [ $rc = 1 ] && det="$det $p[$rules]"
  done
  python3 - "$d/meta.json" "$det" <<'PY'
import json,sys
m=json.load(open(sys.argv[1])); m['detected_by']=sys.argv[2].strip() or 'NOT DETECTED'
json.dump(m,open(sys.argv[1],'w'),indent=1)
PY
  prop=$(python3 -c "import json;print(json.load(open('$d/meta.json'))['property'])")
  case "$det" in *"$prop["*) echo "ok   $id:$det" | cut -c1-260;; *) echo "MISS $id (own property $prop):$det" | cut -c1-260;; esac
  rm -rf "$T"
}
export -f one
if [ $# -gt 0 ]; then
  for a in "$@"; do ls -d "$V"/seeded/*$a*/; done | sort -u | xargs -P 6 -I{} bash -c 'one {} '"$V"
else
  ls -d "$V"/seeded/*/ | xargs -P 6 -I{} bash -c 'one {} '"$V"
fi
