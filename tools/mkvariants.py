#!/usr/bin/env python3
"""Generate /verif/variants/<prop>/<id>.patch from the edit table below.

Each edit is applied to a scratch clone of /repo (under $TMPDIR, removed at the
end); with --verify it is also built and the pinned tests are run there so
that only test-surviving variants are kept. Development tool: the checks do
not depend on it."""
import subprocess, sys, os, json, shutil, tempfile

HERE = os.path.dirname(os.path.abspath(__file__))
VERIF = os.path.dirname(HERE)
sys.path.insert(0, HERE)
from variant_table import BREAKING, SILENT

ENV = dict(os.environ, GOFLAGS="-mod=mod", GOPROXY="off", GOSUMDB="off", GOTOOLCHAIN="local")
ENV.pop("GOWORK", None)

def sh(cmd, cwd, **kw):
    return subprocess.run(cmd, cwd=cwd, env=ENV, capture_output=True, text=True, **kw)

def main():
    verify = "--verify" in sys.argv
    only = [a for a in sys.argv[1:] if not a.startswith("--")]
    tmp = tempfile.mkdtemp(prefix="mkvar-")
    repo = os.path.join(tmp, "repo")
    try:
        sh(["git", "clone", "-q", "/repo", repo], "/")
        # carry uncommitted state of /repo too (normally none)
        for kind, table in (("breaking", BREAKING), ("silent", SILENT)):
            for ent in table:
                vid, prop, edits = ent[0], ent[1], ent[2]
                if only and vid not in only:
                    continue
                ok = True
                for ed in edits:
                    f, old, new = ed[0], ed[1], ed[2]
                    p = os.path.join(repo, f)
                    s = open(p).read()
                    if s.count(old) != 1 and not (len(ed) > 3 and ed[3] == "all" and s.count(old) > 0):
                        print(f"{vid}: PATCH-MISMATCH in {f} (count={s.count(old)})")
                        ok = False
                        break
                    open(p, "w").write(s.replace(old, new))
                if ok:
                    status = ""
                    survives = None
                    if verify:
                        b = sh(["go", "build", "./..."], repo)
                        if b.returncode != 0:
                            status = "BUILD-FAIL " + b.stderr.strip().split("\n")[0]
                            ok = False
                        else:
                            t = sh(["go", "test", "-vet=off", "-count=1", "./..."], repo)
                            fails = [l.strip() for l in t.stdout.split("\n") if l.strip().startswith("--- FAIL")]
                            fails = [l for l in fails if not any(x in l for x in ("TestExec", "TestRefSelections", "TestRefgroups"))]
                            if fails:
                                status = "TESTS-CATCH-IT " + fails[0]
                                survives = False
                            else:
                                status = "survives the 53 stable tests"
                                survives = True
                    if ok:
                        d = sh(["git", "diff"], repo).stdout
                        outdir = os.path.join(VERIF, "variants", kind, prop)
                        os.makedirs(outdir, exist_ok=True)
                        open(os.path.join(outdir, vid + ".patch"), "w").write(d)
                        meta = {"id": vid, "property": prop, "kind": kind, "expect": ent[3] if len(ent) > 3 else "", "survives_pinned_tests": survives}
                        open(os.path.join(outdir, vid + ".json"), "w").write(json.dumps(meta, indent=1) + "\n")
                    print(f"{vid}: {'written' if ok else 'SKIPPED'} {status}")
                sh(["git", "checkout", "-q", "."], repo)
    finally:
        shutil.rmtree(tmp, ignore_errors=True)
        sh(["go", "clean", "-cache"], "/") if False else None

main()
