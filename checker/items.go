package main

import (
	"go/token"
	"go/types"

	"golang.org/x/tools/go/ssa"
)

// The report's items: one row per item that contents() builds with
// newItem, whether the arguments are written at the call or come from a
// table of struct literals the call is applied to in a loop.

type itemRow struct {
	Call *ssa.Call
	Args []ssa.Value // one per parameter of newItem
	Pos  token.Pos
	Row  int // index in the table (-1: direct call)
}

// tableField: v reads field k of an element of a slice (table[i].f, or the
// loop variable of a range over the table).
func (c *Ctx) tableField(v ssa.Value) (table ssa.Value, field int, ok bool) {
	elemOf := func(addr ssa.Value) (ssa.Value, bool) {
		ia, ok := addr.(*ssa.IndexAddr)
		if !ok {
			return nil, false
		}
		return c.resolve(ia.X), true
	}
	structFrom := func(x ssa.Value) (ssa.Value, bool) {
		// x is a struct value loaded from a table element
		u, ok := x.(*ssa.UnOp)
		if !ok || u.Op != token.MUL {
			return nil, false
		}
		if t, ok := elemOf(u.X); ok {
			return t, true
		}
		if cell := c.cellOf(u.X); cell != nil {
			if st := c.cellStores(cell); len(st) == 1 {
				if u2, ok := st[0].Val.(*ssa.UnOp); ok && u2.Op == token.MUL {
					return elemOf(u2.X)
				}
			}
		}
		return nil, false
	}
	switch x := v.(type) {
	case *ssa.Field:
		if t, ok := structFrom(x.X); ok {
			return t, x.Field, true
		}
	case *ssa.UnOp:
		if x.Op != token.MUL {
			return nil, 0, false
		}
		fa, ok := x.X.(*ssa.FieldAddr)
		if !ok {
			return nil, 0, false
		}
		if t, ok := elemOf(fa.X); ok {
			return t, fa.Field, true
		}
		// field of the loop variable's cell
		if cell := c.cellOf(fa.X); cell != nil {
			if st := c.cellStores(cell); len(st) == 1 {
				if t, ok := structFrom(st[0].Val); ok {
					return t, fa.Field, true
				}
			}
		}
	}
	return nil, 0, false
}

// tableRows reads a slice literal of struct literals: one map field->value
// per element. ok=false when the table is not a literal.
func (c *Ctx) tableRows(table ssa.Value) ([]map[int]ssa.Value, bool) {
	s, ok := table.(*ssa.Slice)
	if !ok {
		return nil, false
	}
	al, ok := s.X.(*ssa.Alloc)
	if !ok {
		return nil, false
	}
	n, ok := staticLenOf(al.Type())
	if !ok {
		return nil, false
	}
	rows := make([]map[int]ssa.Value, n)
	for i := range rows {
		rows[i] = map[int]ssa.Value{}
	}
	for _, r := range *al.Referrers() {
		switch x := r.(type) {
		case *ssa.Slice:
		case *ssa.IndexAddr:
			idx, ok := constInt(x.Index)
			if !ok || idx < 0 || idx >= n {
				return nil, false
			}
			for _, rr := range *x.Referrers() {
				switch y := rr.(type) {
				case *ssa.FieldAddr:
					for _, r3 := range *y.Referrers() {
						if st, ok := r3.(*ssa.Store); ok && st.Addr == ssa.Value(y) {
							rows[idx][y.Field] = st.Val
						} else {
							return nil, false
						}
					}
				default:
					return nil, false
				}
			}
		default:
			return nil, false
		}
	}
	return rows, true
}

func zeroValueOf(t types.Type) ssa.Value { return zeroConst(t) }

// itemCtor finds the function that builds one report item: sizes.newItem,
// or (when that was inlined away) the function or closure of package sizes
// that allocates a sizes.item from its parameters and returns it.
func (c *Ctx) itemCtor() *ssa.Function {
	if v, ok := c.memo["itemctor"]; ok {
		f, _ := v.(*ssa.Function)
		return f
	}
	var found *ssa.Function
	defer func() { c.memo["itemctor"] = found }()
	if f := c.fn("/sizes", "", "newItem"); f != nil {
		found = f
		return f
	}
	it := c.namedType("/sizes", "item")
	if it == nil {
		return nil
	}
	for _, f := range c.ModFns {
		if pkgOf(f) != modPath+"/sizes" || f.Signature.Results().Len() != 1 || f.Signature.Params().Len() < 6 {
			continue
		}
		makes := false
		allInstrs(f, func(in ssa.Instruction) {
			if al, ok := in.(*ssa.Alloc); ok && types.Identical(al.Type().Underlying().(*types.Pointer).Elem(), it) {
				makes = true
			}
		})
		if makes && found == nil {
			found = f
		}
	}
	return found
}

// callsToFn lists the calls in f (and its closures) of fn, whether fn is a
// named function or a closure held in a local variable.
func (c *Ctx) callsToFn(f, fn *ssa.Function) []*ssa.Call {
	var out []*ssa.Call
	if fn == nil || f == nil {
		return nil
	}
	fns := append([]*ssa.Function{f}, f.AnonFuncs...)
	for _, g := range fns {
		if g == fn {
			continue
		}
		allInstrs(g, func(in ssa.Instruction) {
			call, ok := in.(*ssa.Call)
			if !ok {
				return
			}
			if call.Call.StaticCallee() == fn {
				out = append(out, call)
				return
			}
			if mc, ok := c.resolve(call.Call.Value).(*ssa.MakeClosure); ok && mc.Fn == ssa.Value(fn) {
				out = append(out, call)
			}
		})
	}
	return out
}

// itemRows lists the items built by f with newItem.
func (c *Ctx) itemRows(f, newItem *ssa.Function) []itemRow {
	var out []itemRow
	for _, call := range c.callsToFn(f, newItem) {
		args := call.Call.Args
		var table ssa.Value
		fields := make([]int, len(args))
		tabular := false
		mixed := false
		for i, a := range args {
			fields[i] = -1
			if mi, ok := a.(*ssa.MakeInterface); ok {
				a = mi.X
			}
			if t, k, ok := c.tableField(a); ok {
				if table != nil && t != table {
					mixed = true
				}
				table, fields[i], tabular = t, k, true
			}
		}
		if !tabular || mixed {
			out = append(out, itemRow{Call: call, Args: args, Pos: call.Pos(), Row: -1})
			continue
		}
		rows, ok := c.tableRows(table)
		if !ok {
			out = append(out, itemRow{Call: call, Args: args, Pos: call.Pos(), Row: -1})
			continue
		}
		for ri, row := range rows {
			ra := make([]ssa.Value, len(args))
			pos := call.Pos()
			for i, a := range args {
				if fields[i] < 0 {
					ra[i] = a
					continue
				}
				if v, ok := row[fields[i]]; ok {
					ra[i] = v
					if in, ok := v.(ssa.Instruction); ok && in.Pos().IsValid() {
						pos = in.Pos()
					}
				} else {
					t := a.Type()
					if mi, ok := a.(*ssa.MakeInterface); ok {
						t = mi.X.Type()
					}
					ra[i] = zeroValueOf(t)
				}
			}
			out = append(out, itemRow{Call: call, Args: ra, Pos: pos, Row: ri})
		}
	}
	return out
}

// itemValue: the value shown by an item argument of interface type
// (looks through the conversion to the interface).
func itemValue(v ssa.Value) ssa.Value {
	if mi, ok := v.(*ssa.MakeInterface); ok {
		return mi.X
	}
	return v
}
