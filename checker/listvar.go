package main

import (
	"go/token"
	"go/types"

	"golang.org/x/tools/go/ssa"
)

// Identity of a slice-typed local variable, whichever form go/ssa gave it:
//   - a cell (*ssa.Alloc) when the variable is captured or address-taken,
//   - a web of registers (phis and append results) when it is not,
//   - the caller's variable when it arrives through a parameter of a
//     function with a single static call site (call, go or defer).
// The identity is a comparable value: *ssa.Alloc or *sliceWeb.

type sliceWeb struct {
	Fn      *ssa.Function
	Members []ssa.Value
}

type webIndex struct {
	parent map[ssa.Value]ssa.Value
}

func (w *webIndex) find(v ssa.Value) ssa.Value {
	for {
		p, ok := w.parent[v]
		if !ok || p == v {
			return v
		}
		v = p
	}
}

func (w *webIndex) union(a, b ssa.Value) {
	ra, rb := w.find(a), w.find(b)
	if ra != rb {
		w.parent[ra] = rb
	}
}

func isSliceType(t types.Type) bool {
	_, ok := t.Underlying().(*types.Slice)
	return ok
}

func (c *Ctx) sliceWebs(f *ssa.Function) map[ssa.Value]*sliceWeb {
	key := "webs:" + fnName(f)
	if v, ok := c.memo[key]; ok {
		return v.(map[ssa.Value]*sliceWeb)
	}
	wi := &webIndex{parent: map[ssa.Value]ssa.Value{}}
	var vals []ssa.Value
	note := func(v ssa.Value) {
		if _, ok := wi.parent[v]; !ok {
			wi.parent[v] = v
			vals = append(vals, v)
		}
	}
	allInstrs(f, func(in ssa.Instruction) {
		switch x := in.(type) {
		case *ssa.Phi:
			if !isSliceType(x.Type()) {
				return
			}
			note(x)
			for _, e := range x.Edges {
				if _, isConst := e.(*ssa.Const); isConst {
					continue
				}
				note(e)
				wi.union(x, e)
			}
		case *ssa.Call:
			if isBuiltin(&x.Call, "append") && isSliceType(x.Type()) {
				note(x)
				if _, isConst := x.Call.Args[0].(*ssa.Const); !isConst {
					note(x.Call.Args[0])
					wi.union(x, x.Call.Args[0])
				}
			}
		}
	})
	out := map[ssa.Value]*sliceWeb{}
	byRoot := map[ssa.Value]*sliceWeb{}
	for _, v := range vals {
		r := wi.find(v)
		w := byRoot[r]
		if w == nil {
			w = &sliceWeb{Fn: f}
			byRoot[r] = w
		}
		w.Members = append(w.Members, v)
		out[v] = w
	}
	c.memo[key] = out
	return out
}

// listID returns the identity of the slice variable v is a value of (nil if
// it is not a variable: a fresh literal, a call result, ...).
func (c *Ctx) listID(v ssa.Value) interface{} {
	return c.listIDDepth(v, 0)
}

func (c *Ctx) listIDDepth(v ssa.Value, depth int) interface{} {
	if v == nil || depth > 6 {
		return nil
	}
	if ct, ok := v.(*ssa.ChangeType); ok {
		v = ct.X
	}
	switch x := v.(type) {
	case *ssa.UnOp:
		if x.Op != token.MUL {
			return nil
		}
		if cell := c.cellOf(x.X); cell != nil {
			// a cell holding a parameter only: the caller's variable
			if st := c.cellStores(cell); len(st) == 1 {
				if p, ok := st[0].Val.(*ssa.Parameter); ok {
					if id := c.listIDDepth(p, depth+1); id != nil {
						return id
					}
				}
			}
			return cell
		}
		return nil
	case *ssa.Parameter:
		idx := paramIndex(x)
		var first interface{}
		n := 0
		for _, ci := range c.Callers[x.Parent()] {
			args := ci.Common().Args
			if idx >= len(args) {
				return nil
			}
			id := c.listIDDepth(args[idx], depth+1)
			if id == nil || (n > 0 && id != first) {
				return nil
			}
			first = id
			n++
		}
		if n == 0 {
			return nil
		}
		return first
	}
	f := valueFn(v)
	if f == nil {
		return nil
	}
	w := c.sliceWebs(f)[v]
	if w == nil {
		return nil
	}
	// a web that contains a load of a cell or a parameter is that variable
	for _, m := range w.Members {
		switch m.(type) {
		case *ssa.UnOp, *ssa.Parameter:
			if id := c.listIDDepth(m, depth+1); id != nil {
				return id
			}
		}
	}
	return w
}

func valueFn(v ssa.Value) *ssa.Function {
	if in, ok := v.(ssa.Instruction); ok {
		return in.Parent()
	}
	return v.Parent()
}

// listDefs returns the instructions that assign the variable: stores into a
// cell, or the non-phi members of a register web.
func (c *Ctx) listDefs(id interface{}) []ssa.Instruction {
	var out []ssa.Instruction
	switch x := id.(type) {
	case *ssa.Alloc:
		for _, st := range c.cellStores(x) {
			out = append(out, st)
		}
	case *sliceWeb:
		for _, m := range x.Members {
			if _, isPhi := m.(*ssa.Phi); isPhi {
				continue
			}
			if in, ok := m.(ssa.Instruction); ok {
				out = append(out, in)
			}
		}
	}
	return out
}
