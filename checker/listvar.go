package main

import (
	"go/token"
	"go/types"

	"golang.org/x/tools/go/ssa"
)

// Identity of a slice-typed local variable, whichever form go/ssa gave it:
//   - a cell (*ssa.Alloc) when the variable is captured or address-taken,
//   - a web of registers (phis and append results) when it is not,
//   - the caller's variable when it arrives through a parameter of a
//     function with a single static call site (call, go or defer).
// The identity is a comparable value: *ssa.Alloc or *sliceWeb.

type sliceWeb struct {
	Fn      *ssa.Function
	Members []ssa.Value
}

type webIndex struct {
	parent map[ssa.Value]ssa.Value
}

func (w *webIndex) find(v ssa.Value) ssa.Value {
	for {
		p, ok := w.parent[v]
		if !ok || p == v {
			return v
		}
		v = p
	}
}

func (w *webIndex) union(a, b ssa.Value) {
	ra, rb := w.find(a), w.find(b)
	if ra != rb {
		w.parent[ra] = rb
	}
}

func isSliceType(t types.Type) bool {
	_, ok := t.Underlying().(*types.Slice)
	return ok
}

func (c *Ctx) sliceWebs(f *ssa.Function) map[ssa.Value]*sliceWeb {
	key := "webs:" + fnName(f)
	if v, ok := c.memo[key]; ok {
		return v.(map[ssa.Value]*sliceWeb)
	}
	wi := &webIndex{parent: map[ssa.Value]ssa.Value{}}
	var vals []ssa.Value
	note := func(v ssa.Value) {
		if _, ok := wi.parent[v]; !ok {
			wi.parent[v] = v
			vals = append(vals, v)
		}
	}
	allInstrs(f, func(in ssa.Instruction) {
		switch x := in.(type) {
		case *ssa.Phi:
			if !isSliceType(x.Type()) {
				return
			}
			note(x)
			for _, e := range x.Edges {
				if _, isConst := e.(*ssa.Const); isConst {
					continue
				}
				note(e)
				wi.union(x, e)
			}
		case *ssa.Call:
			if isBuiltin(&x.Call, "append") && isSliceType(x.Type()) {
				note(x)
				if _, isConst := x.Call.Args[0].(*ssa.Const); !isConst {
					note(x.Call.Args[0])
					wi.union(x, x.Call.Args[0])
				}
			}
		}
	})
	out := map[ssa.Value]*sliceWeb{}
	byRoot := map[ssa.Value]*sliceWeb{}
	for _, v := range vals {
		r := wi.find(v)
		w := byRoot[r]
		if w == nil {
			w = &sliceWeb{Fn: f}
			byRoot[r] = w
		}
		w.Members = append(w.Members, v)
		out[v] = w
	}
	c.memo[key] = out
	return out
}

// listID returns the identity of the slice variable v is a value of (nil if
// it is not a variable: a fresh literal, a call result, ...).
func (c *Ctx) listID(v ssa.Value) interface{} {
	return c.listIDDepth(v, 0)
}

func (c *Ctx) listIDDepth(v ssa.Value, depth int) interface{} {
	if v == nil || depth > 6 {
		return nil
	}
	if ct, ok := v.(*ssa.ChangeType); ok {
		v = ct.X
	}
	switch x := v.(type) {
	case *ssa.UnOp:
		if x.Op != token.MUL {
			return nil
		}
		// a field of a local struct (`pending.trees`)
		if fa, ok := x.X.(*ssa.FieldAddr); ok {
			if base, ok := fa.X.(*ssa.Alloc); ok && isSliceType(x.Type()) {
				return c.fieldCellRoot(fieldCell{base, fa.Field}, depth)
			}
			return nil
		}
		if cell := c.cellOf(x.X); cell != nil {
			// a cell that is a snapshot of another list variable, taken when
			// that variable is complete (`trees := pending.trees`)
			if st := c.cellStores(cell); len(st) == 1 {
				if ld, ok := st[0].Val.(*ssa.UnOp); ok && ld.Op == token.MUL {
					if id := c.listIDDepth(ld, depth+1); id != nil && c.completeAt(id, st[0]) {
						return id
					}
				}
			}
			// a cell holding a parameter only: the caller's variable
			if st := c.cellStores(cell); len(st) == 1 {
				if p, ok := st[0].Val.(*ssa.Parameter); ok {
					if id := c.listIDDepth(p, depth+1); id != nil {
						return id
					}
				}
			}
			return cell
		}
		return nil
	case *ssa.Parameter:
		idx := paramIndex(x)
		var first interface{}
		n := 0
		for _, ci := range c.Callers[x.Parent()] {
			args := ci.Common().Args
			if idx >= len(args) {
				return nil
			}
			id := c.listIDDepth(args[idx], depth+1)
			if id == nil || (n > 0 && id != first) {
				return nil
			}
			first = id
			n++
		}
		if n == 0 {
			return nil
		}
		return first
	}
	f := valueFn(v)
	if f == nil {
		return nil
	}
	w := c.sliceWebs(f)[v]
	if w == nil {
		return nil
	}
	// a web that contains a load of a cell or a parameter is that variable
	for _, m := range w.Members {
		switch m.(type) {
		case *ssa.UnOp, *ssa.Parameter:
			if id := c.listIDDepth(m, depth+1); id != nil {
				return id
			}
		}
	}
	return w
}

// fieldCell: a slice-typed field of a local struct variable.
type fieldCell struct {
	Alloc *ssa.Alloc
	Field int
}

// fieldCellRoot follows whole-struct copies: a local struct whose only
// (live) assignment is a copy of another local struct, made when the field
// in question is complete, stands for that struct.
func (c *Ctx) fieldCellRoot(fc fieldCell, depth int) interface{} {
	if depth > 6 {
		return fc
	}
	refs := fc.Alloc.Referrers()
	if refs == nil {
		return fc
	}
	var copies []*ssa.Store
	for _, r := range *refs {
		switch x := r.(type) {
		case *ssa.Store:
			if x.Addr != ssa.Value(fc.Alloc) {
				return fc // the struct's address escapes into memory
			}
			if _, isConst := x.Val.(*ssa.Const); isConst {
				continue // zeroing (`return T{}, err` spilled before an error exit)
			}
			copies = append(copies, x)
		case *ssa.FieldAddr:
			if x.Field == fc.Field {
				for _, rr := range *x.Referrers() {
					if st, ok := rr.(*ssa.Store); ok && st.Addr == ssa.Value(x) {
						return fc // the field is assigned directly: it is its own variable
					}
				}
			}
		}
	}
	if len(copies) != 1 {
		return fc
	}
	ld, ok := copies[0].Val.(*ssa.UnOp)
	if !ok || ld.Op != token.MUL {
		return fc
	}
	src, ok := ld.X.(*ssa.Alloc)
	if !ok || src == fc.Alloc {
		return fc
	}
	root := c.fieldCellRoot(fieldCell{src, fc.Field}, depth+1)
	if !c.completeAt(root, copies[0]) {
		return fc
	}
	return root
}

// completeAt: no assignment of the list variable id can execute after
// instruction at (so a copy taken there has the variable's final value).
func (c *Ctx) completeAt(id interface{}, at ssa.Instruction) bool {
	defs := c.listDefs(id)
	from := reachable(at.Block())
	for _, d := range defs {
		if d.Parent() != at.Parent() {
			return false
		}
		if d.Block() == at.Block() {
			if instrIndex(d) > instrIndex(at) {
				return false
			}
			// a block inside a cycle may run again
			for _, s := range at.Block().Succs {
				if reachable(s)[at.Block()] {
					return false
				}
			}
			continue
		}
		if from[d.Block()] {
			return false
		}
	}
	return len(defs) > 0
}

func valueFn(v ssa.Value) *ssa.Function {
	if in, ok := v.(ssa.Instruction); ok {
		return in.Parent()
	}
	return v.Parent()
}

// listDefs returns the instructions that assign the variable: stores into a
// cell, or the non-phi members of a register web.
func (c *Ctx) listDefs(id interface{}) []ssa.Instruction {
	var out []ssa.Instruction
	switch x := id.(type) {
	case fieldCell:
		if refs := x.Alloc.Referrers(); refs != nil {
			for _, r := range *refs {
				if fa, ok := r.(*ssa.FieldAddr); ok && fa.Field == x.Field {
					for _, rr := range *fa.Referrers() {
						if st, ok := rr.(*ssa.Store); ok && st.Addr == ssa.Value(fa) {
							out = append(out, st)
						}
					}
				}
			}
		}
	case *ssa.Alloc:
		for _, st := range c.cellStores(x) {
			out = append(out, st)
		}
	case *sliceWeb:
		for _, m := range x.Members {
			if _, isPhi := m.(*ssa.Phi); isPhi {
				continue
			}
			if in, ok := m.(ssa.Instruction); ok {
				out = append(out, in)
			}
		}
	}
	return out
}
