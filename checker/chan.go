package main

import (
	"go/token"
	"go/types"

	"golang.org/x/tools/go/ssa"
)

// chanOps collects every send / receive / close on a channel identified by
// the struct field or the local cell it lives in.
type chanOps struct {
	Sends  []ssa.Instruction
	Recvs  []ssa.Instruction
	Closes []ssa.Instruction
	Other  []ssa.Instruction // channel value escapes (passed, stored, returned)
}

// chanIdent names a channel value: "F:<field node>" or "cell:<alloc>" ...
func (c *Ctx) chanIdent(v ssa.Value) (fieldVar *types.Var, cell *ssa.Alloc) {
	v = c.resolve(v)
	// a channel handed to a helper as a parameter: identify it at the call sites
	if p, ok := v.(*ssa.Parameter); ok {
		idx := paramIndex(p)
		var f0 *types.Var
		var c0 *ssa.Alloc
		n := 0
		for _, ci := range c.Callers[p.Parent()] {
			if idx < len(ci.Common().Args) {
				f, cl := c.chanIdent(ci.Common().Args[idx])
				if n > 0 && (f != f0 || cl != c0) {
					return nil, nil
				}
				f0, c0 = f, cl
				n++
			}
		}
		return f0, c0
	}
	if fv, ok := v.(*ssa.UnOp); ok && fv.Op == token.MUL {
		if free, ok := fv.X.(*ssa.FreeVar); ok {
			// captured parameter cell
			if cell := c.cellOf(free); cell != nil {
				if st := c.cellStores(cell); len(st) == 1 {
					if _, isParam := st[0].Val.(*ssa.Parameter); isParam {
						return c.chanIdent(st[0].Val)
					}
				}
			}
		}
	}
	u, ok := v.(*ssa.UnOp)
	if !ok || u.Op != token.MUL {
		if mk, ok := v.(*ssa.MakeChan); ok {
			// direct use of a fresh channel: find the cell it is stored in
			for _, r := range *mk.Referrers() {
				if st, ok := r.(*ssa.Store); ok {
					if al := c.cellOf(st.Addr); al != nil {
						return nil, al
					}
					if fa, ok := st.Addr.(*ssa.FieldAddr); ok {
						return fieldOfAddr(fa).Var, nil
					}
				}
			}
		}
		return nil, nil
	}
	switch a := u.X.(type) {
	case *ssa.FieldAddr:
		return fieldOfAddr(a).Var, nil
	case *ssa.Alloc, *ssa.FreeVar:
		cell := c.cellOf(a)
		if cell != nil {
			// cell with a single store of a load of a field → that field
			st := c.cellStores(cell)
			if len(st) == 1 {
				if f, c2 := c.chanIdent(st[0].Val); f != nil || (c2 != nil && c2 != cell) {
					return f, c2
				}
			}
		}
		return nil, cell
	}
	return nil, nil
}

// chanOpsFor scans the rule scope for operations on the given channel.
func (c *Ctx) chanOpsFor(fieldVar *types.Var, cell *ssa.Alloc) *chanOps {
	ops := &chanOps{}
	same := func(v ssa.Value) bool {
		if _, ok := v.Type().Underlying().(*types.Chan); !ok {
			return false
		}
		f, cl := c.chanIdent(v)
		if fieldVar != nil {
			return f == fieldVar
		}
		return cell != nil && cl == cell
	}
	for _, fn := range c.ModFns {
		allInstrs(fn, func(in ssa.Instruction) {
			switch x := in.(type) {
			case *ssa.Send:
				if same(x.Chan) {
					ops.Sends = append(ops.Sends, x)
				}
			case *ssa.UnOp:
				if x.Op == token.ARROW && same(x.X) {
					ops.Recvs = append(ops.Recvs, x)
				}
			case *ssa.Select:
				for _, st := range x.States {
					if same(st.Chan) {
						if st.Dir == types.SendOnly {
							ops.Sends = append(ops.Sends, x)
						} else {
							ops.Recvs = append(ops.Recvs, x)
						}
					}
				}
			case *ssa.Call:
				if isBuiltin(&x.Call, "close") && same(x.Call.Args[0]) {
					ops.Closes = append(ops.Closes, x)
				} else if !isBuiltin(&x.Call, "close") && !isBuiltin(&x.Call, "len") && !isBuiltin(&x.Call, "cap") {
					for _, a := range x.Call.Args {
						if same(a) {
							ops.Other = append(ops.Other, x)
						}
					}
				}
			case *ssa.Defer:
				if isBuiltin(&x.Call, "close") && same(x.Call.Args[0]) {
					ops.Closes = append(ops.Closes, x)
				}
			case *ssa.Range:
				if same(x.X) {
					ops.Recvs = append(ops.Recvs, x)
				}
			}
		})
	}
	return ops
}
