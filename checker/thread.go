package main

import (
	"go/constant"
	"go/token"
	"go/types"
	"os"
	"strings"

	"golang.org/x/tools/go/ssa"
)

// Jump threading after helper expansion.
//
// Expanding `err := g.readTrees(...)` leaves
//
//	cont: r = phi [ret1: e1, ret2: e2, ret3: nil] ; if r != nil goto T else F
//
// where the branch taken is determined by the return site control came
// from. Path-insensitive rules would see the error path of the helper
// continue on the success branch. threadJumps redirects every predecessor
// whose branch outcome is decided (nil constant, freshly made error, or a
// dominating nil test on the same value) straight to the decided successor,
// repairing SSA form locally. It is applied only to functions rewritten by
// the helper expansion.

type tri int

const (
	triUnknown tri = iota
	triTrue
	triFalse
)

func (t tri) not() tri {
	switch t {
	case triTrue:
		return triFalse
	case triFalse:
		return triTrue
	}
	return triUnknown
}

// nilness of v at the end of block p: triTrue = nil, triFalse = non-nil.
func nilnessAt(v ssa.Value, p *ssa.BasicBlock) tri {
	if isNilConst(v) && isNilable(v.Type()) {
		return triTrue
	}
	switch x := v.(type) {
	case *ssa.MakeInterface, *ssa.Alloc, *ssa.MakeClosure, *ssa.MakeMap, *ssa.MakeChan, *ssa.MakeSlice, *ssa.FieldAddr, *ssa.IndexAddr:
		return triFalse
	case *ssa.Call:
		if callee := x.Call.StaticCallee(); callee != nil {
			switch callee.String() {
			case "fmt.Errorf", "errors.New":
				return triFalse
			}
		}
	}
	for _, f := range factsAt(p) {
		cond, truth := normCond(f.Cond, f.Truth)
		if m, isNil := errNilFact(cond, truth, v); m {
			if isNil {
				return triTrue
			}
			return triFalse
		}
	}
	return triUnknown
}

// evalIn evaluates boolean v of block x as seen when entering x from
// predecessor number i.
func evalIn(v ssa.Value, x *ssa.BasicBlock, i int) tri {
	subst := func(w ssa.Value) ssa.Value {
		if phi, ok := w.(*ssa.Phi); ok && phi.Block() == x {
			return phi.Edges[i]
		}
		return w
	}
	v = subst(v)
	switch e := v.(type) {
	case *ssa.Const:
		if b, ok := e.Type().Underlying().(*types.Basic); ok && b.Info()&types.IsBoolean != 0 && e.Value != nil {
			if e.Value.String() == "true" {
				return triTrue
			}
			return triFalse
		}
	case *ssa.UnOp:
		if e.Op == token.NOT && (e.Block() == x || true) {
			return evalIn(e.X, x, i).not()
		}
	case *ssa.BinOp:
		if e.Op != token.EQL && e.Op != token.NEQ {
			return triUnknown
		}
		a, b := subst(e.X), subst(e.Y)
		var r tri
		switch {
		case isNilConst(b) && isNilable(b.Type()):
			r = nilnessAt(a, x.Preds[i])
		case isNilConst(a) && isNilable(a.Type()):
			r = nilnessAt(b, x.Preds[i])
		default:
			ta, tb := evalIn(a, x, i), evalIn(b, x, i)
			if isBoolType(a.Type()) && ta != triUnknown && tb != triUnknown {
				if ta == tb {
					r = triTrue
				} else {
					r = triFalse
				}
			}
		}
		if r == triUnknown {
			return r
		}
		if e.Op == token.NEQ {
			return r.not()
		}
		return r
	}
	// a boolean value already tested on the way into x through this
	// predecessor
	if isBoolType(v.Type()) {
		p := x.Preds[i]
		for _, f := range append(factsAt(p), factsOnEdge(p, x)...) {
			fv, ft := normCond(f.Cond, f.Truth)
			if fv == v {
				if ft {
					return triTrue
				}
				return triFalse
			}
		}
	}
	return triUnknown
}

func domSubtree(root *ssa.BasicBlock) map[*ssa.BasicBlock]bool {
	out := map[*ssa.BasicBlock]bool{}
	var walk func(b *ssa.BasicBlock)
	walk = func(b *ssa.BasicBlock) {
		out[b] = true
		for _, ch := range b.Dominees() {
			walk(ch)
		}
	}
	walk(root)
	return out
}

func predIndex(b, p *ssa.BasicBlock) (int, int) {
	idx, n := -1, 0
	for i, q := range b.Preds {
		if q == p {
			if idx < 0 {
				idx = i
			}
			n++
		}
	}
	return idx, n
}

// threadBlock tries to bypass x for the predecessors that decide its branch.
func threadBlock(f *ssa.Function, x *ssa.BasicBlock) bool {
	if x == f.Blocks[0] || x == f.Recover || len(x.Instrs) == 0 || len(x.Preds) == 0 {
		return false
	}
	iff, ok := x.Instrs[len(x.Instrs)-1].(*ssa.If)
	if !ok || x.Succs[0] == x.Succs[1] || x.Succs[0] == x || x.Succs[1] == x {
		return false
	}
	var phis []*ssa.Phi
	var body []ssa.Instruction // the non-phi instructions before the If: duplicated per threaded predecessor
	for _, in := range x.Instrs[:len(x.Instrs)-1] {
		switch v := in.(type) {
		case *ssa.Phi:
			phis = append(phis, v)
		case *ssa.BinOp, *ssa.UnOp, *ssa.Store, *ssa.FieldAddr, *ssa.Field, *ssa.IndexAddr, *ssa.Index,
			*ssa.ChangeType, *ssa.Convert, *ssa.ChangeInterface, *ssa.MakeInterface, *ssa.Extract, *ssa.Slice:
			if u, ok := in.(*ssa.UnOp); ok && u.Op == token.ARROW {
				return false
			}
			body = append(body, in)
		default:
			return false
		}
	}
	if len(body) > 16 {
		return false
	}
	for _, p := range x.Preds {
		if _, n := predIndex(x, p); n != 1 || p == x {
			return false
		}
	}
	if os.Getenv("SIZERCHECK_NOLOOPTHREAD") != "" {
		for _, p := range x.Preds {
			if x.Dominates(p) {
				return false // a loop header
			}
		}
	}
	dec := make([]tri, len(x.Preds))
	any := false
	for i := range x.Preds {
		dec[i] = evalIn(iff.Cond, x, i)
		if dec[i] != triUnknown {
			any = true
		}
	}
	if !any {
		return false
	}
	succ := func(d tri) *ssa.BasicBlock {
		if d == triTrue {
			return x.Succs[0]
		}
		return x.Succs[1]
	}
	// ---- rewire the decided predecessors ----
	// xvals: values defined in x that may be used elsewhere
	var xvals []ssa.Value
	for _, phi := range phis {
		xvals = append(xvals, phi)
	}
	for _, in := range body {
		if v, ok := in.(ssa.Value); ok {
			xvals = append(xvals, v)
		}
	}
	endDefs := map[ssa.Value]map[*ssa.BasicBlock]ssa.Value{}
	for _, v := range xvals {
		endDefs[v] = map[*ssa.BasicBlock]ssa.Value{}
	}
	var added []*ssa.BasicBlock
	for i, d := range dec {
		if d == triUnknown {
			continue
		}
		s := succ(d)
		p := x.Preds[i]
		// the copy of x's body for this predecessor
		cp := newBlock(f, "inl.thread")
		m := map[ssa.Value]ssa.Value{}
		for _, phi := range phis {
			m[phi] = phi.Edges[i]
		}
		var rands []*ssa.Value
		for _, in := range body {
			ni := cloneInstr(in)
			setBlock(ni, cp)
			rands = ni.Operands(rands[:0])
			for _, op := range rands {
				if *op == nil {
					continue
				}
				if nv, ok := m[*op]; ok {
					*op = nv
				}
			}
			if ov, ok := in.(ssa.Value); ok {
				m[ov] = ni.(ssa.Value)
			}
			cp.Instrs = append(cp.Instrs, ni)
		}
		j := &ssa.Jump{}
		setBlock(j, cp)
		cp.Instrs = append(cp.Instrs, j)
		cp.Succs = []*ssa.BasicBlock{s}
		cp.Preds = []*ssa.BasicBlock{p}
		xi, _ := predIndex(s, x)
		for _, in := range s.Instrs {
			sp, ok := in.(*ssa.Phi)
			if !ok {
				break
			}
			w := sp.Edges[xi]
			if nv, ok := m[w]; ok {
				w = nv
			}
			sp.Edges = append(sp.Edges, w)
		}
		for k, ps := range p.Succs {
			if ps == x {
				p.Succs[k] = cp
			}
		}
		s.Preds = append(s.Preds, cp)
		for _, v := range xvals {
			endDefs[v][cp] = m[v]
		}
		added = append(added, cp)
	}
	{
		var nbs []*ssa.BasicBlock
		for _, b := range f.Blocks {
			if b == x {
				nbs = append(nbs, added...)
			}
			nbs = append(nbs, b)
		}
		f.Blocks = nbs
	}
	var keepPreds []*ssa.BasicBlock
	for i, p := range x.Preds {
		if dec[i] == triUnknown {
			keepPreds = append(keepPreds, p)
		}
	}
	for _, phi := range phis {
		var ke []ssa.Value
		for i, e := range phi.Edges {
			if dec[i] == triUnknown {
				ke = append(ke, e)
			}
		}
		phi.Edges = ke
	}
	x.Preds = keepPreds
	removeUnreachable(f)
	finishFunc(f)
	xAlive := false
	for _, b := range f.Blocks {
		if b == x {
			xAlive = true
		}
	}
	// ---- repair SSA form for the x-phis used outside x ----
	type use struct {
		in   ssa.Instruction
		op   *ssa.Value
		pred *ssa.BasicBlock // for phi uses: the predecessor the edge belongs to
	}
	uses := map[ssa.Value][]use{}
	isXPhi := map[ssa.Value]ssa.Value{}
	for _, v := range xvals {
		isXPhi[v] = v
	}
	var rands []*ssa.Value
	for _, b := range f.Blocks {
		for _, in := range b.Instrs {
			if rp, ok := in.(*ssa.Phi); ok {
				// (also the phis of x itself: a value of x carried around a loop
				// is a use at the end of the back-edge predecessor, which x no
				// longer dominates once the entry edge bypasses it)
				for k := range rp.Edges {
					if phi := isXPhi[rp.Edges[k]]; phi != nil {
						uses[phi] = append(uses[phi], use{in, &rp.Edges[k], b.Preds[k]})
					}
				}
				continue
			}
			if b == x {
				continue
			}
			rands = in.Operands(rands[:0])
			for _, op := range rands {
				if *op == nil {
					continue
				}
				if phi := isXPhi[*op]; phi != nil {
					uses[phi] = append(uses[phi], use{in, op, nil})
				}
			}
		}
	}
	df := domFrontiers(f)
	for _, phi := range xvals {
		if len(uses[phi]) == 0 {
			continue
		}
		up := &ssaUpdater{f: f, typ: phi.Type(), pos: phi.Pos(), comment: "inl.result", end: endDefs[phi], start: map[*ssa.BasicBlock]ssa.Value{}, memoS: map[*ssa.BasicBlock]ssa.Value{}}
		defBlocks := []*ssa.BasicBlock{}
		if xAlive {
			up.start[x] = phi
			defBlocks = append(defBlocks, x)
		}
		for b := range up.end {
			defBlocks = append(defBlocks, b)
		}
		up.idf = iteratedDF(df, defBlocks)
		for _, u := range uses[phi] {
			if u.pred != nil {
				*u.op = up.atEnd(u.pred)
				continue
			}
			*u.op = up.atStart(u.in.Block())
		}
		up.commit()
	}
	finishFunc(f)
	removeTrivialPhis(f)
	return true
}

// ssaUpdater finds the reaching definition of one variable with several
// definitions, creating phis on the iterated dominance frontier on demand.
type ssaUpdater struct {
	f       *ssa.Function
	typ     types.Type
	pos     token.Pos
	comment string
	end     map[*ssa.BasicBlock]ssa.Value // defined at the end of the block
	start   map[*ssa.BasicBlock]ssa.Value // defined at the start of the block
	idf     map[*ssa.BasicBlock]bool
	memoS   map[*ssa.BasicBlock]ssa.Value
	made    []*ssa.Phi
}

func (u *ssaUpdater) atEnd(b *ssa.BasicBlock) ssa.Value {
	if v, ok := u.end[b]; ok {
		return v
	}
	return u.atStart(b)
}

func (u *ssaUpdater) atStart(b *ssa.BasicBlock) ssa.Value {
	if v, ok := u.start[b]; ok {
		return v
	}
	if v, ok := u.memoS[b]; ok {
		return v
	}
	if u.idf[b] && len(b.Preds) > 1 {
		np := &ssa.Phi{Comment: u.comment}
		setBlock(np, b)
		setUnexported(np, "typ", u.typ)
		setUnexported(np, "pos", u.pos)
		u.memoS[b] = np
		u.made = append(u.made, np)
		for _, p := range b.Preds {
			np.Edges = append(np.Edges, u.atEnd(p))
		}
		return np
	}
	var v ssa.Value
	if d := b.Idom(); d != nil {
		v = u.atEnd(d)
	} else {
		v = zeroConst(u.typ) // not defined on this path: no use is reachable from here
	}
	u.memoS[b] = v
	return v
}

func (u *ssaUpdater) commit() {
	for _, np := range u.made {
		b := np.Block()
		b.Instrs = append([]ssa.Instruction{np}, b.Instrs...)
	}
}

func zeroConst(t types.Type) ssa.Value {
	if isNilable(t) {
		return ssa.NewConst(nil, t)
	}
	switch u := t.Underlying().(type) {
	case *types.Basic:
		switch {
		case u.Info()&types.IsBoolean != 0:
			return ssa.NewConst(constant.MakeBool(false), t)
		case u.Info()&types.IsString != 0:
			return ssa.NewConst(constant.MakeString(""), t)
		case u.Info()&types.IsNumeric != 0:
			return ssa.NewConst(constant.MakeInt64(0), t)
		}
	}
	return ssa.NewConst(nil, t)
}

func domFrontiers(f *ssa.Function) map[*ssa.BasicBlock][]*ssa.BasicBlock {
	df := map[*ssa.BasicBlock][]*ssa.BasicBlock{}
	for _, b := range f.Blocks {
		if len(b.Preds) < 2 {
			continue
		}
		for _, p := range b.Preds {
			for r := p; r != nil && r != b.Idom(); r = r.Idom() {
				dup := false
				for _, e := range df[r] {
					if e == b {
						dup = true
					}
				}
				if !dup {
					df[r] = append(df[r], b)
				}
			}
		}
	}
	return df
}

func iteratedDF(df map[*ssa.BasicBlock][]*ssa.BasicBlock, defs []*ssa.BasicBlock) map[*ssa.BasicBlock]bool {
	out := map[*ssa.BasicBlock]bool{}
	work := append([]*ssa.BasicBlock(nil), defs...)
	for len(work) > 0 {
		b := work[len(work)-1]
		work = work[:len(work)-1]
		for _, d := range df[b] {
			if !out[d] {
				out[d] = true
				work = append(work, d)
			}
		}
	}
	return out
}

// removeTrivialPhis deletes unused expansion-made phis and replaces phis
// whose operands are all the same value.
func removeTrivialPhis(f *ssa.Function) {
	for changed := true; changed; {
		changed = false
		for _, b := range f.Blocks {
			var out []ssa.Instruction
			for _, in := range b.Instrs {
				phi, ok := in.(*ssa.Phi)
				if !ok || phi.Comment != "inl.result" {
					out = append(out, in)
					continue
				}
				var same ssa.Value
				trivial := true
				for _, e := range phi.Edges {
					if e == ssa.Value(phi) {
						continue
					}
					if same == nil {
						same = e
					} else if e != same {
						trivial = false
					}
				}
				if len(*phi.Referrers()) == 0 {
					changed = true
					continue
				}
				if trivial && same != nil {
					replaceUses(f, phi, same)
					changed = true
					continue
				}
				out = append(out, in)
			}
			b.Instrs = out
		}
		if changed {
			finishFunc(f)
		}
	}
}

// removeUnreachable deletes blocks not reachable from the entry or the
// recover block, together with their edges and the phi operands they feed.
func removeUnreachable(f *ssa.Function) {
	live := reachable(f.Blocks[0])
	if f.Recover != nil {
		for b := range reachable(f.Recover) {
			live[b] = true
		}
	}
	for _, b := range f.Blocks {
		if live[b] {
			continue
		}
		for _, s := range b.Succs {
			if !live[s] {
				continue
			}
			for {
				i, n := predIndex(s, b)
				if n == 0 {
					break
				}
				s.Preds = append(s.Preds[:i:i], s.Preds[i+1:]...)
				for _, in := range s.Instrs {
					sp, ok := in.(*ssa.Phi)
					if !ok {
						break
					}
					sp.Edges = append(sp.Edges[:i:i], sp.Edges[i+1:]...)
				}
			}
		}
	}
	var keep []*ssa.BasicBlock
	for _, b := range f.Blocks {
		if live[b] {
			keep = append(keep, b)
		}
	}
	f.Blocks = keep
	// a phi left with one edge whose operand is itself unreachable cannot occur:
	// operands of live instructions are defined in dominating (live) blocks.
}

func replaceUses(f *ssa.Function, old, nw ssa.Value) {
	var rands []*ssa.Value
	for _, b := range f.Blocks {
		for _, in := range b.Instrs {
			rands = in.Operands(rands[:0])
			for _, op := range rands {
				if *op == old {
					*op = nw
				}
			}
		}
	}
}

// dropSingleEdgePhis replaces phis of single-predecessor blocks by their operand.
func dropSingleEdgePhis(f *ssa.Function) bool {
	changed := false
	for _, b := range f.Blocks {
		if len(b.Preds) != 1 {
			continue
		}
		n := 0
		for _, in := range b.Instrs {
			phi, ok := in.(*ssa.Phi)
			if !ok {
				break
			}
			n++
			if len(phi.Edges) == 1 && phi.Edges[0] != ssa.Value(phi) {
				replaceUses(f, phi, phi.Edges[0])
			}
		}
		if n > 0 {
			b.Instrs = b.Instrs[n:]
			changed = true
		}
	}
	return changed
}

// dupResultReturns gives every predecessor of a block that consists only of
// expansion-made result phis and a Return its own copy of that return: the
// shape the code had before the helper was extracted.
func dupResultReturns(f *ssa.Function) bool {
	for _, x := range f.Blocks {
		if x == f.Blocks[0] || x == f.Recover || len(x.Preds) < 2 || len(x.Instrs) < 1 {
			continue
		}
		ret, ok := x.Instrs[len(x.Instrs)-1].(*ssa.Return)
		if !ok {
			continue
		}
		okShape := true
		nphi := 0
		var phis []*ssa.Phi
		var body []ssa.Instruction
		for _, in := range x.Instrs[:len(x.Instrs)-1] {
			switch v := in.(type) {
			case *ssa.Phi:
				if v.Comment != "inl.result" {
					okShape = false
				}
				nphi++
				phis = append(phis, v)
			case *ssa.Store, *ssa.UnOp, *ssa.RunDefers, *ssa.BinOp, *ssa.FieldAddr, *ssa.Field, *ssa.ChangeType, *ssa.Convert, *ssa.MakeInterface, *ssa.ChangeInterface:
				if u, ok := in.(*ssa.UnOp); ok && u.Op == token.ARROW {
					okShape = false
				}
				body = append(body, in)
			default:
				okShape = false
			}
			if v, ok := in.(ssa.Value); ok {
				for _, r := range *v.Referrers() {
					if r.Block() != x {
						okShape = false
					}
				}
			}
		}
		// a bare `return v…` shared by several branches (`if a || b { return x }`)
		// is duplicated as well: each copy then has the facts of its own branch
		bare := nphi == 0 && len(body) == 0
		if !okShape || (nphi == 0 && !bare) || len(body) > 8 {
			continue
		}
		var added []*ssa.BasicBlock
		for i, p := range x.Preds {
			nb := newBlock(f, x.Comment)
			m := map[ssa.Value]ssa.Value{}
			for _, phi := range phis {
				m[phi] = phi.Edges[i]
			}
			var rands []*ssa.Value
			for _, in := range append(append([]ssa.Instruction(nil), body...), ret) {
				ni := cloneInstr(in)
				setBlock(ni, nb)
				rands = ni.Operands(rands[:0])
				for _, op := range rands {
					if *op == nil {
						continue
					}
					if nv, ok := m[*op]; ok {
						*op = nv
					}
				}
				if ov, ok := in.(ssa.Value); ok {
					m[ov] = ni.(ssa.Value)
				}
				nb.Instrs = append(nb.Instrs, ni)
			}
			nb.Preds = []*ssa.BasicBlock{p}
			for k, s := range p.Succs {
				if s == x {
					p.Succs[k] = nb
					break
				}
			}
			added = append(added, nb)
		}
		x.Preds = nil
		var nbs []*ssa.BasicBlock
		for _, b := range f.Blocks {
			if b == x {
				nbs = append(nbs, added...)
				continue
			}
			nbs = append(nbs, b)
		}
		f.Blocks = nbs
		finishFunc(f)
		return true
	}
	return false
}

// fuseBlocks merges a block into its unique predecessor when that
// predecessor has no other successor (what go/ssa's own builder does).
func fuseBlocks(f *ssa.Function) bool {
	for _, a := range f.Blocks {
		if len(a.Succs) != 1 || len(a.Instrs) == 0 {
			continue
		}
		b := a.Succs[0]
		if b == a || b == f.Blocks[0] || b == f.Recover || len(b.Preds) != 1 {
			continue
		}
		if _, ok := a.Instrs[len(a.Instrs)-1].(*ssa.Jump); !ok {
			continue
		}
		if _, isPhi := b.Instrs[0].(*ssa.Phi); isPhi {
			dropSingleEdgePhis(f)
			if _, still := b.Instrs[0].(*ssa.Phi); still {
				continue
			}
		}
		a.Instrs = a.Instrs[:len(a.Instrs)-1]
		for _, in := range b.Instrs {
			setBlock(in, a)
			a.Instrs = append(a.Instrs, in)
		}
		a.Succs = b.Succs
		for _, s := range a.Succs {
			for k, p := range s.Preds {
				if p == b {
					s.Preds[k] = a
				}
			}
		}
		if a.Comment == "" || len(a.Comment) > 3 && a.Comment[:4] == "inl." {
			a.Comment = b.Comment
		}
		var nbs []*ssa.BasicBlock
		for _, x := range f.Blocks {
			if x != b {
				nbs = append(nbs, x)
			}
		}
		f.Blocks = nbs
		finishFunc(f)
		return true
	}
	return false
}

// mergeForwarder removes one block that consists of phis and a jump only and
// whose phis feed nothing but phis of its successor (the join left behind by
// an expanded helper whose results are tested right away): its predecessors
// become predecessors of the successor.
func mergeForwarder(f *ssa.Function) bool {
	for _, b := range f.Blocks {
		if b == f.Blocks[0] || b == f.Recover || len(b.Succs) != 1 || len(b.Preds) < 2 || !strings.HasPrefix(b.Comment, "inl.cont") {
			continue
		}
		s := b.Succs[0]
		if s == b || len(s.Preds) < 2 {
			continue
		}
		if _, isJump := b.Instrs[len(b.Instrs)-1].(*ssa.Jump); !isJump {
			continue
		}
		ok := true
		var phis []*ssa.Phi
		for _, in := range b.Instrs[:len(b.Instrs)-1] {
			phi, isPhi := in.(*ssa.Phi)
			if !isPhi {
				ok = false
				break
			}
			phis = append(phis, phi)
			for _, r := range *phi.Referrers() {
				if rp, isRP := r.(*ssa.Phi); !isRP || rp.Block() != s {
					ok = false
				}
			}
		}
		if !ok || len(phis) == 0 {
			continue
		}
		// no predecessor of b may already be a predecessor of s, and b occurs once in s.Preds
		if _, n := predIndex(s, b); n != 1 {
			continue
		}
		dup := false
		for _, p := range b.Preds {
			if _, n := predIndex(s, p); n != 0 {
				dup = true
			}
			if _, n := predIndex(b, p); n != 1 {
				dup = true
			}
		}
		if dup {
			continue
		}
		bi, _ := predIndex(s, b)
		inB := map[ssa.Value]*ssa.Phi{}
		for _, phi := range phis {
			inB[phi] = phi
		}
		for _, in := range s.Instrs {
			sp, isPhi := in.(*ssa.Phi)
			if !isPhi {
				break
			}
			old := sp.Edges[bi]
			var add []ssa.Value
			for k := range b.Preds {
				if bp := inB[old]; bp != nil {
					add = append(add, bp.Edges[k])
				} else {
					add = append(add, old)
				}
			}
			ne := append([]ssa.Value{}, sp.Edges[:bi]...)
			ne = append(ne, add...)
			ne = append(ne, sp.Edges[bi+1:]...)
			sp.Edges = ne
		}
		np := append([]*ssa.BasicBlock{}, s.Preds[:bi]...)
		np = append(np, b.Preds...)
		np = append(np, s.Preds[bi+1:]...)
		s.Preds = np
		for _, p := range b.Preds {
			for k, ps := range p.Succs {
				if ps == b {
					p.Succs[k] = s
				}
			}
		}
		var nbs []*ssa.BasicBlock
		for _, x := range f.Blocks {
			if x != b {
				nbs = append(nbs, x)
			}
		}
		f.Blocks = nbs
		finishFunc(f)
		return true
	}
	return false
}

// simplifyCFG brings a function rewritten by the helper expansion back to
// the shape the builder would have produced for the unextracted code.
func simplifyCFG(f *ssa.Function) {
	for iter := 0; iter < 400; iter++ {
		progress := false
		for _, x := range f.Blocks {
			if threadBlock(f, x) {
				progress = true
				break
			}
		}
		if !progress && dupResultReturns(f) {
			progress = true
		}
		if !progress && fuseBlocks(f) {
			progress = true
		}
		if !progress && mergeForwarder(f) {
			progress = true
		}
		if !progress && dropSingleEdgePhis(f) {
			finishFunc(f)
			progress = true
		}
		if !progress && forwardLocalStores(f) {
			finishFunc(f)
			progress = true
		}
		if !progress && mergeCopiedLocals(f) {
			finishFunc(f)
			progress = true
		}
		if !progress && dropDeadPure(f) {
			finishFunc(f)
			progress = true
		}
		if !progress {
			return
		}
	}
}

func isNilable(t types.Type) bool {
	switch t.Underlying().(type) {
	case *types.Pointer, *types.Interface, *types.Slice, *types.Map, *types.Chan, *types.Signature:
		return true
	}
	return false
}

// dropDeadPure removes unused comparisons left behind by threading.
func dropDeadPure(f *ssa.Function) bool {
	changed := false
	for _, b := range f.Blocks {
		var out []ssa.Instruction
		for _, in := range b.Instrs {
			if bo, ok := in.(*ssa.BinOp); ok && len(*bo.Referrers()) == 0 && (bo.Op == token.EQL || bo.Op == token.NEQ) {
				if isNilConst(bo.X) && isNilConst(bo.Y) || b.Comment == "inl.thread" {
					changed = true
					continue
				}
			}
			out = append(out, in)
		}
		b.Instrs = out
	}
	return changed
}

// forwardLocalStores replaces a load of a non-escaping local by the value
// stored to it earlier in the same block (results spilled because the
// expanded helper had a defer), and drops locals that are never loaded.
func forwardLocalStores(f *ssa.Function) bool {
	changed := false
	for _, b0 := range f.Blocks {
		for _, in0 := range b0.Instrs {
			a, ok := in0.(*ssa.Alloc)
			if !ok {
				continue
			}
			private := true
			loads := 0
			for _, r := range *a.Referrers() {
				switch x := r.(type) {
				case *ssa.Store:
					if x.Addr != ssa.Value(a) || x.Val == ssa.Value(a) {
						private = false
					}
				case *ssa.UnOp:
					if x.Op != token.MUL {
						private = false
					}
					loads++
				default:
					private = false
				}
			}
			if !private {
				continue
			}
			for _, b := range f.Blocks {
				var cur ssa.Value
				var out []ssa.Instruction
				for _, in := range b.Instrs {
					switch x := in.(type) {
					case *ssa.Store:
						if x.Addr == ssa.Value(a) {
							cur = x.Val
						}
					case *ssa.UnOp:
						if x.Op == token.MUL && x.X == ssa.Value(a) && cur != nil {
							replaceUses(f, x, cur)
							changed = true
							loads--
							continue
						}
					}
					out = append(out, in)
				}
				b.Instrs = out
			}
			if changed {
				return true
			}
		}
	}
	return changed
}

// mergeCopiedLocals: a local aggregate A whose every assignment is a whole
// copy `*A = *B` of one other local B, itself assigned once (a result
// handed from an expanded helper's variable to the caller's), is replaced
// by B: after the copy the two hold the same value and neither changes.
func mergeCopiedLocals(f *ssa.Function) bool {
	for _, b0 := range f.Blocks {
		for _, in0 := range b0.Instrs {
			a, ok := in0.(*ssa.Alloc)
			if !ok || a.Referrers() == nil {
				continue
			}
			if _, isStruct := a.Type().Underlying().(*types.Pointer).Elem().Underlying().(*types.Struct); !isStruct {
				continue
			}
			var copies []*ssa.Store
			var uses []ssa.Instruction
			var src *ssa.Alloc
			okA := true
			fieldStored := func(x *ssa.Alloc) bool {
				// a store into (a field of) the aggregate other than a whole assignment
				var walk func(v ssa.Value, depth int) bool
				walk = func(v ssa.Value, depth int) bool {
					refs := v.Referrers()
					if refs == nil || depth > 3 {
						return false
					}
					for _, r := range *refs {
						switch y := r.(type) {
						case *ssa.FieldAddr:
							if walk(y, depth+1) {
								return true
							}
						case *ssa.Store:
							if y.Addr == v && depth > 0 {
								return true
							}
							if y.Val == v {
								return true // address escapes
							}
						case *ssa.UnOp, *ssa.DebugRef:
						default:
							if depth > 0 || r != nil {
								if _, isLoad := r.(*ssa.UnOp); !isLoad {
									return true // passed to a call, captured, …
								}
							}
						}
					}
					return false
				}
				return walk(x, 0)
			}
			for _, r := range *a.Referrers() {
				switch x := r.(type) {
				case *ssa.Store:
					if x.Addr != ssa.Value(a) {
						okA = false
						break
					}
					ld, isLoad := x.Val.(*ssa.UnOp)
					if !isLoad || ld.Op != token.MUL {
						okA = false
						break
					}
					s, isAlloc := ld.X.(*ssa.Alloc)
					if !isAlloc || s == a || (src != nil && s != src) {
						okA = false
						break
					}
					src = s
					copies = append(copies, x)
				case *ssa.DebugRef:
				default:
					uses = append(uses, r)
				}
			}
			if !okA || src == nil || len(copies) == 0 || fieldStored(a) || fieldStored(src) {
				continue
			}
			// the source is assigned exactly once, before every copy
			var srcStore *ssa.Store
			n := 0
			for _, r := range *src.Referrers() {
				if st, isSt := r.(*ssa.Store); isSt && st.Addr == ssa.Value(src) {
					srcStore = st
					n++
				}
			}
			if n != 1 {
				continue
			}
			good := true
			for _, cp := range copies {
				if !instrDominates(srcStore, cp) {
					good = false
				}
			}
			// every use of A comes after a copy, and no path leads from the
			// source's assignment to a use of A without passing a copy
			copyBlock := map[*ssa.BasicBlock]bool{}
			for _, cp := range copies {
				copyBlock[cp.Block()] = true
			}
			for _, u := range uses {
				dom := false
				for _, cp := range copies {
					if instrDominates(cp, u) {
						dom = true
					}
				}
				if !dom {
					good = false
				}
			}
			if good {
				seen := map[*ssa.BasicBlock]bool{}
				st := append([]*ssa.BasicBlock{}, srcStore.Block().Succs...)
				if copyBlock[srcStore.Block()] {
					st = nil
				}
				for len(st) > 0 && good {
					x := st[len(st)-1]
					st = st[:len(st)-1]
					if seen[x] || copyBlock[x] {
						continue
					}
					seen[x] = true
					for _, u := range uses {
						if u.Block() == x {
							good = false
						}
					}
					st = append(st, x.Succs...)
				}
			}
			if !good {
				continue
			}
			// replace A by the source and drop the copies
			replaceUses(f, a, src)
			drop := map[ssa.Instruction]bool{ssa.Instruction(a): true}
			for _, cp := range copies {
				drop[cp] = true
			}
			for _, b := range f.Blocks {
				var out []ssa.Instruction
				for _, in := range b.Instrs {
					if !drop[in] {
						out = append(out, in)
					}
				}
				b.Instrs = out
			}
			return true
		}
	}
	return false
}

// threadOnly applies jump threading (and the clean-up it needs) to a
// function that was not otherwise rewritten.
func threadOnly(f *ssa.Function) {
	if skipNormalize[rootFn(f).String()] {
		return
	}
	if inj := os.Getenv("SIZERCHECK_FAILNORM"); inj != "" && strings.Contains(f.String(), inj) {
		panic(normFailure{rootFn(f).String(), "injected failure (self-test of the fallback)"})
	}
	canonCompare(f)
	did := rotateCallLoops(f)
	if foldDecided(f, decidedCond) {
		did = true
	}
	for dupResultReturns(f) {
		did = true
	}
	for round := 0; round < 4; round++ {
		for iter := 0; iter < 100; iter++ {
			progress := false
			for _, x := range f.Blocks {
				if threadBlock(f, x) {
					progress, did = true, true
					break
				}
			}
			if !progress {
				break
			}
		}
		// threading leaves blocks with a single way in, whose tests may now
		// be decided by the test on that way
		if !foldDecided(f, decidedCond) {
			break
		}
		did = true
	}
	if did {
		simplifyCFG(f)
		if errs := sanity(f); len(errs) > 0 {
			panic(normFailure{rootFn(f).String(), "jump threading produced malformed SSA: " + errs[0]})
		}
	}
}

// canonCompare writes every comparison that has its constant on the left
// (`0 == n`, `nil != err`, `0 < x`) with the constant on the right.
func canonCompare(f *ssa.Function) {
	changed := false
	for _, b := range f.Blocks {
		for _, in := range b.Instrs {
			bo, ok := in.(*ssa.BinOp)
			if !ok {
				continue
			}
			if _, lc := bo.X.(*ssa.Const); !lc {
				continue
			}
			if _, rc := bo.Y.(*ssa.Const); rc {
				continue
			}
			switch bo.Op {
			case token.EQL, token.NEQ:
			case token.LSS:
				bo.Op = token.GTR
			case token.GTR:
				bo.Op = token.LSS
			case token.LEQ:
				bo.Op = token.GEQ
			case token.GEQ:
				bo.Op = token.LEQ
			case token.ADD, token.MUL, token.AND, token.OR, token.XOR:
				// commutative on integers (`1 + n`): constant to the right
				// (string concatenation is not commutative)
				if bt, isB := bo.Type().Underlying().(*types.Basic); !isB || bt.Info()&types.IsInteger == 0 {
					continue
				}
			default:
				continue
			}
			bo.X, bo.Y = bo.Y, bo.X
			changed = true
		}
	}
	_ = changed
}
