package main

import (
	"fmt"
	"go/token"
	"go/types"
	"sort"
	"strings"

	"golang.org/x/tools/go/ssa"
)

func init() {
	register("C15",
		"Structural necessary conditions of C15 decided from /repo's SSA: (nul-first) in the function that consumes `git config --list -z`, every search for the key/value separator LF operates on a value already bounded by a search for the record terminator NUL, so a key without a value cannot swallow the next entry; (total) every index/slice expression of the gitconfig reader, the key-prefix matcher and the refgroup key handling is discharged by the bounds engine and the record cursor advances by at least one byte per iteration; (scope) the listing command carries no --local/--global/--system/--file restriction, group membership is decided by the key-prefix matcher whose truth table is checked (boundary byte '.'), and a group is augmented from exactly the keys name/include/includeregexp/exclude/excluderegexp with the right polarity and pattern kind, folded in listing order. Not decided: agreement with git's own parser on arbitrary configurations.",
		[]string{"git config --list -z prints key LF value NUL per entry, key NUL for a valueless key", "git lower-cases section and variable names"},
		ruleC15NulFirst, ruleC15Total, ruleC15Progress, ruleC15Scope, ruleC15EachGroup, ruleC15LastDot)
	register("C16",
		"Structural necessary conditions of C16 decided from /repo's SSA: (bounds) every index/slice expression in package git's object and listing parsers is discharged from dominating facts in a zone domain (an undischarged obligation is a crash on some input); (progress) each parser cursor advances by at least one byte on every successful step, so no input loops forever; (grammar) tree entry = octal mode, SP, name, NUL, raw id whose length constant agrees between the length test, the copy bounds, the advance and len(OID); the commit parser appends parents only under `parent` and has single, duplicate-rejecting arms for `tree`, the tag parser for `object` and `type`; the header block handed to the iterator ends at the first blank line; (formats) the for-each-ref format has four space-separated atoms in the order the reader indexes them and cat-file's default three-field header is read as fields 0,1,2; an object id is only ever built from input whose length was compared with the id length (a longer hex string would index past the array, a shorter one be accepted zero-padded); a loop over object headers leaves when the iterator reports an error (the iterator does not advance on failure). Not decided: losslessness (re-serialisation equality), behaviour beyond absence of panics and non-termination.",
		[]string{"library post-conditions of strings/bytes Index*, Split, HasPrefix; bufio ReadString/ReadBytes return the delimiter on a nil error", "zone (difference-bound) abstraction of int arithmetic; wrap-around of int is not modelled"},
		ruleC16Bounds, ruleC16Progress, ruleC16Grammar, ruleC16Formats, ruleC16OIDLength, ruleC16HeaderLoops)
}

// ---------------- cursors / progress ----------------

// advanceChain: v is Slice(...Slice(load cursor)[a:]...)[b:] with open high
// bounds; returns the slices (outermost first) and the base load/phi.
func advanceChain(v ssa.Value) ([]*ssa.Slice, ssa.Value) {
	chain, _, base := advanceChainCut(v)
	return chain, base
}

// advanceChainCut also follows `_, rest, _ := strings.Cut(x, sep)` links:
// rest is x without a prefix that contains sep (or "" when sep is absent),
// so with a non-empty constant separator the cursor moves by at least one
// byte whenever x was not empty.
func advanceChainCut(v ssa.Value) (chain []*ssa.Slice, cuts int, base ssa.Value) {
	for {
		switch x := v.(type) {
		case *ssa.Slice:
			if x.High != nil || x.Low == nil {
				return chain, cuts, v
			}
			chain = append(chain, x)
			v = x.X
			continue
		case *ssa.Extract:
			if call, ok := x.Tuple.(*ssa.Call); ok && x.Index == 1 {
				q := calleeQ(&call.Call)
				if q == "strings.Cut" || q == "bytes.Cut" {
					nonEmpty := false
					if s, ok := constStr(call.Call.Args[1]); ok && len(s) >= 1 {
						nonEmpty = true
					}
					if !nonEmpty {
						if al, ok := call.Call.Args[1].(*ssa.Slice); ok {
							if a, ok := al.X.(*ssa.Alloc); ok {
								if n, ok := staticLenOf(a.Type()); ok && n >= 1 {
									nonEmpty = true
								}
							}
						}
					}
					if nonEmpty {
						cuts++
						v = call.Call.Args[0]
						continue
					}
				}
			}
		}
		return chain, cuts, v
	}
}

// provedAdvance: some link of the chain has low >= 1 and all have low >= 0.
func (c *Ctx) provedAdvance(f *ssa.Function, chain []*ssa.Slice) bool {
	F := &bfn{c: c, f: f}
	F.computeLoadEq()
	adv := false
	for _, sl := range chain {
		z := newZone()
		F.defFacts(z, sl)
		F.pathFacts(z, sl.Block())
		lo := F.linear(sl.Low)
		if !z.proveLE(zLin{a: "0"}, lo) {
			return false
		}
		if z.proveLE(zLin{a: "0", k: 1}, lo) {
			adv = true
		}
	}
	return adv
}

// provedNonNegative: every link of the chain has low >= 0.
func (c *Ctx) provedNonNegative(f *ssa.Function, chain []*ssa.Slice) bool {
	F := &bfn{c: c, f: f}
	F.computeLoadEq()
	for _, sl := range chain {
		z := newZone()
		F.defFacts(z, sl)
		F.pathFacts(z, sl.Block())
		if !z.proveLE(zLin{a: "0"}, F.linear(sl.Low)) {
			return false
		}
	}
	return true
}

type cursorStore struct {
	Store    *ssa.Store
	Field    *types.Var
	Advances bool
}

// fieldCursors: stores `x.f = x.f[k:]…` in f.
func (c *Ctx) fieldCursors(f *ssa.Function) []cursorStore {
	var out []cursorStore
	allInstrs(f, func(in ssa.Instruction) {
		st, ok := in.(*ssa.Store)
		if !ok {
			return
		}
		fa, ok := st.Addr.(*ssa.FieldAddr)
		if !ok || !isStringish(st.Val.Type()) {
			return
		}
		chain, cuts, base := advanceChainCut(st.Val)
		if len(chain) == 0 && cuts == 0 {
			return
		}
		u, ok := base.(*ssa.UnOp)
		if !ok {
			return
		}
		fb, ok := u.X.(*ssa.FieldAddr)
		if !ok || fieldOfAddr(fb).Var != fieldOfAddr(fa).Var {
			return
		}
		adv := cuts > 0
		if len(chain) > 0 {
			pa := c.provedAdvance(f, chain)
			if cuts == 0 {
				adv = pa
			} else {
				// the slices only need to be in range (low >= 0); the cut advances
				adv = adv && (pa || c.provedNonNegative(f, chain))
			}
		}
		out = append(out, cursorStore{st, fieldOfAddr(fa).Var, adv})
	})
	return out
}

// checkIteratorProgress: every success return of an iterator method passes
// through an advancing cursor store.
func (c *Ctx) checkIteratorProgress(rule string, f *ssa.Function) {
	name := fnName(f)
	cur := c.fieldCursors(f)
	if len(cur) == 0 {
		c.violate(rule, name+":cursor", f.Pos(), name, "the iterator step never advances its cursor")
		return
	}
	adv := map[ssa.Instruction]bool{}
	for _, cs := range cur {
		if cs.Advances {
			adv[cs.Store] = true
		} else {
			c.violate(rule, name+":advance@"+c.lineKey(cs.Store), cs.Store.Pos(), name, "the cursor is re-sliced without a proof that it moves forward (low bound >= 0 everywhere and >= 1 somewhere)")
		}
	}
	ec := c.newEventCounter(func(in ssa.Instruction) int {
		if adv[in] {
			return 1
		}
		return 0
	}, false)
	sig := f.Signature.Results()
	bad := false
	nSucc := 0
	for _, ret := range returnsOf(f) {
		success := true
		for i := 0; i < sig.Len(); i++ {
			if isErrorType(sig.At(i).Type()) {
				for _, v := range c.resultValues(ret, i) {
					if !isNilConst(v) {
						success = false
					}
				}
			}
			if isBoolType(sig.At(i).Type()) {
				for _, v := range c.resultValues(ret, i) {
					if k, ok := v.(*ssa.Const); ok && k.Value != nil && k.Value.String() == "false" {
						success = false // "no more entries": nothing consumed, caller stops
					}
				}
			}
		}
		if !success {
			continue
		}
		nSucc++
		r := ec.region(f.Blocks[0], 0, map[*ssa.BasicBlock]bool{ret.Block(): true}, nil)
		if r.Min < 1 {
			bad = true
			c.violate(rule, name+":progress", ret.Pos(), name, "a successful step can return without consuming at least one byte: the caller's loop would not terminate")
		}
	}
	if !bad && nSucc > 0 {
		c.hold(rule, name+":progress", f.Pos(), fmt.Sprintf("every successful return passes through an advancing re-slice of %s (%d advancing store(s))", cur[0].Field.Name(), len(adv)))
	}
}

// checkLoopCursorProgress: loops whose condition tests a string/slice phi
// must re-slice it forward on every back edge.
func (c *Ctx) checkLoopCursorProgress(rule string, f *ssa.Function) int {
	name := fnName(f)
	n := 0
	for _, l := range loopsOf(f) {
		for _, in := range l.Head.Instrs {
			phi, ok := in.(*ssa.Phi)
			if !ok || !isStringish(phi.Type()) {
				continue
			}
			isCursor := false
			for i, pred := range l.Head.Preds {
				if !l.Blocks[pred] {
					continue
				}
				_, base := advanceChain(phi.Edges[i])
				if base == ssa.Value(phi) {
					isCursor = true
				}
			}
			if !isCursor {
				continue
			}
			n++
			good := true
			for i, pred := range l.Head.Preds {
				if !l.Blocks[pred] {
					continue
				}
				chain, cuts, base := advanceChainCut(phi.Edges[i])
				moved := false
				switch {
				case cuts > 0:
					moved = len(chain) == 0 || c.provedNonNegative(f, chain)
				case len(chain) > 0:
					moved = c.provedAdvance(f, chain)
				}
				if base != ssa.Value(phi) || !moved {
					good = false
					c.violate(rule, name+":loop-progress", posOf(pred.Instrs[len(pred.Instrs)-1]), name, "a path around the loop leaves the input cursor where it was (or moves it without a proof of progress): the loop would not terminate")
				}
			}
			if good {
				c.hold(rule, name+":loop-progress", phi.Pos(), "every back edge re-slices the cursor forward by at least one byte")
			}
		}
	}
	return n
}

func ruleC16Progress(c *Ctx) {
	for _, spec := range [][2]string{{"*TreeIter", "NextEntry"}, {"*ObjectHeaderIter", "Next"}} {
		f := c.fn("/git", spec[0], spec[1])
		if f == nil {
			c.violate("C16.progress", spec[0]+"."+spec[1], token.NoPos, "", "git.("+spec[0]+")."+spec[1]+" not found")
			continue
		}
		c.checkIteratorProgress("C16.progress", f)
	}
	// HasNext of the header iterator is "cursor non-empty"
	if f := c.fn("/git", "*ObjectHeaderIter", "HasNext"); f != nil {
		okHN := false
		for _, ret := range returnsOf(f) {
			if cmp, ok := ret.Results[0].(*ssa.BinOp); ok && (cmp.Op == token.GTR || cmp.Op == token.NEQ) {
				if n, ok := constInt(cmp.Y); ok && n == 0 {
					okHN = true
				}
				// cursor != ""
				if s, ok := constStr(cmp.Y); ok && s == "" && cmp.Op == token.NEQ {
					okHN = true
				}
			}
		}
		if okHN {
			c.hold("C16.progress", "HasNext", f.Pos(), "HasNext <=> len(cursor) > 0")
		} else {
			c.violate("C16.progress", "HasNext", f.Pos(), fnName(f), "HasNext is not `len(cursor) > 0`")
		}
	}
}

func ruleC15Progress(c *Ctx) {
	get := c.fn("/git", "*Repository", "GetConfig")
	if get == nil {
		c.violate("C15.progress", "GetConfig", token.NoPos, "", "(*git.Repository).GetConfig not found")
		return
	}
	if c.checkLoopCursorProgress("C15.progress", get) == 0 {
		// a Split-based reader has no cursor; then there must be no unbounded loop over the raw output
		if len(loopsOf(get)) > 0 {
			c.present("C15.progress", "GetConfig:no-cursor", get.Pos(), "records are iterated without a hand-written cursor")
		}
	}
}

// ---------------- C16.grammar ----------------

func ruleC16Grammar(c *Ctx) {
	// --- tree entries
	next := c.fn("/git", "*TreeIter", "NextEntry")
	if next == nil {
		c.violate("C16.grammar", "NextEntry", token.NoPos, "", "(*git.TreeIter).NextEntry not found")
	} else {
		name := fnName(next)
		var seps []int64
		var base int64 = -1
		allInstrs(next, func(in ssa.Instruction) {
			call, ok := in.(*ssa.Call)
			if !ok {
				return
			}
			if n, ok := c.sepOfIndexCall(call); ok {
				seps = append(seps, n)
			}
			if calleeQ(&call.Call) == "strconv.ParseUint" {
				base, _ = constInt(call.Call.Args[1])
			}
		})
		if len(seps) == 2 && seps[0] == ' ' && seps[1] == 0 {
			c.hold("C16.grammar", "tree:separators", next.Pos(), "mode SP name NUL")
		} else {
			c.violate("C16.grammar", "tree:separators", next.Pos(), name, fmt.Sprintf("tree entries are split at bytes %v, git's format is <mode> SP <name> NUL <id>", seps))
		}
		if base == 8 {
			c.hold("C16.grammar", "tree:mode-octal", next.Pos(), "mode parsed in base 8")
		} else {
			c.violate("C16.grammar", "tree:mode-octal", next.Pos(), name, fmt.Sprintf("the entry mode is parsed in base %d, git writes it in octal", base))
		}
		// id length agreement
		oidT := c.namedType("/git", "OID")
		var L int64 = -1
		if oidT != nil {
			if st, ok := oidT.Underlying().(*types.Struct); ok && st.NumFields() == 1 {
				if a, ok := st.Field(0).Type().Underlying().(*types.Array); ok {
					L = a.Len()
				}
			}
		}
		var consts []string
		agree := L > 0
		note := func(what string, k int64) {
			consts = append(consts, fmt.Sprintf("%s=%d", what, k))
			if k != L {
				agree = false
			}
		}
		nTest, nCopy, nAdv := 0, 0, 0
		allInstrs(next, func(in ssa.Instruction) {
			switch x := in.(type) {
			case *ssa.BinOp:
				if x.Op == token.LSS || x.Op == token.GEQ {
					if l, ok := x.X.(*ssa.Call); ok && isBuiltin(&l.Call, "len") && isStringish(l.Call.Args[0].Type()) {
						if k, ok := constInt(x.Y); ok {
							nTest++
							note("length-test", k)
						}
					}
				}
			case *ssa.Slice:
				if x.High != nil {
					if k, ok := constInt(x.High); ok {
						lo, isK := int64(0), true
						if x.Low != nil {
							lo, isK = constInt(x.Low)
						}
						if isK && lo == 0 {
							nCopy++
							note("copy-bound", k)
						}
					}
				} else if n, isArr := staticLen(x.X.Type()); isArr && x.Low == nil {
					// the whole array `v[:]`
					nCopy++
					note("copy-bound", n)
				} else if x.Low != nil {
					if k, ok := constInt(x.Low); ok && isStringish(x.Type()) {
						nAdv++
						note("advance", k)
					}
				}
			}
		})
		sort.Strings(consts)
		if agree && nTest >= 1 && nCopy >= 1 && nAdv >= 1 {
			c.hold("C16.grammar", "tree:id-length", next.Pos(), fmt.Sprintf("len(OID)=%d agrees with %s", L, strings.Join(consts, " ")))
		} else {
			c.violate("C16.grammar", "tree:id-length", next.Pos(), name, fmt.Sprintf("the raw object id length is not used consistently: len(OID)=%d, %s (need a length test, copy bounds and an advance that all equal it)", L, strings.Join(consts, " ")))
		}
	}
	c.checkTreeEntryExact()
	// --- header block ends at first blank line
	c.checkHeaderBlock()
	// --- commit / tag arms
	c.checkSingleArm("ParseCommit", "tree")
	c.checkSingleArm("ParseTag", "object")
	c.checkSingleArm("ParseTag", "type")
	c.checkHeaderAppend("C16.grammar", "ParseCommit", "Parents", "parent")
	// --- key/value split of a header line
	if hn := c.fn("/git", "*ObjectHeaderIter", "Next"); hn != nil {
		var seps []int64
		allInstrs(hn, func(in ssa.Instruction) {
			if call, ok := in.(*ssa.Call); ok {
				if n, ok := c.sepOfIndexCall(call); ok {
					seps = append(seps, n)
				}
			}
		})
		if len(seps) == 2 && seps[0] == ' ' && seps[1] == '\n' {
			c.hold("C16.grammar", "header:key-value", hn.Pos(), "key = text before the first SP, value = rest of the line")
		} else {
			c.violate("C16.grammar", "header:key-value", hn.Pos(), fnName(hn), fmt.Sprintf("header lines are split at bytes %v instead of SP then LF", seps))
		}
	}
}

func (c *Ctx) checkHeaderBlock() {
	f := c.fn("/git", "", "NewObjectHeaderIter")
	if f == nil {
		c.violate("C16.grammar", "header:block-end", token.NoPos, "", "git.NewObjectHeaderIter not found")
		return
	}
	name := fnName(f)
	var idx *ssa.Call
	allInstrs(f, func(in ssa.Instruction) {
		if call, ok := in.(*ssa.Call); ok && (calleeQ(&call.Call) == "bytes.Index" || calleeQ(&call.Call) == "strings.Index") {
			if s, ok := c.sepBytes(call.Call.Args[1]); ok && s == "\n\n" {
				idx = call
			}
		}
	})
	if idx == nil {
		c.violate("C16.grammar", "header:block-end", f.Pos(), name, "the end of the header block (first blank line) is not searched for: message text would be parsed as headers")
		return
	}
	// a return whose iterator data is data[:idx+1], guarded by idx != -1
	okTrunc, okWhole := false, true
	for _, ret := range returnsOf(f) {
		errNil := true
		for _, v := range c.resultValues(ret, 1) {
			if !isNilConst(v) {
				errNil = false
			}
		}
		if !errNil {
			continue
		}
		found := guardedBy(ret.Block(), func(cond ssa.Value, truth bool) bool {
			cmp, ok := isCmp(cond, token.EQL, token.NEQ, token.LSS, token.GEQ)
			if !ok || cmp.X != ssa.Value(idx) {
				return false
			}
			switch cmp.Op {
			case token.EQL:
				return !truth
			case token.NEQ:
				return truth
			case token.LSS:
				return !truth
			case token.GEQ:
				return truth
			}
			return false
		})
		// what is stored as the iterator's data in this return?
		truncated := false
		allInstrs(f, func(in ssa.Instruction) {
			st, ok := in.(*ssa.Store)
			if !ok || !isStringish(st.Val.Type()) || !st.Block().Dominates(ret.Block()) && st.Block() != ret.Block() {
				return
			}
			v := st.Val
			if cv, ok := v.(*ssa.Convert); ok {
				v = cv.X
			}
			lowZero := false
			if sl, ok := v.(*ssa.Slice); ok && sl.Low != nil {
				if k, isK := constInt(sl.Low); isK && k == 0 {
					lowZero = true
				}
			}
			if sl, ok := v.(*ssa.Slice); ok && sl.High != nil && (sl.Low == nil || lowZero) {
				if bo, ok := sl.High.(*ssa.BinOp); ok && bo.Op == token.ADD && bo.X == ssa.Value(idx) {
					if n, ok := constInt(bo.Y); ok && n == 1 {
						truncated = true
					}
				}
			}
		})
		if found && truncated {
			okTrunc = true
		}
		if found && !truncated {
			okWhole = false
		}
	}
	if okTrunc && okWhole {
		c.hold("C16.grammar", "header:block-end", idx.Pos(), "when a blank line exists the iterator sees data[:index+1] only")
	} else {
		c.violate("C16.grammar", "header:block-end", idx.Pos(), name, "when the object has a blank line the header iterator is not limited to the bytes before it: message lines that imitate headers would be parsed")
	}
}

// checkSingleArm: in git.<parser> the header key `literal` has an arm that
// rejects a duplicate and whose absence is an error.
func (c *Ctx) checkSingleArm(parser, literal string) {
	f := c.fn("/git", "", parser)
	if f == nil {
		c.violate("C16.grammar", parser, token.NoPos, "", "git."+parser+" not found")
		return
	}
	name := fnName(f)
	hnext := c.fn("/git", "*ObjectHeaderIter", "Next")
	key := parser + ":" + literal
	armSeen, dupErr := false, false
	for _, b := range f.Blocks {
		lit, _ := c.headerKeyLiteralAt(b, hnext)
		if lit != literal {
			continue
		}
		armSeen = true
		if len(b.Instrs) == 0 {
			continue
		}
		ret, ok := b.Instrs[len(b.Instrs)-1].(*ssa.Return)
		if !ok {
			continue
		}
		nonNil := false
		for i := range ret.Results {
			if isErrorType(f.Signature.Results().At(i).Type()) {
				for _, v := range c.resultValues(ret, i) {
					if !isNilConst(v) {
						nonNil = true
					}
				}
			}
		}
		// guarded by a "found" flag being true
		flag := guardedBy(b, func(cond ssa.Value, truth bool) bool {
			_, isPhi := cond.(*ssa.Phi)
			_, isLoad := cond.(*ssa.UnOp)
			return truth && (isPhi || isLoad) && isBoolType(cond.Type())
		})
		if nonNil && flag {
			dupErr = true
		}
	}
	if !armSeen {
		c.violate("C16.grammar", key+":arm", f.Pos(), name, "git."+parser+" has no arm for the `"+literal+"` header")
		return
	}
	if dupErr {
		c.hold("C16.grammar", key+":single", f.Pos(), "a second `"+literal+"` header is an error")
	} else {
		c.violate("C16.grammar", key+":single", f.Pos(), name, "a repeated `"+literal+"` header is not rejected: a later line (e.g. inside a multi-line header value) would silently replace the real one")
	}
	// success only when found
	okReq := true
	for _, ret := range returnsOf(f) {
		for _, v := range c.resultValues(ret, 0) {
			if isNilConst(v) {
				continue
			}
			// non-nil result: must be guarded by some found-flag true… counted loosely: at least one bool phi fact
			if !guardedBy(ret.Block(), func(cond ssa.Value, truth bool) bool {
				_, isPhi := cond.(*ssa.Phi)
				ld, isLoad := cond.(*ssa.UnOp)
				if isLoad && ld.Op != token.MUL {
					isLoad = false
				}
				return (isPhi || isLoad) && truth && isBoolType(cond.Type())
			}) {
				okReq = false
			}
		}
	}
	if okReq {
		c.hold("C16.grammar", key+":required", f.Pos(), "a result is returned only when the required header(s) were found")
	} else {
		c.violate("C16.grammar", key+":required", f.Pos(), name, "git."+parser+" can succeed without the required header having been seen")
	}
}

// ---------------- C16.formats ----------------

func ruleC16Formats(c *Ctx) {
	// for-each-ref
	sites := c.gitSites("for-each-ref")
	pr := c.fn("/git", "", "ParseReference")
	if len(sites) == 1 && pr != nil {
		var atoms []string
		for _, a := range sites[0].Argv {
			if strings.HasPrefix(a, "--format=") {
				atoms = strings.Split(strings.TrimPrefix(a, "--format="), " ")
			}
		}
		use := c.wordUses(pr)
		want := map[string]string{"oid": "%(objectname)", "type": "%(objecttype)", "size": "%(objectsize)", "refname": "%(refname)"}
		good := len(atoms) == 4
		var desc []string
		for role, atom := range want {
			idx, ok := use[role]
			desc = append(desc, fmt.Sprintf("%s=words[%d]", role, idx))
			if !ok || idx >= len(atoms) || atoms[idx] != atom {
				good = false
			}
		}
		sort.Strings(desc)
		nFields := c.splitCountCheck(pr)
		if good && nFields == 4 {
			c.hold("C16.formats", "for-each-ref", sites[0].Call.Pos(), fmt.Sprintf("format %v read as %s, exactly 4 fields required", atoms, strings.Join(desc, " ")))
		} else {
			c.violate("C16.formats", "for-each-ref", sites[0].Call.Pos(), fnName(pr), fmt.Sprintf("writer and reader disagree: format atoms %v, reader uses %s and requires %d fields", atoms, strings.Join(desc, " "), nFields))
		}
	} else {
		c.violate("C16.formats", "for-each-ref", token.NoPos, "", "for-each-ref site or git.ParseReference not found")
	}
	// cat-file default header: <oid> SP <type> SP <size>
	pb := c.fn("/git", "", "ParseBatchHeader")
	if pb == nil {
		c.violate("C16.formats", "cat-file", token.NoPos, "", "git.ParseBatchHeader not found")
		return
	}
	use := c.wordUses(pb)
	if use["oid"] == 0 && use["type"] == 1 && use["size"] == 2 && len(use) >= 3 {
		c.hold("C16.formats", "cat-file", pb.Pos(), "default header read as oid=words[0] type=words[1] size=words[2]")
	} else if len(use) == 0 {
		c.notDecided("C16.formats", "cat-file", pb.Pos(), "the header is not taken apart with Split: which field feeds which role is not read off by this rule")
	} else {
		c.violate("C16.formats", "cat-file", pb.Pos(), fnName(pb), fmt.Sprintf("cat-file's default header `<oid> <type> <size>` is read with %v", use))
	}
	for _, s := range c.gitSites("cat-file") {
		for _, a := range s.Argv {
			if strings.HasPrefix(a, "--batch=") || strings.HasPrefix(a, "--batch-check=") || strings.HasPrefix(a, "--batch-command") {
				c.violate("C16.formats", "cat-file:format@"+fnName(s.Fn), s.Call.Pos(), fnName(s.Fn), "cat-file is given a custom format ("+a+") while the reader expects the default three-field header")
			}
		}
	}
}

// wordUses: which element of the Split result feeds which role.
func (c *Ctx) wordUses(f *ssa.Function) map[string]int {
	out := map[string]int{}
	allInstrs(f, func(in ssa.Instruction) {
		ia, ok := in.(*ssa.IndexAddr)
		if !ok {
			return
		}
		k, ok := constInt(ia.Index)
		if !ok {
			return
		}
		if call, ok := c.resolve(ia.X).(*ssa.Call); !ok || !isWholeSplit(call, k+1) {
			return
		}
		for _, r := range *ia.Referrers() {
			u, ok := r.(*ssa.UnOp)
			if !ok {
				continue
			}
			for _, rr := range *u.Referrers() {
				switch y := rr.(type) {
				case *ssa.Call:
					switch calleeQ(&y.Call) {
					case modQ("/git", "", "NewOID"):
						out["oid"] = int(k)
					case "strconv.ParseUint":
						out["size"] = int(k)
					}
				case *ssa.ChangeType:
					if isNamed(y.Type(), modPath+"/git", "ObjectType") {
						out["type"] = int(k)
					}
				case *ssa.Convert:
					if isNamed(y.Type(), modPath+"/git", "ObjectType") {
						out["type"] = int(k)
					}
				case *ssa.Store:
					if fa, ok := y.Addr.(*ssa.FieldAddr); ok && vname(fieldOfAddr(fa).Var) == "Refname" {
						out["refname"] = int(k)
					}
				}
			}
		}
	})
	return out
}

// isWholeSplit: call splits its whole argument at every separator, at least
// as far as `fields` fields are concerned: Split, or SplitN with a limit
// that is negative or larger than `fields` (so that a surplus field still
// shows in the length).
func isWholeSplit(call *ssa.Call, fields int64) bool {
	q := calleeQ(&call.Call)
	if strings.HasSuffix(q, ".Split") {
		return true
	}
	if strings.HasSuffix(q, ".SplitN") && len(call.Call.Args) == 3 {
		if n, ok := constInt(call.Call.Args[2]); ok && (n < 0 || n > fields) {
			return true
		}
	}
	return false
}

// splitCountCheck: the constant n in the `len(words) != n` guard.
func (c *Ctx) splitCountCheck(f *ssa.Function) int {
	n := -1
	allInstrs(f, func(in ssa.Instruction) {
		cmp, ok := in.(*ssa.BinOp)
		if !ok || (cmp.Op != token.NEQ && cmp.Op != token.EQL) {
			return
		}
		if l, ok := cmp.X.(*ssa.Call); ok && isBuiltin(&l.Call, "len") {
			if call, ok := c.resolve(l.Call.Args[0]).(*ssa.Call); ok {
				if k, ok := constInt(cmp.Y); ok && isWholeSplit(call, k) {
					n = int(k)
				}
			}
		}
	})
	return n
}

// ---------------- C15 ----------------

func ruleC15NulFirst(c *Ctx) {
	sites := c.gitSites("config")
	var list *spawnSite
	for _, s := range sites {
		for _, a := range s.Argv {
			if a == "--list" || a == "-l" {
				list = s
			}
		}
	}
	if list == nil {
		c.violate("C15.nul-first", "config-list", token.NoPos, "", "no `git config --list` site: refgroup definitions are not read from gitconfig")
		return
	}
	f := list.Fn
	name := fnName(f)
	n := 0
	nulSearch := false
	allInstrs(f, func(in ssa.Instruction) {
		call, ok := in.(*ssa.Call)
		if !ok {
			return
		}
		q := calleeQ(&call.Call)
		sepArg := -1
		switch q {
		case "bytes.IndexByte", "strings.IndexByte", "bytes.Index", "strings.Index", "bytes.Split", "strings.Split", "bytes.SplitN", "strings.SplitN", "bytes.Cut", "strings.Cut":
			sepArg = 1
		default:
			return
		}
		sep, isByte := c.sepByte(call.Call.Args[sepArg])
		if !isByte {
			return
		}
		if sep == 0 {
			nulSearch = true
			return
		}
		if sep != '\n' {
			return
		}
		n++
		// the key ends at the FIRST LF of the record; everything after it, further LFs
		// included, is the value
		switch {
		case strings.Contains(q, ".Last"):
			c.violate("C15.nul-first", name+":lf-first", call.Pos(), name, "the key/value separator is searched from the end of the record ("+q+"): a value that contains a line feed would leak its first lines into the key")
		case strings.HasSuffix(q, ".Split"):
			c.violate("C15.nul-first", name+":lf-first", call.Pos(), name, "the record is split at every LF ("+q+"): a value that contains a line feed is cut off after its first line")
		case strings.HasSuffix(q, ".SplitN"):
			if k, ok := constInt(call.Call.Args[2]); !ok || k != 2 {
				c.violate("C15.nul-first", name+":lf-first", call.Pos(), name, "the record is split into more than key and value: a value that contains a line feed is cut off")
			} else {
				c.hold("C15.nul-first", name+":lf-first", call.Pos(), "split into key and the whole rest")
			}
		default:
			c.hold("C15.nul-first", name+":lf-first", call.Pos(), "the first LF ends the key; the rest is the value")
		}
		if c.nulBounded(call.Call.Args[0], 0) {
			c.hold("C15.nul-first", name+":lf-search@"+c.lineKey(call), call.Pos(), "the LF (key/value separator) is searched inside one NUL-terminated record")
		} else {
			c.violate("C15.nul-first", name+":lf-search", call.Pos(), name, "the key/value separator LF is searched in data not yet bounded by the record terminator NUL: for a key without a value (`key NUL`) the search runs into the next record and swallows it")
		}
	})
	if !nulSearch {
		c.violate("C15.nul-first", name+":nul-search", f.Pos(), name, "the output of `config --list -z` is never split at NUL")
	}
	// the record cursor only ever stands at the start of a record: it starts as
	// the whole output and moves to (position of a NUL)+1
	for _, l := range loopsOf(f) {
		for _, in := range l.Head.Instrs {
			phi, ok := in.(*ssa.Phi)
			if !ok || !isStringish(phi.Type()) {
				continue
			}
			isCursor := false
			for i, pred := range l.Head.Preds {
				if l.Blocks[pred] {
					if _, _, base := advanceChainCut(phi.Edges[i]); base == ssa.Value(phi) {
						isCursor = true
					}
				}
			}
			if !isCursor {
				continue
			}
			bad := ""
			for _, e := range phi.Edges {
				if ok, why := c.recordAligned(e, phi, 0); !ok {
					bad = why
				}
			}
			if bad == "" {
				c.hold("C15.nul-first", name+":record-start", phi.Pos(), "the cursor is the whole listing, then always the byte after a NUL")
			} else {
				c.violate("C15.nul-first", name+":record-start", phi.Pos(), name, "the record cursor can be positioned somewhere other than the start of the listing or the byte after a NUL ("+bad+"): parsing would start in the middle of a foreign key or value and read its tail as an entry")
			}
		}
	}
	if n == 0 {
		c.violate("C15.nul-first", name+":lf-search", f.Pos(), name, "keys are never separated from values at LF")
	}
}

// nulBounded: v is a slice bounded above by a NUL search, an element of a
// split on NUL, or the first result of a cut on NUL.
func (c *Ctx) nulBounded(v ssa.Value, depth int) bool {
	if depth > 4 {
		return false
	}
	v = c.resolve(v)
	switch x := v.(type) {
	case *ssa.Slice:
		if x.High != nil {
			cands := []ssa.Value{x.High}
			if bo, ok := x.High.(*ssa.BinOp); ok {
				// index of the NUL, plus or minus a constant, or start + (index
				// of the NUL in the data from start on)
				cands = []ssa.Value{bo.X}
				if bo.Op == token.ADD {
					cands = append(cands, bo.Y)
				}
			}
			for _, h := range cands {
				if call, ok := c.resolve(h).(*ssa.Call); ok && (strings.HasSuffix(calleeQ(&call.Call), ".IndexByte") || strings.HasSuffix(calleeQ(&call.Call), ".Index")) {
					if sep, ok := c.sepByte(call.Call.Args[1]); ok && sep == 0 {
						return true
					}
				}
			}
		}
		return c.nulBounded(x.X, depth+1)
	case *ssa.Convert:
		return c.nulBounded(x.X, depth+1)
	case *ssa.UnOp:
		if ia, ok := x.X.(*ssa.IndexAddr); ok {
			base := c.resolve(ia.X)
			for i := 0; i < 3; i++ {
				// a sub-range of the pieces (`records[:last]`)
				if sl, isSl := base.(*ssa.Slice); isSl {
					base = c.resolve(sl.X)
				}
			}
			if call, ok := base.(*ssa.Call); ok && strings.Contains(calleeQ(&call.Call), ".Split") {
				if sep, ok := c.sepByte(call.Call.Args[1]); ok && sep == 0 {
					return true
				}
			}
		}
	case *ssa.Extract:
		if call, ok := x.Tuple.(*ssa.Call); ok && strings.HasSuffix(calleeQ(&call.Call), ".Cut") && x.Index == 0 {
			if sep, ok := c.sepByte(call.Call.Args[1]); ok && sep == 0 {
				return true
			}
		}
	}
	return false
}

func ruleC15Scope(c *Ctx) {
	// argv of the listing command
	for _, s := range c.gitSites("config") {
		isList := false
		for _, a := range s.Argv {
			if a == "--list" || a == "-l" {
				isList = true
			}
		}
		for _, a := range s.Argv[1:] {
			switch a {
			case "--local", "--global", "--system", "--worktree", "--file", "-f", "--blob", "--show-origin", "--show-scope", "--name-only", "--includes", "--no-includes":
				c.violate("C15.scope", "config:"+a+"@"+fnName(s.Fn), s.Call.Pos(), fnName(s.Fn), "`git config` is run with "+a+": entries that git itself reports for the repository would be missing or shaped differently")
			}
		}
		if isList {
			z := false
			for _, a := range s.Argv {
				if a == "-z" || a == "--null" {
					z = true
				}
			}
			if z {
				c.hold("C15.scope", "config-list:argv", s.Call.Pos(), "argv: "+strings.Join(s.Argv, " "))
			} else {
				c.violate("C15.scope", "config-list:-z", s.Call.Pos(), fnName(s.Fn), "`git config --list` is run without -z: values containing LF cannot be told from the next entry")
			}
		}
	}
	// GitCommand must not force configuration sources or entries of its own
	for _, v := range c.gitCommandForcedEnv() {
		if strings.HasPrefix(v, "GIT_CONFIG") {
			c.violate("C15.scope", "env:"+v, token.NoPos, "", "GitCommand forces the environment variable "+v+": it replaces configuration the user supplied through the same mechanism (command scope), so entries git itself reports for the repository are not seen")
		}
	}
	if gc := c.fn("/git", "*Repository", "GitCommand"); gc != nil {
		for _, sp := range c.spawnTable() {
			if sp.Fn != gc {
				continue
			}
			for i, a := range sp.Argv {
				if a == "-c" && i+1 < len(sp.Argv) {
					kv := sp.Argv[i+1]
					if strings.HasPrefix(kv, "refgroup.") || strings.HasPrefix(kv, "sizer.") || strings.HasPrefix(kv, "include.") || strings.HasPrefix(kv, "includeif.") {
						c.violate("C15.scope", "argv:-c "+kv, sp.Call.Pos(), fnName(gc), "GitCommand injects the configuration entry "+kv+" into every git invocation")
					}
				}
			}
		}
		c.present("C15.scope", "git-command:config-neutral", gc.Pos(), "GitCommand forces no GIT_CONFIG* variable and injects no refgroup/sizer/include configuration")
	}
	// the key-prefix matcher
	c.checkKeyMatcher()
	// which keys a group is augmented from
	c.checkAugment()
}

func (c *Ctx) checkKeyMatcher() {
	f := c.fn("/git", "", "configKeyMatchesPrefix")
	if f == nil {
		// found by role: the function GetConfig calls with (key, prefix)
		get := c.fn("/git", "*Repository", "GetConfig")
		if get != nil {
			allInstrs(get, func(in ssa.Instruction) {
				if call, ok := in.(*ssa.Call); ok {
					if cal := call.Call.StaticCallee(); cal != nil && c.inRuleScope(cal) && cal.Signature.Params().Len() == 2 && cal.Signature.Results().Len() == 2 && isBoolType(cal.Signature.Results().At(0).Type()) {
						f = cal
					}
				}
			})
		}
	}
	if f == nil {
		c.violate("C15.scope", "key-matcher", token.NoPos, "", "no key-prefix matcher is applied to the listed keys: entries of other sections would leak into a group")
		return
	}
	rows := aEnumerate(nil, func(e *aEnv) aVal { return c.aCall(f, []aVal{aSym("K"), aSym("P")}, e, 0, nil) })
	EMPTY, HP, LASTDOT, EQ, KEYDOT := `["" == P]`, `strings.HasPrefix(K,P)`, `[46 == P[(len(P) - 1)]]`, `[len(K) == len(P)]`, `[46 == K[len(P)]]`
	// equivalent spellings of the same conditions (given P != "" and HasPrefix(K,P))
	renameAtoms(rows, map[string]string{
		`strings.HasSuffix(P,".")`:          LASTDOT,
		`["" == K[len(P):]]`:                EQ,
		`[0 == len(K[len(P):])]`:            EQ,
		`[len(K[len(P):]) == 0]`:            EQ,
		`[len(P) == len(K)]`:                EQ,
		`[0 == len(P)]`:                     EMPTY,
		`[len(P) == 0]`:                     EMPTY,
		`strings.HasPrefix(K[len(P):],".")`: KEYDOT,
	})
	t := checkTable(rows, []string{EMPTY, HP, LASTDOT, EQ, KEYDOT}, func(a map[string]bool) string {
		switch {
		case a[EMPTY] && !a[HP]:
			return "*" // every key has the empty prefix
		case a[EMPTY]:
			return "(true,K)|(true,K[len(P):])" // len(P) is 0 here
		case !a[HP]:
			return `(false,"")`
		case a[LASTDOT]:
			return "(true,K[len(P):])"
		case a[EQ]:
			return `(true,"")`
		case a[KEYDOT]:
			return "(true,K[(len(P) + 1):])"
		}
		return `(false,"")`
	})
	c.judge("C15.scope", "key-matcher", f, t, rows, "prefix matches only at a '.' boundary; the remainder is the key after the boundary")
}

// walkToCombine follows the control flow from edge (from -> to) to the Combine
// call `target`, giving every phi the value of the edge it is entered by and
// taking, at a branch on such a value, the side it decides. It reports the
// combiner the call is made on and the filter constructor executed on the
// way.
func (c *Ctx) walkToCombine(from, to *ssa.BasicBlock, target *ssa.Call, recv ssa.Value, combOf func(ssa.Value) string, kindOf func(ssa.Value) (string, bool)) (comb, kind string, valueOK, reached bool) {
	env := map[ssa.Value]ssa.Value{}
	var get func(v ssa.Value) ssa.Value
	get = func(v ssa.Value) ssa.Value {
		for i := 0; i < 8; i++ {
			nv, ok := env[v]
			if !ok {
				break
			}
			v = nv
		}
		return v
	}
	evalBool := func(v ssa.Value) (bool, bool) {
		neg := false
		for i := 0; i < 4; i++ {
			v = get(v)
			if u, ok := v.(*ssa.UnOp); ok && u.Op == token.NOT {
				neg = !neg
				v = u.X
				continue
			}
			break
		}
		if k, ok := boolConstOf(v); ok {
			return k != neg, true
		}
		return false, false
	}
	canReach := reachesBlock(target.Block())
	prev, cur := from, to
	kind = ""
	for steps := 0; steps < 64; steps++ {
		idx, _ := predIndex(cur, prev)
		for _, in := range cur.Instrs {
			switch x := in.(type) {
			case *ssa.Phi:
				if idx >= 0 && idx < len(x.Edges) {
					env[x] = get(x.Edges[idx])
				}
			case *ssa.Call:
				if x == target {
					return combOf(get(recv)), kind, valueOK, true
				}
				if cal := x.Call.StaticCallee(); cal != nil {
					switch refName(cal) {
					case "PrefixFilter", "RegexpFilter":
						if kind != "" && kind != refName(cal) {
							kind = "?"
						} else {
							kind, valueOK = kindOf(x)
						}
					}
				}
			}
		}
		var next *ssa.BasicBlock
		switch t := cur.Instrs[len(cur.Instrs)-1].(type) {
		case *ssa.Jump:
			next = cur.Succs[0]
		case *ssa.If:
			if k, ok := evalBool(t.Cond); ok {
				if k {
					next = cur.Succs[0]
				} else {
					next = cur.Succs[1]
				}
			} else {
				// undecided (an error test): the side that leads to the call
				for _, sc := range cur.Succs {
					if canReach[sc] && next == nil {
						next = sc
					}
				}
			}
		}
		if next == nil || !canReach[next] {
			return "", "", false, false
		}
		prev, cur = cur, next
	}
	return "", "", false, false
}

// reachesBlock: the blocks from which t can be reached (t included).
func reachesBlock(t *ssa.BasicBlock) map[*ssa.BasicBlock]bool {
	out := map[*ssa.BasicBlock]bool{t: true}
	work := []*ssa.BasicBlock{t}
	for len(work) > 0 {
		b := work[len(work)-1]
		work = work[:len(work)-1]
		for _, p := range b.Preds {
			if !out[p] {
				out[p] = true
				work = append(work, p)
			}
		}
	}
	return out
}

func (c *Ctx) checkAugment() {
	// the function that reads a group's own section: calls GetConfig via the Configger interface with a "refgroup.%s" key and switches on entry keys
	aug := c.augmentFn()
	if aug == nil {
		c.violate("C15.scope", "augment", token.NoPos, "", "no function folds a refgroup's gitconfig entries into its filter")
		return
	}
	name := fnName(aug)
	// section key
	okSection := false
	allInstrs(aug, func(in ssa.Instruction) {
		if call, ok := in.(*ssa.Call); ok {
			prefix := c.getConfigPrefix(call)
			if prefix == nil {
				return
			}
			if c.isGroupSection(prefix) {
				okSection = true
			}
		}
	})
	if okSection {
		c.hold("C15.scope", "augment:section", aug.Pos(), "a group reads the section refgroup.<its own symbol>")
	} else {
		c.violate("C15.scope", "augment:section", aug.Pos(), name, "a group is not augmented from the section refgroup.<its own symbol>")
	}
	type armWant struct{ comb, kind string }
	want := map[string]armWant{
		"include":       {"Include", "PrefixFilter"},
		"includeregexp": {"Include", "RegexpFilter"},
		"exclude":       {"Exclude", "PrefixFilter"},
		"excluderegexp": {"Exclude", "RegexpFilter"},
	}
	seen := map[string]bool{}
	combOf := func(v ssa.Value) string {
		if mi, ok := v.(*ssa.MakeInterface); ok {
			v = mi.X
		}
		if u, ok := v.(*ssa.UnOp); ok {
			if g, ok := u.X.(*ssa.Global); ok {
				return g.Name()
			}
		}
		return ""
	}
	kindOf := func(v ssa.Value) (kind string, valueOK bool) {
		var fc *ssa.Call
		switch x := c.resolve(v).(type) {
		case *ssa.Call:
			fc = x
		case *ssa.Extract:
			fc, _ = x.Tuple.(*ssa.Call)
		}
		if fc != nil && fc.Call.StaticCallee() != nil {
			kind = refName(fc.Call.StaticCallee())
			var isValue func(v ssa.Value, depth int) bool
			isValue = func(v ssa.Value, depth int) bool {
				v = c.resolve(v)
				if phi, isPhi := v.(*ssa.Phi); isPhi && depth < 4 {
					// the same field read in every arm
					for _, e := range phi.Edges {
						if !isValue(e, depth+1) {
							return false
						}
					}
					return len(phi.Edges) > 0
				}
				_, p := c.fieldPath(v)
				return len(p) > 0 && p[len(p)-1] == "Value"
			}
			valueOK = isValue(fc.Call.Args[0], 0)
		}
		return
	}
	literalOn := func(pred, to *ssa.BasicBlock) string {
		if l := c.entryKeyLiteralAt(pred); l != "" {
			return l
		}
		for _, f := range factsOnEdge(pred, to) {
			cond, truth := normCond(f.Cond, f.Truth)
			if cmp, ok := isCmp(cond, token.EQL, token.NEQ); ok && (cmp.Op == token.EQL) == truth {
				if lit, ok := constStr(cmp.Y); ok {
					if _, p := c.fieldPath(c.resolve(cmp.X)); len(p) > 0 && p[len(p)-1] == "Key" {
						return lit
					}
				}
			}
		}
		return ""
	}
	allInstrs(aug, func(in ssa.Instruction) {
		call, ok := in.(*ssa.Call)
		if !ok {
			return
		}
		var recv, farg ssa.Value
		if call.Call.IsInvoke() {
			if mname(call.Call.Method) != "Combine" || len(call.Call.Args) != 2 {
				return
			}
			recv, farg = call.Call.Value, call.Call.Args[1]
		} else {
			cal := call.Call.StaticCallee()
			if cal == nil || refName(cal) != "Combine" || len(call.Call.Args) != 3 {
				return
			}
			recv, farg = call.Call.Args[0], call.Call.Args[2]
		}
		type alt struct {
			lit, comb, kind string
			valueOK         bool
		}
		var alts []alt
		// `combiner, f = Include, PrefixFilter(v)` per arm and one common
		// Combine behind the switch: one alternative per incoming edge
		var pb *ssa.BasicBlock
		for _, v := range []ssa.Value{recv, farg} {
			if phi, isPhi := v.(*ssa.Phi); isPhi {
				pb = phi.Block()
			}
		}
		if pb == nil {
			k, vok := kindOf(farg)
			alts = append(alts, alt{c.entryKeyLiteralAt(call.Block()), combOf(recv), k, vok})
		} else {
			for i, pred := range pb.Preds {
				rv, fv := recv, farg
				if phi, isPhi := recv.(*ssa.Phi); isPhi && phi.Block() == pb {
					rv = phi.Edges[i]
				}
				if phi, isPhi := farg.(*ssa.Phi); isPhi && phi.Block() == pb {
					fv = phi.Edges[i]
				}
				k, vok := kindOf(fv)
				alts = append(alts, alt{literalOn(pred, pb), combOf(rv), k, vok})
			}
		}
		// the arms may set a combiner and a flag only, the filter being built
		// after the switch under that flag: walk from each arm to the call,
		// with the phis taking the values of that arm
		clean := true
		for _, a := range alts {
			if w, known := want[a.lit]; !known || a.comb != w.comb || a.kind != w.kind || !a.valueOK {
				clean = false
			}
		}
		if !clean {
			var walked []alt
			okWalk := true
			for _, b := range aug.Blocks {
				for _, sc := range b.Succs {
					lit := ""
					for _, f := range factsOnEdge(b, sc) {
						cond, truth := normCond(f.Cond, f.Truth)
						if cmp, ok := isCmp(cond, token.EQL, token.NEQ); ok && (cmp.Op == token.EQL) == truth {
							if l, ok := constStr(cmp.Y); ok {
								if _, p := c.fieldPath(c.resolve(cmp.X)); len(p) > 0 && p[len(p)-1] == "Key" {
									lit = l
								}
							}
						}
					}
					if lit == "" || lit == "name" {
						continue
					}
					comb, kind, vok, reached := c.walkToCombine(b, sc, call, recv, combOf, kindOf)
					if !reached {
						continue
					}
					if kind == "?" {
						okWalk = false
					}
					walked = append(walked, alt{lit, comb, kind, vok})
				}
			}
			if okWalk && len(walked) > 0 {
				alts = walked
			}
		}
		for _, a := range alts {
			lit, comb, kind, valueOK := a.lit, a.comb, a.kind, a.valueOK
			w, known := want[lit]
			key := "augment:key:" + lit
			switch {
			case !known:
				c.violate("C15.scope", key, call.Pos(), name, fmt.Sprintf("a filter is extended for the unexpected gitconfig key %q", lit))
			case comb != w.comb || kind != w.kind || !valueOK:
				c.violate("C15.scope", key, call.Pos(), name, fmt.Sprintf("refgroup.<g>.%s is folded with %s over %s(entry value ok=%v); the documented meaning is %s over %s(value)", lit, comb, kind, valueOK, w.comb, w.kind))
			default:
				seen[lit] = true
				c.hold("C15.scope", key, call.Pos(), fmt.Sprintf("%s.Combine(filter, %s(entry.Value))", comb, kind))
			}
		}
	})
	for k := range want {
		if !seen[k] && c.seen("C15.scope", "augment:key:"+k) == nil {
			c.violate("C15.scope", "augment:key:"+k, aug.Pos(), name, "the gitconfig key refgroup.<g>."+k+" is not honoured")
		}
	}
	// every listed entry is looked at: each iteration of the loop over the
	// entries reaches the dispatch on the entry's key (no skipping of
	// repeated or "already seen" entries — a later repetition must re-apply)
	var keyCmps []*ssa.BinOp
	allInstrs(aug, func(in ssa.Instruction) {
		cmp, ok := in.(*ssa.BinOp)
		if !ok || (cmp.Op != token.EQL && cmp.Op != token.NEQ) {
			return
		}
		val := cmp.X
		if _, isC := constStr(cmp.Y); !isC {
			if _, isC2 := constStr(cmp.X); !isC2 {
				return
			}
			val = cmp.Y
		}
		if _, p := c.fieldPath(c.resolve(val)); len(p) > 0 && p[len(p)-1] == "Key" {
			keyCmps = append(keyCmps, cmp)
		}
	})
	var first *ssa.BinOp
	for _, k := range keyCmps {
		dominatesAll := true
		for _, o := range keyCmps {
			if o != k && !instrDominates(k, o) {
				dominatesAll = false
			}
		}
		if dominatesAll {
			first = k
		}
	}
	if first != nil {
		if l := innermostLoop(loopsOf(aug), first.Block()); l != nil {
			ec := c.newEventCounter(func(in ssa.Instruction) int {
				if in == ssa.Instruction(first) {
					return 1
				}
				return 0
			}, false)
			if r := ec.perIteration(l); r.Min == 1 && r.Max == 1 {
				c.hold("C15.scope", "augment:every-entry", first.Pos(), "every entry of the section reaches the dispatch on its key")
			} else {
				c.violate("C15.scope", "augment:every-entry", first.Pos(), name, fmt.Sprintf("an entry of the section reaches the dispatch on its key %s times (must be exactly once): entries can be skipped, so a later include/exclude that repeats an earlier one would not be re-applied in git's listing order", rangeStr(r)))
			}
		}
	}
	// name
	okName := false
	allInstrs(aug, func(in ssa.Instruction) {
		st, ok := in.(*ssa.Store)
		if !ok {
			return
		}
		if fa, ok := st.Addr.(*ssa.FieldAddr); ok && vname(fieldOfAddr(fa).Var) == "Name" && c.entryKeyLiteralAt(st.Block()) == "name" {
			if _, p := c.fieldPath(c.resolve(st.Val)); len(p) > 0 && p[len(p)-1] == "Value" {
				okName = true
			}
		}
	})
	if okName {
		c.hold("C15.scope", "augment:key:name", aug.Pos(), "refgroup.<g>.name sets the display name to the entry's value")
	} else {
		c.violate("C15.scope", "augment:key:name", aug.Pos(), name, "refgroup.<g>.name does not set the group's display name to the entry's exact value")
	}
	// entries are folded in listing order: a plain ascending range over config.Entries
	okOrder := false
	for _, l := range loopsOf(aug) {
		if c.rangeOverField(aug, l, "Entries") {
			okOrder = true
		}
	}
	if okOrder {
		c.hold("C15.scope", "augment:order", aug.Pos(), "entries are folded by an ascending range over Config.Entries (git's order)")
	} else {
		c.violate("C15.scope", "augment:order", aug.Pos(), name, "the group's entries are not folded by a plain ascending loop over Config.Entries")
	}
}

// entryKeyLiteralAt: literal L such that `entry.Key == L` is known at b.
func (c *Ctx) entryKeyLiteralAt(b *ssa.BasicBlock) string {
	for _, f := range factsAt(b) {
		cond, truth := normCond(f.Cond, f.Truth)
		cmp, ok := isCmp(cond, token.EQL, token.NEQ)
		if !ok || (cmp.Op == token.EQL) != truth {
			continue
		}
		lit, ok := constStr(cmp.Y)
		val := cmp.X
		if !ok {
			lit, ok = constStr(cmp.X)
			val = cmp.Y
		}
		if !ok {
			continue
		}
		if _, p := c.fieldPath(c.resolve(val)); len(p) > 0 && p[len(p)-1] == "Key" {
			return lit
		}
	}
	return ""
}

// ruleC15EachGroup: every refgroup symbol that occurs in the listing is
// built from its own section exactly once: the only thing that can stop a
// symbol from being augmented is that this very symbol was handled before.
func ruleC15EachGroup(c *Ctx) {
	// the reader: calls Configger.GetConfig with the constant "refgroup"
	var reader *ssa.Function
	for _, f := range c.ModFns {
		if pkgOf(f) != modPath+"/internal/refopts" {
			continue
		}
		allInstrs(f, func(in ssa.Instruction) {
			if call, ok := in.(*ssa.Call); ok {
				if prefix := c.getConfigPrefix(call); prefix != nil {
					if s, ok := constStr(prefix); ok && s == "refgroup" {
						reader = f
					}
				}
			}
		})
	}
	if reader == nil {
		c.violate("C15.each-group", "reader", token.NoPos, "", "nothing lists the refgroup.* section of gitconfig")
		return
	}
	name := fnName(reader)
	var l *loop
	for _, x := range loopsOf(reader) {
		if c.rangeOverField(reader, x, "Entries") {
			l = x
		}
	}
	if l == nil {
		c.violate("C15.each-group", "loop", reader.Pos(), name, "the refgroup entries are not visited by a loop over Config.Entries")
		return
	}
	// the augment call and the symbol it is made for
	var aug *ssa.Call
	for b := range l.Blocks {
		for _, in := range b.Instrs {
			if call, ok := in.(*ssa.Call); ok {
				if cal := call.Call.StaticCallee(); cal != nil && c.inRuleScope(cal) && cal.Signature.Results().Len() == 1 && isErrorType(cal.Signature.Results().At(0).Type()) {
					aug = call
				}
			}
		}
	}
	// symbol: the RefGroupSymbol-typed value split from the entry key in this iteration
	var symbol ssa.Value
	for b := range l.Blocks {
		for _, in := range b.Instrs {
			if ex, ok := in.(*ssa.Extract); ok && isNamed(ex.Type(), modPath+"/sizes", "RefGroupSymbol") {
				symbol = ex
			}
		}
	}
	// collect first, augment afterwards: the loop over the entries appends
	// the symbol to a list, and a second loop over that list augments each
	// of its elements unconditionally; the append then stands for the call
	var site ssa.Instruction
	if aug == nil && symbol != nil {
		var acc *ssa.Call
		for b := range l.Blocks {
			for _, in := range b.Instrs {
				call, ok := in.(*ssa.Call)
				if !ok || !isBuiltin(&call.Call, "append") {
					continue
				}
				sl, ok := call.Type().Underlying().(*types.Slice)
				if !ok || !isNamed(sl.Elem(), modPath+"/sizes", "RefGroupSymbol") {
					continue
				}
				for _, el := range c.sliceElemValues(call.Call.Args[1]) {
					if el != nil && c.resolve(el) == symbol {
						acc = call
					}
				}
			}
		}
		if acc != nil {
			for _, l2 := range loopsOf(reader) {
				if l2 == l || l.Blocks[l2.Head] || l2.Blocks[l.Head] {
					continue
				}
				overList := false
				var aug2 *ssa.Call
				for b := range l2.Blocks {
					for _, in := range b.Instrs {
						switch x := in.(type) {
						case *ssa.IndexAddr:
							if sl, ok := x.X.Type().Underlying().(*types.Slice); ok && isNamed(sl.Elem(), modPath+"/sizes", "RefGroupSymbol") {
								overList = true
							}
						case *ssa.Call:
							if cal := x.Call.StaticCallee(); cal != nil && c.inRuleScope(cal) && cal.Signature.Results().Len() == 1 && isErrorType(cal.Signature.Results().At(0).Type()) {
								aug2 = x
							}
						}
					}
				}
				if !overList || aug2 == nil {
					continue
				}
				uncond := true
				for _, f := range factsAt(aug2.Block()) {
					if l2.Blocks[f.If.Block()] && f.If.Block() != l2.Head {
						uncond = false
					}
				}
				if uncond {
					aug, site = aug2, acc
				} else {
					c.violate("C15.each-group", "guard", aug2.Pos(), name, "whether a collected group is built from its section depends on a further condition")
					return
				}
			}
		}
	}
	if aug == nil {
		c.violate("C15.each-group", "augment", reader.Pos(), name, "listed groups are not augmented from their own sections")
		return
	}
	if site == nil {
		site = aug
	}
	if symbol == nil {
		c.undecided("C15.each-group", "symbol", aug.Pos(), name, "cannot identify the group symbol derived from the entry key")
		return
	}
	// a "seen" set kept as a slice: an inner loop without side effects that
	// compares the slice's elements with this iteration's symbol
	member := map[*ssa.BasicBlock]bool{}
	for _, il := range loopsOf(reader) {
		if il == l || !l.Blocks[il.Head] || len(il.Blocks) >= len(l.Blocks) {
			continue
		}
		pure, cmpSym := true, false
		for b := range il.Blocks {
			for _, in := range b.Instrs {
				switch x := in.(type) {
				case *ssa.Phi, *ssa.IndexAddr, *ssa.Index, *ssa.If, *ssa.Jump, *ssa.Extract, *ssa.DebugRef:
				case *ssa.UnOp:
					if x.Op == token.ARROW {
						pure = false
					}
				case *ssa.BinOp:
					if (x.Op == token.EQL || x.Op == token.NEQ) && (c.resolve(x.X) == symbol || c.resolve(x.Y) == symbol) {
						cmpSym = true
					}
				case *ssa.Call:
					if !isBuiltin(&x.Call, "len") {
						pure = false
					}
				default:
					pure = false
				}
			}
		}
		if pure && cmpSym {
			for b := range il.Blocks {
				member[b] = true
			}
		}
	}
	// guards of the augment call inside the loop
	bad := ""
	for _, f := range factsAt(site.Block()) {
		if !l.Blocks[f.If.Block()] || f.If.Block() == l.Head || member[f.If.Block()] {
			continue
		}
		cond, truth := normCond(f.Cond, f.Truth)
		switch x := cond.(type) {
		case *ssa.BinOp:
			// symbol == "" false
			if (x.X == symbol || x.Y == symbol) && (x.Op == token.EQL || x.Op == token.NEQ) {
				continue
			}
		case *ssa.Lookup:
			// seen[symbol] false
			if c.resolve(x.Index) == symbol && !truth {
				continue
			}
		case *ssa.Extract:
			if lk, ok := x.Tuple.(*ssa.Lookup); ok && c.resolve(lk.Index) == symbol {
				continue
			}
		}
		bad = strings.TrimSpace(cond.String())
	}
	if bad == "" {
		// conditions that do not dominate the call (`if !a && !b { continue }`)
		// are found on the paths: starting at the loop head and taking, at a
		// test of the symbol itself, only the way on towards the call, the
		// next iteration must not be reachable around the call
		accepted := func(iff *ssa.If) bool {
			if member[iff.Block()] {
				return true
			}
			cond, truth := normCond(iff.Cond, true)
			switch x := cond.(type) {
			case *ssa.BinOp:
				return (x.X == symbol || x.Y == symbol) && (x.Op == token.EQL || x.Op == token.NEQ)
			case *ssa.Lookup:
				_ = truth
				return c.resolve(x.Index) == symbol
			case *ssa.Extract:
				if lk, ok := x.Tuple.(*ssa.Lookup); ok && c.resolve(lk.Index) == symbol {
					return true
				}
			}
			return false
		}
		target := site.Block()
		reach := map[*ssa.BasicBlock]bool{target: true}
		work := []*ssa.BasicBlock{target}
		for len(work) > 0 {
			b := work[len(work)-1]
			work = work[:len(work)-1]
			if b == l.Head {
				continue
			}
			for _, p := range b.Preds {
				if l.Blocks[p] && !reach[p] {
					reach[p] = true
					work = append(work, p)
				}
			}
		}
		seenB := map[*ssa.BasicBlock]bool{l.Head: true}
		work = []*ssa.BasicBlock{l.Head}
		for len(work) > 0 && bad == "" {
			b := work[len(work)-1]
			work = work[:len(work)-1]
			if b == target {
				continue
			}
			succs := b.Succs
			if iff, isIf := b.Instrs[len(b.Instrs)-1].(*ssa.If); isIf && b != l.Head && accepted(iff) {
				var on []*ssa.BasicBlock
				for _, sc := range succs {
					if reach[sc] && sc != l.Head {
						on = append(on, sc)
					}
				}
				if len(on) > 0 {
					succs = on
				}
			}
			for _, sc := range succs {
				if sc == l.Head && b != l.Head {
					bad = "the call is skipped on a path through " + b.String()
					if iff, isIf := b.Instrs[len(b.Instrs)-1].(*ssa.If); isIf {
						bad = strings.TrimSpace(iff.Cond.String())
					} else if len(b.Preds) > 0 {
						if iff, isIf := b.Preds[0].Instrs[len(b.Preds[0].Instrs)-1].(*ssa.If); isIf {
							bad = strings.TrimSpace(iff.Cond.String())
						}
					}
					break
				}
				if l.Blocks[sc] && !seenB[sc] {
					seenB[sc] = true
					work = append(work, sc)
				}
			}
		}
	}
	if bad != "" {
		c.violate("C15.each-group", "guard", aug.Pos(), name, "whether a listed group is built from its section depends on a further condition ("+bad+")")
	} else {
		c.hold("C15.each-group", "guard", aug.Pos(), "a listed symbol is augmented unless it is empty or this very symbol was handled before")
	}
	// the seen-set is only ever extended with this iteration's symbol
	okSeen := true
	nUpd := 0
	allInstrs(reader, func(in ssa.Instruction) {
		mu, ok := in.(*ssa.MapUpdate)
		if !ok {
			return
		}
		if _, isBoolMap := mu.Value.Type().Underlying().(*types.Basic); !isBoolMap {
			return
		}
		nUpd++
		if c.resolve(mu.Key) != symbol {
			okSeen = false
			c.violate("C15.each-group", "seen-key", mu.Pos(), name, "a symbol other than the one just handled is marked as done: that group's own entries (e.g. a parent listed after its subgroup) would never be read")
		}
	})
	// … or, when it is a slice, only ever appended this iteration's symbol
	allInstrs(reader, func(in ssa.Instruction) {
		call, ok := in.(*ssa.Call)
		if !ok || !isBuiltin(&call.Call, "append") || len(member) == 0 {
			return
		}
		sl, ok := call.Type().Underlying().(*types.Slice)
		if !ok || !isNamed(sl.Elem(), modPath+"/sizes", "RefGroupSymbol") {
			return
		}
		nUpd++
		for _, el := range c.sliceElemValues(call.Call.Args[1]) {
			if el != nil && c.resolve(el) != symbol {
				okSeen = false
				c.violate("C15.each-group", "seen-key", call.Pos(), name, "a symbol other than the one just handled is marked as done: that group's own entries (e.g. a parent listed after its subgroup) would never be read")
			}
		}
	})
	if okSeen && nUpd > 0 {
		c.hold("C15.each-group", "seen-key", aug.Pos(), "only the symbol just handled is marked as done")
	}
}

// gitCommandForcedEnv: names of the variables GitCommand appends to the child environment.
func (c *Ctx) gitCommandForcedEnv() []string {
	gc := c.fn("/git", "*Repository", "GitCommand")
	if gc == nil {
		return nil
	}
	var out []string
	allInstrs(gc, func(in ssa.Instruction) {
		st, ok := in.(*ssa.Store)
		if !ok {
			return
		}
		fa, ok := st.Addr.(*ssa.FieldAddr)
		if !ok || vname(fieldOfAddr(fa).Var) != "Env" {
			return
		}
		_, chain := c.appendChain(st.Val, 0)
		for _, ce := range chain {
			if ce.Val == nil {
				continue
			}
			if n, ok := envVarName(ce.Val); ok {
				out = append(out, n)
			}
		}
	})
	return out
}

// checkTreeEntryExact: the entry handed out carries the name bytes exactly as
// they stand in the tree (a re-slice of the cursor up to the NUL), the mode
// parsed from the bytes before the SP, and the id copied from the 20 bytes
// after the NUL; nothing is transformed on the way.
func (c *Ctx) checkTreeEntryExact() {
	next := c.fn("/git", "*TreeIter", "NextEntry")
	if next == nil {
		return
	}
	name := fnName(next)
	var nameStore *ssa.Store
	allInstrs(next, func(in ssa.Instruction) {
		if st, ok := in.(*ssa.Store); ok {
			if fa, ok := st.Addr.(*ssa.FieldAddr); ok {
				fi := fieldOfAddr(fa)
				if fi.Struct != nil && tname(fi.Struct.Obj()) == "TreeEntry" && vname(fi.Var) == "Name" {
					nameStore = st
				}
			}
		}
	})
	var nameVal ssa.Value
	if nameStore != nil {
		nameVal = nameStore.Val
	} else {
		// built in a composite literal at the return
		for _, ret := range returnsOf(next) {
			if len(ret.Results) == 0 {
				continue
			}
			if u, ok := ret.Results[0].(*ssa.UnOp); ok {
				if al, ok := u.X.(*ssa.Alloc); ok {
					for _, r := range *al.Referrers() {
						if fa, ok := r.(*ssa.FieldAddr); ok && vname(fieldOfAddr(fa).Var) == "Name" {
							for _, st := range storesTo(fa) {
								nameVal = st.Val
							}
						}
					}
				}
			}
		}
	}
	if nameVal == nil {
		c.violate("C16.grammar", "tree:name-exact", next.Pos(), name, "the entry's Name is never set from the tree data")
		return
	}
	v := c.resolve(nameVal)
	sl, ok := v.(*ssa.Slice)
	okExact := false
	if ok && sl.Low == nil && sl.High != nil {
		if call, ok := c.resolve(sl.High).(*ssa.Call); ok {
			if sep, ok := c.sepOfIndexCall(call); ok && sep == 0 {
				// the slice is taken from the very string the NUL was searched in
				okExact = true
			}
		}
	}
	// `name, rest, ok := strings.Cut(cursor, "\x00")`: the part before the NUL
	if ex, isEx := v.(*ssa.Extract); isEx && ex.Index == 0 {
		if call, isCall := ex.Tuple.(*ssa.Call); isCall {
			if q := calleeQ(&call.Call); q == "strings.Cut" || q == "bytes.Cut" {
				if sep, ok := c.sepByte(call.Call.Args[1]); ok && sep == 0 {
					c.hold("C16.grammar", "tree:name-exact", call.Pos(), "Name = the part of the cursor before the NUL (Cut): the name bytes exactly as stored")
					return
				}
			}
		}
	}
	if okExact {
		c.hold("C16.grammar", "tree:name-exact", posOf(sl), "Name = cursor[:index of NUL]: the name bytes exactly as stored")
	} else {
		c.violate("C16.grammar", "tree:name-exact", nameVal.Pos(), name, "the entry name handed out is not the byte range before the NUL as it stands in the tree (it is transformed, e.g. re-encoded): names would no longer have their stored bytes and lengths")
	}
}

// sepByte: v is a one-byte separator: a byte constant, a one-character
// string constant (possibly converted to []byte), or a literal []byte{c}.
// sepBytes: the constant bytes of a separator given as a string constant, a
// conversion of one, or a byte-slice literal.
func (c *Ctx) sepBytes(v ssa.Value) (string, bool) {
	sv := c.resolve(v)
	if cv, ok := sv.(*ssa.Convert); ok {
		sv = cv.X
	}
	if s, ok := constStr(sv); ok {
		return s, true
	}
	vals := c.sliceElemValues(sv)
	if len(vals) == 0 {
		return "", false
	}
	out := make([]byte, 0, len(vals))
	for _, e := range vals {
		if e == nil {
			return "", false
		}
		k, ok := constInt(e)
		if !ok || k < 0 || k > 255 {
			return "", false
		}
		out = append(out, byte(k))
	}
	return string(out), true
}

func (c *Ctx) sepByte(v ssa.Value) (int64, bool) {
	if k, ok := constInt(v); ok {
		return k, true
	}
	sv := c.resolve(v)
	if cv, ok := sv.(*ssa.Convert); ok {
		sv = cv.X
	}
	if s, ok := constStr(sv); ok && len(s) == 1 {
		return int64(s[0]), true
	}
	if vals := c.sliceElemValues(sv); len(vals) == 1 && vals[0] != nil {
		if k, ok := constInt(vals[0]); ok {
			return k, true
		}
	}
	return 0, false
}

func ruleC15LastDot(c *Ctx) { lastDotRule(c, "C15.each-group") }

// ruleC16OIDLength: every function of package git that turns variable-length
// input into an OID succeeds only after comparing that input's length with
// the id length (or delegates to a function that does).
func ruleC16OIDLength(c *Ctx) {
	oidT := c.namedType("/git", "OID")
	if oidT == nil {
		c.violate("C16.formats", "oid-length", token.NoPos, "", "type git.OID not found")
		return
	}
	var L int64 = -1
	if st, ok := oidT.Underlying().(*types.Struct); ok && st.NumFields() == 1 {
		if a, ok := st.Field(0).Type().Underlying().(*types.Array); ok {
			L = a.Len()
		}
	}
	n := 0
	for _, f := range c.ModFns {
		if pkgOf(f) != modPath+"/git" || f.Parent() != nil || f.Signature.Recv() != nil {
			continue
		}
		sig := f.Signature
		if sig.Results().Len() != 2 || !types.Identical(sig.Results().At(0).Type(), oidT) || !isErrorType(sig.Results().At(1).Type()) || sig.Params().Len() != 1 {
			continue
		}
		pt := sig.Params().At(0).Type()
		if !isStringish(pt) {
			continue
		}
		n++
		name := fnName(f)
		bad := false
		for _, ret := range returnsOf(f) {
			success := false
			for _, v := range c.resultValues(ret, 1) {
				if isNilConst(v) {
					success = true
				}
			}
			if !success {
				continue // error return, or the results of a delegate are passed on
			}
			okLen := guardedBy(ret.Block(), func(cond ssa.Value, truth bool) bool {
				cmp, ok := isCmp(cond, token.EQL, token.NEQ)
				if !ok || (cmp.Op == token.EQL) != truth {
					return false
				}
				lenSide, constSide := cmp.X, cmp.Y
				if _, isCall := lenSide.(*ssa.Call); !isCall {
					lenSide, constSide = cmp.Y, cmp.X
				}
				l, ok := lenSide.(*ssa.Call)
				if !ok || !isBuiltin(&l.Call, "len") {
					return false
				}
				k, ok := constInt(constSide)
				if !ok {
					// hex.EncodedLen(20) / hex.DecodedLen(40)
					if cl, isCall := constSide.(*ssa.Call); isCall && len(cl.Call.Args) == 1 {
						if a, isC := constInt(cl.Call.Args[0]); isC {
							switch calleeQ(&cl.Call) {
							case "encoding/hex.EncodedLen":
								k, ok = 2*a, true
							case "encoding/hex.DecodedLen":
								k, ok = a/2, true
							}
						}
					}
				}
				return ok && (k == L || k == 2*L)
			})
			if !okLen {
				bad = true
				c.violate("C16.formats", "oid-length:"+name, ret.Pos(), name, fmt.Sprintf("%s can succeed without having compared the length of its input with the object id length (%d bytes / %d hex digits): a longer input indexes past the id array (panic), a shorter one is accepted zero-padded", f.Name(), L, 2*L))
			}
		}
		if !bad {
			c.hold("C16.formats", "oid-length:"+name, f.Pos(), "succeeds only after the length test, or passes on the result of a function that makes it")
		}
	}
	if n == 0 {
		c.notDecided("C16.formats", "oid-length", token.NoPos, "no function of package git builds an OID from a string or byte slice")
	}
}

// ruleC16HeaderLoops: ObjectHeaderIter.Next does not advance when it fails,
// so a loop `for iter.HasNext()` that goes on after a failed Next never ends.
// On the non-nil edge of Next's error no path may lead back to the loop head.
func ruleC16HeaderLoops(c *Ctx) {
	next := c.fn("/git", "*ObjectHeaderIter", "Next")
	if next == nil {
		return
	}
	n := 0
	for _, ci := range c.Callers[next] {
		call, ok := ci.(*ssa.Call)
		if !ok {
			continue
		}
		f := call.Parent()
		l := innermostLoop(loopsOf(f), call.Block())
		if l == nil {
			continue
		}
		n++
		var errV ssa.Value
		for _, r := range *call.Referrers() {
			if ex, ok := r.(*ssa.Extract); ok && isErrorType(ex.Type()) {
				errV = ex
			}
		}
		key := "header-loop:" + fnName(f)
		if errV == nil {
			c.violate("C16.progress", key, call.Pos(), fnName(f), "the error of ObjectHeaderIter.Next is not looked at inside a loop over the headers: on malformed input the iterator does not advance and the loop never ends")
			continue
		}
		// blocks where err != nil is known and from which the loop head is reachable without leaving the loop
		stuck := false
		for b := range l.Blocks {
			nonNil := false
			for _, fct := range factsAt(b) {
				cond, truth := normCond(fct.Cond, fct.Truth)
				if m, isNil := errNilFact(cond, truth, errV); m && !isNil {
					nonNil = true
				}
			}
			if !nonNil {
				continue
			}
			// b is on the failure branch and still inside the loop: can it reach the head?
			seen := map[*ssa.BasicBlock]bool{}
			st := []*ssa.BasicBlock{b}
			for len(st) > 0 {
				x := st[len(st)-1]
				st = st[:len(st)-1]
				if seen[x] {
					continue
				}
				seen[x] = true
				for _, s := range x.Succs {
					if s == l.Head {
						stuck = true
					}
					if l.Blocks[s] {
						st = append(st, s)
					}
				}
			}
		}
		// all headers are read: the loop is left only when the iterator has
		// no more headers, or with an error
		hasNext := c.fn("/git", "*ObjectHeaderIter", "HasNext")
		for b := range l.Blocks {
			for _, sc := range b.Succs {
				if l.Blocks[sc] {
					continue
				}
				legit := false
				for _, fct := range append(factsAt(b), factsOnEdge(b, sc)...) {
					cond, truth := normCond(fct.Cond, fct.Truth)
					if hc, isCall := cond.(*ssa.Call); isCall && !truth && hasNext != nil && hc.Call.StaticCallee() == hasNext {
						legit = true
					}
					if ex, isEx := cond.(*ssa.Extract); isEx && !truth && ex.Tuple == ssa.Value(call) && isBoolType(ex.Type()) {
						legit = true
					}
					if m, isNil := errNilFact(cond, truth, errV); m && !isNil {
						legit = true
					}
				}
				if !legit {
					if isErr, _ := c.edgeLeavesWithError(b, sc); isErr {
						legit = true
					}
				}
				if legit {
					continue
				}
				c.violate("C16.grammar", "header-loop-exit:"+fnName(f), b.Instrs[len(b.Instrs)-1].Pos(), fnName(f), "the loop over an object's headers can be left before the headers are exhausted (and without an error): headers that follow are not parsed, so the object is not what git stored")
			}
		}
		if stuck {
			c.violate("C16.progress", key, call.Pos(), fnName(f), "after ObjectHeaderIter.Next reports an error the loop continues: Next does not advance on failure, so the same malformed line is read forever")
		} else {
			c.hold("C16.progress", key, call.Pos(), "a failed Next leaves the loop")
		}
	}
	if n < 2 {
		c.notDecided("C16.progress", "header-loops", token.NoPos, fmt.Sprintf("%d loops call ObjectHeaderIter.Next (commit and tag parsers expected)", n))
	}
}

// recordAligned: v is the listing itself, or a tail of an aligned value that
// starts right after a NUL.
func (c *Ctx) recordAligned(v ssa.Value, cursor *ssa.Phi, depth int) (bool, string) {
	if depth > 8 {
		return false, "value chain too deep"
	}
	if v == ssa.Value(cursor) {
		return true, ""
	}
	v = c.resolve(v)
	if v == ssa.Value(cursor) {
		return true, ""
	}
	switch x := v.(type) {
	case *ssa.Extract:
		call, ok := x.Tuple.(*ssa.Call)
		if !ok {
			return false, "not the listing"
		}
		q := calleeQ(&call.Call)
		if (q == "(*os/exec.Cmd).Output" || q == "(*os/exec.Cmd).CombinedOutput") && x.Index == 0 {
			return true, ""
		}
		if (q == "bytes.Cut" || q == "strings.Cut") && x.Index == 1 {
			if sep, ok := c.sepByte(call.Call.Args[1]); ok && sep == 0 {
				return c.recordAligned(call.Call.Args[0], cursor, depth+1)
			}
			return false, "cut at a byte other than NUL"
		}
		return false, "result of " + q
	case *ssa.Phi:
		for _, e := range x.Edges {
			if ok, why := c.recordAligned(e, cursor, depth+1); !ok {
				return false, why
			}
		}
		return true, ""
	case *ssa.Convert:
		return c.recordAligned(x.X, cursor, depth+1)
	case *ssa.Slice:
		if x.High != nil {
			return false, "a bounded sub-slice"
		}
		if ok, why := c.recordAligned(x.X, cursor, depth+1); !ok {
			return false, why
		}
		if x.Low == nil {
			return true, ""
		}
		if k, ok := constInt(x.Low); ok && k == 0 {
			return true, ""
		}
		// low = IndexByte(base, 0) + 1
		if bo, ok := x.Low.(*ssa.BinOp); ok && bo.Op == token.ADD {
			if k, ok := constInt(bo.Y); ok && k == 1 {
				if call, ok := bo.X.(*ssa.Call); ok {
					if sep, ok := c.sepOfIndexCall(call); ok && sep == 0 && !strings.Contains(calleeQ(&call.Call), ".Last") {
						return true, ""
					}
				}
			}
		}
		return false, "re-sliced at " + c.pos(x.Pos()) + " at an offset that is not (index of NUL)+1"
	}
	return false, fmt.Sprintf("%T", v)
}

// getConfigPrefix: call lists a gitconfig section, through the Configger
// interface or on the repository directly; returns the section argument.
func (c *Ctx) getConfigPrefix(call *ssa.Call) ssa.Value {
	if call.Call.IsInvoke() {
		if mname(call.Call.Method) == "GetConfig" && len(call.Call.Args) == 1 {
			return call.Call.Args[0]
		}
		return nil
	}
	if get := c.fn("/git", "*Repository", "GetConfig"); get != nil && call.Call.StaticCallee() == get && len(call.Call.Args) == 2 {
		return call.Call.Args[1]
	}
	return nil
}

// augmentFn: the function that folds a group's own gitconfig section into
// its filter: it lists the section `refgroup.<symbol>` (or, failing that
// description, it is the refopts function with the four Combine calls).
func (c *Ctx) augmentFn() *ssa.Function {
	var bySection, byCombine *ssa.Function
	for _, f := range c.ModFns {
		if pkgOf(f) != modPath+"/internal/refopts" {
			continue
		}
		n := 0
		allInstrs(f, func(in ssa.Instruction) {
			call, ok := in.(*ssa.Call)
			if !ok {
				return
			}
			if cal := call.Call.StaticCallee(); cal != nil && refName(cal) == "Combine" {
				n++
			}
			if prefix := c.getConfigPrefix(call); prefix != nil {
				if c.isGroupSection(prefix) {
					bySection = rootFn(f)
				}
			}
		})
		if n >= 4 {
			byCombine = f
		}
	}
	if bySection != nil {
		return bySection
	}
	return byCombine
}

// isGroupSection: v is the section name of one group, "refgroup." followed
// by the group's symbol (Sprintf("refgroup.%s", sym) or "refgroup." + sym).
func (c *Ctx) isGroupSection(v ssa.Value) bool {
	switch x := c.resolve(v).(type) {
	case *ssa.Call:
		if calleeQ(&x.Call) == "fmt.Sprintf" {
			f, ok := constStr(x.Call.Args[0])
			return ok && f == "refgroup.%s"
		}
	case *ssa.BinOp:
		if x.Op == token.ADD {
			l, ok := constStr(x.X)
			_, rightConst := constStr(x.Y)
			return ok && l == "refgroup." && !rightConst
		}
	}
	return false
}
