package main

import (
	"fmt"
	"go/constant"
	"go/token"
	"go/types"
	"strings"

	"golang.org/x/tools/go/ssa"
)

func init() {
	register("C13",
		"Structural necessary conditions of C13 decided from /repo's SSA: (spawn) every process is started through (*Repository).GitCommand except the one rev-parse --git-dir discovery call; (isolation) GitCommand puts --no-replace-objects before the caller's arguments and sets cmd.Env = os.Environ() + GIT_DIR=<repo.gitDir> + GIT_GRAFT_FILE=<os.DevNull> with nothing after them, and nobody else rewrites an exec.Cmd's Env/Args/Path/Dir; (shallow) every non-nil *Repository returned by a constructor is dominated by the IsFull()==true, err==nil edges and IsFull tests the path `rev-parse --git-path shallow`; (gitdir) the gitDir field is written only at construction and, on every path, with a value derived from the standard output of `git -C <path> rev-parse --git-dir` (no shortcut that guesses the directory). Not decided: equality of reports across addressing modes, git's own handling of these flags.",
		[]string{"git honours --no-replace-objects, GIT_GRAFT_FILE and GIT_DIR as documented", "os/exec passes Env and Args unchanged to the child", "later duplicates in Env win (os/exec dedupEnv)"},
		ruleC13Spawn, ruleC13Isolation, ruleC13Shallow, ruleC13GitDir, ruleC13StartDir)
}

const pipeCommandQ = pipePkg + ".Command"

// ruleC13Spawn: who may spawn.
func ruleC13Spawn(c *Ctx) {
	gitCommand := c.fn("/git", "*Repository", "GitCommand")
	if gitCommand == nil {
		c.violate("C13.spawn", "GitCommand", token.NoPos, "", "exported method (*git.Repository).GitCommand not found: the single place where git is started with the isolation flags is gone")
		return
	}
	n := 0
	for _, s := range c.spawnTable() {
		if s.Kind == "GitCommand" {
			n++
			key := fmt.Sprintf("%s:git %s", fnName(s.Fn), strings.Join(s.Argv, " "))
			if !s.ArgOK {
				c.undecided("C13.spawn", key, s.Call.Pos(), fnName(s.Fn), "argv of GitCommand call is not a literal argument list")
				continue
			}
			c.present("C13.spawn", key, s.Call.Pos(), "goes through GitCommand")
			continue
		}
		key := fmt.Sprintf("%s:%s %s", fnName(s.Fn), s.Kind, strings.Join(s.Argv, " "))
		if s.Fn == gitCommand {
			c.hold("C13.spawn", key, s.Call.Pos(), "the exec.Command inside GitCommand itself")
			continue
		}
		// exception: repository discovery `git -C <path> rev-parse --git-dir`
		if s.Kind == "exec.Command" && pkgOf(s.Fn) == modPath+"/git" && s.ArgOK &&
			strings.Join(s.Argv, " ") == "-C <dyn> rev-parse --git-dir" {
			c.exception("C13.spawn", key, s.Call.Pos(), "locates the repository before a Repository exists; reads no objects")
			continue
		}
		c.violate("C13.spawn", key, s.Call.Pos(), fnName(s.Fn), "process started outside (*Repository).GitCommand: it does not get --no-replace-objects / GIT_GRAFT_FILE / GIT_DIR", "argv: "+strings.Join(s.Argv, " "))
	}
	// go-pipe's own spawning constructor bypasses GitCommand as well
	for _, f := range c.ModFns {
		allInstrs(f, func(in ssa.Instruction) {
			if cal := calleeOf(in); cal != nil && cal.String() == pipeCommandQ {
				c.violate("C13.spawn", fnName(f)+":pipe.Command", in.Pos(), fnName(f), "pipe.Command starts a process without going through GitCommand")
			}
		})
	}
	c.Stats["call_sites"] += len(c.spawnTable())
	c.floor("C13.spawn", 11, "process-spawning call sites (10 GitCommand + discovery + GitCommand's own exec)")
}

// ruleC13Isolation: the shape of GitCommand.
func ruleC13Isolation(c *Ctx) {
	gitCommand := c.fn("/git", "*Repository", "GitCommand")
	if gitCommand == nil {
		return
	}
	name := fnName(gitCommand)
	var execCall ssa.CallInstruction
	var argv []string
	for _, s := range c.spawnTable() {
		if s.Fn == gitCommand && s.Kind == "exec.Command" {
			if execCall != nil {
				c.undecided("C13.isolation", "single-exec", s.Call.Pos(), name, "GitCommand contains more than one exec.Command")
			}
			execCall, argv = s.Call, s.Argv
		}
	}
	if execCall == nil {
		c.violate("C13.isolation", "exec", gitCommand.Pos(), name, "GitCommand no longer builds its command with exec.Command")
		return
	}
	// argv: --no-replace-objects before the caller's arguments
	iNo, iArgs := -1, -1
	for i, a := range argv {
		if a == "--no-replace-objects" && iNo < 0 {
			iNo = i
		}
		if a == "<args...>" && iArgs < 0 {
			iArgs = i
		}
	}
	switch {
	case iArgs < 0:
		c.violate("C13.isolation", "argv:caller-args", execCall.Pos(), name, "the caller's arguments are not appended to the fixed prefix", "argv: "+strings.Join(argv, " "))
	case iNo < 0 || iNo > iArgs:
		c.violate("C13.isolation", "argv:--no-replace-objects", execCall.Pos(), name, "--no-replace-objects does not precede the caller's arguments: replace references would change what is traversed", "argv: "+strings.Join(argv, " "))
	default:
		c.hold("C13.isolation", "argv:--no-replace-objects", execCall.Pos(), "argv: "+strings.Join(argv, " "))
	}
	for i, a := range argv {
		// no fixed element may re-enable replacement or pick another repository
		if a == "--replace-objects" || strings.HasPrefix(a, "--git-dir") || a == "-C" || strings.HasPrefix(a, "--work-tree") || strings.HasPrefix(a, "--namespace") {
			c.violate("C13.isolation", "argv:"+a, execCall.Pos(), name, fmt.Sprintf("fixed argument %q (#%d) redirects or re-enables what the isolation flags switch off", a, i))
		}
	}
	// the binary is the receiver's gitBin field
	if len(execCall.Common().Args) > 0 {
		if !c.isLoadOfRecvField(execCall.Common().Args[0], gitCommand) {
			c.undecided("C13.isolation", "binary", execCall.Pos(), name, "the program started is not a field of the receiver")
		} else {
			c.hold("C13.isolation", "binary", execCall.Pos(), "program is a field of the receiver")
		}
	}
	// returned value is that command
	cmdVal, _ := execCall.(*ssa.Call)
	for _, r := range returnsOf(gitCommand) {
		if len(r.Results) != 1 || c.resolve(r.Results[0]) != ssa.Value(cmdVal) {
			c.undecided("C13.isolation", "returns-cmd", r.Pos(), name, "GitCommand returns something other than the command it configured")
		}
	}
	// Env: exactly one store to cmd.Env, = append(os.Environ(), GIT_DIR=.., GIT_GRAFT_FILE=..)
	var envStores []*ssa.Store
	allInstrs(gitCommand, func(in ssa.Instruction) {
		st, ok := in.(*ssa.Store)
		if !ok {
			return
		}
		fa, ok := st.Addr.(*ssa.FieldAddr)
		if !ok {
			return
		}
		fi := fieldOfAddr(fa)
		if fi.Struct != nil && isNamed(fi.Struct, "os/exec", "Cmd") {
			switch vname(fi.Var) {
			case "Env":
				envStores = append(envStores, st)
			default:
				c.undecided("C13.isolation", "cmd."+vname(fi.Var), st.Pos(), name, "GitCommand writes exec.Cmd."+vname(fi.Var)+", which the isolation rule does not model")
			}
		}
	})
	if len(envStores) != 1 {
		c.violate("C13.isolation", "env:store", gitCommand.Pos(), name, fmt.Sprintf("expected exactly one assignment to cmd.Env in GitCommand, found %d: without it GIT_DIR/GIT_GRAFT_FILE are not forced", len(envStores)))
		return
	}
	st := envStores[0]
	if fa := st.Addr.(*ssa.FieldAddr); c.resolve(fa.X) != ssa.Value(cmdVal) {
		c.undecided("C13.isolation", "env:target", st.Pos(), name, "cmd.Env is assigned on a command other than the one returned")
	}
	base, chain := c.appendChain(st.Val, 0)
	if len(chain) == 0 {
		c.violate("C13.isolation", "env:shape", st.Pos(), name, "cmd.Env is not os.Environ() followed by the forced variables")
		return
	}
	isEnviron := func(v ssa.Value) bool {
		bc, ok := c.resolve(v).(*ssa.Call)
		return ok && calleeQ(&bc.Call) == "os.Environ"
	}
	// the sequence of pieces cmd.Env is made of: append(os.Environ(), …) or
	// an empty slice to which os.Environ()... is appended first
	switch {
	case isEnviron(base):
		c.hold("C13.isolation", "env:base", st.Pos(), "append(os.Environ(), …)")
	case isEmptySliceBase(base) && chain[0].Spread != nil && isEnviron(chain[0].Spread):
		c.hold("C13.isolation", "env:base", st.Pos(), "an empty slice, then os.Environ()..., then the forced variables")
		chain = chain[1:]
	default:
		c.violate("C13.isolation", "env:base", st.Pos(), name, "cmd.Env does not start from os.Environ(): the forced variables must come after the inherited ones so that they win")
	}
	var elems []ssa.Value
	for _, ce := range chain {
		if ce.Spread != nil {
			if isEnviron(ce.Spread) {
				c.violate("C13.isolation", "env:order", st.Pos(), name, "the inherited environment is appended after the forced variables: an inherited GIT_DIR/GIT_GRAFT_FILE would win")
				continue
			}
			c.undecided("C13.isolation", "env:spread", st.Pos(), name, "cmd.Env receives a slice of variables that is not a literal list")
			continue
		}
		elems = append(elems, ce.Val)
	}
	devNull := c.osDevNull()
	var haveDir, haveGraft bool
	seenVars := map[string]int{}
	for i, e := range elems {
		varName, ok := envVarName(e)
		if !ok {
			c.undecided("C13.isolation", fmt.Sprintf("env:elem%d", i), st.Pos(), name, "environment entry is not of the form \"NAME=\"+value")
			continue
		}
		seenVars[varName]++
		switch varName {
		case "GIT_DIR":
			bo, _ := e.(*ssa.BinOp)
			if bo != nil && c.isLoadOfRecvField(bo.Y, gitCommand) {
				haveDir = true
				c.hold("C13.isolation", "env:GIT_DIR", st.Pos(), "GIT_DIR=<field of the receiver>")
			} else {
				c.violate("C13.isolation", "env:GIT_DIR", st.Pos(), name, "GIT_DIR is not set to the receiver's git directory")
			}
		case "GIT_GRAFT_FILE":
			s, isConst := constStr(e)
			if isConst && devNull != "" && s == "GIT_GRAFT_FILE="+devNull {
				haveGraft = true
				c.hold("C13.isolation", "env:GIT_GRAFT_FILE", st.Pos(), s)
			} else {
				c.violate("C13.isolation", "env:GIT_GRAFT_FILE", st.Pos(), name, "GIT_GRAFT_FILE is not os.DevNull: a graft file could add, drop or redirect parent edges")
			}
		case "GIT_REPLACE_REF_BASE", "GIT_NO_REPLACE_OBJECTS", "GIT_OBJECT_DIRECTORY", "GIT_ALTERNATE_OBJECT_DIRECTORIES", "GIT_NAMESPACE", "GIT_SHALLOW_FILE", "GIT_COMMON_DIR", "GIT_WORK_TREE", "GIT_INDEX_FILE", "GIT_CEILING_DIRECTORIES", "GIT_DISCOVERY_ACROSS_FILESYSTEM":
			c.violate("C13.isolation", "env:"+varName, st.Pos(), name, "forced environment variable "+varName+" changes which objects git sees")
		default:
			c.present("C13.isolation", "env:"+varName, st.Pos(), "additional forced variable")
		}
	}
	for v, n := range seenVars {
		if n > 1 {
			c.violate("C13.isolation", "env:dup:"+v, st.Pos(), name, "variable "+v+" is forced twice; the later entry wins")
		}
	}
	if !haveDir {
		c.violate("C13.isolation", "env:GIT_DIR", st.Pos(), name, "GIT_DIR=<repo.gitDir> is missing from cmd.Env: the child may measure another repository")
	}
	if !haveGraft {
		c.violate("C13.isolation", "env:GIT_GRAFT_FILE", st.Pos(), name, "GIT_GRAFT_FILE=<os.DevNull> is missing from cmd.Env: graft files would be honoured")
	}
	// nobody else rewrites a command's Env/Args/Path/Dir
	for _, f := range c.ModFns {
		if f == gitCommand {
			continue
		}
		allInstrs(f, func(in ssa.Instruction) {
			st, ok := in.(*ssa.Store)
			if !ok {
				return
			}
			if fa, ok := st.Addr.(*ssa.FieldAddr); ok {
				fi := fieldOfAddr(fa)
				if fi.Struct != nil && isNamed(fi.Struct, "os/exec", "Cmd") {
					switch vname(fi.Var) {
					case "Env", "Args", "Path", "Dir":
						c.violate("C13.isolation", fnName(f)+":cmd."+vname(fi.Var), st.Pos(), fnName(f), "exec.Cmd."+vname(fi.Var)+" is rewritten outside GitCommand, after the isolation settings were applied")
					}
				}
			}
		})
	}
}

func envVarName(e ssa.Value) (string, bool) {
	if s, ok := constStr(e); ok {
		if i := strings.IndexByte(s, '='); i > 0 {
			return s[:i], true
		}
		return "", false
	}
	if bo, ok := e.(*ssa.BinOp); ok && bo.Op == token.ADD {
		if s, ok := constStr(bo.X); ok && strings.HasSuffix(s, "=") && strings.Count(s, "=") == 1 {
			return strings.TrimSuffix(s, "="), true
		}
	}
	return "", false
}

// isLoadOfRecvField: v is a load of a field of f's receiver (first param).
func (c *Ctx) isLoadOfRecvField(v ssa.Value, f *ssa.Function) bool {
	// a getter of the receiver: repo.GitDir() whose every return is a field of its receiver
	if call, ok := c.resolve(v).(*ssa.Call); ok && len(f.Params) > 0 {
		g := call.Call.StaticCallee()
		if g != nil && c.inRuleScope(g) && len(g.Blocks) > 0 && len(call.Call.Args) == 1 && c.resolve(call.Call.Args[0]) == ssa.Value(f.Params[0]) {
			rets := returnsOf(g)
			if len(rets) == 0 {
				return false
			}
			for _, r := range rets {
				if len(r.Results) != 1 || !c.isLoadOfRecvField(r.Results[0], g) {
					return false
				}
			}
			return true
		}
		return false
	}
	u, ok := c.resolve(v).(*ssa.UnOp)
	if !ok || u.Op != token.MUL {
		return false
	}
	fa, ok := u.X.(*ssa.FieldAddr)
	if !ok || len(f.Params) == 0 {
		return false
	}
	return c.resolve(fa.X) == ssa.Value(f.Params[0])
}

func (c *Ctx) osDevNull() string {
	for _, p := range c.Pkgs {
		_ = p
	}
	var found string
	seen := map[string]bool{}
	var visit func(p *types.Package)
	visit = func(p *types.Package) {
		if seen[p.Path()] || found != "" {
			return
		}
		seen[p.Path()] = true
		if p.Path() == "os" {
			if k, ok := p.Scope().Lookup("DevNull").(*types.Const); ok {
				found = constant.StringVal(k.Val())
			}
			return
		}
		for _, q := range p.Imports() {
			visit(q)
		}
	}
	for _, p := range c.ModPkgs {
		visit(p.Types)
	}
	return found
}

// ruleC13Shallow: every constructed Repository passed the full-clone test.
func ruleC13Shallow(c *Ctx) {
	repoT := c.namedType("/git", "Repository")
	isFull := c.fn("/git", "*Repository", "IsFull")
	if repoT == nil {
		c.violate("C13.shallow", "Repository", token.NoPos, "", "type git.Repository not found")
		return
	}
	if isFull == nil {
		c.violate("C13.shallow", "IsFull", token.NoPos, "", "exported method (*git.Repository).IsFull not found: nothing tests for a shallow clone")
		return
	}
	// 1. where Repository values are allocated
	constructors := map[*ssa.Function][]*ssa.Alloc{}
	for _, f := range c.ModFns {
		allInstrs(f, func(in ssa.Instruction) {
			if al, ok := in.(*ssa.Alloc); ok {
				if isNamed(al.Type().Underlying().(*types.Pointer).Elem(), modPath+"/git", "Repository") {
					constructors[f] = append(constructors[f], al)
				}
			}
		})
	}
	if len(constructors) == 0 {
		c.violate("C13.shallow", "constructors", token.NoPos, "", "no function constructs a git.Repository")
	}
	// 2. every function returning *Repository: non-nil results are guarded or delegated
	for _, f := range c.ModFns {
		sig := f.Signature
		for i := 0; i < sig.Results().Len(); i++ {
			if !isPtrToNamed(sig.Results().At(i).Type(), modPath+"/git", "Repository") {
				continue
			}
			for _, ret := range returnsOf(f) {
				for _, v := range c.resultValues(ret, i) {
					v = c.resolve(v)
					key := fmt.Sprintf("%s:return@%s", fnName(f), c.lineKey(ret))
					if isNilConst(v) {
						continue
					}
					switch x := v.(type) {
					case *ssa.Alloc:
						ok, why := c.returnGuardedByIsFull(ret, x, isFull)
						if ok {
							c.hold("C13.shallow", fnName(f)+":guarded-return", ret.Pos(), "non-nil *Repository returned only on the IsFull()==true, err==nil edges")
						} else {
							c.violate("C13.shallow", fnName(f)+":unguarded-return", ret.Pos(), fnName(f), "a *Repository is returned on a path that did not pass the full-clone test: "+why)
						}
					case *ssa.Extract:
						// delegated to another constructor in the module
						if call, ok := x.Tuple.(*ssa.Call); ok {
							if cal := call.Call.StaticCallee(); cal != nil && c.inRuleScope(cal) {
								c.present("C13.shallow", key+":delegated", ret.Pos(), "result of "+fnName(cal))
								continue
							}
						}
						c.undecided("C13.shallow", key, ret.Pos(), fnName(f), "returned *Repository comes from an unresolved call")
					case *ssa.Call:
						if cal := x.Call.StaticCallee(); cal != nil && c.inRuleScope(cal) {
							c.present("C13.shallow", key+":delegated", ret.Pos(), "result of "+fnName(cal))
							continue
						}
						c.undecided("C13.shallow", key, ret.Pos(), fnName(f), "returned *Repository comes from an unresolved call")
					case *ssa.Parameter, *ssa.FreeVar:
						c.present("C13.shallow", key+":passthrough", ret.Pos(), "passes an existing *Repository through")
					default:
						c.undecided("C13.shallow", key, ret.Pos(), fnName(f), fmt.Sprintf("cannot tell where the returned *Repository comes from (%T)", v))
					}
				}
			}
		}
	}
	// 3. allocations that escape other than through a checked return
	for f, als := range constructors {
		for _, al := range als {
			for _, r := range *al.Referrers() {
				switch x := r.(type) {
				case *ssa.Store:
					if x.Addr == al {
						continue // initialisation of the value itself
					}
					if x.Val == ssa.Value(al) {
						c.undecided("C13.shallow", fnName(f)+":escape", x.Pos(), fnName(f), "a freshly constructed Repository is stored somewhere instead of being returned through the checked path")
					}
				case *ssa.MakeInterface:
					c.undecided("C13.shallow", fnName(f)+":escape-iface", x.Pos(), fnName(f), "a freshly constructed Repository is converted to an interface before the full-clone test")
				}
			}
		}
	}
	// 4. IsFull itself
	c.checkIsFull(isFull)
	c.floor("C13.shallow", 3, "guarded constructor returns + IsFull obligations")
}

func (c *Ctx) lineKey(in ssa.Instruction) string {
	// stable-ish ordinal: index of the block within the function
	return fmt.Sprintf("b%d", in.Block().Index)
}

func (c *Ctx) returnGuardedByIsFull(ret *ssa.Return, repo *ssa.Alloc, isFull *ssa.Function) (bool, string) {
	var fullOK, errOK bool
	for _, f := range factsAt(ret.Block()) {
		cond, truth := normCond(f.Cond, f.Truth)
		// `full` true
		if ex, ok := cond.(*ssa.Extract); ok && ex.Index == 0 && truth {
			if call, ok := ex.Tuple.(*ssa.Call); ok && call.Call.StaticCallee() == isFull && c.resolve(call.Call.Args[0]) == ssa.Value(repo) {
				fullOK = true
			}
		}
		// err == nil for IsFull's error
		if b, ok := isCmp(cond, token.EQL, token.NEQ); ok {
			for _, side := range []ssa.Value{b.X, b.Y} {
				if ex, ok := side.(*ssa.Extract); ok && ex.Index == 1 {
					if call, ok := ex.Tuple.(*ssa.Call); ok && call.Call.StaticCallee() == isFull {
						if m, isNil := errNilFact(cond, truth, side); m && isNil {
							errOK = true
						}
					}
				}
			}
		}
	}
	switch {
	case !fullOK && !errOK:
		return false, "neither IsFull()'s result nor its error is tested on the way to this return"
	case !fullOK:
		return false, "the boolean result of IsFull() on the value being returned does not guard this return"
	case !errOK:
		return false, "the error result of IsFull() does not guard this return"
	}
	return true, ""
}

func (c *Ctx) checkIsFull(isFull *ssa.Function) {
	name := fnName(isFull)
	gitPath := c.fn("/git", "*Repository", "GitPath")
	var pathCall, statCall *ssa.Call
	allInstrs(isFull, func(in ssa.Instruction) {
		call, ok := in.(*ssa.Call)
		if !ok {
			return
		}
		cal := call.Call.StaticCallee()
		if cal == nil {
			return
		}
		if cal == gitPath && gitPath != nil {
			if s, ok := constStr(call.Call.Args[1]); ok && s == "shallow" {
				pathCall = call
			}
		}
		if q := cal.String(); q == "os.Lstat" || q == "os.Stat" {
			statCall = call
		}
	})
	if pathCall == nil {
		c.violate("C13.shallow", "IsFull:git-path", isFull.Pos(), name, "IsFull does not ask git for the path of the `shallow` file (rev-parse --git-path shallow)")
		return
	}
	// GitPath must really be rev-parse --git-path <relPath>
	okArgv := false
	for _, s := range c.spawnTable() {
		if s.Fn == gitPath && s.Kind == "GitCommand" && strings.Join(s.Argv, " ") == "rev-parse --git-path <dyn>" {
			okArgv = true
		}
	}
	if !okArgv {
		c.violate("C13.shallow", "GitPath:argv", gitPath.Pos(), fnName(gitPath), "GitPath no longer runs `rev-parse --git-path <relPath>`")
	}
	c.checkGitPathAnswer(gitPath)
	if statCall == nil {
		c.violate("C13.shallow", "IsFull:stat", isFull.Pos(), name, "IsFull does not stat the shallow file")
		return
	}
	if ex, ok := c.resolve(statCall.Call.Args[0]).(*ssa.Extract); !ok || ex.Tuple != ssa.Value(pathCall) || ex.Index != 0 {
		c.violate("C13.shallow", "IsFull:stat-arg", statCall.Pos(), name, "the file that is stat'ed is not the path returned for `shallow`")
		return
	}
	// classify returns
	var statErr ssa.Value
	for _, r := range *statCall.Referrers() {
		if ex, ok := r.(*ssa.Extract); ok && ex.Index == 1 {
			statErr = ex
		}
	}
	if statErr == nil {
		c.violate("C13.shallow", "IsFull:stat-err", statCall.Pos(), name, "the result of the stat call is ignored")
		return
	}
	good := true
	sawExists := false
	for _, ret := range returnsOf(isFull) {
		if len(ret.Results) != 2 {
			continue
		}
		for _, v := range c.resultValues(ret, 0) {
			cv, isConst := v.(*ssa.Const)
			if !isConst || cv.Value == nil || cv.Value.Kind() != constant.Bool {
				c.undecided("C13.shallow", "IsFull:result", ret.Pos(), name, "IsFull returns a computed boolean")
				good = false
				continue
			}
			val := constant.BoolVal(cv.Value)
			// facts about the stat error at this return
			var statNil, statNonNil, notExist bool
			beforeStat := !instrDominates(statCall, ret)
			for _, f := range factsAt(ret.Block()) {
				cond, truth := normCond(f.Cond, f.Truth)
				if m, isNil := errNilFact(cond, truth, statErr); m {
					if isNil {
						statNil = true
					} else {
						statNonNil = true
					}
				}
				if call, ok := cond.(*ssa.Call); ok && truth {
					q := calleeQ(&call.Call)
					if (q == "errors.Is" && len(call.Call.Args) == 2 && call.Call.Args[0] == statErr && c.isGlobal(call.Call.Args[1], "io/fs", "ErrNotExist", "os", "ErrNotExist")) ||
						(q == "os.IsNotExist" && call.Call.Args[0] == statErr) {
						notExist = true
						statNonNil = true // a nil error is not ErrNotExist
					}
				}
			}
			if val {
				// "full clone" may only be answered when the file is known absent
				if beforeStat || !statNonNil || !notExist {
					c.violate("C13.shallow", "IsFull:true-return", ret.Pos(), name, "IsFull answers `true` on a path where the shallow file was not shown to be absent (stat error non-nil and ErrNotExist)")
					good = false
				}
			} else if statNil {
				sawExists = true
			}
		}
	}
	if !sawExists {
		c.violate("C13.shallow", "IsFull:exists-return", isFull.Pos(), name, "no path returns `false` when the shallow file exists (stat error nil)")
		good = false
	}
	if good {
		c.hold("C13.shallow", "IsFull:classification", isFull.Pos(), "true only under stat-error ∧ ErrNotExist; false when the file exists")
	}
}

func (c *Ctx) isGlobal(v ssa.Value, pairs ...string) bool {
	u, ok := v.(*ssa.UnOp)
	if !ok || u.Op != token.MUL {
		return false
	}
	g, ok := u.X.(*ssa.Global)
	if !ok || g.Pkg == nil {
		return false
	}
	for i := 0; i+1 < len(pairs); i += 2 {
		if g.Pkg.Pkg.Path() == pairs[i] && g.Name() == pairs[i+1] {
			return true
		}
	}
	return false
}

// ruleC13GitDir: Repository.gitDir (the field GIT_DIR is taken from) is
// written only while constructing the value.
func ruleC13GitDir(c *Ctx) {
	gitCommand := c.fn("/git", "*Repository", "GitCommand")
	if gitCommand == nil {
		return
	}
	// identify the field used for GIT_DIR
	var dirField *types.Var
	allInstrs(gitCommand, func(in ssa.Instruction) {
		bo, ok := in.(*ssa.BinOp)
		if !ok || bo.Op != token.ADD {
			return
		}
		if s, ok := constStr(bo.X); ok && s == "GIT_DIR=" {
			y := c.resolve(bo.Y)
			if call, ok := y.(*ssa.Call); ok {
				// through a getter of the receiver
				if g := call.Call.StaticCallee(); g != nil && c.inRuleScope(g) {
					for _, r := range returnsOf(g) {
						if len(r.Results) == 1 {
							y = c.resolve(r.Results[0])
						}
					}
				}
			}
			if u, ok := y.(*ssa.UnOp); ok {
				if fa, ok := u.X.(*ssa.FieldAddr); ok {
					dirField = fieldOfAddr(fa).Var
				}
			}
		}
	})
	if dirField == nil {
		return // reported by C13.isolation
	}
	n := 0
	for _, f := range c.ModFns {
		allInstrs(f, func(in ssa.Instruction) {
			st, ok := in.(*ssa.Store)
			if !ok {
				return
			}
			fa, ok := st.Addr.(*ssa.FieldAddr)
			if !ok || fieldOfAddr(fa).Var != dirField {
				return
			}
			n++
			// the directory is the one git itself reports for the start directory
			if ok, why := c.fromDiscovery(st.Val, 0); ok {
				c.hold("C13.gitdir", fnName(f)+":discovered", st.Pos(), "on every path the value derives from the output of `git -C <path> rev-parse --git-dir`")
			} else {
				c.violate("C13.gitdir", fnName(f)+":discovered", st.Pos(), fnName(f), "the git directory does not on every path come from `git -C <path> rev-parse --git-dir` ("+why+"): GIT_DIR, linked worktrees, bare repositories or `git -C` would address a different repository than git itself would")
			}
			if _, isAlloc := fa.X.(*ssa.Alloc); isAlloc {
				c.hold("C13.gitdir", fnName(f)+":init", st.Pos(), "written while constructing the Repository")
			} else {
				c.violate("C13.gitdir", fnName(f)+":write", st.Pos(), fnName(f), "the git directory of an existing Repository is overwritten: later commands address another repository")
			}
		})
	}
	if n == 0 {
		c.violate("C13.gitdir", "no-init", token.NoPos, "", "the field used for GIT_DIR is never initialised")
	}
}

// fromDiscovery: v derives, on every path, from the standard output of the
// `rev-parse --git-dir` process.
func (c *Ctx) fromDiscovery(v ssa.Value, depth int) (bool, string) {
	if depth > 10 {
		return false, "value chain too deep"
	}
	v = c.resolve(v)
	switch x := v.(type) {
	case *ssa.Extract:
		call, ok := x.Tuple.(*ssa.Call)
		if !ok {
			return false, "not a process output"
		}
		q := calleeQ(&call.Call)
		if (q == "(*os/exec.Cmd).Output" || q == "(*os/exec.Cmd).CombinedOutput") && x.Index == 0 {
			cmd := c.resolve(call.Call.Args[0])
			for _, s := range c.spawnTable() {
				if ssa.Value(asCallValue(s.Call)) == cmd {
					hasRev, hasDir := false, false
					for _, a := range s.Argv {
						if a == "rev-parse" {
							hasRev = true
						}
						if a == "--git-dir" || a == "--absolute-git-dir" {
							hasDir = true
						}
					}
					if hasRev && hasDir {
						return true, ""
					}
					return false, "the process is not `rev-parse --git-dir`: " + strings.Join(s.Argv, " ")
				}
			}
			return false, "output of an unidentified process"
		}
		return c.fromDiscovery(call, depth+1)
	case *ssa.Call:
		if len(x.Call.Args) == 0 {
			return false, "value produced by " + calleeQ(&x.Call)
		}
		// only path and string arithmetic may lie between git's answer and the
		// directory used: anything read from the file system or the environment
		// on the way (a `commondir` file, a symlink target, $PWD) replaces git's
		// answer by something else
		if q := calleeQ(&x.Call); !pureStringFn(q) {
			if cal := x.Call.StaticCallee(); cal == nil || !c.inRuleScope(cal) || !c.pureModuleStringFn(cal, 0) {
				return false, "passes through " + q + ", which is not path/string arithmetic"
			}
		}
		// every operand must itself be clean: git's answer, the start directory,
		// a constant, or path arithmetic on those
		for _, a := range x.Call.Args {
			ops := []ssa.Value{a}
			if els := c.sliceElemValues(a); len(els) > 0 {
				ops = nil
				for _, el := range els {
					if el != nil {
						ops = append(ops, el)
					}
				}
			}
			for _, op := range ops {
				if ok, why := c.cleanPathOperand(op, depth+1); !ok {
					return false, why
				}
			}
		}
		for _, a := range x.Call.Args {
			if ok, _ := c.fromDiscovery(a, depth+1); ok {
				return true, ""
			}
			// the elements of a variadic argument list
			for _, el := range c.sliceElemValues(a) {
				if el == nil {
					continue
				}
				if ok, _ := c.fromDiscovery(el, depth+1); ok {
					return true, ""
				}
			}
		}
		return false, "computed by " + calleeQ(&x.Call) + " from values that are not git's answer"
	case *ssa.Convert:
		return c.fromDiscovery(x.X, depth+1)
	case *ssa.ChangeType:
		return c.fromDiscovery(x.X, depth+1)
	case *ssa.Slice:
		return c.fromDiscovery(x.X, depth+1)
	case *ssa.BinOp:
		if ok, _ := c.fromDiscovery(x.X, depth+1); ok {
			return true, ""
		}
		return c.fromDiscovery(x.Y, depth+1)
	case *ssa.Phi:
		for _, e := range x.Edges {
			if ok, why := c.fromDiscovery(e, depth+1); !ok {
				return false, why
			}
		}
		return true, ""
	case *ssa.Parameter:
		idx := paramIndex(x)
		n := 0
		for _, ci := range c.Callers[x.Parent()] {
			if idx >= len(ci.Common().Args) {
				continue
			}
			n++
			if ok, why := c.fromDiscovery(ci.Common().Args[idx], depth+1); !ok {
				return false, "call at " + c.pos(ci.Pos()) + ": " + why
			}
		}
		if n == 0 {
			return false, "parameter " + x.Name() + " of " + fnName(x.Parent()) + " has no caller in the module"
		}
		return true, ""
	case *ssa.Const:
		return false, "a constant"
	}
	return false, fmt.Sprintf("%T", v)
}

func asCallValue(ci ssa.CallInstruction) *ssa.Call {
	call, _ := ci.(*ssa.Call)
	return call
}

func pureStringFn(q string) bool {
	for _, p := range []string{"path/filepath.Join", "path/filepath.Clean", "path/filepath.IsAbs", "path/filepath.FromSlash", "path/filepath.ToSlash", "path.Join", "path.Clean", "strings.Trim", "bytes.Trim", "strings.TrimSpace", "bytes.TrimSpace", "strings.TrimRight", "bytes.TrimRight", "strings.TrimSuffix", "bytes.TrimSuffix"} {
		if strings.HasPrefix(q, p) {
			return true
		}
	}
	return false
}

// pureModuleStringFn: a module function that only calls pure string/path
// functions (smartJoin).
func (c *Ctx) pureModuleStringFn(f *ssa.Function, depth int) bool {
	if depth > 3 || len(f.Blocks) == 0 {
		return false
	}
	pure := true
	allInstrs(f, func(in ssa.Instruction) {
		switch x := in.(type) {
		case *ssa.Call:
			if _, isBuiltin := x.Call.Value.(*ssa.Builtin); isBuiltin {
				return
			}
			q := calleeQ(&x.Call)
			if pureStringFn(q) {
				return
			}
			if cal := x.Call.StaticCallee(); cal != nil && c.inRuleScope(cal) && c.pureModuleStringFn(cal, depth+1) {
				return
			}
			pure = false
		case *ssa.Go, *ssa.Defer, *ssa.Send, *ssa.MapUpdate:
			pure = false
		case *ssa.Store:
			if _, isAlloc := x.Addr.(*ssa.Alloc); !isAlloc {
				if _, isIA := x.Addr.(*ssa.IndexAddr); !isIA {
					pure = false
				}
			}
		}
	})
	return pure
}

// cleanPathOperand: v is git's answer, a constant, a parameter (the start
// directory handed down by the caller) or path/string arithmetic on such
// values — nothing read from the file system or the environment.
func (c *Ctx) cleanPathOperand(v ssa.Value, depth int) (bool, string) {
	if depth > 12 {
		return false, "value chain too deep"
	}
	v = c.resolve(v)
	switch x := v.(type) {
	case *ssa.Const, *ssa.Parameter:
		return true, ""
	case *ssa.Extract:
		if ok, _ := c.fromDiscovery(x, depth+1); ok {
			return true, ""
		}
		if call, ok := x.Tuple.(*ssa.Call); ok {
			return false, "uses the result of " + calleeQ(&call.Call)
		}
		return false, "uses a computed tuple element"
	case *ssa.Call:
		q := calleeQ(&x.Call)
		if _, isBuiltin := x.Call.Value.(*ssa.Builtin); !isBuiltin && !pureStringFn(q) {
			if cal := x.Call.StaticCallee(); cal == nil || !c.inRuleScope(cal) || !c.pureModuleStringFn(cal, 0) {
				return false, "uses the result of " + q
			}
		}
		for _, a := range x.Call.Args {
			ops := []ssa.Value{a}
			if els := c.sliceElemValues(a); len(els) > 0 {
				ops = nil
				for _, el := range els {
					if el != nil {
						ops = append(ops, el)
					}
				}
			}
			for _, op := range ops {
				if ok, why := c.cleanPathOperand(op, depth+1); !ok {
					return false, why
				}
			}
		}
		return true, ""
	case *ssa.Convert:
		return c.cleanPathOperand(x.X, depth+1)
	case *ssa.ChangeType:
		return c.cleanPathOperand(x.X, depth+1)
	case *ssa.Slice:
		return c.cleanPathOperand(x.X, depth+1)
	case *ssa.BinOp:
		if ok, why := c.cleanPathOperand(x.X, depth+1); !ok {
			return false, why
		}
		return c.cleanPathOperand(x.Y, depth+1)
	case *ssa.Phi:
		for _, e := range x.Edges {
			if ok, why := c.cleanPathOperand(e, depth+1); !ok {
				return false, why
			}
		}
		return true, ""
	}
	return false, fmt.Sprintf("uses a %T", v)
}

// ruleC13StartDir: discovery starts from the process's real current
// directory ("." — what `git -C <dir>` changed into), not from a path taken
// from the environment ($PWD is not updated by `git -C`) or computed some
// other way.
func ruleC13StartDir(c *Ctx) {
	n := 0
	for _, f := range c.ModFns {
		if pkgOf(f) != modPath+"/git" || f.Parent() != nil || len(f.Blocks) == 0 {
			continue
		}
		// the discovery function: runs `rev-parse --git-dir` with -C <its string parameter>
		var site *spawnSite
		for _, s := range c.spawnTable() {
			if s.Fn == f {
				hasRev, hasDir := false, false
				for _, a := range s.Argv {
					hasRev = hasRev || a == "rev-parse"
					hasDir = hasDir || a == "--git-dir" || a == "--absolute-git-dir"
				}
				if hasRev && hasDir {
					site = s
				}
			}
		}
		if site == nil {
			continue
		}
		for _, ci := range c.Callers[f] {
			if !inModulePath(pkgOf(ci.Parent())) || pkgOf(ci.Parent()) == modPath+"/git" {
				continue
			}
			for i, a := range ci.Common().Args {
				if b, ok := a.Type().Underlying().(*types.Basic); !ok || b.Kind() != types.String {
					continue
				}
				n++
				key := fmt.Sprintf("start-dir@%s#%d", fnName(ci.Parent()), i)
				if s, ok := constStr(c.resolve(a)); ok && (s == "." || s == "") {
					c.hold("C13.gitdir", key, ci.Pos(), "discovery starts at the process's current directory")
				} else if ok {
					c.violate("C13.gitdir", key, ci.Pos(), fnName(ci.Parent()), fmt.Sprintf("the repository is looked for at the fixed path %q instead of the current directory", s))
				} else {
					c.violate("C13.gitdir", key, ci.Pos(), fnName(ci.Parent()), "the repository is looked for at a computed path instead of \".\": `git -C <dir> sizer`, which changes the directory but not $PWD, would measure another repository")
				}
			}
		}
	}
	if n == 0 {
		c.notDecided("C13.gitdir", "start-dir", token.NoPos, "no call of the discovery function from outside package git found")
	}
}

// checkGitPathAnswer: the path GitPath returns is git's whole answer with
// at most its line end trimmed. A path may contain blanks; taking a field,
// a split part or a slice of the answer names another file (and the shallow
// marker is then not found).
func (c *Ctx) checkGitPathAnswer(gitPath *ssa.Function) {
	if gitPath == nil {
		return
	}
	trims := map[string]bool{
		"bytes.TrimSpace": true, "strings.TrimSpace": true, "bytes.TrimRight": true, "strings.TrimRight": true,
		"bytes.TrimSuffix": true, "strings.TrimSuffix": true,
	}
	var walk func(v ssa.Value, depth int) string
	walk = func(v ssa.Value, depth int) string {
		if depth > 8 {
			return "?"
		}
		switch x := c.resolve(v).(type) {
		case *ssa.Convert:
			return walk(x.X, depth+1)
		case *ssa.ChangeType:
			return walk(x.X, depth+1)
		case *ssa.Extract:
			if call, ok := x.Tuple.(*ssa.Call); ok && x.Index == 0 {
				if q := calleeQ(&call.Call); q == "(*os/exec.Cmd).Output" || q == "(*os/exec.Cmd).CombinedOutput" {
					return "ok"
				}
			}
			return "?"
		case *ssa.Call:
			q := calleeQ(&x.Call)
			if trims[q] {
				return walk(x.Call.Args[0], depth+1)
			}
			if strings.Contains(q, "Fields") || strings.Contains(q, "Split") || strings.Contains(q, "Cut") || strings.Contains(q, "Index") {
				return "part:" + q
			}
			return "?"
		case *ssa.Slice:
			return "part:a slice expression"
		case *ssa.UnOp:
			if ia, ok := x.X.(*ssa.IndexAddr); ok {
				if r := walk(ia.X, depth+1); strings.HasPrefix(r, "part:") {
					return r
				}
				return "part:an element of a split"
			}
			return "?"
		case *ssa.Phi:
			worst := "ok"
			for _, e := range x.Edges {
				r := walk(e, depth+1)
				if strings.HasPrefix(r, "part:") {
					return r
				}
				if r == "?" {
					worst = "?"
				}
			}
			return worst
		}
		return "?"
	}
	n := 0
	for _, ret := range returnsOf(gitPath) {
		if len(ret.Results) != 2 {
			continue
		}
		isErr := false
		for _, e := range c.resultValues(ret, 1) {
			if !isNilConst(e) {
				isErr = true
			}
		}
		if isErr {
			continue
		}
		n++
		for _, v := range c.resultValues(ret, 0) {
			switch r := walk(v, 0); {
			case r == "ok":
				c.hold("C13.shallow", "GitPath:whole-answer", ret.Pos(), "the path returned is git's answer with only its end trimmed")
			case strings.HasPrefix(r, "part:"):
				c.violate("C13.shallow", "GitPath:whole-answer", ret.Pos(), fnName(gitPath), "the path returned is only a part of git's answer ("+strings.TrimPrefix(r, "part:")+"): a repository path containing a blank or the separator is cut short, the shallow marker is looked for in the wrong place and a shallow clone is measured")
			default:
				c.notDecided("C13.shallow", "GitPath:whole-answer", ret.Pos(), "the path returned is derived from git's answer in a way the rule does not follow")
			}
		}
	}
}
