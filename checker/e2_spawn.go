package main

import (
	"fmt"
	"go/types"
	"strings"

	"golang.org/x/tools/go/ssa"
)

// E2: the subprocess table. Every exec.Command / (*git.Repository).GitCommand
// call site with its constant-folded argv, and the stages of every pipeline.

type spawnSite struct {
	Fn    *ssa.Function
	Call  ssa.CallInstruction
	Kind  string // "exec.Command" | "GitCommand" | "exec.CommandContext" | other spawn API
	Argv  []string
	ArgOK bool
}

func (s *spawnSite) sub() string {
	// first non-option word of a GitCommand argv is the git sub-command
	for _, a := range s.Argv {
		if !strings.HasPrefix(a, "-") {
			return a
		}
	}
	return ""
}

var spawnAPIs = map[string]bool{
	"os/exec.Command":        true,
	"os/exec.CommandContext": true,
	"os.StartProcess":        true,
	"syscall.ForkExec":       true,
	"syscall.Exec":           true,
	"syscall.StartProcess":   true,
}

func (c *Ctx) spawnTable() []*spawnSite {
	if v, ok := c.memo["spawn"]; ok {
		return v.([]*spawnSite)
	}
	gitCommand := modQ("/git", "*Repository", "GitCommand")
	var out []*spawnSite
	for _, f := range c.ModFns {
		allInstrs(f, func(in ssa.Instruction) {
			ci, ok := in.(ssa.CallInstruction)
			if !ok {
				return
			}
			callee := ci.Common().StaticCallee()
			if callee == nil {
				return
			}
			q := refQ(callee)
			switch {
			case q == gitCommand:
				s := &spawnSite{Fn: f, Call: ci, Kind: "GitCommand"}
				args := ci.Common().Args
				s.Argv, s.ArgOK = c.stringElems(args[len(args)-1])
				out = append(out, s)
			case spawnAPIs[q]:
				s := &spawnSite{Fn: f, Call: ci, Kind: strings.TrimPrefix(q, "os/")}
				args := ci.Common().Args
				s.Argv, s.ArgOK = c.stringElems(args[len(args)-1])
				out = append(out, s)
			}
		})
	}
	c.memo["spawn"] = out
	return out
}

func (c *Ctx) gitSites(sub string) []*spawnSite {
	var out []*spawnSite
	for _, s := range c.spawnTable() {
		if s.Kind == "GitCommand" && s.sub() == sub {
			out = append(out, s)
		}
	}
	return out
}

// pipeline stages --------------------------------------------------------

type pipeStage struct {
	Kind  string // Function | LinewiseFunction | CommandStage | <other constructor>
	Name  string
	Fn    *ssa.Function // stage function (closure) for Function/LinewiseFunction
	Spawn *spawnSite    // for CommandStage
	Call  *ssa.Call
	// Helper: the call of the module helper that returned this stage, if any
	Helper *ssa.Call
}

type pipeAdd struct {
	Fn     *ssa.Function
	Call   ssa.CallInstruction
	Stages []*pipeStage
}

const pipePkg = "github.com/github/go-pipe/pipe"

// pipelines lists every (*pipe.Pipeline).Add call with its stages in order.
func (c *Ctx) pipelines() []*pipeAdd {
	if v, ok := c.memo["pipes"]; ok {
		return v.([]*pipeAdd)
	}
	var out []*pipeAdd
	for _, f := range c.ModFns {
		allInstrs(f, func(in ssa.Instruction) {
			ci, ok := in.(ssa.CallInstruction)
			if !ok {
				return
			}
			callee := ci.Common().StaticCallee()
			if callee == nil || callee.String() != "(*"+pipePkg+".Pipeline).Add" {
				return
			}
			pa := &pipeAdd{Fn: f, Call: ci}
			args := ci.Common().Args
			elems := c.sliceElemValues(args[len(args)-1])
			for _, e := range elems {
				pa.Stages = append(pa.Stages, c.stageOf(e))
			}
			out = append(out, pa)
		})
	}
	c.memo["pipes"] = out
	return out
}

// sliceElemValues returns the values stored into a variadic slice literal.
func (c *Ctx) sliceElemValues(v ssa.Value) []ssa.Value {
	s, ok := v.(*ssa.Slice)
	if !ok {
		return nil
	}
	al, ok := s.X.(*ssa.Alloc)
	if !ok {
		return nil
	}
	arr, ok := al.Type().Underlying().(*types.Pointer).Elem().Underlying().(*types.Array)
	if !ok {
		return nil
	}
	res := make([]ssa.Value, arr.Len())
	for _, r := range *al.Referrers() {
		ia, ok := r.(*ssa.IndexAddr)
		if !ok {
			continue
		}
		idx, ok := constInt(ia.Index)
		if !ok {
			continue
		}
		for _, rr := range *ia.Referrers() {
			if st, ok := rr.(*ssa.Store); ok && st.Addr == ia {
				res[idx] = st.Val
			}
		}
	}
	return res
}

func (c *Ctx) stageOf(v ssa.Value) *pipeStage {
	st := &pipeStage{Kind: "unknown"}
	call, ok := v.(*ssa.Call)
	if !ok {
		if v != nil {
			st.Kind = fmt.Sprintf("%T", v)
		}
		return st
	}
	st.Call = call
	callee := call.Call.StaticCallee()
	if callee == nil {
		return st
	}
	q := refQ(callee)
	if !strings.HasPrefix(q, pipePkg+".") {
		// a module helper that builds and returns the stage
		if c.inRuleScope(callee) && len(callee.Blocks) > 0 && callee.Signature.Results().Len() == 1 {
			for _, ret := range returnsOf(callee) {
				inner := c.stageOf(c.resolve(ret.Results[0]))
				if inner.Kind != "unknown" {
					inner.Helper = call
					return inner
				}
			}
		}
		st.Kind = q
		return st
	}
	st.Kind = strings.TrimPrefix(q, pipePkg+".")
	if len(call.Call.Args) > 0 {
		st.Name, _ = constStr(call.Call.Args[0])
	}
	switch st.Kind {
	case "Function", "LinewiseFunction":
		if len(call.Call.Args) > 1 {
			fv := call.Call.Args[1]
			if ct, ok := fv.(*ssa.ChangeType); ok {
				fv = ct.X
			}
			switch x := fv.(type) {
			case *ssa.MakeClosure:
				st.Fn = x.Fn.(*ssa.Function)
			case *ssa.Function:
				st.Fn = x
			}
		}
	case "CommandStage", "Command":
		if len(call.Call.Args) > 1 {
			if gc, ok := call.Call.Args[1].(*ssa.Call); ok {
				for _, s := range c.spawnTable() {
					if s.Call == ssa.CallInstruction(gc) {
						st.Spawn = s
					}
				}
			}
		}
	}
	return st
}

func (c *Ctx) dumpSpawn() {
	for _, s := range c.spawnTable() {
		fmt.Printf("%s %s in %s: %v ok=%v\n", c.pos(s.Call.Pos()), s.Kind, fnName(s.Fn), s.Argv, s.ArgOK)
	}
	for _, p := range c.pipelines() {
		fmt.Printf("pipeline at %s in %s:\n", c.pos(p.Call.Pos()), fnName(p.Fn))
		for _, st := range p.Stages {
			sp := ""
			if st.Spawn != nil {
				sp = fmt.Sprint(st.Spawn.Argv)
			}
			fmt.Printf("   %s %q fn=%s %s\n", st.Kind, st.Name, fnName(st.Fn), sp)
		}
	}
}
