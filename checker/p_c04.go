package main

import (
	"fmt"
	"go/token"
	"sort"
	"strings"

	"golang.org/x/tools/go/ssa"
)

func init() {
	register("C04",
		"Structural necessary conditions of C04 decided from /repo's SSA: (modes) the tree-entry loop classifies an entry by (mode & 0170000) against git's constants 040000 tree, 0160000 gitlink, 0120000 symlink, everything else a blob; (arms) on every path through one loop iteration exactly one kind counter is bumped (dirs via the subtree's expansion, files, links, submodules), the path-depth and path-length maxima are each updated exactly once, a blob's size is added exactly where its file is counted, each update sits in the arm of its own mode constant, and the gitlink arm performs no object lookup — deferred listeners are credited to the branch that registers them; (combine) the seven per-tree quantities receive exactly the update edges of the recursive expansion (ADD per occurrence, MAX for depth/length, the tree itself counted at record creation) and nothing else; (maxima) each of the seven 'biggest checkout' metrics is the MAX of its own per-tree quantity, executed unconditionally once per finalised tree. Not decided: the numeric equality on concrete tree DAGs.",
		[]string{"field-based heap model", "git's object-mode constants", "go/ssa models the source faithfully"},
		ruleC04Modes, ruleC04Arms, ruleC04Combine, ruleC04Maxima, ruleC04FinalOnly, ruleC04Descend, ruleC04Roots, ruleC04NameBytes, ruleC04Borrowed)
}

const (
	eFiles = "T:expanded_blob_count <-ADD {const:1}"
	eLinks = "T:expanded_link_count <-ADD {const:1}"
	eSubs  = "T:expanded_submodule_count <-ADD {const:1}"
	eDirs  = "T:expanded_tree_count <-ADD {T:expanded_tree_count}"
	eBytes = "T:expanded_blob_size <-ADD {F:git.BatchHeader.ObjectSize}"
)

var kindMode = map[string]int64{eDirs: 0o40000, eSubs: 0o160000, eLinks: 0o120000}

// topLevelSites: instructions in the entry loop (of the loop function
// itself) that perform or lead to an update satisfying pred; require sites
// stand for their listener.
func (c *Ctx) topLevelSites(el *entryLoopInfo, pred func(*effEdge) bool) []ssa.Instruction {
	ec := c.effectCounter(pred, false)
	var out []ssa.Instruction
	for b := range el.L.Blocks {
		for _, in := range b.Instrs {
			if r := ec.instr(in); r.Max > 0 {
				out = append(out, in)
			}
		}
	}
	for _, rs := range c.requireSites() {
		if rs.Fn == el.Fn && rs.Listener != nil && el.L.Blocks[rs.Call.Block()] {
			if r := ec.function(rs.Listener); r.Max > 0 {
				out = append(out, rs.Call)
			}
		}
	}
	sort.Slice(out, func(i, j int) bool { return posOf(out[i]) < posOf(out[j]) })
	// dedupe
	var res []ssa.Instruction
	for i, x := range out {
		if i == 0 || out[i-1] != x {
			res = append(res, x)
		}
	}
	return res
}

func ruleC04Modes(c *Ctx) {
	el := c.entryLoop()
	if el == nil || el.Fn == nil {
		c.violate("C04.modes", "entry-loop", token.NoPos, "", "cannot find the single loop that iterates (*git.TreeIter).NextEntry")
		return
	}
	name := fnName(el.Fn)
	// all mode comparisons in the loop
	seen := map[int64]bool{}
	for b := range el.L.Blocks {
		facts, problems := c.modeFacts(b, el.Call)
		for _, p := range problems {
			c.violate("C04.modes", "mask", posOf(b.Instrs[0]), name, p+": file-type bits are misread")
		}
		for k := range facts {
			seen[k] = true
		}
	}
	want := map[int64]string{0o40000: "tree", 0o160000: "gitlink", 0o120000: "symlink"}
	for k, what := range want {
		if seen[k] {
			c.hold("C04.modes", fmt.Sprintf("const:%#o", k), el.Call.Pos(), what+" entries recognised by (mode & 0170000) == "+fmt.Sprintf("%#o", k))
		} else {
			c.violate("C04.modes", fmt.Sprintf("const:%#o", k), el.Call.Pos(), name, fmt.Sprintf("no arm tests (mode & 0170000) == %#o: %s entries are classified as something else", k, what))
		}
	}
	for k := range seen {
		if _, ok := want[k]; !ok {
			c.violate("C04.modes", fmt.Sprintf("const:%#o", k), el.Call.Pos(), name, fmt.Sprintf("an arm tests (mode & 0170000) == %#o, which is not one of git's tree/gitlink/symlink type constants: entries of that kind would be taken out of the blob arm", k))
		}
	}
}

func ruleC04Arms(c *Ctx) {
	el := c.entryLoop()
	if el == nil || el.Fn == nil {
		return
	}
	name := fnName(el.Fn)
	keyIs := func(keys ...string) func(*effEdge) bool {
		return func(ed *effEdge) bool {
			for _, k := range keys {
				if ed.Key() == k {
					return true
				}
			}
			return false
		}
	}
	type req struct {
		key  string
		pred func(*effEdge) bool
		what string
	}
	reqs := []req{
		{"kind-counter", keyIs(eFiles, eLinks, eSubs, eDirs), "exactly one of dirs/files/links/submodules is counted per entry"},
		{"path-depth", func(ed *effEdge) bool { return ed.Target == "T:max_path_depth" && ed.Op == "MAX" }, "the path-depth maximum is updated once per entry"},
		{"path-length", func(ed *effEdge) bool { return ed.Target == "T:max_path_length" && ed.Op == "MAX" }, "the path-length maximum is updated once per entry"},
	}
	for _, r := range reqs {
		ec := c.effectCounter(r.pred, true)
		cr := ec.perIteration(el.L)
		if cr.Min == 1 && cr.Max == 1 {
			c.hold("C04.arms", "per-entry:"+r.key, el.Call.Pos(), r.what+" on every path through an iteration (listeners credited to the pending branch)")
		} else {
			c.violate("C04.arms", "per-entry:"+r.key, el.Call.Pos(), name, fmt.Sprintf("%s: found between %d and %d updates per iteration", r.what, cr.Min, cr.Max))
		}
	}
	// each kind counter sits in the arm of its own mode constant
	for _, k := range []string{eDirs, eSubs, eLinks, eFiles} {
		sites := c.topLevelSites(el, keyIs(k))
		if len(sites) == 0 {
			c.violate("C04.arms", "arm:"+k, el.Call.Pos(), name, "no update `"+k+"` is reachable from the entry loop")
			continue
		}
		for _, s := range sites {
			facts, _ := c.modeFacts(s.Block(), el.Call)
			ok := false
			var desc []string
			for m, t := range facts {
				desc = append(desc, fmt.Sprintf("%#o=%v", m, t))
			}
			sort.Strings(desc)
			if want, isKind := kindMode[k]; isKind {
				ok = facts[want]
			} else {
				// blob arm: all three special kinds excluded
				_, a := facts[0o40000]
				_, b := facts[0o160000]
				_, d := facts[0o120000]
				ok = a && b && d && !facts[0o40000] && !facts[0o160000] && !facts[0o120000]
			}
			if ok {
				c.hold("C04.arms", "arm:"+k, posOf(s), "reached under mode facts {"+strings.Join(desc, ", ")+"}")
			} else {
				c.violate("C04.arms", "arm:"+k, posOf(s), name, "update `"+k+"` is reached under mode facts {"+strings.Join(desc, ", ")+"}, not in the arm of its own entry kind")
			}
		}
	}
	// bytes are added exactly where files are counted
	fs, bs := c.topLevelSites(el, keyIs(eFiles)), c.topLevelSites(el, keyIs(eBytes))
	same := len(fs) == len(bs)
	for i := range fs {
		if same && fs[i] != bs[i] {
			same = false
		}
	}
	if same && len(fs) > 0 {
		c.hold("C04.arms", "bytes-with-files", posOf(fs[0]), "the blob's size is added at the same site(s) that count the file")
	} else {
		c.violate("C04.arms", "bytes-with-files", el.Call.Pos(), name, fmt.Sprintf("file count and file bytes are updated from different places (%d vs %d sites)", len(fs), len(bs)))
	}
	// gitlink arm: no object lookups
	for b := range el.L.Blocks {
		facts, _ := c.modeFacts(b, el.Call)
		if !facts[0o160000] {
			continue
		}
		for _, in := range b.Instrs {
			if call, ok := in.(*ssa.Call); ok {
				if cal := call.Call.StaticCallee(); cal != nil && cal.Signature.Recv() != nil && isPtrToNamed(cal.Signature.Recv().Type(), modPath+"/sizes", "Graph") {
					switch {
					case strings.HasPrefix(refName(cal), "Get"), strings.HasPrefix(refName(cal), "Require"):
						c.violate("C04.arms", "gitlink-lookup", call.Pos(), name, "the submodule arm looks up an object ("+cal.Name()+"): gitlink targets are not part of the repository")
					}
				}
			}
		}
	}
	c.present("C04.arms", "gitlink-no-lookup", el.Call.Pos(), "no Get*/Require* call under (mode&0170000)==0160000")
}

func ruleC04Combine(c *Ctx) {
	checkEffects(c, "C04", "C04.effects")
}

// checkUnconditional: the update at site executes exactly once on every
// return path of its function, and so does each call up the (single
// caller) chain until an exported *Graph method or a pending==0 guard.
func (c *Ctx) checkUnconditional(rule, key string, ed *effEdge) {
	// follow every caller chain from the update up to a registration entry
	// point (an exported Graph method) or a pending==0 guard
	var chains []string
	reported := false
	var walk func(f *ssa.Function, ev ssa.Instruction, chain []string, depth int)
	walk = func(f *ssa.Function, ev ssa.Instruction, chain []string, depth int) {
		if reported {
			return
		}
		ec := c.newEventCounter(func(in ssa.Instruction) int {
			if in == ev {
				return 1
			}
			return 0
		}, false)
		r := ec.function(f)
		chain = append(chain, fnName(f))
		if r.Min != 1 || r.Max != 1 {
			reported = true
			c.violate(rule, key, posOf(ev), fnName(f), fmt.Sprintf("the update `%s` is executed between %d and %d times per call of %s (must be exactly once, unconditionally): the position of the maximal object in the enumeration would matter", ed.Key(), r.Min, r.Max, fnName(f)))
			return
		}
		if f.Signature.Recv() != nil && isPtrToNamed(f.Signature.Recv().Type(), modPath+"/sizes", "Graph") && f.Object() != nil && token.IsExported(refName(f)) {
			chains = append(chains, strings.Join(chain, " <- "))
			return
		}
		callers := c.Callers[f]
		if len(callers) == 0 || depth >= 8 {
			if f.Parent() != nil {
				// a closure (deferred listener): its body runs when the listener fires
				chains = append(chains, strings.Join(chain, " <- ")+" (listener)")
				return
			}
			reported = true
			c.undecided(rule, key, posOf(ev), fnName(f), fmt.Sprintf("%s has no static caller; cannot follow the path from registration to this update", fnName(f)))
			return
		}
		for _, cev := range callers {
			cf := cev.Parent()
			if c.isPendingZeroGuarded(cev.Block()) {
				chains = append(chains, strings.Join(append(append([]string{}, chain...), fnName(cf)+"[pending==0]"), " <- "))
				continue
			}
			walk(cf, cev, append([]string{}, chain...), depth+1)
		}
	}
	walk(ed.Fn, ed.Site, nil, 0)
	if reported {
		return
	}
	sort.Strings(chains)
	c.hold(rule, key, posOf(ed.Site), "executed exactly once on every path: "+strings.Join(chains, " | "))
}

func (c *Ctx) isPendingZeroGuarded(b *ssa.BasicBlock) bool {
	pv := c.pendingVars()
	return guardedBy(b, func(cond ssa.Value, truth bool) bool {
		cmp, ok := isCmp(cond, token.EQL, token.NEQ)
		if !ok || (cmp.Op == token.EQL) != truth {
			return false
		}
		n, isZero := constInt(cmp.Y)
		if !isZero || n != 0 {
			return false
		}
		u, ok := cmp.X.(*ssa.UnOp)
		if !ok {
			return false
		}
		fa, ok := u.X.(*ssa.FieldAddr)
		return ok && pv[fieldOfAddr(fa).Var]
	})
}

func ruleC04Maxima(c *Ctx) {
	e := c.effects()
	for _, row := range effectOracle {
		if row.Prop != "C04" || !strings.HasPrefix(row.Target, "H:") {
			continue
		}
		for _, ed := range e.ByNode[row.Target] {
			c.checkUnconditional("C04.maxima", row.Target, ed)
		}
	}
	c.floor("C04.maxima", 7, "per-dimension checkout maxima")
}

// ruleC04Descend: the place that combines a finished subtree into its
// parent performs exactly the seven combine updates, and the path-length
// one distinguishes "subtree has a path" (name + '/' + longest path below)
// from "subtree is empty" (name only).
func ruleC04Descend(c *Ctx) {
	e := c.effects()
	var site *effEdge
	for _, ed := range e.Edges {
		if ed.Key() == eDirs {
			if site != nil && site.Fn != ed.Fn {
				c.violate("C04.descend", "single-place", posOf(ed.Site), fnName(ed.Fn), "subtree expansions are combined in more than one function")
				return
			}
			site = ed
		}
	}
	if site == nil {
		return // reported by C04.effects
	}
	f := site.Fn
	name := fnName(f)
	want := map[string]bool{
		"T:max_path_depth <-MAX {ADD(T:max_path_depth,const:1)}":                             true,
		"T:max_path_length <-MAX {ADD(T:max_path_length,const:1,len(F:git.TreeEntry.Name))}": true,
		"T:max_path_length <-MAX {len(F:git.TreeEntry.Name)}":                                true,
		eDirs: true,
		"T:expanded_blob_count <-ADD {T:expanded_blob_count}":           true,
		"T:expanded_blob_size <-ADD {T:expanded_blob_size}":             true,
		"T:expanded_link_count <-ADD {T:expanded_link_count}":           true,
		"T:expanded_submodule_count <-ADD {T:expanded_submodule_count}": true,
	}
	got := map[string]*effEdge{}
	for _, ed := range e.Edges {
		if ed.Fn == f && ed.Counter {
			got[ed.Key()] = ed
		}
	}
	ok := true
	for k := range want {
		if got[k] == nil {
			ok = false
			c.violate("C04.descend", "missing:"+k, f.Pos(), name, "combining a subtree does not perform `"+k+"`")
		}
	}
	for k, ed := range got {
		if !want[k] {
			ok = false
			c.violate("C04.descend", "foreign:"+k, posOf(ed.Site), name, "combining a subtree performs the unexpected update `"+k+"`")
		}
	}
	if !ok {
		return
	}
	// each of the five sums and the depth exactly once per call; the two length updates are alternatives
	for k := range want {
		k := k
		if strings.HasPrefix(k, "T:max_path_length") {
			continue
		}
		ec := c.effectCounter(func(ed *effEdge) bool { return ed.Key() == k && ed.Fn == f }, false)
		r := ec.function(f)
		if r.Min != 1 || r.Max != 1 {
			c.violate("C04.descend", "once:"+k, f.Pos(), name, fmt.Sprintf("`%s` executes %s times per combined subtree (must be exactly once)", k, rangeStr(r)))
			ok = false
		}
	}
	ecLen := c.effectCounter(func(ed *effEdge) bool { return ed.Target == "T:max_path_length" && ed.Fn == f }, false)
	if r := ecLen.function(f); r.Min != 1 || r.Max != 1 {
		c.violate("C04.descend", "once:path-length", f.Pos(), name, fmt.Sprintf("the path-length maximum is updated %s times per combined subtree", rangeStr(r)))
		ok = false
	}
	// guards of the two alternatives
	// the object whose maximum an edge updates: a guard reading that same
	// object tests the parent accumulated so far, not the child
	updated := func(ed *effEdge) ssa.Value {
		if ci, isCall := ed.Site.(ssa.CallInstruction); isCall && len(ci.Common().Args) > 0 {
			if fa, isFA := ci.Common().Args[0].(*ssa.FieldAddr); isFA {
				return fa.X
			}
		}
		if st, isStore := ed.Site.(*ssa.Store); isStore {
			if fa, isFA := st.Addr.(*ssa.FieldAddr); isFA {
				return fa.X
			}
		}
		return nil
	}
	childHasPath := func(facts []condFact, parent ssa.Value) (known, truth bool) {
		for _, fct := range facts {
			cond, t := normCond(fct.Cond, fct.Truth)
			cmp, isCmp2 := cond.(*ssa.BinOp)
			if !isCmp2 {
				continue
			}
			lhs, rhs, op := cmp.X, cmp.Y, cmp.Op
			if _, isConst := lhs.(*ssa.Const); isConst {
				// `0 < x` is `x > 0`
				lhs, rhs = rhs, lhs
				switch op {
				case token.LSS:
					op = token.GTR
				case token.GTR:
					op = token.LSS
				case token.LEQ:
					op = token.GEQ
				case token.GEQ:
					op = token.LEQ
				}
			}
			n, isZero := constUint(rhs)
			if !isZero || n != 0 {
				continue
			}
			var tag string
			switch x := lhs.(type) {
			case *ssa.UnOp:
				if fa, isFA := x.X.(*ssa.FieldAddr); isFA && (parent == nil || fa.X != parent) {
					tag = nodeOfField(fieldOfAddr(fa))
				}
			case *ssa.Field:
				tag = nodeOfField(fieldOfVal(x))
			}
			if tag != "T:max_path_length" {
				continue
			}
			switch op {
			case token.GTR, token.NEQ:
				return true, t
			case token.EQL, token.LEQ:
				return true, !t
			}
		}
		return false, false
	}
	long := got["T:max_path_length <-MAX {ADD(T:max_path_length,const:1,len(F:git.TreeEntry.Name))}"]
	short := got["T:max_path_length <-MAX {len(F:git.TreeEntry.Name)}"]
	// the guard of an alternative is known where it is chosen: at the update
	// site itself, or in the block the operand flows in from
	guardFacts := func(ed *effEdge) []condFact {
		if t := ed.Terms[0]; ed.Alternatives > 1 && t.Origin != nil && t.OriginTo != nil {
			return factsOnEdge(t.Origin, t.OriginTo)
		}
		return factsAt(ed.Site.Block())
	}
	kl, tl := childHasPath(guardFacts(long), updated(long))
	ks, ts := childHasPath(guardFacts(short), updated(short))
	if kl && tl && ks && !ts {
		c.hold("C04.descend", "path-length-guard", posOf(long.Site), "name+1+child length iff the child has a non-empty path; the bare name length otherwise")
	} else {
		ok = false
		c.violate("C04.descend", "path-length-guard", posOf(long.Site), name, "the two path-length updates are not selected by `child's max path length > 0`: a path ending at an empty directory would be counted with a separator it does not have (or a real path without one)")
	}
	if ok {
		c.hold("C04.descend", "edges", f.Pos(), fmt.Sprintf("%s performs exactly the %d combine updates, once each", name, len(want)))
	}
}

// ruleC04Roots: trees reached directly from references or ROOT arguments are
// part of the quantifier: every selected root must be walked (C01.roots and
// the collect clause, reported under C04's name).
func ruleC04Roots(c *Ctx) {
	c.RuleAlias = map[string]string{"C01.roots": "C04.roots"}
	defer func() { c.RuleAlias = nil }()
	ruleC01Roots(c)
	c.checkCollect("C04.roots")
}

// ruleC04NameBytes: path length is measured in bytes of the entry names as
// stored in the tree (C16.grammar tree:name-exact under C04's name).
func ruleC04NameBytes(c *Ctx) {
	c.RuleAlias = map[string]string{"C16.grammar": "C04.arms"}
	defer func() { c.RuleAlias = nil }()
	c.checkTreeEntryExact()
}

// ruleC04Borrowed: clauses decided under other properties' names that the
// checkout metrics depend on just as much: the pending counter must not wrap
// (a wide tree would hand its parents a partial expansion), and every ROOT
// argument must become a walked root (a dropped ROOT leaves all checkout
// metrics at zero).
func ruleC04Borrowed(c *Ctx) {
	pendingWidth(c, "C04.final-only")
	c.RuleAlias = map[string]string{"C01.rootset": "C04.roots"}
	defer func() { c.RuleAlias = nil }()
	ruleC01Rootset(c)
}
