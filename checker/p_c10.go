package main

import (
	"fmt"
	"go/token"
	"go/types"
	"strings"

	"golang.org/x/tools/go/ssa"
)

func init() {
	register("C10",
		"Structural necessary conditions of C10 decided from /repo's SSA: (errflow) every error-typed value produced in module code (call results and receives from `chan error`, 139 today) is returned on its non-nil edge (wrapped or replaced), sent on an error channel, stored in a memo, or ends in panic — enumerated single-construct exceptions only (io.EOF from a line reader, ExitCode()==1 of `config --get`, ErrNotExist of the shallow marker, ErrHelp, writes to *bytes.Buffer / the diagnostic stream / help and version text, isatty); (short-read) in each counted read loop the stream-ended-early and wrong-type edges leave with a non-nil error; (wait) each iterator's Next returns the pipeline's Wait() error on its end-of-stream path and every function that obtains an iterator returns success only after Next reported end-of-stream; (stdout) report writes are dominated by the success edge of the scan, their own errors are returned, nothing else receives stdout, os.Stdout is used only in main and no fmt.Print* exists; (close) every channel the consumer receives from is closed by a deferred close at the top of exactly one producer stage, feeders close their request channel on all exits, and the error channel has room for its pending sender. Not decided: general absence of hangs, the report being identical to the fault-free one, go-pipe/os/exec behaviour under kills.",
		[]string{"github.com/github/go-pipe: Pipeline.Wait returns the first stage error / non-zero exit; stages are cancelled through the context", "os/exec.Cmd.Output waits for the child and reports a non-zero exit"},
		ruleC10Errflow, ruleC10ShortRead, ruleC10Wait, ruleC10Stdout, ruleC10Close, ruleC10Bounds, ruleC10Shallow)
}

// allErrorExits: every way out of the region dominated by edge p->t is a
// return with a non-nil error, a panic or a fatal exit.
func (c *Ctx) edgeLeavesWithError(p, t *ssa.BasicBlock) (bool, string) {
	if !edgeDominates(p, t, t) {
		return false, "the branch is empty and falls through"
	}
	ok, why, _ := c.errorExitStatus(p.Parent(), regionOfEdge(p, t))
	return ok, why
}

func ruleC10ShortRead(c *Ctx) {
	si := c.scanModel()
	if si.Fn == nil {
		c.violate("C10.short-read", "scan", token.NoPos, "", "cannot identify the scanner")
		return
	}
	name := fnName(si.Fn)
	batchNext := c.fn("/git", "*BatchObjectIter", "Next")
	n := 0
	for _, li := range si.Lists {
		for _, rl := range li.ReadLoops {
			for b := range rl.L.Blocks {
				for _, in := range b.Instrs {
					call, ok := in.(*ssa.Call)
					if !ok || call.Call.StaticCallee() != batchNext {
						continue
					}
					n++
					// ok == false edge
					var okVal ssa.Value
					for _, r := range *call.Referrers() {
						if ex, isEx := r.(*ssa.Extract); isEx && ex.Index == 1 {
							okVal = ex
						}
					}
					key := "list:" + li.Literal
					if okVal == nil {
						c.violate("C10.short-read", key+":ended-early", call.Pos(), name, "the `more objects?` result of Next() is ignored in the "+li.Literal+" loop: a stream that ends early is not noticed")
						continue
					}
					iffs := c.ifsOn(okVal)
					if len(iffs) == 0 {
						c.violate("C10.short-read", key+":ended-early", call.Pos(), name, "the `more objects?` result of Next() is never tested in the "+li.Literal+" loop")
						continue
					}
					for _, iff := range iffs {
						// the edge on which ok is false (`if ok` or `if !ok`)
						endEdge := iff.Block().Succs[1]
						if _, asWritten := normCond(iff.Cond, true); !asWritten {
							endEdge = iff.Block().Succs[0]
						}
						good, why := c.edgeLeavesWithError(iff.Block(), endEdge)
						if good {
							c.hold("C10.short-read", key+":ended-early", iff.Pos(), "ok==false leaves with a non-nil error")
						} else {
							c.violate("C10.short-read", key+":ended-early", iff.Pos(), name, "when the "+li.Literal+" stream ends before all requested objects were read, "+why+": a truncated `cat-file --batch` output would yield a report")
						}
					}
					// wrong type edge
					found := false
					for _, b2 := range si.Fn.Blocks {
						if !rl.L.Head.Dominates(b2) {
							continue
						}
						iff, isIf := b2.Instrs[len(b2.Instrs)-1].(*ssa.If)
						if !isIf {
							continue
						}
						cmp, isCmp2 := iff.Cond.(*ssa.BinOp)
						if !isCmp2 || (cmp.Op != token.NEQ && cmp.Op != token.EQL) {
							continue
						}
						lit, isLit := constStr(cmp.Y)
						if !isLit || !c.isFieldOfResult(cmp.X, call, "ObjectType") {
							continue
						}
						found = true
						succ := b2.Succs[0]
						if cmp.Op == token.EQL {
							succ = b2.Succs[1]
						}
						good, why := c.edgeLeavesWithError(b2, succ)
						switch {
						case lit != li.Literal:
							c.violate("C10.short-read", key+":wrong-type", iff.Pos(), name, fmt.Sprintf("objects read back for the %s list are checked against type %q", li.Literal, lit))
						case !good:
							c.violate("C10.short-read", key+":wrong-type", iff.Pos(), name, "an object of the wrong type in the "+li.Literal+" phase does not stop the run: "+why)
						default:
							c.hold("C10.short-read", key+":wrong-type", iff.Pos(), "type != "+lit+" leaves with a non-nil error")
						}
					}
					if !found {
						c.violate("C10.short-read", key+":wrong-type", call.Pos(), name, "objects read back in the "+li.Literal+" phase are not checked to be of that type")
					}
				}
			}
		}
	}
	if n < 3 {
		c.violate("C10.short-read", "floor", si.Fn.Pos(), name, fmt.Sprintf("only %d counted read loops found (tree, commit, tag expected)", n))
	}
}

// iteratorTypes: the git iterator types whose constructor starts a pipeline.
type iterInfo struct {
	T    *types.Named
	Ctor *ssa.Function
	Next *ssa.Function
}

func (c *Ctx) iterators() []*iterInfo {
	var out []*iterInfo
	start := "(*" + pipePkg + ".Pipeline).Start"
	for _, f := range c.ModFns {
		if pkgOf(f) != modPath+"/git" || f.Parent() != nil {
			continue
		}
		starts := false
		allInstrs(f, func(in ssa.Instruction) {
			if call, ok := in.(*ssa.Call); ok && calleeQ(&call.Call) == start {
				starts = true
			}
		})
		if !starts || f.Signature.Results().Len() == 0 {
			continue
		}
		n := namedOf(f.Signature.Results().At(0).Type())
		if n == nil {
			continue
		}
		it := &iterInfo{T: n, Ctor: f}
		it.Next = c.methodOf(types.NewPointer(n), "Next")
		out = append(out, it)
	}
	return out
}

func ruleC10Wait(c *Ctx) {
	wait := "(*" + pipePkg + ".Pipeline).Wait"
	its := c.iterators()
	if len(its) < 3 {
		c.violate("C10.wait", "iterators", token.NoPos, "", fmt.Sprintf("expected 3 pipeline-backed iterators in package git, found %d", len(its)))
	}
	for _, it := range its {
		tn := tname(it.T.Obj())
		if it.Next == nil {
			c.violate("C10.wait", tn+":Next", it.Ctor.Pos(), fnName(it.Ctor), "iterator "+tn+" has no Next method")
			continue
		}
		// (a) Next: on the end-of-stream path (channel receive ok == false) the error result is Wait()-derived
		okA := false
		var whyA string
		for _, ret := range returnsOf(it.Next) {
			closed := guardedBy(ret.Block(), func(cond ssa.Value, truth bool) bool {
				ex, ok := cond.(*ssa.Extract)
				if !ok || truth || ex.Index != 1 {
					return false
				}
				u, ok := ex.Tuple.(*ssa.UnOp)
				return ok && u.Op == token.ARROW && u.CommaOk
			})
			if !closed {
				continue
			}
			ei := it.Next.Signature.Results().Len() - 1
			for _, v := range c.resultValues(ret, ei) {
				v = c.resolve(v)
				switch x := v.(type) {
				case *ssa.Call:
					if calleeQ(&x.Call) == wait {
						okA = true
					} else {
						whyA = "returns the result of " + calleeQ(&x.Call)
					}
				case *ssa.UnOp:
					if x.Op == token.ARROW {
						// received from an error channel: its sender must send Wait()
						f, cell := c.chanIdent(x.X)
						ops := c.chanOpsFor(f, cell)
						for _, s := range ops.Sends {
							if sd, ok := s.(*ssa.Send); ok {
								if call, ok := sd.X.(*ssa.Call); ok && calleeQ(&call.Call) == wait {
									okA = true
								}
							}
						}
						if !okA {
							whyA = "returns a value received from a channel that no one feeds with Pipeline.Wait()"
						}
					}
				default:
					if isNilConst(v) {
						whyA = "returns a nil error"
					}
				}
			}
		}
		if okA {
			c.hold("C10.wait", tn+":Next", it.Next.Pos(), "on end-of-stream Next returns the pipeline's Wait() error")
		} else {
			if whyA == "" {
				whyA = "no end-of-stream return found"
			}
			c.violate("C10.wait", tn+":Next", it.Next.Pos(), fnName(it.Next), "when the stream ends, "+tn+".Next "+whyA+": a git subprocess that failed or was killed after producing output is not noticed")
		}
		// (b) consumers: success only after end-of-stream was observed
		for _, ci := range c.Callers[it.Ctor] {
			f := ci.Parent()
			if pkgOf(f) == modPath+"/git" {
				continue
			}
			nexts := callsTo(f, it.Next)
			key := tn + ":consumer@" + fnName(f)
			bad := false
			nSucc := 0
			for _, ret := range returnsOf(f) {
				success := false
				for i := 0; i < f.Signature.Results().Len(); i++ {
					if isErrorType(f.Signature.Results().At(i).Type()) {
						for _, v := range c.resultValues(ret, i) {
							if isNilConst(v) {
								success = true
							}
						}
					}
				}
				if !success {
					continue
				}
				nSucc++
				eos := guardedBy(ret.Block(), func(cond ssa.Value, truth bool) bool {
					ex, ok := cond.(*ssa.Extract)
					if !ok || truth || ex.Index != 1 {
						return false
					}
					for _, nx := range nexts {
						if ex.Tuple == ssa.Value(nx) {
							return true
						}
					}
					return false
				})
				if !eos {
					bad = true
					c.violate("C10.wait", key, ret.Pos(), fnName(f), fmt.Sprintf("%s can return success without %s.Next() having reported end-of-stream: the pipeline behind it is never waited for, so a `git` that exits non-zero after complete output goes unnoticed", fnName(f), tn))
				}
			}
			if !bad && nSucc > 0 {
				c.hold("C10.wait", key, ci.Pos(), "every success return is dominated by Next() reporting end-of-stream (whose error, Wait()'s, is checked by C10.errflow)")
			}
		}
	}
}

func ruleC10Stdout(c *Ctx) {
	mainImpl := c.fn("", "", "mainImplementation")
	if mainImpl == nil {
		c.violate("C10.stdout", "mainImplementation", token.NoPos, "", "main.mainImplementation not found")
		return
	}
	name := fnName(mainImpl)
	var stdout *ssa.Parameter
	for _, p := range mainImpl.Params {
		if p.Name() == "stdout" && isNamed(p.Type(), "io", "Writer") {
			stdout = p
		}
	}
	if stdout == nil {
		// by position: first io.Writer parameter
		for _, p := range mainImpl.Params {
			if isNamed(p.Type(), "io", "Writer") {
				stdout = p
				break
			}
		}
	}
	if stdout == nil {
		c.violate("C10.stdout", "param", mainImpl.Pos(), name, "mainImplementation has no io.Writer parameter for the report")
		return
	}
	// main passes os.Stdout there, and os.Stdout is used nowhere else
	for _, f := range c.ModFns {
		allInstrs(f, func(in ssa.Instruction) {
			u, ok := in.(*ssa.UnOp)
			if !ok {
				return
			}
			if g, ok := u.X.(*ssa.Global); ok && g.Pkg.Pkg.Path() == "os" && g.Name() == "Stdout" {
				if fnName(f) == "main.main" {
					c.present("C10.stdout", "os.Stdout@main.main", u.Pos(), "os.Stdout is handed to mainImplementation")
				} else {
					c.violate("C10.stdout", "os.Stdout@"+fnName(f), u.Pos(), fnName(f), "os.Stdout is used outside main.main: something other than the final report may be written to stdout")
				}
			}
		})
		// fmt.Print*, print, println
		allInstrs(f, func(in ssa.Instruction) {
			call, ok := in.(*ssa.Call)
			if !ok {
				return
			}
			q := calleeQ(&call.Call)
			if q == "fmt.Print" || q == "fmt.Println" || q == "fmt.Printf" || q == "builtin print" || q == "builtin println" {
				c.violate("C10.stdout", "print@"+fnName(f), call.Pos(), fnName(f), q+" writes to the process's standard streams outside the report path")
			}
		})
	}
	scan := c.fn("/sizes", "", "ScanRepositoryUsingGraph")
	var scanErr ssa.Value
	for _, call := range callsTo(mainImpl, scan) {
		for _, r := range *call.Referrers() {
			if ex, ok := r.(*ssa.Extract); ok && ex.Index == 1 {
				scanErr = ex
			}
		}
	}
	// every use of stdout
	fns := append([]*ssa.Function{mainImpl}, mainImpl.AnonFuncs...)
	usesStdout := func(v ssa.Value) bool {
		if _, isIface := v.Type().Underlying().(*types.Interface); !isIface {
			if _, fw := c.forwardingWriterField(v.Type()); !fw {
				return false
			}
		}
		return c.writerMayBe(v, stdout, 0)
	}
	nReport := 0
	for _, f := range fns {
		allInstrs(f, func(in ssa.Instruction) {
			call, ok := in.(ssa.CallInstruction)
			if !ok {
				return
			}
			argIdx := -1
			for i, a := range call.Common().Args {
				if usesStdout(a) {
					argIdx = i
				}
			}
			if argIdx < 0 {
				return
			}
			q := calleeQ(call.Common())
			isWrite := argIdx == 0 && (strings.HasPrefix(q, "fmt.Fprint") || q == "io.WriteString" || strings.Contains(q, ".Write"))
			key := fmt.Sprintf("%s@%s", q, c.lineKey(in))
			if !isWrite {
				c.violate("C10.stdout", "passed:"+strings.ReplaceAll(q, modPath+"/", ""), in.Pos(), fnName(f), "the report stream is handed to "+q+": output other than the final report (progress, listings) could reach stdout")
				return
			}
			p := &errProducer{Fn: f, Instr: in}
			if c.isNonScanningWrite(p) {
				c.present("C10.stdout", "nonscan:"+key, in.Pos(), "help/version text")
				return
			}
			nReport++
			// dominated by the scan's success edge
			okDom := scanErr != nil && guardedBy(in.Block(), func(cond ssa.Value, truth bool) bool {
				m, isNil := errNilFact(cond, truth, scanErr)
				return m && isNil
			})
			if okDom {
				c.hold("C10.stdout", "report:"+key, in.Pos(), "written only after the scan returned without error")
			} else {
				c.violate("C10.stdout", "report:"+key, in.Pos(), fnName(f), "something is written to stdout on a path that is not dominated by the successful return of the scan: a failing run would leave (partial) output on stdout")
			}
			// nothing fallible after it except further report writes
			reach := reachable(in.Block())
			for b := range reach {
				for _, in2 := range b.Instrs {
					if b == in.Block() && instrIndex(in2) <= instrIndex(in) {
						continue
					}
					c2, ok := in2.(*ssa.Call)
					if !ok {
						continue
					}
					if cal := c2.Call.StaticCallee(); cal != nil && c.inRuleScope(cal) && cal.Signature.Results().Len() > 0 && isErrorType(cal.Signature.Results().At(cal.Signature.Results().Len()-1).Type()) {
						c.violate("C10.stdout", "after-report:"+fnName(cal), c2.Pos(), fnName(f), "the fallible step "+fnName(cal)+" can still fail after report output was written: exit status and stdout would disagree")
					}
				}
			}
		})
	}
	if nReport == 0 {
		c.violate("C10.stdout", "report", mainImpl.Pos(), name, "no report is written to stdout")
	}
}

func ruleC10Close(c *Ctx) {
	// channels the consumer receives from: the receive in each iterator's Next
	for _, it := range c.iterators() {
		tn := tname(it.T.Obj())
		if it.Next == nil {
			continue
		}
		var chField *types.Var
		allInstrs(it.Next, func(in ssa.Instruction) {
			if u, ok := in.(*ssa.UnOp); ok && u.Op == token.ARROW && u.CommaOk {
				chField, _ = c.chanIdent(u.X)
			}
		})
		if chField == nil {
			c.undecided("C10.close", tn+":result-channel", it.Next.Pos(), fnName(it.Next), "cannot find the channel Next receives from")
			continue
		}
		ops := c.chanOpsFor(chField, nil)
		key := tn + ":" + chField.Name()
		if len(ops.Closes) != 1 {
			c.violate("C10.close", key+":closed-once", it.Next.Pos(), fnName(it.Ctor), fmt.Sprintf("the result channel of %s is closed at %d places (must be exactly one, in its producer): the consumer would block forever or a double close would panic", tn, len(ops.Closes)))
			continue
		}
		cl := ops.Closes[0]
		df, isDefer := cl.(*ssa.Defer)
		producer := cl.Parent()
		// `defer iter.closeResults()` where that method only closes the channel:
		// the deferring stage is the producer
		if !isDefer && len(producer.Blocks) == 1 {
			var sites []*ssa.Defer
			other := 0
			for _, ci := range c.Callers[producer] {
				if d, ok := ci.(*ssa.Defer); ok {
					sites = append(sites, d)
				} else {
					other++
				}
			}
			onlyClose := true
			for _, in := range producer.Blocks[0].Instrs {
				switch x := in.(type) {
				case *ssa.Call:
					if x != cl {
						onlyClose = false
					}
				case *ssa.Send, *ssa.Go, *ssa.Defer, *ssa.Store, *ssa.MapUpdate:
					onlyClose = false
				}
			}
			if len(sites) == 1 && other == 0 && onlyClose {
				df, isDefer = sites[0], true
				producer = df.Parent()
			}
		}
		// producer is a stage function of the iterator's pipeline and sends on that channel
		sends := false
		for _, s := range ops.Sends {
			if s.Parent() == producer {
				sends = true
			} else {
				c.violate("C10.close", key+":sender@"+fnName(s.Parent()), s.Pos(), fnName(s.Parent()), "the result channel is written outside the stage that closes it: send on closed channel / results after end-of-stream")
			}
		}
		// an explicit close that lies on every path from the stage's entry to each
		// of its returns is as good as the deferred one
		onEveryExit := false
		if !isDefer {
			ec := c.newEventCounter(func(in ssa.Instruction) int {
				if in == ssa.Instruction(cl) {
					return 1
				}
				return 0
			}, false)
			if r := ec.function(producer); r.Min == 1 && r.Max == 1 {
				onEveryExit = true
			}
		}
		switch {
		case onEveryExit && sends:
			c.hold("C10.close", key, cl.Pos(), "closed exactly once on every path to a return of its only producer "+fnName(producer))
		case !isDefer:
			c.violate("C10.close", key+":deferred", cl.Pos(), fnName(producer), "the result channel is closed by a plain call, not a defer: an error return of the stage leaves the consumer blocked")
		case df.Block() != producer.Blocks[0] || firstRealInstr(producer) != ssa.Instruction(df):
			c.violate("C10.close", key+":first", cl.Pos(), fnName(producer), "the deferred close is not the first statement of the producer stage: an earlier exit would leave the channel open")
		case !sends:
			c.violate("C10.close", key+":producer", cl.Pos(), fnName(producer), "the function that closes the result channel never sends on it")
		default:
			c.hold("C10.close", key, cl.Pos(), "closed by `defer close` at the top of its only producer "+fnName(producer))
		}
	}
	// feeder goroutines close the request channel on all exits: `defer iter.Close()` first
	si := c.scanModel()
	if si.Fn == nil {
		return
	}
	nFeed := 0
	allInstrs(si.Fn, func(in ssa.Instruction) {
		g, ok := in.(*ssa.Go)
		if !ok {
			return
		}
		var fn *ssa.Function
		switch v := g.Call.Value.(type) {
		case *ssa.MakeClosure:
			fn = v.Fn.(*ssa.Function)
		case *ssa.Function:
			if c.inRuleScope(v) && len(v.Blocks) > 0 {
				fn = v
			}
		}
		if fn == nil {
			return
		}
		nFeed++
		first := firstRealInstr(fn)
		df, isDefer := first.(*ssa.Defer)
		okClose := false
		if isDefer {
			if cal := df.Call.StaticCallee(); cal != nil && refName(cal) == "Close" && pkgOf(cal) == modPath+"/git" {
				okClose = true
			}
		}
		if okClose {
			c.hold("C10.close", "feeder:"+fnName(fn), g.Pos(), "the feeder's first statement is `defer <iterator>.Close()`")
		} else {
			c.violate("C10.close", "feeder:"+fnName(fn), g.Pos(), fnName(fn), "the feeder goroutine does not start with a deferred Close() of its iterator: on an early exit git would wait for stdin forever")
		}
		// it reports exactly one result on the error channel
		ec := c.newEventCounter(func(in ssa.Instruction) int {
			if s, ok := in.(*ssa.Send); ok {
				if ch, ok := s.Chan.Type().Underlying().(*types.Chan); ok && isErrorType(ch.Elem()) {
					return 1
				}
			}
			return 0
		}, false)
		if r := ec.function(fn); r.Min == 1 && r.Max == 1 {
			c.hold("C10.close", "feeder-result:"+fnName(fn), g.Pos(), "sends exactly one result on the error channel")
		} else {
			c.violate("C10.close", "feeder-result:"+fnName(fn), g.Pos(), fnName(fn), fmt.Sprintf("the feeder sends %s results on the error channel (the consumer receives exactly one): deadlock or lost error", rangeStr(r)))
		}
	})
	if nFeed < 2 {
		c.violate("C10.close", "feeders", si.Fn.Pos(), fnName(si.Fn), fmt.Sprintf("expected two feeder goroutines, found %d", nFeed))
	}
	// error channel capacity >= 1 and receives == feeders on the success path
	allInstrs(si.Fn, func(in ssa.Instruction) {
		mk, ok := in.(*ssa.MakeChan)
		if !ok {
			return
		}
		if ch, ok := mk.Type().Underlying().(*types.Chan); !ok || !isErrorType(ch.Elem()) {
			return
		}
		if n, ok := constInt(mk.Size); ok && n >= 1 {
			c.hold("C10.close", "errchan:capacity", mk.Pos(), fmt.Sprintf("capacity %d: a feeder can always deliver its result even if the consumer already left", n))
		} else {
			c.violate("C10.close", "errchan:capacity", mk.Pos(), fnName(si.Fn), "the feeders' error channel is unbuffered: when the consumer returns early the feeder blocks forever on its send (goroutine leak / hang of Wait)")
		}
	})
	recvs := 0
	allInstrs(si.Fn, func(in ssa.Instruction) {
		if u, ok := in.(*ssa.UnOp); ok && u.Op == token.ARROW {
			if ch, ok := u.X.Type().Underlying().(*types.Chan); ok && isErrorType(ch.Elem()) {
				recvs++
			}
		}
	})
	if recvs == nFeed {
		c.hold("C10.close", "errchan:receives", si.Fn.Pos(), fmt.Sprintf("%d feeder(s), %d receive(s)", nFeed, recvs))
	} else {
		c.violate("C10.close", "errchan:receives", si.Fn.Pos(), fnName(si.Fn), fmt.Sprintf("%d feeder goroutines but %d receives from the error channel: a feeder's failure is never looked at (or the scan waits for a result nobody sends)", nFeed, recvs))
	}
}

func firstRealInstr(f *ssa.Function) ssa.Instruction {
	if len(f.Blocks) == 0 {
		return nil
	}
	for _, in := range f.Blocks[0].Instrs {
		switch in.(type) {
		case *ssa.DebugRef:
			continue
		case *ssa.Alloc:
			continue
		case *ssa.Store:
			// parameter spills
			continue
		case *ssa.UnOp, *ssa.FieldAddr:
			continue
		}
		return in
	}
	return nil
}

// ruleC10Bounds: index/slice obligations of the driver (a panic is not an
// error message on stderr with a clean non-zero exit).
func ruleC10Bounds(c *Ctx) {
	c.boundsOfPackage("C10.no-crash", "")
	c.boundsOfPackage("C10.no-crash", "/sizes", "graph.go", "sizes.go", "grouper.go", "explicit_root.go")
}

// ruleC10Shallow: C10 promises that a shallow repository is refused; the
// clause is C13.shallow, reported here under C10's name.
func ruleC10Shallow(c *Ctx) {
	c.RuleAlias = map[string]string{"C13.shallow": "C10.shallow"}
	defer func() { c.RuleAlias = nil }()
	ruleC13Shallow(c)
}
