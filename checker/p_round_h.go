package main

import (
	"fmt"
	"go/token"
	"go/types"
	"strings"

	"golang.org/x/tools/go/ssa"
)

// Clauses added after the eighth round of seeded changes.

func init() {
	register("C01", "", nil, ruleC01Uncond)
	register("C02", "", nil, ruleC02Borrowed2)
	register("C04", "", nil, ruleC04SizeSource)
	register("C10", "", nil, ruleC10RefObjects, ruleC10JSONVersion)
	register("C11", "", nil, ruleC11TableThreshold)
	register("C15", "", nil, ruleC15BuiltinsFirst)
	register("C17", "", nil, ruleC17Borrowed, ruleC17SharedSlice)
	register("C19", "", nil, ruleC19RootArgs)
}

// ruleC01Uncond: each census update is executed exactly once for every
// object registered (no special case that skips an object).
func ruleC01Uncond(c *Ctx) {
	e := c.effects()
	for _, row := range effectOracle {
		if row.Prop != "C01" {
			continue
		}
		for _, ed := range e.ByNode[row.Target] {
			if ed.Op != "ADD" || !strings.HasPrefix(row.Target, "H:") {
				continue
			}
			c.checkUnconditional("C01.uncond", row.Target, ed)
		}
	}
}

// ruleC02Borrowed2: the objects measured are the real ones (C13.isolation)
// and a size below 2^32-1 is not turned into the capacity (C05.plus,
// NewCount32 clause).
func ruleC02Borrowed2(c *Ctx) {
	c.RuleAlias = map[string]string{"C13.isolation": "C02.isolation", "C05.plus": "C02.size-source"}
	c.KeyOnly = func(key string) bool {
		return !strings.Contains(key, "Plus") && !strings.Contains(key, "Increment") && !strings.Contains(key, "ToUint64")
	}
	defer func() { c.RuleAlias = nil; c.KeyOnly = nil }()
	ruleC13Isolation(c)
	ruleC05Plus(c)
}

// ruleC04SizeSource: what is combined into a tree for one of its
// subdirectories is that subdirectory's own expansion: the size answered by
// RequireTreeSize or delivered to the listener, never a literal.
func ruleC04SizeSource(c *Ctx) {
	const rule = "C04.arms"
	add := c.fn("/sizes", "*TreeSize", "addDescendent")
	req := c.fn("/sizes", "*Graph", "RequireTreeSize")
	if add == nil || req == nil {
		return
	}
	n := 0
	for _, ci := range c.Callers[add] {
		call, ok := ci.(*ssa.Call)
		if !ok || len(call.Call.Args) < 3 {
			continue
		}
		n++
		v := c.resolve(call.Call.Args[2])
		okSrc := false
		switch x := v.(type) {
		case *ssa.Extract:
			if rc, isCall := x.Tuple.(*ssa.Call); isCall && rc.Call.StaticCallee() == req && x.Index == 0 {
				okSrc = true
			}
		case *ssa.Parameter:
			okSrc = x.Parent().Parent() != nil // the parameter of a listener closure
		case *ssa.UnOp:
			// the result tuple or listener parameter spilled into a local
			if al, isAl := x.X.(*ssa.Alloc); isAl {
				for _, st := range c.cellStores(al) {
					switch y := st.Val.(type) {
					case *ssa.Extract:
						if rc, isCall := y.Tuple.(*ssa.Call); isCall && rc.Call.StaticCallee() == req {
							okSrc = true
						}
					case *ssa.Parameter:
						okSrc = true
					}
				}
			}
		}
		key := "tree:size-source@" + fnName(call.Parent())
		if okSrc {
			c.hold(rule, key, call.Pos(), "the subtree's size comes from RequireTreeSize / the listener")
		} else {
			c.violate(rule, key, call.Pos(), fnName(call.Parent()), "a subdirectory is combined with a size that is not the one the graph computed for it (a literal or another value): its own directory count, files and paths are lost")
		}
	}
	if n == 0 {
		c.notDecided(rule, "tree:size-source", token.NoPos, "no call of addDescendent found")
	}
}

// ruleC10RefObjects: a reference whose object is missing must fail the run
// even when the reference is not walked: git reports it only because the
// listing asks for a property of the object itself.
func ruleC10RefObjects(c *Ctx) {
	sites := c.gitSites("for-each-ref")
	if len(sites) != 1 {
		return
	}
	s := sites[0]
	for _, a := range s.Argv {
		if strings.HasPrefix(a, "--format=") {
			if strings.Contains(a, "%(objecttype)") || strings.Contains(a, "%(objectsize)") {
				c.hold("C10.argv", "for-each-ref:opens-object", s.Call.Pos(), "the listing asks for the object's type/size, so git fails on a reference to a missing object")
			} else {
				c.violate("C10.argv", "for-each-ref:opens-object", s.Call.Pos(), fnName(s.Fn), "the reference listing no longer asks for a property of the referenced object: a reference to a missing object that is not walked goes unnoticed and a report is produced")
			}
		}
	}
}

// ruleC10JSONVersion: a JSON format version other than 1 or 2 must end in
// an error, not in a report. Forward dataflow over {1, 2, other} for the
// option variable of --json-version: at the two calls that produce the
// report bytes, `other` must have been excluded.
func ruleC10JSONVersion(c *Ctx) {
	const rule = "C10.json-version"
	mainImpl := c.fn("", "", "mainImplementation")
	if mainImpl == nil {
		return
	}
	var cell interface{}
	for _, r := range c.flagRegs() {
		if r.Name == "json-version" {
			for _, k := range c.cellsOfFlagValue(r.ValueArg, 0) {
				cell = k
			}
		}
	}
	al, ok := cell.(*ssa.Alloc)
	if !ok {
		c.notDecided(rule, "variable", token.NoPos, "the variable of --json-version is not a local of mainImplementation")
		return
	}
	const (
		v1 = 1 << iota
		v2
		other
	)
	// the switch that the report is produced under (--json) is tracked
	// together with the version: the validation and the report are both
	// guarded by it, in two different places. A state is a set of pairs
	// (switch, version): bit (3*j + k) for switch value j and version class k.
	var jsonCell *ssa.Alloc
	for _, r := range c.flagRegs() {
		if r.Name == "json" {
			for _, k := range c.cellsOfFlagValue(r.ValueArg, 0) {
				if a, isAlloc := k.(*ssa.Alloc); isAlloc {
					jsonCell = a
				}
			}
		}
	}
	const top = 1<<6 - 1
	proj := func(st int) int { return (st | st>>3) & 7 }
	isLoad := func(v ssa.Value) bool {
		u, ok := v.(*ssa.UnOp)
		return ok && u.Op == token.MUL && u.X == ssa.Value(al)
	}
	isJSONLoad := func(v ssa.Value) bool {
		u, ok := v.(*ssa.UnOp)
		return ok && jsonCell != nil && u.Op == token.MUL && u.X == ssa.Value(jsonCell)
	}
	// filter: the states that can take the edge on which cond has truth value t
	filter := func(cond ssa.Value, t bool, in int) int {
		cond, t = normCond(cond, t)
		if isJSONLoad(cond) {
			if t {
				return in & (7 << 3)
			}
			return in & 7
		}
		cmp, ok := cond.(*ssa.BinOp)
		if !ok || !isLoad(cmp.X) {
			return in
		}
		k, ok := constInt(cmp.Y)
		if !ok {
			return in
		}
		holds := func(n int64) bool {
			switch cmp.Op {
			case token.EQL:
				return n == k
			case token.NEQ:
				return n != k
			case token.LSS:
				return n < k
			case token.LEQ:
				return n <= k
			case token.GTR:
				return n > k
			case token.GEQ:
				return n >= k
			}
			return true
		}
		keep := 0
		if holds(1) == t {
			keep |= v1
		}
		if holds(2) == t {
			keep |= v2
		}
		// some other number: only an equality with 1 or 2 excludes it
		if !(cmp.Op == token.EQL && t && (k == 1 || k == 2)) && !(cmp.Op == token.NEQ && !t && (k == 1 || k == 2)) {
			keep |= other
		}
		return in & (keep | keep<<3)
	}
	in := map[*ssa.BasicBlock]int{mainImpl.Blocks[0]: top}
	for iter := 0; iter < 50; iter++ {
		changed := false
		for _, b := range mainImpl.Blocks {
			st, reached := in[b]
			if !reached || b == mainImpl.Recover {
				continue
			}
			for _, ins := range b.Instrs {
				if s, isStore := ins.(*ssa.Store); isStore && s.Addr == ssa.Value(al) {
					// any version, with the switch as it was
					j := 0
					if st&7 != 0 {
						j |= 7
					}
					if st&(7<<3) != 0 {
						j |= 7 << 3
					}
					st = j
				}
				if s, isStore := ins.(*ssa.Store); isStore && jsonCell != nil && s.Addr == ssa.Value(jsonCell) {
					p := proj(st)
					st = p | p<<3
				}
			}
			for i, succ := range b.Succs {
				out := st
				if iff, isIf := b.Instrs[len(b.Instrs)-1].(*ssa.If); isIf && b.Succs[0] != b.Succs[1] {
					out = filter(iff.Cond, i == 0, st)
				}
				if old, seen := in[succ]; !seen || old|out != old {
					in[succ] = old | out
					changed = true
				}
			}
		}
		if !changed {
			break
		}
	}
	for b, st := range in {
		in[b] = proj(st)
	}
	n := 0
	allInstrs(mainImpl, func(ins ssa.Instruction) {
		call, ok := ins.(*ssa.Call)
		if !ok {
			return
		}
		q := calleeQ(&call.Call)
		isV1 := (q == "encoding/json.MarshalIndent" || q == "encoding/json.Marshal")
		isV2 := q == modQ("/sizes", "*HistorySize", "JSON")
		if !isV1 && !isV2 {
			return
		}
		n++
		st := in[call.Block()]
		key := "v1"
		if isV2 {
			key = "v2"
		}
		switch {
		case st&other != 0:
			c.violate(rule, key, call.Pos(), fnName(mainImpl), "a JSON report is produced on a path on which the requested format version has not been found to be 1 or 2: --json-version=3 (or sizer.jsonVersion=7) yields a report instead of an error")
		case isV1 && st&v2 != 0, isV2 && st&v1 != 0:
			c.violate(rule, key, call.Pos(), fnName(mainImpl), "the report of one JSON format version is produced when the other one was requested")
		default:
			c.hold(rule, key, call.Pos(), "reached only with the format version it implements")
		}
	})
	if n == 0 {
		c.notDecided(rule, "calls", token.NoPos, "the JSON reports are not produced in mainImplementation")
	}
}

// ruleC11TableThreshold: the rows are filtered with the threshold the caller
// asked for, unmodified (a clamp makes a stricter threshold show more rows).
func ruleC11TableThreshold(c *Ctx) {
	const rule = "C11.rule"
	ts := c.fn("/sizes", "*HistorySize", "TableString")
	if ts == nil {
		return
	}
	var param *ssa.Parameter
	for _, p := range ts.Params {
		if isNamed(p.Type(), modPath+"/sizes", "Threshold") {
			param = p
		}
	}
	if param == nil {
		return
	}
	n := 0
	allInstrs(ts, func(in ssa.Instruction) {
		st, ok := in.(*ssa.Store)
		if !ok {
			return
		}
		fa, ok := st.Addr.(*ssa.FieldAddr)
		if !ok || !isNamed(fieldOfAddr(fa).Var.Type(), modPath+"/sizes", "Threshold") {
			return
		}
		n++
		if c.resolve(st.Val) == ssa.Value(param) {
			c.hold(rule, "table-threshold", st.Pos(), "the table filters with the caller's threshold")
		} else {
			c.violate(rule, "table-threshold", st.Pos(), fnName(ts), "the table does not filter with the threshold it was given (the value is clamped or replaced): raising the threshold no longer removes rows")
		}
	})
	if n == 0 {
		c.notDecided(rule, "table-threshold", ts.Pos(), "no threshold field is set in TableString")
	}
}

// ruleC15BuiltinsFirst: the built-in groups exist before the configuration
// is read, so that refgroup.<builtin>.* entries extend them instead of being
// overwritten by their initialisation.
func ruleC15BuiltinsFirst(c *Ctx) {
	const rule = "C15.each-group"
	initStd := c.fn("/internal/refopts", "*RefGroupBuilder", "initializeStandardRefgroups")
	read := c.fn("/internal/refopts", "*RefGroupBuilder", "readRefgroupsFromGitconfig")
	if initStd == nil || read == nil {
		return
	}
	for _, ci := range c.Callers[read] {
		rc, ok := ci.(*ssa.Call)
		if !ok {
			continue
		}
		before := false
		for _, ii := range c.Callers[initStd] {
			if ic, ok := ii.(*ssa.Call); ok && ic.Parent() == rc.Parent() && instrDominates(ic, rc) {
				before = true
			}
		}
		if before {
			c.hold(rule, "builtins-first", rc.Pos(), "the built-in groups are installed before gitconfig is read")
		} else {
			c.violate(rule, "builtins-first", rc.Pos(), fnName(rc.Parent()), "gitconfig is read before the built-in groups are installed: their initialisation then overwrites what refgroup.<builtin>.* configured")
		}
	}
}

// ruleC17Borrowed: nothing timing-dependent reaches stdout (C18.stream).
func ruleC17Borrowed(c *Ctx) {
	c.RuleAlias = map[string]string{"C18.stream": "C17.stdout"}
	defer func() { c.RuleAlias = nil }()
	ruleC18Stream(c)
}

// ruleC17SharedSlice: a slice that a goroutine started earlier in the same
// function reads must not be reordered or assigned into by the function
// itself afterwards.
func ruleC17SharedSlice(c *Ctx) {
	const rule = "C17.confinement"
	mutators := map[string]bool{
		"sort.Slice": true, "sort.SliceStable": true, "sort.Sort": true, "sort.Stable": true, "sort.Strings": true, "sort.Ints": true,
		"slices.Sort": true, "slices.SortFunc": true, "slices.SortStableFunc": true, "slices.Reverse": true, "math/rand.Shuffle": true,
	}
	for _, f := range c.ModFns {
		if len(f.Blocks) == 0 {
			continue
		}
		// slices captured (or passed) to goroutines started in f
		type share struct {
			g  *ssa.Go
			id interface{}
			v  ssa.Value
		}
		var shares []share
		allInstrs(f, func(in ssa.Instruction) {
			g, ok := in.(*ssa.Go)
			if !ok {
				return
			}
			var vals []ssa.Value
			if mc, ok := g.Call.Value.(*ssa.MakeClosure); ok {
				vals = append(vals, mc.Bindings...)
			}
			vals = append(vals, g.Call.Args...)
			for _, v := range vals {
				if isSliceType(v.Type()) {
					shares = append(shares, share{g, c.listID(v), v})
				} else if p, ok := v.Type().Underlying().(*types.Pointer); ok && isSliceType(p.Elem()) {
					shares = append(shares, share{g, c.cellOf(v), v})
				}
			}
		})
		if len(shares) == 0 {
			continue
		}
		allInstrs(f, func(in ssa.Instruction) {
			call, ok := in.(*ssa.Call)
			if !ok || !mutators[calleeQ(&call.Call)] || len(call.Call.Args) == 0 {
				return
			}
			arg := call.Call.Args[0]
			if mi, ok := arg.(*ssa.MakeInterface); ok {
				arg = mi.X
			}
			for _, sh := range shares {
				if !instrDominates(sh.g, call) {
					continue
				}
				same := arg == sh.v
				if id := c.listID(arg); id != nil && sh.id != nil && id == sh.id {
					same = true
				}
				if cell, ok := sh.id.(*ssa.Alloc); ok && cell != nil {
					if u, ok := arg.(*ssa.UnOp); ok && c.cellOf(u.X) == cell {
						same = true
					}
					// the parameter whose spill cell the goroutine captured
					for _, st := range c.cellStores(cell) {
						if st.Val == arg {
							same = true
						}
					}
				}
				if same {
					c.violate(rule, fnName(f)+":reorders-shared:"+calleeQ(&call.Call), call.Pos(), fnName(f), fmt.Sprintf("%s reorders a slice in place that a goroutine started earlier in the function is reading: a data race, and the goroutine may skip or repeat elements", calleeQ(&call.Call)))
				}
			}
		})
	}
}

// ruleC19RootArgs: a ROOT argument is resolved behind --end-of-options, so
// that a name beginning with '-' is a name and not an option.
func ruleC19RootArgs(c *Ctx) {
	const rule = "C19.root-args"
	res := c.fn("/git", "*Repository", "ResolveObject")
	if res == nil {
		return
	}
	for _, s := range c.spawnTable() {
		if s.Fn != res || s.Kind != "GitCommand" {
			continue
		}
		okEnd := false
		for i, a := range s.Argv {
			if a == "<dyn>" && i > 0 && s.Argv[i-1] == "--end-of-options" {
				okEnd = true
			}
		}
		if okEnd {
			c.hold(rule, "end-of-options", s.Call.Pos(), "argv: "+strings.Join(s.Argv, " "))
		} else {
			c.violate(rule, "end-of-options", s.Call.Pos(), fnName(res), "the ROOT argument is handed to rev-parse without --end-of-options in front of it: a name that begins with '-' is taken for an option and no report is produced", "argv: "+strings.Join(s.Argv, " "))
		}
	}
}
