package main

import (
	"fmt"
	"go/token"
	"golang.org/x/tools/go/ssa"
	"os"
)

// rotateCallLoops brings the three-clause iterator loop
//
//	for x, ok, err := it.Next(); cond; x, ok, err = it.Next() { body }
//
// into the shape of `for { x, ok, err := it.Next(); if !cond { break }; body }`:
// the identical calls that end the loop's pre-header and its post block are
// replaced by one call at the top of the loop header, whose results take the
// place of the header phis that merged the two. Both forms execute the same
// calls in the same order.
func rotateCallLoops(f *ssa.Function) bool {
	changed := false
	for again := true; again; {
		again = false
		for _, h := range f.Blocks {
			if len(h.Preds) != 2 || h == f.Recover {
				continue
			}
			var pre, post *ssa.BasicBlock
			for _, p := range h.Preds {
				if h.Dominates(p) {
					post = p
				} else {
					pre = p
				}
			}
			if pre == nil || post == nil || pre == post || len(pre.Succs) != 1 || len(post.Succs) != 1 {
				continue
			}
			c1, ex1 := trailingCall(pre)
			c2, ex2 := trailingCall(post)
			if os.Getenv("SIZERCHECK_DEBUGROTATE") != "" {
				fmt.Fprintf(os.Stderr, "rotate %s h=%d pre=%d post=%d c1=%v c2=%v\n", f, h.Index, pre.Index, post.Index, c1 != nil, c2 != nil)
			}
			if c1 == nil || c2 == nil || !sameCall(c1, c2, h) {
				continue
			}
			// every use of the two calls' results is a header phi merging the
			// corresponding results
			pi, _ := predIndex(h, pre)
			qi, _ := predIndex(h, post)
			type merged struct {
				phi *ssa.Phi
				idx int // result index, -1 for the call value itself
			}
			var ms []merged
			ok := true
			results := func(c *ssa.Call, exs []*ssa.Extract) map[ssa.Value]int {
				m := map[ssa.Value]int{ssa.Value(c): -1}
				for _, e := range exs {
					m[e] = e.Index
				}
				return m
			}
			r1, r2 := results(c1, ex1), results(c2, ex2)
			usedOnlyBy := func(vals map[ssa.Value]int, edge int) bool {
				for v := range vals {
					refs := v.Referrers()
					if refs == nil {
						continue
					}
					for _, r := range *refs {
						if _, isEx := r.(*ssa.Extract); isEx && vals[v] == -1 {
							continue
						}
						if _, isDbg := r.(*ssa.DebugRef); isDbg {
							continue
						}
						if st, isSt := r.(*ssa.Store); isSt && st.Val == v {
							if _, isAlloc := st.Addr.(*ssa.Alloc); isAlloc && st.Block() == v.(ssa.Instruction).Block() {
								continue
							}
						}
						phi, isPhi := r.(*ssa.Phi)
						if !isPhi || phi.Block() != h || phi.Edges[edge] != v {
							return false
						}
					}
				}
				return true
			}
			if !usedOnlyBy(r1, pi) || !usedOnlyBy(r2, qi) {
				continue
			}
			for _, in := range h.Instrs {
				phi, isPhi := in.(*ssa.Phi)
				if !isPhi {
					break
				}
				i1, a := r1[phi.Edges[pi]]
				i2, b := r2[phi.Edges[qi]]
				if a != b {
					ok = false
					break
				}
				if a {
					if i1 != i2 {
						ok = false
						break
					}
					ms = append(ms, merged{phi, i1})
				}
			}
			// results kept in locals: the same local gets the same result in both blocks
			storesOf := func(b *ssa.BasicBlock, c *ssa.Call) map[*ssa.Alloc]int {
				m := map[*ssa.Alloc]int{}
				for _, in := range b.Instrs {
					if st, isSt := in.(*ssa.Store); isSt {
						if e, isEx := st.Val.(*ssa.Extract); isEx && e.Tuple == ssa.Value(c) {
							m[st.Addr.(*ssa.Alloc)] = e.Index
						}
					}
				}
				return m
			}
			s1, s2 := storesOf(pre, c1), storesOf(post, c2)
			if len(s1) != len(s2) {
				ok = false
			}
			for a, i := range s1 {
				if j, has := s2[a]; !has || i != j {
					ok = false
				}
			}
			if !ok || len(ms)+len(s1) == 0 {
				continue
			}
			// build the call (and one extract per merged result) at the top of h
			nc := cloneInstr(c1).(*ssa.Call)
			setBlock(nc, h)
			var fresh []ssa.Instruction
			fresh = append(fresh, nc)
			repl := map[*ssa.Phi]ssa.Value{}
			for _, m := range ms {
				if m.idx == -1 {
					repl[m.phi] = nc
					continue
				}
				var proto *ssa.Extract
				for _, e := range ex1 {
					if e.Index == m.idx {
						proto = e
					}
				}
				ne := cloneInstr(proto).(*ssa.Extract)
				ne.Tuple = nc
				setBlock(ne, h)
				fresh = append(fresh, ne)
				repl[m.phi] = ne
			}
			for _, in := range pre.Instrs {
				st, isSt := in.(*ssa.Store)
				if !isSt {
					continue
				}
				e, isEx := st.Val.(*ssa.Extract)
				if !isEx || e.Tuple != ssa.Value(c1) {
					continue
				}
				ne := cloneInstr(e).(*ssa.Extract)
				ne.Tuple = nc
				setBlock(ne, h)
				nst := cloneInstr(st).(*ssa.Store)
				nst.Val = ne
				setBlock(nst, h)
				fresh = append(fresh, ne, nst)
			}
			drop := map[ssa.Instruction]bool{ssa.Instruction(c1): true, ssa.Instruction(c2): true}
			for _, b := range []*ssa.BasicBlock{pre, post} {
				for _, in := range b.Instrs {
					if st, isSt := in.(*ssa.Store); isSt {
						if e, isEx := st.Val.(*ssa.Extract); isEx && (e.Tuple == ssa.Value(c1) || e.Tuple == ssa.Value(c2)) {
							drop[st] = true
						}
					}
				}
			}
			for _, e := range ex1 {
				drop[e] = true
			}
			for _, e := range ex2 {
				drop[e] = true
			}
			for phi := range repl {
				drop[phi] = true
			}
			var phis, rest []ssa.Instruction
			for _, in := range h.Instrs {
				if drop[in] {
					continue
				}
				if _, isPhi := in.(*ssa.Phi); isPhi {
					phis = append(phis, in)
				} else {
					rest = append(rest, in)
				}
			}
			h.Instrs = append(append(phis, fresh...), rest...)
			for _, b := range []*ssa.BasicBlock{pre, post} {
				var out []ssa.Instruction
				for _, in := range b.Instrs {
					if !drop[in] {
						out = append(out, in)
					}
				}
				b.Instrs = out
			}
			for phi, v := range repl {
				replaceUses(f, phi, v)
			}
			finishFunc(f)
			changed, again = true, true
			break
		}
	}
	return changed
}

// trailingCall: the block ends with `t = f(args); extract…; jump`.
func trailingCall(b *ssa.BasicBlock) (*ssa.Call, []*ssa.Extract) {
	if len(b.Instrs) < 2 {
		return nil, nil
	}
	if _, ok := b.Instrs[len(b.Instrs)-1].(*ssa.Jump); !ok {
		return nil, nil
	}
	var exs []*ssa.Extract
	for i := len(b.Instrs) - 2; i >= 0; i-- {
		switch x := b.Instrs[i].(type) {
		case *ssa.Extract:
			exs = append(exs, x)
		case *ssa.DebugRef:
		case *ssa.Store:
			// `*local = extract`: a result kept in an address-taken local
			if _, isAlloc := x.Addr.(*ssa.Alloc); !isAlloc {
				return nil, nil
			}
			if _, isEx := x.Val.(*ssa.Extract); !isEx {
				return nil, nil
			}
		case *ssa.Call:
			for _, e := range exs {
				if e.Tuple != ssa.Value(x) {
					return nil, nil
				}
			}
			for j := i + 1; j < len(b.Instrs)-1; j++ {
				if st, isSt := b.Instrs[j].(*ssa.Store); isSt {
					if e, _ := st.Val.(*ssa.Extract); e == nil || e.Tuple != ssa.Value(x) {
						return nil, nil
					}
				}
			}
			return x, exs
		default:
			return nil, nil
		}
	}
	return nil, nil
}

// sameCall: two calls of the same static callee (or the same interface
// method on the same receiver) with the same operands, all of them defined
// outside the loop headed by h.
func sameCall(a, b *ssa.Call, h *ssa.BasicBlock) bool {
	if a.Call.IsInvoke() != b.Call.IsInvoke() || len(a.Call.Args) != len(b.Call.Args) {
		return false
	}
	if a.Call.IsInvoke() {
		if a.Call.Method != b.Call.Method || a.Call.Value != b.Call.Value {
			return false
		}
	} else if a.Call.StaticCallee() == nil || a.Call.StaticCallee() != b.Call.StaticCallee() {
		return false
	}
	invariant := func(v ssa.Value) bool {
		in, ok := v.(ssa.Instruction)
		if !ok {
			return true
		}
		return in.Block() != nil && in.Block() != h && !h.Dominates(in.Block())
	}
	if a.Call.IsInvoke() && !invariant(a.Call.Value) {
		return false
	}
	for i := range a.Call.Args {
		if sameCellLoad(a.Call.Args[i], b.Call.Args[i]) {
			continue
		}
		if a.Call.Args[i] != b.Call.Args[i] || !invariant(a.Call.Args[i]) {
			return false
		}
	}
	return true
}

// sameCellLoad: two loads of one local that is assigned exactly once (also
// counting the closures that capture it): they yield the same value.
func sameCellLoad(a, b ssa.Value) bool {
	la, ok1 := a.(*ssa.UnOp)
	lb, ok2 := b.(*ssa.UnOp)
	if !ok1 || !ok2 || la.Op != token.MUL || lb.Op != token.MUL || la.X != lb.X {
		return false
	}
	cell, ok := la.X.(*ssa.Alloc)
	if !ok || cell.Referrers() == nil {
		return false
	}
	stores := 0
	var readOnly func(v ssa.Value) bool
	readOnly = func(v ssa.Value) bool {
		refs := v.Referrers()
		if refs == nil {
			return true
		}
		for _, r := range *refs {
			switch x := r.(type) {
			case *ssa.UnOp:
				if x.Op != token.MUL {
					return false
				}
			case *ssa.DebugRef:
			case *ssa.Store:
				if x.Addr != v {
					return false // the address escapes
				}
				stores++
			case *ssa.MakeClosure:
				fn, isFn := x.Fn.(*ssa.Function)
				if !isFn {
					return false
				}
				for i, bnd := range x.Bindings {
					if bnd == v {
						if i >= len(fn.FreeVars) || !readOnly(fn.FreeVars[i]) {
							return false
						}
					}
				}
			default:
				return false
			}
		}
		return true
	}
	if !readOnly(cell) || stores != 1 {
		return false
	}
	// the single assignment precedes both loads
	for _, st := range storesTo(cell) {
		if !instrDominates(st, la) || !instrDominates(st, lb) {
			return false
		}
	}
	return true
}
