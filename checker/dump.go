package main

import (
	"fmt"
	"os"
	"strings"

	"golang.org/x/tools/go/ssa"
)

func runDump(c *Ctx, what string) {
	switch what {
	case "spawn":
		c.dumpSpawn()
	case "funcs":
		for _, f := range c.ModFns {
			if f.Parent() == nil {
				fmt.Printf("%s\t%s\n", f.String(), sigKey(f))
			}
		}
	case "inline":
		for _, l := range c.inlineLog() {
			fmt.Println(l)
		}
	default:
		if strings.HasPrefix(what, "ssa:") {
			for _, f := range c.ModFns {
				if strings.Contains(f.String(), what[4:]) {
					f.WriteTo(os.Stdout)
				}
			}
			return
		}
		if f, ok := dumpers[what]; ok {
			f(c)
			return
		}
		fmt.Println("unknown dump", what)
	}
}

var dumpers = map[string]func(*Ctx){}

func init() {
	dumpers["scan"] = func(c *Ctx) {
		si := c.scanModel()
		fmt.Println("scan fn:", fnName(si.Fn), "problems:", si.Problems)
		for _, li := range si.Lists {
			fmt.Printf("list %q var=%p (%T) append=%s feed=%d read=%d other=%d\n", li.Literal, li.Var, li.Var, c.pos(li.Append.Pos()), len(li.FeedLoops), len(li.ReadLoops), len(li.OtherLoops))
			for _, l := range append(append([]*scanLoop{}, li.FeedLoops...), li.ReadLoops...) {
				fmt.Printf("    loop in %s head b%d var=%p desc=%v\n", fnName(l.Fn), l.L.Head.Index, l.Var, l.Desc())
			}
		}
	}
}

func init() {
	dumpers["mirror"] = func(c *Ctx) {
		si := c.scanModel()
		for _, li := range si.Lists {
			for _, l := range append(append([]*scanLoop{}, li.FeedLoops...), li.ReadLoops...) {
				for b := range l.L.Blocks {
					for _, in := range b.Instrs {
						if ia, ok := in.(*ssa.IndexAddr); ok {
							id := c.listID(ia.X)
							fmt.Printf("%s loop b%d: %s idx=%s idmatch=%v mirror=%v desc=%v phi=%v\n", li.Literal, l.L.Head.Index, ia.String(), ia.Index.String(), id == l.Var, c.mirrorIndex(ia.Index, l), l.Descending, l.IndexPhi)
						}
					}
				}
			}
		}
	}
}
