package main

import "fmt"

func runDump(c *Ctx, what string) {
	switch what {
	case "spawn":
		c.dumpSpawn()
	default:
		if f, ok := dumpers[what]; ok {
			f(c)
			return
		}
		fmt.Println("unknown dump", what)
	}
}

var dumpers = map[string]func(*Ctx){}
