package main

import (
	"fmt"
	"go/token"
	"sort"
	"strings"

	"golang.org/x/tools/go/ssa"
)

func init() {
	register("C05",
		"Structural necessary conditions of C05 decided from /repo's SSA: (plus) Plus/Increment of both widths are interpreted over the wrapped / not-wrapped case split of the w-bit sum and must return the capacity exactly when the sum wraps and the sum otherwise; NewCount32 clamps exactly above 2^32-1; ToUint64 returns (n, n==capacity); (discipline) outside package counts no arithmetic operator is applied to a counter, no non-constant integer is converted to Count32 except through NewCount32, and no Count32 that may already be saturated is widened into a 64-bit total; (siblings) the two listing parsers that turn a decimal size field into a counter use the same (bit size, constructor) pair; (render) Humaner.Format yields the infinity sign iff the overflow flag is set, levelOfConcern tests the overflow flag before the threshold and returns the 30-mark string, MarshalJSON emits the value returned by ToUint64; (linear) each distinct tree's entries are iterated from exactly one place, reached once per registered tree, and the Require*Size lookups contain no loop. Not decided: run time as such; min(true,cap) on concrete repositories.",
		[]string{"w-bit unsigned arithmetic: wsum<a <=> wsum<b <=> a+b>=2^w", "field-based heap model"},
		ruleC05Plus, ruleC05Discipline, ruleC05Siblings, ruleC05Render, ruleC05Linear)
}

// widenException: the narrowed value is the length of an object held in
// memory after the batch reader delivered it.
var widenExceptions = map[string]string{
	"H:unique_tree_size":    "len(tree bytes) of a tree held in memory; a tree of >= 2^32-1 bytes cannot be delivered by the batch reader",
	"H:unique_tree_entries": "entry count of a tree held in memory; >= 2^32-1 entries need a tree of >= 2^32-1 bytes",
	"H:unique_commit_size":  "len(commit bytes) of a commit held in memory; cannot reach 2^32-1 bytes",
}

func ruleC05Discipline(c *Ctx) {
	countsPkg := modPath + "/counts"
	n := 0
	for _, f := range c.ModFns {
		if pkgOf(f) == countsPkg {
			continue
		}
		name := fnName(f)
		allInstrs(f, func(in ssa.Instruction) {
			switch x := in.(type) {
			case *ssa.BinOp:
				switch x.Op {
				case token.EQL, token.NEQ, token.LSS, token.LEQ, token.GTR, token.GEQ:
					return
				}
				if countKind(x.X.Type()) == "" && countKind(x.Y.Type()) == "" {
					return
				}
				n++
				c.violate("C05.discipline", fmt.Sprintf("rawop:%s:%s", name, x.Op), x.Pos(), name, fmt.Sprintf("raw `%s` on a saturating counter outside package counts: the result wraps around instead of clamping at the capacity", x.Op))
			case *ssa.Convert:
				to, from := countKind(x.Type()), countKind(x.X.Type())
				if to == "Count32" && from == "" {
					if _, isConst := x.X.(*ssa.Const); isConst {
						return
					}
					n++
					c.violate("C05.discipline", "rawconv:"+name, x.Pos(), name, "an integer is converted to Count32 without counts.NewCount32: a value above 2^32-1 is truncated (or rejected upstream) instead of clamped")
				}
				if to == "Count32" && from == "Count64" {
					n++
					c.violate("C05.discipline", "narrow:"+name, x.Pos(), name, "a Count64 is narrowed to Count32 by a raw conversion")
				}
			case *ssa.Store:
				// a counter forced to its capacity: justified only by the
				// overflow of a counter of the same width
				k := countKind(x.Val.Type())
				u, isConst := constUint(x.Val)
				if k == "" || !isConst || u != capacityOf(k) {
					return
				}
				n++
				for _, fct := range factsAt(x.Block()) {
					cond, truth := normCond(fct.Cond, fct.Truth)
					if !truth {
						continue
					}
					if ex, ok := cond.(*ssa.Extract); ok && ex.Index == 1 {
						if call, ok := ex.Tuple.(*ssa.Call); ok && len(call.Call.Args) > 0 && countKind(call.Call.Args[0].Type()) == k {
							return
						}
					}
					if cmp, ok := cond.(*ssa.BinOp); ok && (cmp.Op == token.EQL || cmp.Op == token.GEQ) && countKind(cmp.X.Type()) == k {
						if v, ok := constUint(cmp.Y); ok && v == capacityOf(k) {
							return
						}
					}
				}
				c.violate("C05.discipline", "rawstore:"+name, x.Pos(), name, fmt.Sprintf("a %s is set to its capacity without a counter of that width having overflowed: the quantity is reported as saturated although the true value may be far below the capacity", k))
			}
		})
	}
	// widenings on update edges
	e := c.effects()
	seenW := map[string]bool{}
	for _, ed := range e.Edges {
		if !ed.Marks["widen"] {
			continue
		}
		key := "widen:" + ed.Target
		if seenW[key+fnName(ed.Fn)] {
			continue
		}
		seenW[key+fnName(ed.Fn)] = true
		n++
		if why, ok := widenExceptions[ed.Target]; ok {
			c.exception("C05.discipline", key, posOf(ed.Site), why)
			continue
		}
		c.violate("C05.discipline", key, posOf(ed.Site), fnName(ed.Fn), fmt.Sprintf("a Count32 that may already be clamped to 2^32-1 is widened and added into the 64-bit quantity %s (`%s`): the total is min-clamped per object, not min(true sum, capacity)", ed.Target, ed.Key()))
	}
	c.Stats["counter_update_edges"] = len(e.Edges)
	c.present("C05.discipline", "scan", token.NoPos, fmt.Sprintf("scanned %d functions outside package counts for raw arithmetic / conversions on counters; %d site(s) examined", len(c.ModFns), n))
	c.controlC05()
}

func capacityOf(kind string) uint64 {
	if kind == "Count32" {
		return 1<<32 - 1
	}
	return 1<<64 - 1
}

// controlC05: positive control — the rule's pattern must match a raw `+`
// on a counter when there is one (the counts package itself contains it).
func (c *Ctx) controlC05() {
	// the raw-arithmetic pattern must match where raw arithmetic on counters
	// legitimately lives: somewhere in package counts (directly on a counter
	// or on a counter widened for the purpose)
	found, any := false, false
	for _, f := range c.ModFns {
		if pkgOf(f) != modPath+"/counts" {
			continue
		}
		any = true
		allInstrs(f, func(in ssa.Instruction) {
			b, ok := in.(*ssa.BinOp)
			if !ok || (b.Op != token.ADD && b.Op != token.SUB) {
				return
			}
			for _, op := range []ssa.Value{b.X, b.Y} {
				if countKind(op.Type()) != "" {
					found = true
				}
				if cv, isConv := op.(*ssa.Convert); isConv && countKind(cv.X.Type()) != "" {
					found = true
				}
			}
		})
	}
	if any && !found {
		c.notDecided("C05.discipline", "control", token.NoPos, "package counts contains no raw + or - on a counter any more (library arithmetic only): the positive control of the raw-arithmetic pattern has nothing to match")
	}
}

func ruleC05Siblings(c *Ctx) {
	type shape struct {
		fn      *ssa.Function
		call    *ssa.Call
		bits    int64
		ctor    string
		present bool
	}
	var shapes []shape
	for _, name := range []string{"ParseBatchHeader", "ParseReference"} {
		f := c.fn("/git", "", name)
		if f == nil {
			c.violate("C05.siblings", name, token.NoPos, "", "git."+name+" not found")
			continue
		}
		sh := shape{fn: f}
		allInstrs(f, func(in ssa.Instruction) {
			call, ok := in.(*ssa.Call)
			if !ok || calleeQ(&call.Call) != "strconv.ParseUint" {
				return
			}
			sh.call, sh.present = call, true
			sh.bits, _ = constInt(call.Call.Args[2])
			// how does result #0 become a counter?
			var follow func(v ssa.Value, depth int)
			follow = func(v ssa.Value, depth int) {
				refs := v.Referrers()
				if refs == nil || depth > 3 {
					return
				}
				for _, rr := range *refs {
					switch y := rr.(type) {
					case *ssa.Call:
						if cal := y.Call.StaticCallee(); cal != nil {
							sh.ctor = strings.TrimPrefix(refQ(cal), modPath+"/")
						}
					case *ssa.Convert:
						if countKind(y.Type()) != "" {
							sh.ctor = "raw conversion to " + countKind(y.Type())
						}
					case *ssa.Phi:
						// `if size > K { size = K }` with K at or above the
						// counter's capacity leaves the clamped result unchanged
						okClamp := true
						for _, e := range y.Edges {
							if e == v {
								continue
							}
							if k, isK := constUint(e); !isK || k < 1<<32-1 {
								okClamp = false
							}
						}
						if okClamp {
							follow(y, depth+1)
						}
					}
				}
			}
			for _, r := range *call.Referrers() {
				if ex, ok := r.(*ssa.Extract); ok && ex.Index == 0 {
					follow(ex, 0)
				}
			}
		})
		if !sh.present {
			c.violate("C05.siblings", name+":parse", f.Pos(), fnName(f), "git."+name+" no longer parses the size field with strconv.ParseUint")
			continue
		}
		shapes = append(shapes, sh)
	}
	for _, sh := range shapes {
		key := strings.TrimPrefix(fnName(sh.fn), "git.")
		okBits := sh.bits == 64 || sh.bits == 0
		okCtor := sh.ctor == "counts.NewCount32"
		if okBits && okCtor {
			c.hold("C05.siblings", key, sh.call.Pos(), fmt.Sprintf("size parsed with bit size %d and clamped through %s", sh.bits, sh.ctor))
		} else {
			c.violate("C05.siblings", key, sh.call.Pos(), fnName(sh.fn), fmt.Sprintf("the size field is parsed with bit size %d and turned into a counter by %s; the sibling parser uses a full-width parse and counts.NewCount32: a size >= 2^32 is rejected (aborting the run) instead of saturating", sh.bits, sh.ctor))
		}
	}
}

func ruleC05Linear(c *Ctx) {
	si := c.scanModel()
	el := c.entryLoop()
	if si.Fn == nil || el == nil || el.Fn == nil {
		c.violate("C05.linear", "model", token.NoPos, "", "cannot identify the scanner or the tree-entry loop")
		return
	}
	callersOf := func(f *ssa.Function) []string {
		var out []string
		for _, ci := range c.Callers[f] {
			out = append(out, fnName(ci.Parent()))
		}
		sort.Strings(out)
		return out
	}
	check := func(key string, f *ssa.Function, want *ssa.Function, what string) {
		if f == nil {
			c.violate("C05.linear", key, token.NoPos, "", what+" not found")
			return
		}
		cs := c.Callers[f]
		if len(cs) == 1 && cs[0].Parent() == want {
			c.hold("C05.linear", key, f.Pos(), what+" is called only from "+fnName(want))
		} else {
			c.violate("C05.linear", key, f.Pos(), fnName(f), fmt.Sprintf("%s must have the single caller %s so that each distinct tree is expanded once; callers: %v", what, fnName(want), callersOf(f)))
		}
	}
	regTree := c.fn("/sizes", "*Graph", "RegisterTree")
	check("NextEntry", c.fn("/git", "*TreeIter", "NextEntry"), el.Fn, "(*git.TreeIter).NextEntry")
	check("entry-loop", el.Fn, regTree, "the tree-entry loop function")
	check("RegisterTree", regTree, si.Fn, "(*sizes.Graph).RegisterTree")
	check("ParseTree", c.fn("/git", "", "ParseTree"), si.Fn, "git.ParseTree")
	// entry loop is not nested in another loop of its function
	nest := 0
	for _, l := range loopsOf(el.Fn) {
		if l.Blocks[el.Call.Block()] {
			nest++
		}
	}
	if nest == 1 {
		c.hold("C05.linear", "entry-loop:flat", el.Call.Pos(), "the entry loop is not nested in another loop")
	} else {
		c.violate("C05.linear", "entry-loop:flat", el.Call.Pos(), fnName(el.Fn), fmt.Sprintf("the tree-entry iteration is nested in %d loops: entries would be visited repeatedly", nest))
	}
	for _, m := range []string{"RequireTreeSize", "RequireTagSize", "GetTreeSize", "GetBlobSize", "GetCommitSize"} {
		f := c.fn("/sizes", "*Graph", m)
		if f == nil {
			continue
		}
		if len(loopsOf(f)) == 0 {
			c.hold("C05.linear", m+":no-loop", f.Pos(), "a memo lookup (and a listener append) without iteration")
		} else {
			c.violate("C05.linear", m+":no-loop", f.Pos(), fnName(f), m+" contains a loop: looking up a (sub)tree's size must not re-expand it")
		}
	}
}
