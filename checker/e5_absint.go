package main

import (
	"fmt"
	"go/constant"
	"go/token"
	"go/types"
	"sort"
	"strconv"
	"strings"

	"golang.org/x/tools/go/ssa"
)

// E5: finite-domain abstract interpretation of small loop-free functions
// (sparse conditional constant propagation run once per element of a finite
// abstract input domain). Values are names, constants, structs, pointers to
// abstract cells, interface values and the single wrapping sum; branch
// conditions that do not fold become opaque predicate atoms whose 2^k
// assignments are enumerated lazily along the CFG.

type aVal interface{}
type aBool bool
type aSym string
type aConst struct {
	v constant.Value
	t types.Type
}
type aStruct struct {
	t types.Type
	f map[int]aVal
}
type aPtr struct{ cell *aCell }
type aFieldPtr struct {
	base *aCell
	idx  int
}
type aIface struct {
	dyn aVal // nil => nil interface
	t   types.Type
}
type aWsum struct {
	a, b aVal
	bits int
	// opBits: when non-zero, both operands were widened from unsigned
	// opBits-bit values, so the bits-bit sum itself cannot wrap
	opBits int
}

// aCarry is the carry-out of math/bits.Add64/Add32 applied to (a, b, 0).
type aCarry struct{ a, b aVal }

// aCapMinus is (2^bits - 1) - x: the room left before a w-bit counter wraps.
type aCapMinus struct {
	x    aVal
	bits int
}
type aTuple []aVal
type aCell struct{ v aVal }

func aShow(v aVal) string {
	switch x := v.(type) {
	case nil:
		return "<nil>"
	case aBool:
		return fmt.Sprint(bool(x))
	case aSym:
		return string(x)
	case aConst:
		if x.v == nil {
			return "nil"
		}
		return x.v.ExactString()
	case aStruct:
		n := x.t.String()
		if nn := namedOf(x.t); nn != nil {
			n = tname(nn.Obj())
		}
		var ks []int
		for k := range x.f {
			ks = append(ks, k)
		}
		sort.Ints(ks)
		var parts []string
		for _, k := range ks {
			parts = append(parts, aShow(x.f[k]))
		}
		return n + "{" + strings.Join(parts, ",") + "}"
	case aIface:
		if x.dyn == nil {
			return "nil-iface"
		}
		return aShow(x.dyn)
	case aWsum:
		return "wsum(" + aShow(x.a) + "," + aShow(x.b) + ")"
	case aCapMinus:
		return "(cap - " + aShow(x.x) + ")"
	case aCarry:
		return "carry(" + aShow(x.a) + "," + aShow(x.b) + ")"
	case aTuple:
		var p []string
		for _, e := range x {
			p = append(p, aShow(e))
		}
		return "(" + strings.Join(p, ",") + ")"
	case aPtr:
		return "&cell"
	case aFieldPtr:
		return fmt.Sprintf("&cell.%d", x.idx)
	}
	return fmt.Sprintf("%T", v)
}

type aEnv struct {
	stack   []*ssa.Function
	choices []bool
	pos     int
	trace   []string          // "atom=bool" in query order
	memo    map[string]bool   // atoms decided in this run
	order   map[[2]string]int // assumed ordering between names: -1,0,1
	effects []string          // stores through unknown pointers, in order
	undec   []string
}

func (e *aEnv) atom(name string) bool {
	if v, ok := e.memo[name]; ok {
		return v
	}
	var v bool
	if e.pos < len(e.choices) {
		v = e.choices[e.pos]
	} else {
		v = false
		e.choices = append(e.choices, false)
	}
	e.pos++
	e.memo[name] = v
	e.trace = append(e.trace, fmt.Sprintf("%s=%v", name, v))
	return v
}

func (e *aEnv) undecided(s string) {
	e.undec = append(e.undec, s)
}

// aRow is one enumerated run.
type aRow struct {
	Atoms   map[string]bool
	Trace   []string
	Result  aVal
	Effects []string
	Undec   []string
	Env     *aEnv
}

func (r aRow) String() string {
	s := strings.Join(r.Trace, " ") + " => " + aShow(r.Result)
	if len(r.Effects) > 0 {
		s += " ; " + strings.Join(r.Effects, ", ")
	}
	return s
}

// aEnumerate runs `run` once per assignment of the atoms it queries.
func aEnumerate(order map[[2]string]int, run func(e *aEnv) aVal) []aRow {
	var rows []aRow
	choices := []bool{}
	for iter := 0; iter < 4096; iter++ {
		e := &aEnv{choices: append([]bool{}, choices...), memo: map[string]bool{}, order: order}
		r := run(e)
		atoms := map[string]bool{}
		for k, v := range e.memo {
			atoms[k] = v
		}
		rows = append(rows, aRow{Atoms: atoms, Trace: e.trace, Result: r, Effects: e.effects, Undec: e.undec, Env: e})
		cs := e.choices
		i := len(cs) - 1
		for i >= 0 && cs[i] {
			i--
		}
		if i < 0 {
			return rows
		}
		choices = append(append([]bool{}, cs[:i]...), true)
	}
	rows = append(rows, aRow{Undec: []string{"more than 4096 runs"}})
	return rows
}

type aFrame struct {
	c     *Ctx
	fn    *ssa.Function
	vals  map[ssa.Value]aVal
	env   *aEnv
	depth int
}

func (fr *aFrame) get(v ssa.Value) aVal {
	switch x := v.(type) {
	case *ssa.Const:
		if x.Value == nil {
			if _, ok := x.Type().Underlying().(*types.Interface); ok {
				return aIface{nil, x.Type()}
			}
			return aConst{nil, x.Type()}
		}
		if x.Value.Kind() == constant.Bool {
			return aBool(constant.BoolVal(x.Value))
		}
		return aConst{x.Value, x.Type()}
	case *ssa.Function:
		return aSym("func:" + x.Name())
	case *ssa.Global:
		return aSym("global:" + shortPkg(x.Pkg.Pkg.Path()) + "." + x.Name())
	}
	if r, ok := fr.vals[v]; ok {
		return r
	}
	return aSym("?" + v.Name())
}

func cmpOrder(op token.Token, c int) bool {
	switch op {
	case token.LSS:
		return c < 0
	case token.LEQ:
		return c <= 0
	case token.GTR:
		return c > 0
	case token.GEQ:
		return c >= 0
	case token.EQL:
		return c == 0
	case token.NEQ:
		return c != 0
	}
	return false
}

func intBits(t types.Type) int {
	if b, ok := t.Underlying().(*types.Basic); ok {
		switch b.Kind() {
		case types.Uint32:
			return 32
		case types.Uint64:
			return 64
		case types.Uint8:
			return 8
		case types.Uint16:
			return 16
		}
	}
	return 0
}

// cmpAtom builds the canonical atom for a comparison that does not fold.
// Canonical forms: [a < b] and [a == b]; a > b becomes [b < a]; negated
// forms return the atom with neg=true.
func cmpAtom(op token.Token, sa, sb string) (string, bool) {
	neg := false
	switch op {
	case token.NEQ:
		op, neg = token.EQL, true
	case token.GEQ:
		op, neg = token.LSS, true
	case token.LEQ:
		op, neg = token.GTR, true
	}
	if op == token.GTR {
		op, sa, sb = token.LSS, sb, sa
	}
	if op == token.EQL && sa > sb {
		sa, sb = sb, sa
	}
	return fmt.Sprintf("[%s %s %s]", sa, op, sb), neg
}

// concatParts remembers the operands of a rendered string concatenation.
var concatParts = map[string][]string{}

func (fr *aFrame) binop(x *ssa.BinOp) aVal {
	a, b := fr.get(x.X), fr.get(x.Y)
	e := fr.env
	switch x.Op {
	case token.ADD:
		if bits := intBits(x.Type()); bits > 0 {
			w := aWsum{a: a, b: b, bits: bits}
			// both operands widened from narrower unsigned values
			widened := func(v ssa.Value) int {
				if cv, ok := v.(*ssa.Convert); ok {
					if ob := intBits(cv.X.Type()); ob > 0 && ob < bits {
						return ob
					}
				}
				return 0
			}
			if oa, ob := widened(x.X), widened(x.Y); oa > 0 && oa == ob {
				w.opBits = oa
			}
			return w
		}
		if ka, ok := a.(aConst); ok {
			if kb, ok := b.(aConst); ok && ka.v != nil && kb.v != nil && ka.v.Kind() == constant.String {
				return aConst{constant.BinaryOp(ka.v, token.ADD, kb.v), ka.t}
			}
		}
		// string concatenation is associative: a + (b + c) is written (a + b) + c
		if bt, isB := x.Type().Underlying().(*types.Basic); isB && bt.Info()&types.IsString != 0 {
			parts := func(v aVal) []string {
				if p, ok := concatParts[aShow(v)]; ok {
					return p
				}
				return []string{aShow(v)}
			}
			all := append(append([]string{}, parts(a)...), parts(b)...)
			out := all[0]
			for _, p := range all[1:] {
				out = "(" + out + " + " + p + ")"
			}
			concatParts[out] = all
			return aSym(out)
		}
	case token.SUB:
		// capacity - x (the pre-check form of a saturating sum)
		if bits := intBits(x.Type()); bits > 0 {
			if ka, ok := a.(aConst); ok && ka.v != nil && ka.v.Kind() == constant.Int {
				capV := constant.BinaryOp(constant.Shift(constant.MakeInt64(1), token.SHL, uint(bits)), token.SUB, constant.MakeInt64(1))
				if _, isConst := b.(aConst); !isConst && constant.Compare(ka.v, token.EQL, capV) {
					return aCapMinus{b, bits}
				}
			}
		}
	case token.EQL, token.NEQ, token.LSS, token.LEQ, token.GTR, token.GEQ:
		// a sum computed exactly in a wider type exceeds the narrow capacity
		// iff the narrow sum wraps; the carry-out of bits.Add is that wrap
		{
			capOf := func(bits int) constant.Value {
				return constant.BinaryOp(constant.Shift(constant.MakeInt64(1), token.SHL, uint(bits)), token.SUB, constant.MakeInt64(1))
			}
			if w, ok := a.(aWsum); ok && w.opBits > 0 {
				if kb, ok := b.(aConst); ok && kb.v != nil && kb.v.Kind() == constant.Int && constant.Compare(kb.v, token.EQL, capOf(w.opBits)) {
					switch x.Op {
					case token.GTR:
						return aBool(e.atom("WRAPPED"))
					case token.LEQ:
						return aBool(!e.atom("WRAPPED"))
					}
				}
			}
			if w, ok := b.(aWsum); ok && w.opBits > 0 {
				if ka, ok := a.(aConst); ok && ka.v != nil && ka.v.Kind() == constant.Int && constant.Compare(ka.v, token.EQL, capOf(w.opBits)) {
					switch x.Op {
					case token.LSS:
						return aBool(e.atom("WRAPPED"))
					case token.GEQ:
						return aBool(!e.atom("WRAPPED"))
					}
				}
			}
			if _, ok := a.(aCarry); ok {
				if kb, ok := b.(aConst); ok && kb.v != nil && kb.v.Kind() == constant.Int {
					zero := constant.Sign(kb.v) == 0
					one := constant.Compare(kb.v, token.EQL, constant.MakeInt64(1))
					switch {
					case (x.Op == token.NEQ && zero) || (x.Op == token.EQL && one) || (x.Op == token.GTR && zero):
						return aBool(e.atom("WRAPPED"))
					case (x.Op == token.EQL && zero) || (x.Op == token.NEQ && one):
						return aBool(!e.atom("WRAPPED"))
					}
				}
			}
		}
		// the second theorem of w-bit unsigned arithmetic:
		//   cap - a < b  <=>  a + b > cap  <=>  the w-bit sum wraps
		if cm, ok := a.(aCapMinus); ok {
			if _, isConst := b.(aConst); !isConst && aShow(cm.x) != aShow(b) {
				switch x.Op {
				case token.LSS:
					return aBool(e.atom("WRAPPED"))
				case token.GEQ:
					return aBool(!e.atom("WRAPPED"))
				}
			}
		}
		if cm, ok := b.(aCapMinus); ok {
			if _, isConst := a.(aConst); !isConst && aShow(cm.x) != aShow(a) {
				switch x.Op {
				case token.GTR:
					return aBool(e.atom("WRAPPED"))
				case token.LEQ:
					return aBool(!e.atom("WRAPPED"))
				}
			}
		}
		if ia, ok := a.(aIface); ok {
			if ib, ok := b.(aIface); ok && ib.dyn == nil {
				isNil := ia.dyn == nil
				if s, sym := ia.dyn.(aSym); sym && strings.HasPrefix(string(s), "maybe-nil:") {
					isNil = e.atom("[" + strings.TrimPrefix(string(s), "maybe-nil:") + " == nil]")
				}
				if x.Op == token.EQL {
					return aBool(isNil)
				}
				return aBool(!isNil)
			}
		}
		if pa, ok := a.(aConst); ok && pa.v == nil {
			a = aSym("nil")
		}
		if pb, ok := b.(aConst); ok && pb.v == nil {
			b = aSym("nil")
		}
		if ka, ok := a.(aConst); ok {
			if kb, ok := b.(aConst); ok && ka.v != nil && kb.v != nil {
				return aBool(constant.Compare(ka.v, x.Op, kb.v))
			}
		}
		sa, sb := aShow(a), aShow(b)
		if sa == "nil" && sb == "nil" && (x.Op == token.EQL || x.Op == token.NEQ) {
			return aBool(x.Op == token.EQL)
		}
		if x.Op == token.EQL || x.Op == token.NEQ {
			// two definite booleans; the address of a cell is not nil
			if ba, ok := a.(aBool); ok {
				if bb, ok := b.(aBool); ok {
					return aBool((ba == bb) == (x.Op == token.EQL))
				}
			}
			isAddr := func(v aVal) bool {
				switch v.(type) {
				case aPtr, aFieldPtr:
					return true
				}
				return false
			}
			if (isAddr(a) && sb == "nil") || (isAddr(b) && sa == "nil") {
				return aBool(x.Op == token.NEQ)
			}
		}
		if e.order != nil && isUnsignedType(x.X.Type()) {
			// an unsigned value assumed strictly greater than another one is not zero
			positive := func(s string) bool {
				for k, c := range e.order {
					if (k[0] == s && c > 0) || (k[1] == s && c < 0) {
						return true
					}
				}
				return false
			}
			isZero := func(v aVal) bool {
				k, ok := v.(aConst)
				return ok && k.v != nil && k.v.Kind() == constant.Int && constant.Sign(k.v) == 0
			}
			switch {
			case isZero(b) && positive(sa):
				return aBool(cmpOrder(x.Op, 1))
			case isZero(a) && positive(sb):
				return aBool(cmpOrder(x.Op, -1))
			}
		}
		if e.order != nil {
			if c, ok := e.order[[2]string{sa, sb}]; ok {
				return aBool(cmpOrder(x.Op, c))
			}
			if c, ok := e.order[[2]string{sb, sa}]; ok {
				return aBool(cmpOrder(x.Op, -c))
			}
		}
		// the one theorem of w-bit unsigned arithmetic:
		//   wsum < a  <=>  wsum < b  <=>  a + b >= 2^w
		if w, ok := a.(aWsum); ok && (aShow(w.a) == sb || aShow(w.b) == sb) {
			switch x.Op {
			case token.LSS:
				return aBool(e.atom("WRAPPED"))
			case token.GEQ:
				return aBool(!e.atom("WRAPPED"))
			}
		}
		if w, ok := b.(aWsum); ok && (aShow(w.a) == sa || aShow(w.b) == sa) {
			switch x.Op {
			case token.GTR:
				return aBool(e.atom("WRAPPED"))
			case token.LEQ:
				return aBool(!e.atom("WRAPPED"))
			}
		}
		name, neg := cmpAtom(x.Op, sa, sb)
		r := e.atom(name)
		if neg {
			r = !r
		}
		return aBool(r)
	case token.AND, token.OR:
		if ba, ok := a.(aBool); ok {
			if bb, ok := b.(aBool); ok {
				if x.Op == token.AND {
					return ba && bb
				}
				return ba || bb
			}
		}
	}
	return aSym(fmt.Sprintf("(%s %s %s)", aShow(a), x.Op, aShow(b)))
}

// summaries let a spec replace a callee by an abstract function.
type aSummary func(fr *aFrame, args []aVal) (aVal, bool)

func (c *Ctx) aCall(fn *ssa.Function, args []aVal, env *aEnv, depth int, sums map[string]aSummary) aVal {
	if depth > 6 {
		env.undecided("call depth exceeded in " + fnName(fn))
		return aSym("deep")
	}
	if len(fn.Blocks) == 0 {
		env.undecided("no body for " + fnName(fn))
		return aSym("nobody")
	}
	for _, onStack := range env.stack {
		if onStack == fn {
			// self-recursion: an opaque result for these arguments
			var as []string
			for _, a := range args {
				as = append(as, aShow(a))
			}
			name := "rec:" + fn.Name() + "(" + strings.Join(as, ",") + ")"
			if fn.Signature.Results().Len() == 1 && isBoolType(fn.Signature.Results().At(0).Type()) {
				return aBool(env.atom(name))
			}
			return aSym(name)
		}
	}
	env.stack = append(env.stack, fn)
	defer func() { env.stack = env.stack[:len(env.stack)-1] }()
	fr := &aFrame{c: c, fn: fn, vals: map[ssa.Value]aVal{}, env: env, depth: depth}
	for i, p := range fn.Params {
		if i < len(args) {
			fr.vals[p] = args[i]
		}
	}
	var prev *ssa.BasicBlock
	b := fn.Blocks[0]
	visited := map[*ssa.BasicBlock]bool{}
	for steps := 0; ; steps++ {
		if steps > 400 || visited[b] {
			// the fragment is loop-free: re-entering a block means a loop
			env.undecided("loop in " + fnName(fn))
			return aSym("loop?")
		}
		visited[b] = true
		var next *ssa.BasicBlock
		for _, in := range b.Instrs {
			switch x := in.(type) {
			case *ssa.Phi:
				for i, p := range b.Preds {
					if p == prev {
						fr.vals[x] = fr.get(x.Edges[i])
					}
				}
			case *ssa.Alloc:
				cell := &aCell{}
				et := x.Type().Underlying().(*types.Pointer).Elem()
				if _, ok := et.Underlying().(*types.Struct); ok {
					cell.v = aStruct{et, map[int]aVal{}}
				}
				fr.vals[x] = aPtr{cell}
			case *ssa.FieldAddr:
				switch p := fr.get(x.X).(type) {
				case aPtr:
					fr.vals[x] = aFieldPtr{p.cell, x.Field}
				case aFieldPtr:
					// address of a field of a nested struct value
					if outer, ok := p.base.v.(aStruct); ok {
						if inner, ok := outer.f[p.idx].(aStruct); ok {
							fr.vals[x] = aFieldPtr{&aCell{v: inner}, x.Field}
							break
						}
					}
					fr.vals[x] = aSym(fmt.Sprintf("&%s.%s", aShow(p), vname(fieldOfAddr(x).Var)))
				default:
					fr.vals[x] = aSym(fmt.Sprintf("&%s.%s", aShow(p), vname(fieldOfAddr(x).Var)))
				}
			case *ssa.Field:
				if s, ok := fr.get(x.X).(aStruct); ok {
					if v, ok := s.f[x.Field]; ok {
						fr.vals[x] = v
						break
					}
				}
				fr.vals[x] = aSym(fmt.Sprintf("%s.%s", aShow(fr.get(x.X)), vname(fieldOfVal(x).Var)))
			case *ssa.Store:
				switch p := fr.get(x.Addr).(type) {
				case aPtr:
					p.cell.v = fr.get(x.Val)
				case aFieldPtr:
					if s, ok := p.base.v.(aStruct); ok {
						s.f[p.idx] = fr.get(x.Val)
					}
				default:
					env.effects = append(env.effects, fmt.Sprintf("STORE %s:=%s", aShow(p), aShow(fr.get(x.Val))))
				}
			case *ssa.UnOp:
				switch x.Op {
				case token.MUL:
					switch p := fr.get(x.X).(type) {
					case aPtr:
						if s, ok := p.cell.v.(aStruct); ok {
							cp := aStruct{s.t, map[int]aVal{}}
							for k, v := range s.f {
								cp.f[k] = v
							}
							fr.vals[x] = cp
						} else if p.cell.v == nil {
							fr.vals[x] = aSym("zero")
						} else {
							fr.vals[x] = p.cell.v
						}
					case aFieldPtr:
						if s, ok := p.base.v.(aStruct); ok {
							if v, ok := s.f[p.idx]; ok {
								fr.vals[x] = v
								break
							}
						}
						fr.vals[x] = aSym(fmt.Sprintf("zero.%d", p.idx))
					case aSym:
						fr.vals[x] = aSym("*" + string(p))
						// a package-level value of a field-less struct type is that struct
						if g, ok := x.X.(*ssa.Global); ok {
							et := g.Type().Underlying().(*types.Pointer).Elem()
							if st, ok := et.Underlying().(*types.Struct); ok && st.NumFields() == 0 {
								fr.vals[x] = aStruct{et, map[int]aVal{}}
							}
						}
					default:
						fr.vals[x] = aSym("*?")
					}
				case token.NOT:
					if bv, ok := fr.get(x.X).(aBool); ok {
						fr.vals[x] = !bv
					} else {
						fr.vals[x] = aSym("!" + aShow(fr.get(x.X)))
					}
				default:
					fr.vals[x] = aSym(x.Op.String() + aShow(fr.get(x.X)))
				}
			case *ssa.MakeInterface:
				fr.vals[x] = aIface{fr.get(x.X), x.X.Type()}
			case *ssa.ChangeType:
				fr.vals[x] = fr.get(x.X)
			case *ssa.ChangeInterface:
				fr.vals[x] = fr.get(x.X)
			case *ssa.Convert:
				src := fr.get(x.X)
				// numeric conversions keep the name but record a change of kind
				fb, _ := x.X.Type().Underlying().(*types.Basic)
				tb, _ := x.Type().Underlying().(*types.Basic)
				if fb != nil && tb != nil && (fb.Info()&types.IsFloat) != (tb.Info()&types.IsFloat) {
					if tb.Info()&types.IsFloat != 0 {
						fr.vals[x] = aSym("float(" + aShow(src) + ")")
					} else {
						fr.vals[x] = aSym("int(" + aShow(src) + ")")
					}
				} else if k, ok := src.(aConst); ok && k.v != nil && tb != nil && tb.Info()&types.IsInteger != 0 && k.v.Kind() == constant.Int {
					fr.vals[x] = aConst{k.v, x.Type()}
				} else if w, ok := src.(aWsum); ok && w.opBits > 0 && intBits(x.Type()) == w.opBits {
					fr.vals[x] = aWsum{a: w.a, b: w.b, bits: w.opBits}
				} else {
					fr.vals[x] = src
				}
			case *ssa.BinOp:
				fr.vals[x] = fr.binop(x)
			case *ssa.Extract:
				if t, ok := fr.get(x.Tuple).(aTuple); ok && x.Index < len(t) {
					fr.vals[x] = t[x.Index]
				} else {
					fr.vals[x] = aSym(fmt.Sprintf("%s#%d", aShow(fr.get(x.Tuple)), x.Index))
				}
			case *ssa.Call:
				fr.vals[x] = fr.call(x, sums)
			case *ssa.Lookup:
				fr.vals[x] = aSym(indexSym(aShow(fr.get(x.X)), aShow(fr.get(x.Index))))
			case *ssa.Index:
				fr.vals[x] = aSym(indexSym(aShow(fr.get(x.X)), aShow(fr.get(x.Index))))
			case *ssa.IndexAddr:
				fr.vals[x] = aSym("&" + indexSym(aShow(fr.get(x.X)), aShow(fr.get(x.Index))))
			case *ssa.Slice:
				lo, hi := "", ""
				if x.Low != nil {
					lo = aShow(fr.get(x.Low))
				}
				if x.High != nil {
					hi = aShow(fr.get(x.High))
				}
				fr.vals[x] = aSym(sliceSym(aShow(fr.get(x.X)), lo, hi))
			case *ssa.TypeAssert:
				fr.vals[x] = fr.get(x.X)
			case *ssa.If:
				cv := fr.get(x.Cond)
				bv, ok := cv.(aBool)
				if !ok {
					bv = aBool(env.atom(aShow(cv)))
				}
				if bv {
					next = b.Succs[0]
				} else {
					next = b.Succs[1]
				}
			case *ssa.Jump:
				next = b.Succs[0]
			case *ssa.Return:
				if len(x.Results) == 0 {
					return aTuple{}
				}
				if len(x.Results) == 1 {
					return fr.get(x.Results[0])
				}
				var t aTuple
				for _, r := range x.Results {
					t = append(t, fr.get(r))
				}
				return t
			case *ssa.Panic:
				return aSym("PANIC")
			case *ssa.DebugRef, *ssa.RunDefers:
			case *ssa.Defer, *ssa.Go:
				env.undecided(fmt.Sprintf("%T in %s", in, fnName(fn)))
			default:
				if v, ok := in.(ssa.Value); ok {
					fr.vals[v] = aSym(fmt.Sprintf("?%T", in))
				}
			}
		}
		if next == nil {
			env.undecided("fell through in " + fnName(fn))
			return aSym("fellthrough")
		}
		prev, b = b, next
	}
}

func (fr *aFrame) call(x *ssa.Call, sums map[string]aSummary) aVal {
	c, env := fr.c, fr.env
	var args []aVal
	for _, a := range x.Call.Args {
		args = append(args, fr.get(a))
	}
	if x.Call.IsInvoke() {
		recv := fr.get(x.Call.Value)
		if ifc, ok := recv.(aIface); ok && ifc.dyn != nil {
			if _, isStruct := ifc.dyn.(aStruct); isStruct {
				if m := c.methodOf(ifc.t, x.Call.Method.Name()); m != nil {
					return c.aCall(m, append([]aVal{ifc.dyn}, args...), env, fr.depth+1, sums)
				}
			}
		}
		name := fmt.Sprintf("%s.%s()", aShow(recv), x.Call.Method.Name())
		if sig := x.Call.Signature(); sig.Results().Len() > 1 {
			var t aTuple
			for i := 0; i < sig.Results().Len(); i++ {
				if isBoolType(sig.Results().At(i).Type()) {
					t = append(t, aBool(env.atom(fmt.Sprintf("%s#%d", name, i))))
				} else {
					t = append(t, aSym(fmt.Sprintf("%s#%d", name, i)))
				}
			}
			return t
		}
		if isBoolType(x.Type()) {
			return aBool(env.atom(name))
		}
		return aSym(name)
	}
	callee := x.Call.StaticCallee()
	if callee != nil {
		// library functions defined in terms of the predicates the
		// specifications speak about
		switch callee.String() {
		case "math/bits.Add64", "math/bits.Add32", "math/bits.Add":
			if len(args) == 3 {
				if k, ok := args[2].(aConst); ok && k.v != nil && k.v.Kind() == constant.Int && constant.Sign(k.v) == 0 {
					bits := 64
					if callee.Name() == "Add32" {
						bits = 32
					}
					return aTuple{aWsum{a: args[0], b: args[1], bits: bits}, aCarry{args[0], args[1]}}
				}
			}
		case "strings.Repeat":
			// a constant repeated a constant number of times is that constant
			if len(args) == 2 {
				sk, ok1 := args[0].(aConst)
				nk, ok2 := args[1].(aConst)
				if ok1 && ok2 && sk.v != nil && nk.v != nil && sk.v.Kind() == constant.String && nk.v.Kind() == constant.Int {
					if n, exact := constant.Int64Val(nk.v); exact && n >= 0 && n <= 4096 {
						return aConst{v: constant.MakeString(strings.Repeat(constant.StringVal(sk.v), int(n))), t: x.Type()}
					}
				}
			}
		case "strings.CutPrefix", "bytes.CutPrefix":
			if len(args) == 2 {
				pkg := strings.SplitN(callee.String(), ".", 2)[0]
				if bool(env.atom(fmt.Sprintf("%s.HasPrefix(%s,%s)", pkg, aShow(args[0]), aShow(args[1])))) {
					return aTuple{aSym(sliceSym(aShow(args[0]), lenSym(aShow(args[1])), "")), aBool(true)}
				}
				return aTuple{args[0], aBool(false)}
			}
		case "strings.CutSuffix", "bytes.CutSuffix":
			if len(args) == 2 {
				pkg := strings.SplitN(callee.String(), ".", 2)[0]
				if bool(env.atom(fmt.Sprintf("%s.HasSuffix(%s,%s)", pkg, aShow(args[0]), aShow(args[1])))) {
					return aTuple{aSym(sliceSym(aShow(args[0]), "", "(len("+aShow(args[0])+") - "+lenSym(aShow(args[1]))+")")), aBool(true)}
				}
				return aTuple{args[0], aBool(false)}
			}
		case "strings.TrimPrefix", "bytes.TrimPrefix":
			if len(args) == 2 {
				pkg := strings.SplitN(callee.String(), ".", 2)[0]
				if bool(env.atom(fmt.Sprintf("%s.HasPrefix(%s,%s)", pkg, aShow(args[0]), aShow(args[1])))) {
					return aSym(sliceSym(aShow(args[0]), lenSym(aShow(args[1])), ""))
				}
				return args[0]
			}
		}
		if s, ok := sums[refQ(callee)]; ok {
			if v, ok := s(fr, args); ok {
				return v
			}
		}
		if c.inRuleScope(callee) && len(callee.Blocks) > 0 && len(callee.Blocks) < 16 {
			return c.aCall(callee, args, env, fr.depth+1, sums)
		}
	}
	if bi, ok := x.Call.Value.(*ssa.Builtin); ok {
		var as []string
		for _, a := range args {
			as = append(as, aShow(a))
		}
		return aSym(fmt.Sprintf("%s(%s)", bi.Name(), strings.Join(as, ",")))
	}
	n := "dyn"
	if callee != nil {
		n = refQ(callee)
	}
	var as []string
	for _, a := range args {
		as = append(as, aShow(a))
	}
	name := n + "(" + strings.Join(as, ",") + ")"
	if sig := x.Call.Signature(); sig.Results().Len() > 1 {
		var t aTuple
		for i := 0; i < sig.Results().Len(); i++ {
			t = append(t, aSym(fmt.Sprintf("%s#%d", name, i)))
		}
		return t
	}
	if isBoolType(x.Type()) {
		return aBool(env.atom(name))
	}
	return aSym(name)
}

func isUnsignedType(t types.Type) bool {
	b, ok := t.Underlying().(*types.Basic)
	return ok && b.Info()&types.IsUnsigned != 0
}

func isBoolType(t types.Type) bool {
	b, ok := t.Underlying().(*types.Basic)
	return ok && b.Kind() == types.Bool
}

// truthTable renders rows as "atoms => result" sorted, for reports.
func rowsText(rows []aRow) []string {
	var out []string
	for _, r := range rows {
		out = append(out, r.String())
	}
	return out
}

func rowsUndecided(rows []aRow) []string {
	var out []string
	for _, r := range rows {
		out = append(out, r.Undec...)
	}
	return uniq(out)
}

// lenSym renders len(x), folding the length of a string constant.
func lenSym(x string) string {
	if strings.HasPrefix(x, "\"") {
		if u, err := strconv.Unquote(x); err == nil {
			return strconv.Itoa(len(u))
		}
	}
	return "len(" + x + ")"
}

// splitTailSlice recognises the rendering of `X[a:]` and returns X and a.
func splitTailSlice(base string) (string, string, bool) {
	if !strings.HasSuffix(base, ":]") {
		return "", "", false
	}
	depth := 0
	for i := len(base) - 1; i >= 0; i-- {
		switch base[i] {
		case ']':
			depth++
		case '[':
			depth--
			if depth == 0 {
				lo := base[i+1 : len(base)-2]
				if lo == "" || i == 0 {
					return "", "", false
				}
				return base[:i], lo, true
			}
		}
	}
	return "", "", false
}

func addSym(a, b string) string {
	if b == "0" {
		return a
	}
	if a == "0" {
		return b
	}
	return "(" + a + " + " + b + ")"
}

// sliceSym renders base[lo:hi]; a slice of a tail slice is folded:
// X[a:][b:] = X[(a + b):].
func sliceSym(base, lo, hi string) string {
	if hi == "" && lo != "" {
		if x, a, ok := splitTailSlice(base); ok {
			return fmt.Sprintf("%s[%s:]", x, addSym(a, lo))
		}
	}
	if hi == "" && (lo == "" || lo == "0") {
		return base
	}
	return fmt.Sprintf("%s[%s:%s]", base, lo, hi)
}

// indexSym renders base[i]; an index into a tail slice is folded:
// X[a:][i] = X[(a + i)].
func indexSym(base, idx string) string {
	if x, a, ok := splitTailSlice(base); ok {
		return fmt.Sprintf("%s[%s]", x, addSym(a, idx))
	}
	return fmt.Sprintf("%s[%s]", base, idx)
}
