package main

import (
	"fmt"
	"go/token"
	"go/types"
	"strconv"
	"strings"

	"golang.org/x/tools/go/ssa"
)

// Clauses added after the ninth round of seeded changes.

func init() {
	register("C03", "", nil, ruleC03Borrowed3)
	register("C04", "", nil, ruleC04EveryEntry)
	register("C05", "", nil, ruleC05EveryEntry)
	register("C06", "", nil, ruleC06Borrowed2)
	register("C07", "", nil, ruleC07Borrowed3, ruleC07Builtins)
	register("C08", "", nil, ruleC08Verbatim)
	register("C09", "", nil, ruleC09Argv)
	register("C13", "", nil, ruleC13Roots)
	register("C14", "", nil, ruleC14ReportOnly, ruleC14ConfigUnconditional)
	register("C18", "", nil, ruleC18Borrowed)
}

// ruleC03Borrowed3: every parent header is seen only if the header iterator
// goes on until the header block is exhausted (C16.progress, HasNext and
// header-loop clauses), and every tag is read only if the scanner reaches
// the tag phase on every successful path (C07.count register clauses cover
// the same early-return shape).
func ruleC03Borrowed3(c *Ctx) {
	c.RuleAlias = map[string]string{"C16.progress": "C03.headers", "C07.count": "C03.phases"}
	c.KeyOnly = func(key string) bool {
		return key == "HasNext" || strings.HasPrefix(key, "header-loop") || strings.HasPrefix(key, "register-")
	}
	defer func() { c.RuleAlias = nil; c.KeyOnly = nil }()
	ruleC16Progress(c)
	ruleC07Count(c)
}

// everyEntry: the loop over a tree's entries is left only when the iterator
// says there are no more entries or with an error.
func everyEntry(c *Ctx, rule string) {
	el := c.entryLoop()
	if el == nil || el.Fn == nil {
		return
	}
	var okVal, errVal ssa.Value
	for _, r := range *el.Call.Referrers() {
		if ex, isEx := r.(*ssa.Extract); isEx {
			switch ex.Index {
			case 1:
				okVal = ex
			case 2:
				errVal = ex
			}
		}
	}
	bad := 0
	for b := range el.L.Blocks {
		for _, s := range b.Succs {
			if el.L.Blocks[s] {
				continue
			}
			// the exit edge b -> s
			legit := false
			for _, f := range append(factsAt(b), factsOnEdge(b, s)...) {
				cond, truth := normCond(f.Cond, f.Truth)
				if okVal != nil && cond == okVal && !truth {
					legit = true // iterator exhausted
				}
				if errVal != nil {
					if m, isNil := errNilFact(cond, truth, errVal); m && !isNil {
						legit = true
					}
				}
			}
			if !legit {
				if ok, _ := c.edgeLeavesWithError(b, s); ok {
					legit = true
				}
			}
			if !legit {
				bad++
				c.violate(rule, "every-entry:exit@"+c.lineKey(b.Instrs[len(b.Instrs)-1]), b.Instrs[len(b.Instrs)-1].Pos(), fnName(el.Fn), "the loop over a tree's entries can be left before the iterator is exhausted (and without an error): the remaining entries are neither counted nor added to the sizes that have not saturated")
			}
		}
	}
	if bad == 0 {
		c.hold(rule, "every-entry", el.Call.Pos(), "the entry loop ends only at the end of the tree or with an error")
	}
}

func ruleC04EveryEntry(c *Ctx) { everyEntry(c, "C04.arms") }
func ruleC05EveryEntry(c *Ctx) { everyEntry(c, "C05.linear") }

// ruleC06Borrowed2: --refgroup G selects what @G selects (C14.aliases) and
// every selected reference is walked (C01.roots).
func ruleC06Borrowed2(c *Ctx) {
	c.RuleAlias = map[string]string{"C14.aliases": "C06.refgroup", "C01.roots": "C06.walk"}
	c.KeyOnly = func(key string) bool {
		return strings.HasPrefix(key, "refgroup-alias") || strings.Contains(key, "every-walked-root")
	}
	defer func() { c.RuleAlias = nil; c.KeyOnly = nil }()
	ruleC14Aliases(c)
	ruleC01Roots(c)
}

// ruleC07Borrowed3: a group's section is matched exactly (C15.scope, key
// matcher clause).
func ruleC07Borrowed3(c *Ctx) {
	c.RuleAlias = map[string]string{"C15.scope": "C07.hierarchy"}
	c.KeyOnly = func(key string) bool { return key == "key-matcher" }
	defer func() { c.RuleAlias = nil; c.KeyOnly = nil }()
	ruleC15Scope(c)
}

// ruleC07Builtins: a predefined group and the option of the same name are
// two definitions of one documented set of references (`--stash` processes
// refs/stash, `@stash` is the predefined group "stash"): the group's rule
// has to select what the option's rule selects. A prefix with and without
// its final '/' is the same rule for reference names.
func ruleC07Builtins(c *Ctx) {
	const rule = "C07.hierarchy"
	f := c.fn("/internal/refopts", "*RefGroupBuilder", "initializeStandardRefgroups")
	if f == nil {
		return
	}
	type def struct {
		re  bool
		pat string
		pos token.Pos
	}
	groups := map[string]def{}
	for _, fn := range closuresOf(f) {
		allInstrs(fn, func(in ssa.Instruction) {
			st, ok := in.(*ssa.Store)
			if !ok {
				return
			}
			fa, ok := st.Addr.(*ssa.FieldAddr)
			if !ok || vname(fieldOfAddr(fa).Var) != "filter" {
				return
			}
			gc, ok := c.resolve(fa.X).(*ssa.Call)
			if !ok || gc.Call.StaticCallee() == nil || refName(gc.Call.StaticCallee()) != "getGroup" || len(gc.Call.Args) != 2 {
				return
			}
			sym, ok := constStr(gc.Call.Args[1])
			if !ok {
				return
			}
			v := c.resolve(st.Val)
			if ex, ok := v.(*ssa.Extract); ok && ex.Index == 0 {
				v = ex.Tuple
			}
			call, ok := v.(*ssa.Call)
			if !ok || call.Call.StaticCallee() == nil || len(call.Call.Args) != 1 {
				return
			}
			pat, ok := constStr(call.Call.Args[0])
			if !ok {
				return
			}
			switch refName(call.Call.StaticCallee()) {
			case "PrefixFilter":
				groups[sym] = def{false, pat, st.Pos()}
			case "RegexpFilter":
				groups[sym] = def{true, pat, st.Pos()}
			}
		})
	}
	compared := 0
	for _, r := range c.flagRegs() {
		g, ok := groups[r.Name]
		if !ok || !strings.HasSuffix(r.ValueType, "filterValue") {
			continue
		}
		pat, okP := unquoteRendered(r.Fields["pattern"])
		re, okR := r.Fields["regexp"], true
		if re == "" {
			re = "false" // omitted in the literal
		}
		if re != "true" && re != "false" {
			okR = false
		}
		if !okP || !okR {
			continue
		}
		compared++
		same := (re == "true") == g.re
		if same {
			if g.re {
				same = pat == g.pat
			} else {
				same = strings.TrimSuffix(pat, "/") == strings.TrimSuffix(g.pat, "/") && strings.HasSuffix(g.pat, "/")
			}
		}
		if same {
			c.hold(rule, "builtin:"+r.Name, g.pos, "the predefined group selects what --"+r.Name+" selects")
		} else {
			c.violate(rule, "builtin:"+r.Name, g.pos, fnName(f), fmt.Sprintf("the predefined group %q (%s %q) does not select what the option --%s (%s %q) selects: a reference is tallied under a predefined group whose documented rule it does not satisfy", r.Name, kindOf(g.re), g.pat, r.Name, kindOf(re == "true"), pat))
		}
	}
	if compared == 0 {
		c.notDecided(rule, "builtin", f.Pos(), "the predefined groups and the options of the same name are not both defined by constants")
	}
}

func kindOf(re bool) string {
	if re {
		return "regexp"
	}
	return "prefix"
}

func unquoteRendered(s string) (string, bool) {
	if len(s) >= 2 && s[0] == '"' {
		if u, err := strconv.Unquote(s); err == nil {
			return u, true
		}
	}
	return "", false
}

// ruleC08Verbatim: (1) the name of a commit's top-level tree is built from
// the commit's best path (its name, or its object id when it has none);
// (2) a footnote is printed as it was recorded.
func ruleC08Verbatim(c *Ctx) {
	const rule = "C08.description"
	pt := c.namedType("/sizes", "Path")
	if pt != nil {
		if pf := c.methodOf(types.NewPointer(pt), "Path"); pf != nil {
			n, bad := 0, false
			allInstrs(pf, func(in ssa.Instruction) {
				call, ok := in.(*ssa.Call)
				if !ok || calleeQ(&call.Call) != "fmt.Sprintf" {
					return
				}
				f, ok := constStr(call.Call.Args[0])
				if !ok || !strings.HasPrefix(f, "%s^{") {
					return
				}
				n++
				els := c.sliceElemValues(call.Call.Args[1])
				if len(els) == 0 {
					return
				}
				v := els[0]
				if mi, ok := v.(*ssa.MakeInterface); ok {
					v = mi.X
				}
				rc, isCall := c.resolve(v).(*ssa.Call)
				if !isCall || rc.Call.StaticCallee() == nil || refName(rc.Call.StaticCallee()) != "BestPath" {
					bad = true
					c.violate(rule, "Path:peel-base", call.Pos(), fnName(pf), "`<x>^{tree}` is built from something other than the parent's best path: for a commit that no reference names the description becomes `^{tree}`, which git cannot resolve")
				}
			})
			if n > 0 && !bad {
				c.hold(rule, "Path:peel-base", pf.Pos(), "`<x>^{type}` starts from the parent's best path (name or object id)")
			}
		}
	}
	ft := c.namedType("/sizes", "Footnotes")
	if ft == nil {
		return
	}
	str := c.methodOf(types.NewPointer(ft), "String")
	if str == nil {
		return
	}
	// the element of the footnote list reaches a print call unmodified
	verbatim, seenElem, rewritten := false, false, false
	for _, l := range loopsOf(str) {
		for b := range l.Blocks {
			for _, in := range b.Instrs {
				var elem ssa.Value
				switch x := in.(type) {
				case *ssa.UnOp:
					if ia, ok := x.X.(*ssa.IndexAddr); ok && x.Op == token.MUL {
						if b, isStr := x.Type().Underlying().(*types.Basic); isStr && b.Kind() == types.String {
							_ = ia
							elem = x
						}
					}
				}
				if elem == nil {
					continue
				}
				seenElem = true
				for _, r := range *elem.Referrers() {
					switch y := r.(type) {
					case *ssa.MakeInterface:
						verbatim = true
					case *ssa.Call:
						if q := calleeQ(&y.Call); strings.HasSuffix(q, ".WriteString") || q == "io.WriteString" {
							verbatim = true
						} else if bt, isStr := y.Type().Underlying().(*types.Basic); isStr && bt.Kind() == types.String {
							rewritten = true // a string made from the footnote
						}
					case *ssa.BinOp:
						if y.Op == token.ADD {
							verbatim = true
						}
					case *ssa.Range:
						rewritten = true // taken apart rune by rune
					}
				}
			}
		}
	}
	switch {
	case !seenElem:
		c.notDecided(rule, "footnote-verbatim", str.Pos(), "the footnote list is not printed by a loop over its elements")
	case verbatim:
		c.hold(rule, "footnote-verbatim", str.Pos(), "each footnote is printed as it was recorded")
	case rewritten:
		c.violate(rule, "footnote-verbatim", str.Pos(), fnName(str), "a footnote is rewritten before it is printed: the text shown no longer spells the path of the cited object")
	default:
		c.notDecided(rule, "footnote-verbatim", str.Pos(), "the way a footnote reaches the output is not one of the known forms")
	}
}

// ruleC09Argv: the enumeration's order flag is honoured only if nothing
// makes rev-list answer from a pack-order index (C01.argv allow-list).
func ruleC09Argv(c *Ctx) {
	c.RuleAlias = map[string]string{"C01.argv": "C09.argv"}
	defer func() { c.RuleAlias = nil }()
	ruleC01Argv(c)
}

// ruleC13Roots: what is measured does not depend on per-worktree state:
// the roots are the references and the ROOT arguments, nothing else
// (C01.rootset).
func ruleC13Roots(c *Ctx) {
	c.RuleAlias = map[string]string{"C01.rootset": "C13.roots"}
	c.KeyOnly = func(key string) bool { return !strings.HasPrefix(key, "collect:") }
	defer func() { c.RuleAlias = nil; c.KeyOnly = nil }()
	ruleC01Rootset(c)
}

// ruleC14ReportOnly: equivalent spellings give byte-identical stdout only if
// nothing but the report is written there: pflag's own notices (deprecated
// spellings) must not be redirected to it (C10.stdout).
func ruleC14ReportOnly(c *Ctx) {
	c.RuleAlias = map[string]string{"C10.stdout": "C14.aliases"}
	c.KeyOnly = func(key string) bool { return strings.HasPrefix(key, "passed:") }
	defer func() { c.RuleAlias = nil; c.KeyOnly = nil }()
	ruleC10Stdout(c)
}

// ruleC14ConfigUnconditional: a configured value is applied whatever it is:
// between reading a sizer.* key and assigning the option variable only the
// error of the read/parse may be tested, not the value (zero is a value).
func ruleC14ConfigUnconditional(c *Ctx) {
	const rule = "C14.families"
	mainImpl := c.fn("", "", "mainImplementation")
	if mainImpl == nil {
		return
	}
	allInstrs(mainImpl, func(in ssa.Instruction) {
		call, ok := in.(*ssa.Call)
		if !ok {
			return
		}
		cal := call.Call.StaticCallee()
		if cal == nil || pkgOf(cal) != modPath+"/git" || !strings.HasPrefix(refName(cal), "Config") || len(call.Call.Args) < 2 {
			return
		}
		key, ok := constStr(call.Call.Args[1])
		if !ok || !strings.HasPrefix(key, "sizer.") {
			return
		}
		// values derived from the read
		derived := map[ssa.Value]bool{}
		var mark func(v ssa.Value, depth int)
		mark = func(v ssa.Value, depth int) {
			if depth > 6 || derived[v] {
				return
			}
			derived[v] = true
			if refs := v.Referrers(); refs != nil {
				for _, r := range *refs {
					switch x := r.(type) {
					case *ssa.Extract:
						if x.Index == 0 {
							mark(x, depth+1)
						}
					case *ssa.Convert, *ssa.ChangeType, *ssa.Phi:
						mark(x.(ssa.Value), depth+1)
					case *ssa.Call:
						if !isErrorType(x.Type()) {
							mark(x, depth+1)
						}
					}
				}
			}
		}
		mark(call, 0)
		bad := false
		for v := range derived {
			refs := v.Referrers()
			if refs == nil {
				continue
			}
			for _, r := range *refs {
				cmp, ok := r.(*ssa.BinOp)
				if !ok {
					continue
				}
				switch cmp.Op {
				case token.EQL, token.NEQ, token.LSS, token.LEQ, token.GTR, token.GEQ:
				default:
					continue
				}
				if isErrorType(cmp.X.Type()) {
					continue
				}
				// is a store of the option variable controlled by this comparison?
				for _, iff := range c.ifsOn(cmp) {
					for si, succ := range iff.Block().Succs {
						if !edgeDominates(iff.Block(), succ, succ) {
							continue
						}
						// a value that is rejected with an error is validated, not skipped
						if other := iff.Block().Succs[1-si]; other != succ {
							if isErr, _ := c.edgeLeavesWithError(iff.Block(), other); isErr {
								continue
							}
						}
						for b := range regionOfEdge(iff.Block(), succ) {
							for _, ins := range b.Instrs {
								if st, isSt := ins.(*ssa.Store); isSt && derived[c.resolve(st.Val)] && c.varKey(st.Addr) != nil && !bad {
									bad = true
									c.violate(rule, key+":value-unconditional", iff.Pos(), fnName(mainImpl), fmt.Sprintf("the value read from %s is applied only if it passes a test on the value itself (`%s`): one configured value (zero, for instance) is silently treated as \"not configured\"", key, strings.TrimSpace(cmp.String())))
								}
							}
						}
					}
				}
			}
		}
		if !bad {
			c.hold(rule, key+":value-unconditional", call.Pos(), "the configured value is applied whatever it is")
		}
	})
}

// ruleC18Borrowed: nothing but the report goes to stdout, whether or not
// progress is shown and whether or not the scan fails (C10.stdout), and
// every object is counted in the phase that processes it (C01.dispatch).
func ruleC18Borrowed(c *Ctx) {
	c.RuleAlias = map[string]string{"C10.stdout": "C18.stream", "C01.dispatch": "C18.bracket"}
	c.KeyOnly = func(key string) bool { return strings.HasPrefix(key, "print@") || key == "once-per-header" }
	defer func() { c.RuleAlias = nil; c.KeyOnly = nil }()
	ruleC10Stdout(c)
	ruleC01Dispatch(c)
}
