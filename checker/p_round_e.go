package main

import (
	"fmt"
	"go/token"
	"go/types"
	"strings"

	"golang.org/x/tools/go/ssa"
)

// Clauses added after the fifth round of seeded changes.

func init() {
	register("C03", "", nil, ruleC03Borrowed)
	register("C10", "", nil, ruleC10Argv)
	register("C07", "", nil, ruleC07RefsRead)
	register("C15", "", nil, ruleC15GitDir)
	register("C06", "", nil, ruleC06SubgroupUnion)
	register("C18", "", nil, ruleC18CountWidth)
	// sixth round
	register("C02", "", nil, ruleC02Borrowed)
	register("C08", "", nil, ruleC08NamesOption)
	register("C19", "", nil, ruleC19Borrowed)
	// seventh round
	register("C03", "", nil, ruleC03Borrowed2)
	register("C05", "", nil, ruleC05JSONExact)
	register("C06", "", nil, ruleC06Borrowed)
	register("C07", "", nil, ruleC07Borrowed2, ruleC07UnknownKeys)
	register("C08", "", nil, ruleC08Borrowed, ruleC08Description)
	register("C09", "", nil, ruleC09Borrowed2)
	register("C12", "", nil, ruleC12Narrow)
	register("C14", "", nil, ruleC14ConfigErrors)
}

// ruleC03Borrowed2: every parent header is read (C16.grammar, header and
// parent clauses) and every tag waiting for a tag is notified (C09.pending).
func ruleC03Borrowed2(c *Ctx) {
	c.RuleAlias = map[string]string{"C16.grammar": "C03.grammar", "C09.pending": "C03.pending"}
	c.KeyOnly = func(key string) bool {
		return strings.HasPrefix(key, "header:") || strings.HasPrefix(key, "ParseCommit:Parents") || strings.Contains(key, "notify") || strings.Contains(key, "tagRecord")
	}
	defer func() { c.RuleAlias = nil; c.KeyOnly = nil }()
	ruleC16Grammar(c)
	ruleC09Pending(c)
}

// ruleC05JSONExact: a saturated or large 64-bit quantity is emitted with
// its exact digits only if the report is marshalled from its typed value
// (C19.json, typed-value clause).
func ruleC05JSONExact(c *Ctx) {
	c.RuleAlias = map[string]string{"C19.json": "C05.json-exact"}
	c.KeyOnly = func(key string) bool { return key == "output-typed" }
	defer func() { c.RuleAlias = nil; c.KeyOnly = nil }()
	ruleC19JSON(c)
}

// ruleC06Borrowed: a selected reference is traversed: the walk decision of
// a root is the selection's verdict, nothing else (C01.rootset, collect
// clauses).
func ruleC06Borrowed(c *Ctx) {
	c.KeyOnly = func(key string) bool { return strings.HasPrefix(key, "collect:") }
	defer func() { c.KeyOnly = nil }()
	c.checkCollect("C06.walk")
}

// ruleC07Borrowed2: a group's regexp rules match whole names (C06.anchor).
func ruleC07Borrowed2(c *Ctx) {
	c.RuleAlias = map[string]string{"C06.anchor": "C07.anchor"}
	defer func() { c.RuleAlias = nil }()
	ruleC06Anchor(c)
}

// ruleC08Borrowed: one explicit root per ROOT argument, carrying the object
// that very argument resolves to (C01.rootset, explicit clauses): a second
// root under the same name for another object makes the name cite an object
// it does not resolve to.
func ruleC08Borrowed(c *Ctx) {
	c.RuleAlias = map[string]string{"C01.rootset": "C08.root-name"}
	c.KeyOnly = func(key string) bool { return strings.Contains(key, "explicit") || strings.Contains(key, "every-arg") }
	defer func() { c.RuleAlias = nil; c.KeyOnly = nil }()
	ruleC01Rootset(c)
}

// ruleC09Borrowed2: an entry is counted whether its subtree was delivered
// before or after the tree (C02.effects, entry-count clause).
func ruleC09Borrowed2(c *Ctx) {
	c.RuleAlias = map[string]string{"C02.effects": "C09.entry-count"}
	c.KeyOnly = func(key string) bool { return strings.Contains(key, "entry-count") }
	defer func() { c.RuleAlias = nil; c.KeyOnly = nil }()
	ruleC02Effects(c)
}

// ruleC12Narrow: the value handed to the humaner is the counter itself, not
// a narrowed copy (C05.discipline, conversion clauses).
func ruleC12Narrow(c *Ctx) {
	c.RuleAlias = map[string]string{"C05.discipline": "C12.value"}
	c.KeyOnly = func(key string) bool { return strings.HasPrefix(key, "narrow:") || strings.HasPrefix(key, "rawconv:") }
	defer func() { c.RuleAlias = nil; c.KeyOnly = nil }()
	ruleC05Discipline(c)
}

// ruleC14ConfigErrors: an invalid sizer.* value is refused like the invalid
// option value would be: only "key is unset" (exit status 1) is read as
// absence (C10.errflow on the gitconfig accessors).
func ruleC14ConfigErrors(c *Ctx) {
	c.RuleAlias = map[string]string{"C10.errflow": "C14.config-errors"}
	c.KeyOnly = func(key string) bool { return strings.Contains(key, ").Config") && strings.Contains(key, "Default:") }
	defer func() { c.RuleAlias = nil; c.KeyOnly = nil }()
	ruleC10Errflow(c)
}

// ruleC08Description: the description printed for an object is its id
// followed by its path exactly as the resolver built it; an abbreviated or
// otherwise edited path is resolved by git's own precedence rules and may
// name another object (branch `v2` next to tag `v2`).
func ruleC08Description(c *Ctx) {
	const rule = "C08.description"
	pt := c.namedType("/sizes", "Path")
	if pt == nil {
		return
	}
	str := c.methodOf(types.NewPointer(pt), "String")
	pathFn := c.methodOf(types.NewPointer(pt), "Path")
	if str == nil || pathFn == nil {
		c.notDecided(rule, "String", token.NoPos, "(*sizes.Path).String / Path not found")
		return
	}
	var pathCall *ssa.Call
	for _, call := range callsTo(str, pathFn) {
		pathCall = call
	}
	if pathCall == nil {
		c.violate(rule, "String:path", str.Pos(), fnName(str), "the description is not built from the resolver's path")
		return
	}
	// every use of the path inside String: comparison with "", or an operand of the formatting call
	ok := true
	var bad ssa.Instruction
	var visit func(v ssa.Value, depth int)
	visit = func(v ssa.Value, depth int) {
		refs := v.Referrers()
		if refs == nil || depth > 3 {
			return
		}
		for _, r := range *refs {
			switch x := r.(type) {
			case *ssa.BinOp:
				// compared with "", or embedded verbatim by concatenation
				if x.Op != token.EQL && x.Op != token.NEQ && x.Op != token.ADD {
					ok, bad = false, x
				}
			case *ssa.MakeInterface:
				// printed as it is
			case *ssa.Phi:
				visit(x, depth+1)
			case *ssa.Return:
			case *ssa.Call:
				if q := calleeQ(&x.Call); q != "builtin len" {
					ok, bad = false, x
				}
			case *ssa.Store:
				if _, isElem := x.Addr.(*ssa.IndexAddr); !isElem {
					ok, bad = false, x
				}
			default:
				ok, bad = false, r
			}
		}
	}
	visit(pathCall, 0)
	if ok {
		c.hold(rule, "String:path", pathCall.Pos(), "the path is printed as the resolver built it")
	} else {
		c.violate(rule, "String:path", bad.Pos(), fnName(str), "the path is edited between the resolver and the description (trimmed, shortened or re-spelled): the text shown is then resolved by git's own rules and need not name the cited object")
	}
}

// ruleC07UnknownKeys: a refgroup section may hold keys of nested groups and
// keys this version does not know; the function that folds a group's
// entries into its filter fails only when a filter cannot be built, never
// because a key is unknown.
func ruleC07UnknownKeys(c *Ctx) {
	const rule = "C07.hierarchy"
	aug := c.augmentFn()
	if aug == nil {
		return // C15.scope reports the missing function
	}
	bad := false
	for _, ret := range returnsOf(aug) {
		if len(ret.Results) == 0 {
			continue
		}
		for _, v := range c.resultValues(ret, len(ret.Results)-1) {
			if isNilConst(v) {
				continue
			}
			// an error built here (not one handed up from a callee)
			call, isCall := c.resolve(v).(*ssa.Call)
			if !isCall {
				continue
			}
			if q := calleeQ(&call.Call); q != "fmt.Errorf" && q != "errors.New" {
				continue
			}
			wraps := false
			for _, a := range c.sliceElemValues(call.Call.Args[len(call.Call.Args)-1]) {
				if mi, ok := a.(*ssa.MakeInterface); ok && isErrorType(mi.X.Type()) {
					wraps = true
				}
				if ci, ok := a.(*ssa.ChangeInterface); ok && isErrorType(ci.X.Type()) {
					wraps = true
				}
				if a != nil && isErrorType(a.Type()) {
					wraps = true
				}
			}
			if !wraps {
				bad = true
				c.violate(rule, "augment:unknown-key", ret.Pos(), fnName(aug), "folding a group's gitconfig entries fails with an error of its own (not one from building a filter): a section that also holds the keys of nested groups, or a key this version does not know, aborts the report")
			}
		}
	}
	if !bad {
		c.hold(rule, "augment:unknown-key", aug.Pos(), "entries with unknown keys are ignored; the only errors are those of the filter constructors")
	}
}

// ruleC02Borrowed: the maxima range over the reachable objects only if
// every walked root is fed to the enumeration (C01.roots), and the number
// of entries / parents counted is the number the object has only if the
// tree and commit parsers read every entry (C16.grammar, tree and parent
// clauses).
func ruleC02Borrowed(c *Ctx) {
	c.RuleAlias = map[string]string{"C01.roots": "C02.roots", "C16.grammar": "C02.grammar"}
	c.KeyOnly = func(key string) bool {
		return !strings.HasPrefix(key, "ParseTag") && !strings.HasPrefix(key, "header:")
	}
	defer func() { c.RuleAlias = nil; c.KeyOnly = nil }()
	ruleC01Roots(c)
	ruleC16Grammar(c)
}

// ruleC08NamesOption: --names=none promises that no name is shown; that
// holds only if an explicit --names is not overridden by sizer.names
// (C14.families, the sizer.names family).
func ruleC08NamesOption(c *Ctx) {
	c.RuleAlias = map[string]string{"C14.families": "C08.names-option"}
	c.KeyOnly = func(key string) bool { return strings.Contains(key, "sizer.names") }
	defer func() { c.RuleAlias = nil; c.KeyOnly = nil }()
	ruleC14Families(c)
}

// ruleC19Borrowed: a report is produced for every reference name only if
// the reference listing is split on the single blanks git writes
// (C16.formats, for-each-ref); footnotes are numbered from 1 without gaps
// only if a citation is created for rows that are shown (C11.same-value,
// citation clause).
func ruleC19Borrowed(c *Ctx) {
	c.RuleAlias = map[string]string{"C16.formats": "C19.ref-format", "C11.same-value": "C19.footnotes"}
	c.KeyOnly = func(key string) bool {
		return key == "for-each-ref" || strings.HasPrefix(key, "Emit:citation")
	}
	defer func() { c.RuleAlias = nil; c.KeyOnly = nil }()
	ruleC16Formats(c)
	ruleC11SameValue(c)
}

// ruleC03Borrowed: the depths are those of the real parent/referent edges
// only if replace references and graft files are disabled for every git
// command (C13.isolation), and only if every walked root is fed to the
// enumeration whatever precedes it (C01.roots).
func ruleC03Borrowed(c *Ctx) {
	c.RuleAlias = map[string]string{"C13.isolation": "C03.isolation", "C01.roots": "C03.roots"}
	defer func() { c.RuleAlias = nil }()
	ruleC13Isolation(c)
	ruleC01Roots(c)
}

// ruleC10Argv: rev-list's own failure on a root that names no object is
// the only validation a full-length object id gets; an option that makes
// rev-list tolerant (C01.argv's allow-list) turns that failure into a
// successful, silently different report.
func ruleC10Argv(c *Ctx) {
	c.RuleAlias = map[string]string{"C01.argv": "C10.argv"}
	defer func() { c.RuleAlias = nil }()
	ruleC01Argv(c)
}

// ruleC07RefsRead: the reference count is exact only if a failure while
// the reference listing is read is not mistaken for its end (the error
// discipline of C10, restricted to the reference reader).
func ruleC07RefsRead(c *Ctx) {
	c.RuleAlias = map[string]string{"C10.errflow": "C07.refs-read"}
	c.KeyOnly = func(key string) bool {
		return strings.Contains(key, "ReferenceIter") || strings.HasPrefix(key, "sizes.CollectReferences:")
	}
	defer func() { c.RuleAlias = nil; c.KeyOnly = nil }()
	ruleC10Errflow(c)
}

// ruleC15GitDir: git reports the configuration of the repository it is
// pointed at through GIT_DIR; the directory must be the one git itself
// names with --git-dir (the common directory of a linked worktree lacks the
// per-worktree configuration scope).
func ruleC15GitDir(c *Ctx) {
	c.RuleAlias = map[string]string{"C13.gitdir": "C15.gitdir"}
	defer func() { c.RuleAlias = nil }()
	ruleC13GitDir(c)
}

// closuresOf lists f and the anonymous functions nested in it.
func closuresOf(f *ssa.Function) []*ssa.Function {
	out := []*ssa.Function{f}
	for i := 0; i < len(out); i++ {
		out = append(out, out[i].AnonFuncs...)
	}
	return out
}

// ruleC06SubgroupUnion: a group without rules of its own matches what any
// of its subgroups matches, and a subgroup may itself be such a group: the
// verdict about a subgroup has to come from the same function applied to
// the subgroup (E5 does not interpret the loop; this is its structural
// complement).
func ruleC06SubgroupUnion(c *Ctx) {
	const rule = "C06.refgroup"
	matches := c.fn("/internal/refopts", "", "refGroupMatches")
	if matches == nil {
		return
	}
	name := fnName(matches)
	isGroupPtr := func(t types.Type) bool { return isPtrToNamed(t, modPath+"/internal/refopts", "refGroup") }
	consulted := false
	var elems []ssa.Value
	var where token.Pos
	for _, f := range closuresOf(matches) {
		allInstrs(f, func(in ssa.Instruction) {
			var list ssa.Value
			switch x := in.(type) {
			case *ssa.FieldAddr:
				if vname(fieldOfAddr(x).Var) == "subgroups" && isGroupPtr(x.X.Type()) {
					consulted = true
					where = x.Pos()
					for _, r := range *x.Referrers() {
						if u, ok := r.(*ssa.UnOp); ok && u.Op == token.MUL {
							list = u
							elems = append(elems, elementsOf(list)...)
						}
					}
				}
			}
		})
	}
	if !consulted {
		c.violate(rule, "subgroup-union", matches.Pos(), name, "the subgroups of a group are never consulted: a group without rules of its own matches nothing")
		return
	}
	if len(elems) == 0 {
		// handed to a library iteration helper: look for a closure over one
		// group that recurses
		for _, f := range closuresOf(matches)[1:] {
			for _, p := range f.Params {
				if !isGroupPtr(p.Type()) {
					continue
				}
				for _, call := range callsTo(f, matches) {
					if call.Call.Args[0] == ssa.Value(p) || (len(call.Call.Args) > 1 && call.Call.Args[1] == ssa.Value(p)) {
						c.hold(rule, "subgroup-union", call.Pos(), "a subgroup's verdict is the recursive verdict of the same function (through an iteration helper)")
						return
					}
				}
			}
		}
		c.notDecided(rule, "subgroup-union", where, "the subgroup list is consumed in a form the rule does not recognise")
		return
	}
	for _, e := range elems {
		for _, f := range closuresOf(matches) {
			for _, call := range callsTo(f, matches) {
				for _, a := range call.Call.Args {
					if a == e {
						c.hold(rule, "subgroup-union", call.Pos(), "a subgroup's verdict is the recursive verdict of the same function, so nested groups without rules of their own are unions of their subgroups in turn")
						return
					}
				}
			}
		}
	}
	c.violate(rule, "subgroup-union", where, name, "the verdict about a subgroup is not obtained by applying the same function to it: a subgroup that has no rules of its own (a union of its own subgroups) is treated as matching nothing")
}

// elementsOf lists the values read as elements of the slice value list
// (indexing and range loops).
func elementsOf(list ssa.Value) []ssa.Value {
	var out []ssa.Value
	refs := list.Referrers()
	if refs == nil {
		return nil
	}
	for _, r := range *refs {
		switch x := r.(type) {
		case *ssa.IndexAddr:
			for _, rr := range *x.Referrers() {
				if u, ok := rr.(*ssa.UnOp); ok && u.Op == token.MUL {
					out = append(out, u)
				}
			}
		case *ssa.Index:
			out = append(out, x)
		case *ssa.Range:
			for _, rr := range *x.Referrers() {
				if nx, ok := rr.(*ssa.Next); ok {
					for _, r3 := range *nx.Referrers() {
						if ex, ok := r3.(*ssa.Extract); ok && ex.Index == 2 {
							out = append(out, ex)
						}
					}
				}
			}
		case *ssa.Slice:
			out = append(out, elementsOf(x)...)
		}
	}
	return out
}

// ruleC18CountWidth: the final line of a phase carries the exact number of
// items only if the counter is as wide as what is added to it: the meter's
// Add takes an int64, and the object count of a repository is not bounded
// by 2^31.
func ruleC18CountWidth(c *Ctx) {
	const rule = "C18.count-width"
	mt := c.namedType("/meter", "progressMeter")
	if mt == nil {
		return // C18.lockset reports the missing meter type
	}
	width := func(t types.Type) (int, string) {
		if n := namedOf(t); n != nil && n.Obj().Pkg() != nil && n.Obj().Pkg().Path() == "sync/atomic" {
			switch n.Obj().Name() {
			case "Int64", "Uint64":
				return 8, "atomic." + n.Obj().Name()
			case "Int32", "Uint32":
				return 4, "atomic." + n.Obj().Name()
			}
			return 0, ""
		}
		if b, ok := t.Underlying().(*types.Basic); ok {
			switch b.Kind() {
			case types.Int64, types.Uint64:
				return 8, b.Name()
			case types.Int32, types.Uint32:
				return 4, b.Name()
			case types.Int16, types.Uint16:
				return 2, b.Name()
			case types.Int8, types.Uint8:
				return 1, b.Name()
			}
		}
		return 0, ""
	}
	n := 0
	seen := map[*types.Var]bool{}
	for _, f := range c.ModFns {
		if pkgOf(f) != modPath+"/meter" {
			continue
		}
		allInstrs(f, func(in ssa.Instruction) {
			call, ok := in.(ssa.CallInstruction)
			if !ok {
				return
			}
			callee := call.Common().StaticCallee()
			if callee == nil || pkgOf(callee) != "sync/atomic" || len(call.Common().Args) == 0 {
				return
			}
			fa, ok := call.Common().Args[0].(*ssa.FieldAddr)
			if !ok {
				return
			}
			fi := fieldOfAddr(fa)
			if fi.Struct != mt || seen[fi.Var] {
				return
			}
			seen[fi.Var] = true
			w, tn := width(fi.Var.Type())
			switch {
			case w == 0:
				return
			case w < 8:
				n++
				c.violate(rule, "field:"+vname(fi.Var), fa.Pos(), fnName(f), fmt.Sprintf("the atomically updated counter is a %s: a phase that processes 2^%d items or more ends with a final line that does not carry the number processed", tn, w*8-1))
			default:
				n++
				c.hold(rule, "field:"+vname(fi.Var), fa.Pos(), "the atomically updated counter is a "+tn)
			}
		})
	}
	// what Add receives reaches the counter without being narrowed
	ptr := types.NewPointer(mt)
	if add := c.methodOf(ptr, "Add"); add != nil && len(add.Params) == 2 {
		narrowed := false
		var visit func(v ssa.Value, depth int)
		visit = func(v ssa.Value, depth int) {
			refs := v.Referrers()
			if refs == nil || depth > 4 {
				return
			}
			for _, r := range *refs {
				if cv, ok := r.(*ssa.Convert); ok {
					if w, tn := width(cv.Type()); w != 0 && w < 8 {
						narrowed = true
						c.violate(rule, "add-narrowed", cv.Pos(), fnName(add), "the amount passed to Add is narrowed to "+tn+" before it is added")
						continue
					}
					visit(cv, depth+1)
				}
			}
		}
		visit(add.Params[1], 0)
		if !narrowed {
			c.hold(rule, "add-narrowed", add.Pos(), "the amount passed to Add is not narrowed on its way to the counter")
		}
	}
	if n == 0 {
		c.notDecided(rule, "field", token.NoPos, "no atomically updated field of the meter found")
	}
}
