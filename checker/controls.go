package main

import (
	"fmt"
	"os"
	"path/filepath"
	"sort"

	"golang.org/x/tools/go/packages"
	"golang.org/x/tools/go/ssa"
	"golang.org/x/tools/go/ssa/ssautil"
)

// controlFns loads /verif/controls (analysed, never executed) and returns
// its functions keyed by name.
func (c *Ctx) controlFns() map[string]*ssa.Function {
	if v, ok := c.memo["controls"]; ok {
		return v.(map[string]*ssa.Function)
	}
	out := map[string]*ssa.Function{}
	c.memo["controls"] = out
	dir := filepath.Join(c.Verif, "controls")
	env := append(os.Environ(), "GOFLAGS=-mod=mod", "GOPROXY=off", "GOSUMDB=off", "GOTOOLCHAIN=local", "GOWORK=off")
	cfg := &packages.Config{Mode: packages.LoadAllSyntax, Dir: dir, Env: env}
	pkgs, err := packages.Load(cfg, ".")
	if err != nil || len(pkgs) == 0 || packages.PrintErrors(pkgs) > 0 {
		c.checkError(fmt.Sprintf("cannot load the positive-control package %s: %v", dir, err))
		return out
	}
	prog, spkgs := ssautil.AllPackages(pkgs, ssa.InstantiateGenerics)
	prog.Build()
	for _, sp := range spkgs {
		if sp == nil {
			continue
		}
		for _, m := range sp.Members {
			if f, ok := m.(*ssa.Function); ok && f.Synthetic == "" {
				out[f.Name()] = f
			}
		}
	}
	return out
}

// control asserts that detect() reports the named control function.
func (c *Ctx) control(rule, fnName string, detect func(fns []*ssa.Function) []ssa.Instruction) {
	f := c.controlFns()[fnName]
	if f == nil {
		c.checkError(fmt.Sprintf("%s positive control: function controls.%s not found", rule, fnName))
		return
	}
	if hits := detect([]*ssa.Function{f}); len(hits) == 0 {
		c.checkError(fmt.Sprintf("%s positive control: the rule's pattern does not report controls.%s", rule, fnName))
		return
	}
	c.present(rule, "control:"+fnName, 0, "positive control controls."+fnName+" is reported by the rule's pattern")
}

// reachableFrom: module functions reachable in the call graph from roots.
func (c *Ctx) reachableFrom(roots []*ssa.Function) []*ssa.Function {
	g := c.callGraph()
	seen := map[*ssa.Function]bool{}
	var st []*ssa.Function
	for _, r := range roots {
		if r != nil {
			st = append(st, r)
		}
	}
	for len(st) > 0 {
		f := st[len(st)-1]
		st = st[:len(st)-1]
		if seen[f] {
			continue
		}
		seen[f] = true
		for _, af := range f.AnonFuncs {
			st = append(st, af)
		}
		if n := g.Nodes[f]; n != nil {
			for _, e := range n.Out {
				if e.Callee != nil && e.Callee.Func != nil && c.inRuleScope(e.Callee.Func) {
					st = append(st, e.Callee.Func)
				}
			}
		}
	}
	var out []*ssa.Function
	for f := range seen {
		if c.inRuleScope(f) {
			out = append(out, f)
		}
	}
	sort.Slice(out, func(i, j int) bool { return out[i].Pos() < out[j].Pos() })
	return out
}
