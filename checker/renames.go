package main

import (
	"fmt"
	"go/types"
	"regexp"
	"sort"
	"strings"
)

// Renamed types and fields. The rules name types and fields as the
// reference tree spells them; when a type (or a field of a struct) of the
// reference tree is gone and a type of the same shape (a field of the same
// position and type) exists in the same package, the tables below translate
// between the two spellings. On the reference tree they are empty.
var (
	typeBack  map[*types.TypeName]string // current type -> reference bare name
	typeFwd   map[string]*types.TypeName // "pkgpath.RefName" -> current type
	fieldBack map[*types.Var]string      // current field -> reference field name
)

// tname: the name of an object as the reference tree spells it.
func tname(o types.Object) string {
	if tn, ok := o.(*types.TypeName); ok {
		if old, ok := typeBack[tn]; ok {
			return old
		}
	}
	return o.Name()
}

// vname: the name of a struct field as the reference tree spells it.
func vname(v *types.Var) string {
	if old, ok := fieldBack[v]; ok {
		return old
	}
	return v.Name()
}

var modTypeRE = regexp.MustCompile(regexp.QuoteMeta(modPath) + `[A-Za-z0-9_/]*\.[A-Za-z_][A-Za-z0-9_]*`)

// shapeOf renders the structure of a named type. With erase, the names of
// fields, methods and module types are left out (so that shapes of types
// that mention other renamed types still compare equal).
func shapeOf(n *types.Named, erase bool) string {
	ts := func(t types.Type) string {
		s := types.TypeString(t, nil)
		if erase {
			s = modTypeRE.ReplaceAllString(s, "•")
		}
		return s
	}
	switch u := n.Underlying().(type) {
	case *types.Struct:
		var b strings.Builder
		b.WriteString("struct{")
		for i := 0; i < u.NumFields(); i++ {
			f := u.Field(i)
			if !erase {
				b.WriteString(f.Name() + " ")
			} else if f.Embedded() {
				b.WriteString("embedded ")
			}
			b.WriteString(ts(f.Type()))
			if tag := u.Tag(i); tag != "" {
				b.WriteString(" `" + tag + "`")
			}
			b.WriteString(";")
		}
		b.WriteString("}")
		return b.String()
	case *types.Interface:
		var ms []string
		for i := 0; i < u.NumMethods(); i++ {
			m := u.Method(i)
			if erase {
				ms = append(ms, ts(m.Type()))
			} else {
				ms = append(ms, m.Name()+ts(m.Type()))
			}
		}
		sort.Strings(ms)
		return "interface{" + strings.Join(ms, ";") + "}"
	}
	return ts(n.Underlying())
}

// typeTable lists the named types of the module packages in source order:
// "pkgpath.Name", exact shape, erased shape, field names.
func (c *Ctx) typeTable() (names []string, objs map[string]*types.TypeName) {
	objs = map[string]*types.TypeName{}
	for _, p := range c.ModPkgs {
		var tns []*types.TypeName
		sc := p.Types.Scope()
		for _, n := range sc.Names() {
			if tn, ok := sc.Lookup(n).(*types.TypeName); ok && !tn.IsAlias() {
				if _, isNamed := tn.Type().(*types.Named); isNamed {
					tns = append(tns, tn)
				}
			}
		}
		sort.Slice(tns, func(i, j int) bool { return tns[i].Pos() < tns[j].Pos() })
		for _, tn := range tns {
			k := p.PkgPath + "." + tn.Name()
			names = append(names, k)
			objs[k] = tn
		}
	}
	return
}

// detectTypeRenames fills typeBack/typeFwd/fieldBack for the loaded program.
func (c *Ctx) detectTypeRenames() []string {
	typeBack, typeFwd, fieldBack = map[*types.TypeName]string{}, map[string]*types.TypeName{}, map[*types.Var]string{}
	var log []string
	names, objs := c.typeTable()
	// per package: missing reference types and unknown current types, in order
	type ref struct {
		key   string
		order int
	}
	missing := map[string][]ref{}
	for k, kt := range knownTypes {
		if objs[k] == nil {
			pkg := k[:strings.LastIndex(k, ".")]
			missing[pkg] = append(missing[pkg], ref{k, kt.Order})
		}
	}
	for _, ms := range missing {
		sort.Slice(ms, func(i, j int) bool { return ms[i].order < ms[j].order })
	}
	taken := map[string]bool{}
	for pass := 0; pass < 2; pass++ { // exact shapes first, then erased ones
		for _, k := range names {
			if _, known := knownTypes[k]; known || typeBack[objs[k]] != "" {
				continue
			}
			pkg := k[:strings.LastIndex(k, ".")]
			n := objs[k].Type().(*types.Named)
			for _, m := range missing[pkg] {
				if taken[m.key] {
					continue
				}
				kt := knownTypes[m.key]
				if (pass == 0 && kt.Shape == shapeOf(n, false)) || (pass == 1 && kt.Erased == shapeOf(n, true)) {
					taken[m.key] = true
					old := m.key[strings.LastIndex(m.key, ".")+1:]
					typeBack[objs[k]] = old
					typeFwd[m.key] = objs[k]
					log = append(log, fmt.Sprintf("type %s takes the place of %s of the reference tree (same shape: a rename)", k, m.key))
					break
				}
			}
		}
	}
	// fields: same position, same type (module type names erased)
	for k, kt := range knownTypes {
		tn := objs[k]
		if tn == nil {
			tn = typeFwd[k]
		}
		if tn == nil || len(kt.Fields) == 0 {
			continue
		}
		st, ok := tn.Type().Underlying().(*types.Struct)
		if !ok || st.NumFields() != len(kt.Fields) || kt.Erased != shapeOf(tn.Type().(*types.Named), true) {
			continue
		}
		for i := 0; i < st.NumFields(); i++ {
			if st.Field(i).Name() != kt.Fields[i] {
				fieldBack[st.Field(i)] = kt.Fields[i]
				log = append(log, fmt.Sprintf("field %s.%s takes the place of %s of the reference tree (same position and type: a rename)", k, st.Field(i).Name(), kt.Fields[i]))
			}
		}
	}
	// fields renamed AND reordered: same multiset of field types; fields that
	// kept their name stay, the others are paired type by type in order
	for k, kt := range knownTypes {
		tn := objs[k]
		if tn == nil {
			tn = typeFwd[k]
		}
		if tn == nil || len(kt.Fields) == 0 || len(kt.FieldTypes) != len(kt.Fields) {
			continue
		}
		st, ok := tn.Type().Underlying().(*types.Struct)
		if !ok || st.NumFields() != len(kt.Fields) || kt.Erased == shapeOf(tn.Type().(*types.Named), true) {
			continue
		}
		erase := func(t string) string { return modTypeRE.ReplaceAllString(t, "•") }
		refByName := map[string]int{}
		for i, n := range kt.Fields {
			refByName[n] = i
		}
		usedRef := map[int]bool{}
		var open []int // current fields whose name is not a reference name
		for i := 0; i < st.NumFields(); i++ {
			if j, same := refByName[st.Field(i).Name()]; same && erase(types.TypeString(st.Field(i).Type(), nil)) == kt.FieldTypes[j] {
				usedRef[j] = true
			} else {
				open = append(open, i)
			}
		}
		pairs := map[int]int{}
		okAll := true
		for _, i := range open {
			ft := erase(types.TypeString(st.Field(i).Type(), nil))
			found := -1
			for j := range kt.Fields {
				if !usedRef[j] && kt.FieldTypes[j] == ft {
					found = j
					break
				}
			}
			if found < 0 {
				okAll = false
				break
			}
			usedRef[found] = true
			pairs[i] = found
		}
		if !okAll {
			continue
		}
		for i, j := range pairs {
			fieldBack[st.Field(i)] = kt.Fields[j]
			log = append(log, fmt.Sprintf("field %s.%s takes the place of %s of the reference tree (same type, fields reordered: a rename)", k, st.Field(i).Name(), kt.Fields[j]))
		}
	}
	return log
}

// refSig translates the names of renamed types in a signature key to the
// reference spelling.
func refSig(sig string) string {
	for tn, old := range typeBack {
		cur := tn.Pkg().Path() + "." + tn.Name()
		re := regexp.MustCompile(regexp.QuoteMeta(cur) + `\b`)
		sig = re.ReplaceAllString(sig, tn.Pkg().Path()+"."+old)
	}
	return sig
}

type knownType struct {
	Order      int
	Shape      string
	Erased     string
	Fields     []string
	FieldTypes []string // with module type names erased
}

func init() {
	dumpers["types"] = func(c *Ctx) {
		names, objs := c.typeTable()
		for _, k := range names {
			n := objs[k].Type().(*types.Named)
			var fields, ftypes []string
			if st, ok := n.Underlying().(*types.Struct); ok {
				for i := 0; i < st.NumFields(); i++ {
					fields = append(fields, st.Field(i).Name())
					ftypes = append(ftypes, modTypeRE.ReplaceAllString(types.TypeString(st.Field(i).Type(), nil), "•"))
				}
			}
			fmt.Printf("%s\t%q\t%q\t%s\t%s\n", k, shapeOf(n, false), shapeOf(n, true), strings.Join(fields, ","), strings.Join(ftypes, "\x1f"))
		}
	}
}
