package main

import (
	"go/token"
	"go/types"
	"strings"

	"golang.org/x/tools/go/ssa"
)

// Clauses added after the twelfth round of seeded changes.

func init() {
	register("C01", "", nil, ruleC01Selection2)
	register("C02", "", nil, ruleC02Selection2)
	register("C04", "", nil, ruleC04Isolation, ruleC04ListenerCaptures)
	register("C11", "", nil, ruleC11Citation, ruleC11SectionTitle)
	register("C16", "", nil, ruleC16HeaderErrors)
	register("C17", "", nil, ruleC17Wait)
	register("C19", "", nil, ruleC19Names)
}

// ruleC01Selection2 / ruleC02Selection2: what is counted (and what the maxima
// are taken over) is what the selection options name: a default filter does
// not replace one the options built (C06.default), `@group` is limited by
// every ancestor of the group (C06.refgroup, ancestor-pass), and a regular
// expression is matched as a whole (C06.anchor).
func selection2(c *Ctx, prop string) {
	c.RuleAlias = map[string]string{"C06.default": prop + ".selection", "C06.refgroup": prop + ".selection", "C06.anchor": prop + ".selection"}
	c.KeyOnly = func(key string) bool {
		return strings.Contains(key, "NoReferencesFilter") || key == "ancestor-pass" || strings.HasPrefix(key, "git.RegexpFilter:")
	}
	defer func() { c.RuleAlias = nil; c.KeyOnly = nil }()
	ruleC06Default(c)
	ruleC06RefGroup(c)
	if prop != "C01" {
		ruleC06Anchor(c) // C01 has it already
	}
}

func ruleC01Selection2(c *Ctx) { selection2(c, "C01") }
func ruleC02Selection2(c *Ctx) { selection2(c, "C02") }

// ruleC04Isolation: the trees that are expanded are the repository's own:
// replace references and grafts stay switched off (C13.isolation).
func ruleC04Isolation(c *Ctx) {
	c.RuleAlias = map[string]string{"C13.isolation": "C04.isolation"}
	defer func() { c.RuleAlias = nil }()
	ruleC13Isolation(c)
}

// ruleC04ListenerCaptures: a listener that is called after the loop over a
// tree's entries has moved on must not read a variable that the loop keeps
// assigning: a closure created inside a loop may capture by reference only
// variables that belong to that iteration (or that the loop never writes).
func ruleC04ListenerCaptures(c *Ctx) {
	const rule = "C04.arms"
	el := c.entryLoop()
	if el == nil || el.Fn == nil {
		return
	}
	n, bad := 0, 0
	for b := range el.L.Blocks {
		for _, in := range b.Instrs {
			mc, ok := in.(*ssa.MakeClosure)
			if !ok {
				continue
			}
			n++
			for _, bnd := range mc.Bindings {
				al, isAlloc := bnd.(*ssa.Alloc)
				if !isAlloc || el.L.Blocks[al.Block()] {
					continue // a fresh variable per iteration, or captured by value
				}
				for _, r := range *al.Referrers() {
					st, isSt := r.(*ssa.Store)
					if !isSt || st.Addr != ssa.Value(al) || !el.L.Blocks[st.Block()] {
						continue
					}
					bad++
					c.violate(rule, "listener-captures:"+al.Comment, st.Pos(), fnName(el.Fn), "the listener created for one entry captures the variable `"+al.Comment+"`, which the loop assigns again for every later entry: when the subtree's size arrives, the listener works with the last entry's value (its name, for instance) instead of its own")
					break
				}
			}
		}
	}
	if n > 0 && bad == 0 {
		c.hold(rule, "listener-captures", el.Call.Pos(), "the deferred listeners capture per-iteration variables only")
	}
}

// ruleC11Citation: a row cites the footnote of its own object (C19.footnotes,
// citation-number): otherwise the table names another object than JSON does.
func ruleC11Citation(c *Ctx) {
	c.RuleAlias = map[string]string{"C19.footnotes": "C11.same-value"}
	c.KeyOnly = func(key string) bool { return key == "citation-number" || key == "number" || key == "dedup-key" }
	defer func() { c.RuleAlias = nil; c.KeyOnly = nil }()
	ruleC19Footnotes(c)
}

// ruleC11SectionTitle: raising the threshold only removes rows: whichever of
// a section's parts still has rows, they stay under that section's title.
// Every part is emitted into a sub-table that carries the section's name.
func ruleC11SectionTitle(c *Ctx) {
	const rule = "C11.rule"
	st := c.namedType("/sizes", "section")
	if st == nil {
		return
	}
	emit := c.methodOf(types.NewPointer(st), "Emit")
	if emit == nil || len(emit.Params) == 0 {
		return
	}
	n := 0
	for _, l := range loopsOf(emit) {
		if !c.rangeOverField(emit, l, "contents") {
			continue
		}
		for b := range l.Blocks {
			for _, in := range b.Instrs {
				// the title of the sub-table made for this part: a store to,
				// or an argument for, a field/parameter of string type named
				// like a header
				var title ssa.Value
				switch x := in.(type) {
				case *ssa.Store:
					if fa, ok := x.Addr.(*ssa.FieldAddr); ok && vname(fieldOfAddr(fa).Var) == "sectionHeader" {
						title = x.Val
					}
				}
				// … or the argument of the call that makes the sub-table
				if call, ok := in.(*ssa.Call); ok {
					if cal := call.Call.StaticCallee(); cal != nil && c.inRuleScope(cal) && cal.Signature.Results().Len() == 1 {
						if pt, isPtr := cal.Signature.Results().At(0).Type().(*types.Pointer); isPtr && isNamed(pt.Elem(), modPath+"/sizes", "table") {
							for _, a := range call.Call.Args {
								if bt, isB := a.Type().Underlying().(*types.Basic); isB && bt.Kind() == types.String {
									title = a
								}
							}
						}
					}
				}
				if title == nil {
					continue
				}
				n++
				_, p := c.fieldPath(c.resolve(title))
				if len(p) == 1 && p[0] == "name" {
					c.hold(rule, "section-title", in.Pos(), "every part of a section is emitted under the section's name")
				} else {
					c.violate(rule, "section-title", in.Pos(), fnName(emit), "the sub-table made for a part of a section does not (always) carry the section's name: when the first part has no row above the threshold, the rows of a later part appear without their section title, or under the previous section's")
				}
			}
		}
	}
	if n == 0 {
		c.notDecided(rule, "section-title", emit.Pos(), "the title given to the parts' sub-tables is not visible in section.Emit")
	}
}

// ruleC16HeaderErrors: an object whose header block ends with a blank line
// is accepted whatever follows: the "zero length" and "no terminating LF"
// errors are raised only when no blank line was found.
func ruleC16HeaderErrors(c *Ctx) {
	const rule = "C16.grammar"
	f := c.fn("/git", "", "NewObjectHeaderIter")
	if f == nil {
		return
	}
	var idx *ssa.Call
	allInstrs(f, func(in ssa.Instruction) {
		if call, ok := in.(*ssa.Call); ok && (calleeQ(&call.Call) == "bytes.Index" || calleeQ(&call.Call) == "strings.Index") {
			if s, ok := c.sepBytes(call.Call.Args[1]); ok && s == "\n\n" {
				idx = call
			}
		}
	})
	if idx == nil {
		return
	}
	n, bad := 0, 0
	for _, ret := range returnsOf(f) {
		isErr := false
		for _, v := range c.resultValues(ret, 1) {
			if !isNilConst(v) {
				isErr = true
			}
		}
		if !isErr {
			continue
		}
		n++
		notFound := guardedBy(ret.Block(), func(cond ssa.Value, truth bool) bool {
			cmp, ok := isCmp(cond, token.EQL, token.NEQ, token.LSS, token.GEQ)
			if !ok || cmp.X != ssa.Value(idx) {
				return false
			}
			switch cmp.Op {
			case token.EQL, token.LSS:
				return truth
			case token.NEQ, token.GEQ:
				return !truth
			}
			return false
		})
		if !notFound {
			bad++
			c.violate(rule, "header:errors-only-without-blank-line", ret.Pos(), fnName(f), "an error is returned although (or before it is known whether) the object has a blank line after its headers: well-formed objects whose message does not end in LF would be rejected")
		}
	}
	if n > 0 && bad == 0 {
		c.hold(rule, "header:errors-only-without-blank-line", f.Pos(), "the length and LF checks apply only to objects without a blank line")
	}
}

// ruleC17Wait: the exit status does not depend on scheduling: the batch
// iterator reports the end of its stream only after the pipeline was waited
// for, in the goroutine that asks (C10.wait).
func ruleC17Wait(c *Ctx) {
	c.RuleAlias = map[string]string{"C10.wait": "C17.wait"}
	defer func() { c.RuleAlias = nil }()
	ruleC10Wait(c)
}

// ruleC19Names: a file name is whatever bytes stand between the SP and the
// NUL of its entry: the tree parser neither splits nor rewrites it
// (C16.grammar, tree clauses).
func ruleC19Names(c *Ctx) {
	c.RuleAlias = map[string]string{"C16.grammar": "C19.names"}
	c.KeyOnly = func(key string) bool { return strings.HasPrefix(key, "tree:") }
	defer func() { c.RuleAlias = nil; c.KeyOnly = nil }()
	ruleC16Grammar(c)
}
