package main

import (
	"fmt"
	"go/token"
	"go/types"
	"sort"
	"strings"

	"golang.org/x/tools/go/ssa"
)

// E9: error-flow discipline. Every error-typed value produced in module
// code (call results, receives from `chan error`) must be handled by an
// accepted idiom: returned on the non-nil edge (wrapped or replaced by a
// fresh error), sent on an error channel, stored in a memo/result cell,
// or turned into a panic / process exit.

type errProducer struct {
	Fn    *ssa.Function
	Instr ssa.Instruction // the call / receive
	Val   ssa.Value       // the error value
	What  string          // callee description
}

type errVerdict struct {
	P      *errProducer
	Status string // handled | dropped | swallowed | nil-return | unchecked
	Idiom  string
	Detail string
	At     token.Pos
}

func (c *Ctx) errProducers() []*errProducer {
	var out []*errProducer
	for _, f := range c.ModFns {
		for _, b := range f.Blocks {
			for _, in := range b.Instrs {
				switch x := in.(type) {
				case *ssa.Call:
					sig := x.Call.Signature()
					res := sig.Results()
					for i := 0; i < res.Len(); i++ {
						if !isErrorType(res.At(i).Type()) {
							continue
						}
						q := calleeQ(&x.Call)
						if q == "fmt.Errorf" || q == "errors.New" || strings.HasPrefix(q, "invoke error.") || strings.HasSuffix(q, ".Err") && strings.HasPrefix(q, "invoke context.") {
							continue // constructors / accessors: the value is the error being reported
						}
						p := &errProducer{Fn: f, Instr: x, What: q}
						if res.Len() == 1 {
							p.Val = x
						} else {
							for _, r := range *x.Referrers() {
								if ex, ok := r.(*ssa.Extract); ok && ex.Index == i {
									p.Val = ex
								}
							}
						}
						out = append(out, p)
					}
				case *ssa.UnOp:
					if x.Op == token.ARROW {
						if ch, ok := x.X.Type().Underlying().(*types.Chan); ok && isErrorType(ch.Elem()) {
							out = append(out, &errProducer{Fn: f, Instr: x, Val: x, What: "receive from chan error"})
						}
					}
				case *ssa.Defer:
					sig := x.Call.Signature()
					for i := 0; i < sig.Results().Len(); i++ {
						if isErrorType(sig.Results().At(i).Type()) {
							out = append(out, &errProducer{Fn: f, Instr: x, Val: nil, What: "defer " + calleeQ(&x.Call)})
						}
					}
				}
			}
		}
	}
	return out
}

// regionOfEdge: blocks dominated by the CFG edge p->t.
func regionOfEdge(p, t *ssa.BasicBlock) map[*ssa.BasicBlock]bool {
	out := map[*ssa.BasicBlock]bool{}
	for _, b := range t.Parent().Blocks {
		if edgeDominates(p, t, b) {
			out[b] = true
		}
	}
	return out
}

// isFatalCall: os.Exit, log.Fatal*, runtime.Goexit.
func isFatalCall(in ssa.Instruction) bool {
	call, ok := in.(*ssa.Call)
	if !ok {
		return false
	}
	q := calleeQ(&call.Call)
	return q == "os.Exit" || strings.HasPrefix(q, "log.Fatal") || q == "runtime.Goexit"
}

// errorExitStatus examines how control leaves the non-nil region.
// returns (allErrorExits, description of the offending exit).
func (c *Ctx) errorExitStatus(f *ssa.Function, region map[*ssa.BasicBlock]bool) (ok bool, why string, nilReturn *ssa.Return) {
	ok = true
	for b := range region {
		if len(b.Instrs) == 0 {
			continue
		}
		// a part of the region in which the error was tested again and found
		// nil is not on the error path
		if len(c.errVals) > 0 && guardedBy(b, func(cond ssa.Value, truth bool) bool {
			for v := range c.errVals {
				if m, isNil := errNilFact(cond, truth, v); m && isNil {
					return true
				}
			}
			return false
		}) {
			continue
		}
		fatal := false
		for _, in := range b.Instrs {
			if isFatalCall(in) {
				fatal = true
			}
		}
		switch t := b.Instrs[len(b.Instrs)-1].(type) {
		case *ssa.Return:
			if fatal {
				continue
			}
			sig := f.Signature.Results()
			hasErr := false
			for i := 0; i < sig.Len(); i++ {
				if !isErrorType(sig.At(i).Type()) {
					continue
				}
				hasErr = true
				for _, v := range c.resultValues(t, i) {
					if isNilConst(v) {
						ok = false
						why = "returns a nil error"
						nilReturn = t
					}
				}
			}
			if !hasErr && f.Parent() == nil {
				// function without an error result: returning is a way of swallowing unless it sent/stored the error
				ok = false
				why = "returns from a function that has no error result"
				nilReturn = t
			}
		case *ssa.Panic:
		default:
			if fatal {
				continue
			}
			for _, s := range b.Succs {
				if region[s] {
					continue
				}
				// a shared exit (`return result, resultErr`, the results
				// set in the branches): this edge returns what the phis
				// take from it
				if ret, vals, isJoin := joinReturnEdge(f, b, s); isJoin {
					sig := f.Signature.Results()
					for i := 0; i < sig.Len() && i < len(vals); i++ {
						if !isErrorType(sig.At(i).Type()) {
							continue
						}
						for _, v := range c.expandResult(vals[i]) {
							if isNilConst(v) {
								ok = false
								why = "returns a nil error"
								nilReturn = ret
							}
						}
					}
					continue
				}
				ok = false
				why = fmt.Sprintf("control continues at block %d after the error branch", s.Index)
			}
		}
	}
	return
}

// joinReturnEdge: s consists of phis and a return only; the values returned
// when s is entered from b.
func joinReturnEdge(f *ssa.Function, b, s *ssa.BasicBlock) (*ssa.Return, []ssa.Value, bool) {
	if len(s.Preds) < 2 || len(s.Instrs) == 0 {
		return nil, nil, false
	}
	ret, ok := s.Instrs[len(s.Instrs)-1].(*ssa.Return)
	if !ok {
		return nil, nil, false
	}
	for _, in := range s.Instrs[:len(s.Instrs)-1] {
		switch in.(type) {
		case *ssa.Phi, *ssa.DebugRef:
		default:
			return nil, nil, false
		}
	}
	idx, found := predIndex(s, b)
	if found != 1 {
		return nil, nil, false
	}
	vals := make([]ssa.Value, len(ret.Results))
	for i, r := range ret.Results {
		vals[i] = r
		if phi, isPhi := r.(*ssa.Phi); isPhi && phi.Block() == s {
			vals[i] = phi.Edges[idx]
		}
	}
	return ret, vals, true
}

// expandResult: the values a returned value can stand for (phis expanded).
func (c *Ctx) expandResult(v ssa.Value) []ssa.Value {
	var out []ssa.Value
	seen := map[ssa.Value]bool{}
	var walk func(v ssa.Value, depth int)
	walk = func(v ssa.Value, depth int) {
		if seen[v] || depth > 6 {
			return
		}
		seen[v] = true
		if phi, ok := v.(*ssa.Phi); ok {
			for _, e := range phi.Edges {
				walk(e, depth+1)
			}
			return
		}
		out = append(out, v)
	}
	walk(v, 0)
	return out
}

// classify decides how producer p's value is handled.
func (c *Ctx) classifyErr(p *errProducer) errVerdict {
	v := errVerdict{P: p, At: posOf(p.Instr)}
	if p.Val == nil {
		v.Status, v.Detail = "dropped", "the error result is discarded"
		return v
	}
	vals := map[ssa.Value]bool{}
	cells := map[ssa.Value]bool{}
	var work []ssa.Value
	add := func(x ssa.Value) {
		if !vals[x] {
			vals[x] = true
			work = append(work, x)
		}
	}
	add(p.Val)
	c.errVals = vals
	defer func() { c.errVals = nil }()
	handled := []string{}
	var checks []*ssa.If
	propagated := false
	_ = propagated
	problems := []string{}
	var probPos token.Pos
	nUses := 0
	for len(work) > 0 {
		cur := work[len(work)-1]
		work = work[:len(work)-1]
		refs := cur.Referrers()
		if refs == nil {
			continue
		}
		for _, r := range *refs {
			switch x := r.(type) {
			case *ssa.DebugRef:
				continue
			case *ssa.Return:
				nUses++
				propagated = true
				handled = append(handled, "returned")
			case *ssa.Send:
				if x.X == cur {
					nUses++
					propagated = true
					handled = append(handled, "sent on an error channel")
				}
			case *ssa.Panic:
				nUses++
				handled = append(handled, "panic")
			case *ssa.Store:
				if x.Val != cur {
					continue
				}
				nUses++
				switch a := x.Addr.(type) {
				case *ssa.FieldAddr:
					handled = append(handled, "stored in "+fieldOfAddr(a).String())
				case *ssa.Alloc, *ssa.FreeVar:
					cell := c.cellOf(a)
					if cell == nil {
						handled = append(handled, "stored")
						continue
					}
					if cells[cell] {
						continue
					}
					cells[cell] = true
					// loads of the cell (in this function and closures) carry the error on
					c.forEachLoad(cell, func(u *ssa.UnOp) {
						// only loads reachable after this store matter; conservatively take all
						add(u)
					})
				default:
					handled = append(handled, "stored")
				}
			case *ssa.Phi:
				// an edge on which the value is known to be nil carries nil,
				// not this error (`err` reused as a named result: after
				// `if err != nil { return }` the variable flows on to the
				// next iteration holding nil)
				carries := false
				for i, e := range x.Edges {
					if e != cur || i >= len(x.Block().Preds) {
						continue
					}
					pred := x.Block().Preds[i]
					knownNil := false
					for _, fct := range append(factsAt(pred), factsOnEdge(pred, x.Block())...) {
						cond, truth := normCond(fct.Cond, fct.Truth)
						if m, isNil := errNilFact(cond, truth, cur); m && isNil {
							knownNil = true
						}
					}
					if !knownNil {
						carries = true
					}
				}
				if !carries {
					continue
				}
				add(x)
				// `err = step()` inside a loop, looked at only after the loop: the next
				// iteration's result replaces this one unless the variable is known to be
				// nil when the step runs
				if l := loopWithHead(p.Fn, x.Block()); l != nil && l.Blocks[p.Instr.Block()] {
					stillNil := guardedBy(p.Instr.Block(), func(cond ssa.Value, truth bool) bool {
						m, isNil := errNilFact(cond, truth, x)
						return m && isNil
					})
					testedInLoop := false
					for _, r := range *x.Referrers() {
						if bo, ok := r.(*ssa.BinOp); ok && l.Blocks[bo.Block()] && (isNilConst(bo.X) || isNilConst(bo.Y)) {
							testedInLoop = true
						}
					}
					if !stillNil && !testedInLoop {
						problems = append(problems, "the error is kept in a variable that the next iteration of the loop overwrites before anybody looks at it: a failure followed by a successful iteration is lost")
						if probPos == token.NoPos {
							probPos = p.Instr.Pos()
						}
					}
				}
			case *ssa.MakeInterface, *ssa.ChangeInterface:
				add(x.(ssa.Value))
			case *ssa.TypeAssert:
				add(x)
			case *ssa.Extract:
				add(x)
			case *ssa.BinOp:
				if (x.Op != token.EQL && x.Op != token.NEQ) || (!isNilConst(x.X) && !isNilConst(x.Y)) {
					// comparison with a sentinel (err == io.EOF): part of a check, not a handler
					continue
				}
				nUses++
				iffs := c.ifsOn(x)
				if len(iffs) == 0 {
					// used as a value (e.g. `err == nil && atty`): look for Ifs on derived conditions
					continue
				}
				for _, iff := range iffs {
					checks = append(checks, iff)
					b := iff.Block()
					nonNilSucc := b.Succs[0]
					if x.Op == token.EQL {
						nonNilSucc = b.Succs[1]
					}
					var region map[*ssa.BasicBlock]bool
					if edgeDominates(b, nonNilSucc, nonNilSucc) {
						region = regionOfEdge(b, nonNilSucc)
					} else {
						// the branch is shared with another condition (`err != nil ||
						// x == nil`): it handles the error if everything below it
						// is an error exit
						region = domSubtree(nonNilSucc)
						if ok, _, _ := c.errorExitStatus(p.Fn, region); !ok && !c.regionForwards(region, vals) {
							problems = append(problems, "the non-nil branch is empty: the error is tested and then ignored")
							probPos = iff.Pos()
							continue
						}
					}
					ok, why, _ := c.errorExitStatus(p.Fn, region)
					if ok {
						handled = append(handled, "checked; every path of the non-nil branch returns a non-nil error or panics")
					} else {
						// maybe the region forwards the error another way (send/store) before continuing
						if c.regionForwards(region, vals) {
							handled = append(handled, "checked; the non-nil branch forwards the error")
						} else {
							problems = append(problems, "on the non-nil branch "+why)
							if probPos == token.NoPos {
								probPos = iff.Pos()
							}
						}
					}
				}
			case *ssa.Call:
				// passing the error to a call is not handling by itself (fmt.Errorf wraps it: the wrapper is its own producer)
				q := calleeQ(&x.Call)
				if q == "errors.Is" || q == "errors.As" || strings.HasPrefix(q, "os.Is") {
					continue
				}
				if isFatalCallQ(q) {
					nUses++
					handled = append(handled, "fatal exit")
				}
			case *ssa.MapUpdate, *ssa.Select:
				nUses++
				handled = append(handled, "forwarded")
			}
		}
	}
	// the nil test must lie on every path from the producer to a success return
	if len(problems) == 0 && len(checks) > 0 && len(cells) == 0 {
		f := p.Fn
		sig := f.Signature.Results()
		for _, ret := range returnsOf(f) {
			if !instrDominates(p.Instr, ret) {
				continue
			}
			success := false
			// where each nil result comes from: the return's own block, or the
			// predecessor that carries nil into a join in front of the return
			// (`err := helper(); close(ch); return err` after expansion)
			var origins []*ssa.BasicBlock
			var expand func(v ssa.Value, at *ssa.BasicBlock, depth int)
			expand = func(v ssa.Value, at *ssa.BasicBlock, depth int) {
				if phi, ok := v.(*ssa.Phi); ok && depth < 3 {
					for k, e := range phi.Edges {
						expand(e, phi.Block().Preds[k], depth+1)
					}
					return
				}
				if isNilConst(v) {
					origins = append(origins, at)
				}
			}
			for i := 0; i < sig.Len(); i++ {
				if isErrorType(sig.At(i).Type()) {
					if _, isPhi := ret.Results[i].(*ssa.Phi); isPhi {
						expand(ret.Results[i], ret.Block(), 0)
						continue
					}
					for _, rv := range c.resultValues(ret, i) {
						if isNilConst(rv) {
							origins = append(origins, ret.Block())
						}
					}
				}
			}
			success = len(origins) > 0
			if !success || c.isNonScanningReturn(ret) {
				continue
			}
			for _, origin := range origins {
				dominated := false
				last := origin.Instrs[len(origin.Instrs)-1]
				for _, iff := range checks {
					if instrDominates(iff, last) || iff == last {
						dominated = true
					}
				}
				// `if errors.Is(err, io.EOF) { return nil }` written before the nil test:
				// the end-of-stream sentinel of a line reader is the one error that means success
				if !dominated {
					dominated = guardedBy(origin, func(cond ssa.Value, truth bool) bool {
						if !truth {
							return false
						}
						if call, ok := cond.(*ssa.Call); ok && calleeQ(&call.Call) == "errors.Is" && len(call.Call.Args) == 2 {
							// (whether this sentinel may mean success is judged by
							// the enumerated idioms of sentinelNilReturn)
							return vals[call.Call.Args[0]] && (c.isGlobal(call.Call.Args[1], "io", "EOF") || c.isGlobal(call.Call.Args[1], "io/fs", "ErrNotExist", "os", "ErrNotExist"))
						}
						if cmp, ok := isCmp(cond, token.EQL); ok {
							return (vals[cmp.X] && c.isGlobal(cmp.Y, "io", "EOF")) || (vals[cmp.Y] && c.isGlobal(cmp.X, "io", "EOF"))
						}
						return false
					})
				}
				if !dominated {
					problems = append(problems, "a success return is reachable after the operation without passing the test of its error")
					probPos = ret.Pos()
				}
			}
		}
	}
	switch {
	case len(problems) > 0:
		v.Status = "swallowed"
		v.Detail = strings.Join(uniq(problems), "; ")
		if probPos.IsValid() {
			v.At = probPos
		}
	case len(handled) > 0:
		v.Status = "handled"
		v.Idiom = strings.Join(uniq(handled), "; ")
	case nUses == 0:
		v.Status = "dropped"
		v.Detail = "the error value is never looked at"
	default:
		v.Status = "unchecked"
		v.Detail = "the error value is used but neither returned, forwarded nor tested against nil with an error exit"
	}
	return v
}

func isFatalCallQ(q string) bool {
	return q == "os.Exit" || strings.HasPrefix(q, "log.Fatal")
}

func (c *Ctx) forEachLoad(cell *ssa.Alloc, visit func(*ssa.UnOp)) {
	seen := map[ssa.Value]bool{}
	var walk func(addr ssa.Value)
	walk = func(addr ssa.Value) {
		if seen[addr] {
			return
		}
		seen[addr] = true
		refs := addr.Referrers()
		if refs == nil {
			return
		}
		for _, r := range *refs {
			switch x := r.(type) {
			case *ssa.UnOp:
				if x.Op == token.MUL && x.X == addr {
					visit(x)
				}
			case *ssa.MakeClosure:
				fn := x.Fn.(*ssa.Function)
				for i, b := range x.Bindings {
					if b == addr && i < len(fn.FreeVars) {
						walk(fn.FreeVars[i])
					}
				}
			}
		}
	}
	walk(cell)
}

// ifsOn: If instructions whose condition is cond (directly).
func (c *Ctx) ifsOn(cond ssa.Value) []*ssa.If {
	var out []*ssa.If
	refs := cond.Referrers()
	if refs == nil {
		return nil
	}
	for _, r := range *refs {
		switch x := r.(type) {
		case *ssa.If:
			out = append(out, x)
		case *ssa.UnOp:
			if x.Op == token.NOT {
				out = append(out, c.ifsOn(x)...)
			}
		}
	}
	return out
}

// regionForwards: inside the region one of the tracked error values is
// sent on a channel or stored into a field/cell.
func (c *Ctx) regionForwards(region map[*ssa.BasicBlock]bool, vals map[ssa.Value]bool) bool {
	// every edge leaving the region carries the error (or a value derived
	// from it) into a phi of the join block: the error travels on as a value
	// and the phi is tracked as the same error
	exits, carried := 0, 0
	for b := range region {
		for _, s := range b.Succs {
			if region[s] {
				continue
			}
			exits++
			i, _ := predIndex(s, b)
			for _, in := range s.Instrs {
				phi, ok := in.(*ssa.Phi)
				if !ok {
					break
				}
				if i < 0 || i >= len(phi.Edges) || !isErrorType(phi.Type()) {
					continue
				}
				e := phi.Edges[i]
				made := false // a new error made on the non-nil branch (wrapping)
				if d, ok := e.(ssa.Instruction); ok && region[d.Block()] && !isNilConst(e) {
					made = true
				}
				if vals[e] || made {
					carried++
					break
				}
			}
		}
	}
	if exits > 0 && exits == carried {
		return true
	}
	for b := range region {
		for _, in := range b.Instrs {
			switch x := in.(type) {
			case *ssa.Send:
				if vals[x.X] {
					return true
				}
			case *ssa.Store:
				if vals[x.Val] {
					if _, isField := x.Addr.(*ssa.FieldAddr); isField {
						return true
					}
				}
			}
		}
	}
	return false
}

// ---- exceptions: one construct each (DESIGN.md C10) ----

type errException struct {
	Match  func(c *Ctx, v errVerdict) bool
	Reason string
}

func calleeHas(v errVerdict, subs ...string) bool {
	for _, s := range subs {
		if strings.Contains(v.P.What, s) {
			return true
		}
	}
	return false
}

// firstArgIs reports what the first (writer) argument of the call is.
func (c *Ctx) writerKind(p *errProducer) string {
	call, ok := p.Instr.(*ssa.Call)
	if !ok || len(call.Call.Args) == 0 {
		return ""
	}
	w := c.writerOrigin(call.Call.Args[0])
	if isPtrToNamed(w.Type(), "bytes", "Buffer") || isPtrToNamed(w.Type(), "strings", "Builder") {
		return "buffer"
	}
	if fa, ok := w.(*ssa.FieldAddr); ok && (isNamed(fieldOfAddr(fa).Var.Type(), "bytes", "Buffer") || isNamed(fieldOfAddr(fa).Var.Type(), "strings", "Builder")) {
		return "buffer"
	}
	switch x := w.(type) {
	case *ssa.Parameter:
		return "param:" + x.Name()
	case *ssa.UnOp:
		if g, ok := x.X.(*ssa.Global); ok {
			return "global:" + g.Pkg.Pkg.Path() + "." + g.Name()
		}
		if fa, ok := x.X.(*ssa.FieldAddr); ok {
			return "field:" + fieldOfAddr(fa).String()
		}
	}
	return fmt.Sprintf("%T", w)
}

func (c *Ctx) errExceptionFor(v errVerdict) (string, bool) {
	p := v.P
	fn := fnName(p.Fn)
	wk := c.writerKind(p)
	isWrite := calleeHas(v, "fmt.Fprint", "io.WriteString", ".Write", ".WriteString", ".WriteByte")
	switch {
	case isWrite && wk == "buffer":
		return "write into an in-memory buffer (*bytes.Buffer / *strings.Builder) cannot fail", true
	case strings.HasPrefix(p.What, "(*bytes.Buffer).") || strings.HasPrefix(p.What, "(*strings.Builder)."):
		return "write into an in-memory buffer (*bytes.Buffer / *strings.Builder) cannot fail", true
	case isWrite && (wk == "param:stderr" || wk == "global:os.Stderr") && v.Status == "dropped":
		return "write to the diagnostic stream (stderr); its failure does not affect the report", true
	case isWrite && strings.HasPrefix(wk, "field:meter.") && v.Status == "dropped":
		return "progress line written to the meter's diagnostic writer", true
	case isWrite && strings.HasPrefix(wk, "field:internal/refopts.showRefGrouper") && v.Status == "dropped":
		return "--show-refs listing written to the diagnostic writer", true
	case isWrite && wk == "param:stdout" && v.Status == "dropped" && c.isNonScanningWrite(p):
		return "help/version text of a run that does not scan", true
	}
	// sentinel returns inside the non-nil branch
	if v.Status == "swallowed" && strings.Contains(v.Detail, "returns a nil error") {
		if why, ok := c.sentinelNilReturn(p); ok {
			return why, true
		}
	}
	// isatty failing selects the default
	if strings.Contains(p.What, "isatty.Isatty") {
		return "isatty failing only selects the default for --progress", true
	}
	_ = fn
	return "", false
}

// isNonScanningWrite: the write is in the usage function or under the
// --version flag.
func (c *Ctx) isNonScanningWrite(p *errProducer) bool {
	if p.Fn.Parent() != nil {
		// closure assigned to FlagSet.Usage
		for _, mc := range c.ClosureSites[p.Fn] {
			for _, r := range *mc.Referrers() {
				if st, ok := r.(*ssa.Store); ok {
					if fa, ok := st.Addr.(*ssa.FieldAddr); ok && vname(fieldOfAddr(fa).Var) == "Usage" {
						return true
					}
				}
			}
		}
		return false
	}
	// guarded by the version flag variable
	regs := c.flagRegs()
	var versionCell ssa.Value
	for _, r := range regs {
		if r.Name == "version" {
			versionCell = r.ValueArg
		}
	}
	if versionCell == nil {
		return false
	}
	return guardedBy(p.Instr.Block(), func(cond ssa.Value, truth bool) bool {
		u, ok := cond.(*ssa.UnOp)
		return ok && truth && u.Op == token.MUL && c.sameAddr(u.X, versionCell)
	})
}

// sentinelNilReturn recognises the enumerated "this error means a normal
// outcome" idioms.
func (c *Ctx) sentinelNilReturn(p *errProducer) (string, bool) {
	f := p.Fn
	// find the nil-error return(s) in non-nil regions and look at their guards
	okAll := true
	reason := ""
	found := false
	type retInstance struct {
		nilErr bool
		facts  []condFact
	}
	var instances []retInstance
	for _, ret := range returnsOf(f) {
		s := ret.Block()
		join := false
		if len(s.Preds) >= 2 {
			if _, _, isJoin := joinReturnEdge(f, s.Preds[0], s); isJoin {
				join = true
			}
		}
		if join {
			// one instance per way into the shared exit
			for _, pb := range s.Preds {
				_, vals, _ := joinReturnEdge(f, pb, s)
				inst := retInstance{facts: append(factsAt(pb), factsOnEdge(pb, s)...)}
				for i := range vals {
					if i < f.Signature.Results().Len() && isErrorType(f.Signature.Results().At(i).Type()) {
						for _, v := range c.expandResult(vals[i]) {
							if isNilConst(v) {
								inst.nilErr = true
							}
						}
					}
				}
				instances = append(instances, inst)
			}
			continue
		}
		inst := retInstance{facts: factsAt(s)}
		for i := range ret.Results {
			if isErrorType(f.Signature.Results().At(i).Type()) {
				for _, v := range c.resultValues(ret, i) {
					if isNilConst(v) {
						inst.nilErr = true
					}
				}
			}
		}
		instances = append(instances, inst)
	}
	for _, inst := range instances {
		// is this return inside a non-nil region of p.Val and returns nil error?
		if !inst.nilErr {
			continue
		}
		inNonNil := false
		var why string
		for _, fact := range inst.facts {
			cond, truth := normCond(fact.Cond, fact.Truth)
			if m, isNilErr := errNilFact(cond, truth, p.Val); m && !isNilErr {
				inNonNil = true
			}
			// io.EOF
			if cmp, ok := isCmp(cond, token.EQL, token.NEQ); ok && (cmp.Op == token.EQL) == truth {
				if (cmp.X == p.Val && c.isGlobal(cmp.Y, "io", "EOF")) || (cmp.Y == p.Val && c.isGlobal(cmp.X, "io", "EOF")) {
					if strings.Contains(p.What, "bufio.Reader") {
						why = "io.EOF from a line reader ends the stage cleanly"
					}
				}
			}
			if call, ok := cond.(*ssa.Call); ok && truth {
				q := calleeQ(&call.Call)
				if q == "errors.Is" && call.Call.Args[0] == p.Val && c.isGlobal(call.Call.Args[1], "io", "EOF") && strings.Contains(p.What, "bufio.Reader") {
					why = "io.EOF from a line reader ends the stage cleanly"
				}
				if q == "errors.Is" && call.Call.Args[0] == p.Val {
					inNonNil = true // errors.Is(nil, …) is false
					if c.isGlobal(call.Call.Args[1], "io/fs", "ErrNotExist", "os", "ErrNotExist") && strings.Contains(p.What, "os.Lstat") {
						why = "fs.ErrNotExist from the Lstat of the shallow marker means a full clone"
					}
					if c.isGlobal(call.Call.Args[1], "github.com/spf13/pflag", "ErrHelp") {
						why = "pflag.ErrHelp ends a help run"
					}
				}
			}
			// a module predicate on the error that is true only for ExitCode()==1
			if call, ok := cond.(*ssa.Call); ok && truth {
				if cal := call.Call.StaticCallee(); cal != nil && c.inRuleScope(cal) && len(call.Call.Args) == 1 && call.Call.Args[0] == p.Val && c.predicateMeansExitCode1(cal) && c.isConfigGet(p) {
					why = "*exec.ExitError with ExitCode()==1 from `git config --get` means the key is unset"
				}
			}
			// *exec.ExitError with ExitCode()==1 from git config --get
			if cmp, ok := isCmp(cond, token.EQL, token.NEQ); ok && (cmp.Op == token.EQL) == truth {
				if n, ok := constInt(cmp.Y); ok && n == 1 {
					if call, ok := cmp.X.(*ssa.Call); ok && strings.HasSuffix(calleeQ(&call.Call), ".ExitCode") {
						if c.isConfigGet(p) {
							why = "*exec.ExitError with ExitCode()==1 from `git config --get` means the key is unset"
						}
					}
				}
			}
		}
		if !inNonNil {
			continue
		}
		found = true
		if why == "" {
			okAll = false
		} else {
			reason = why
		}
	}
	return reason, found && okAll && reason != ""
}

func (c *Ctx) isConfigGet(p *errProducer) bool {
	for _, s := range c.spawnTable() {
		if s.Fn == p.Fn && s.Kind == "GitCommand" && len(s.Argv) >= 2 && s.Argv[0] == "config" && s.Argv[1] == "--get" {
			return true
		}
	}
	return false
}

func ruleC10Errflow(c *Ctx) {
	prods := c.errProducers()
	per := map[string]int{}
	nHandled := 0
	for _, p := range prods {
		v := c.classifyErr(p)
		fname := fnName(p.Fn)
		short := p.What
		short = strings.ReplaceAll(short, modPath+"/", "")
		per[fname+"|"+short]++
		key := fmt.Sprintf("%s:%s#%d", fname, short, per[fname+"|"+short])
		if v.Status == "handled" {
			nHandled++
			c.hold("C10.errflow", key, v.At, v.Idiom)
			continue
		}
		if why, ok := c.errExceptionFor(v); ok {
			c.exception("C10.errflow", key, v.At, why)
			continue
		}
		msg := fmt.Sprintf("the error from %s is %s: %s — a failing step would not stop the run with a non-zero status", short, v.Status, v.Detail)
		c.violate("C10.errflow", key, v.At, fname, msg)
	}
	c.Stats["error_producers"] = len(prods)
	c.Stats["error_producers_handled"] = nHandled
	if len(prods) < 100 {
		c.violate("C10.errflow", "floor", token.NoPos, "", fmt.Sprintf("only %d error-producing operations found (136 on the reference tree): the scan of the error discipline lost most of its subjects", len(prods)))
	}
}

func init() {
	dumpers["errors"] = func(c *Ctx) {
		prods := c.errProducers()
		var lines []string
		for _, p := range prods {
			v := c.classifyErr(p)
			ex := ""
			if v.Status != "handled" {
				if why, ok := c.errExceptionFor(v); ok {
					ex = " [EXCEPTION: " + why + "]"
				}
			}
			lines = append(lines, fmt.Sprintf("%-10s %s in %s: %s %s%s%s", v.Status, c.pos(v.At), fnName(p.Fn), p.What, v.Idiom, v.Detail, ex))
		}
		sort.Strings(lines)
		for _, l := range lines {
			fmt.Println(l)
		}
		fmt.Println("producers:", len(prods))
	}
}

// isNonScanningReturn: a success return of a run that only prints help or
// the version (guarded by pflag.ErrHelp or the --version flag variable).
func (c *Ctx) isNonScanningReturn(ret *ssa.Return) bool {
	var versionCell ssa.Value
	for _, r := range c.flagRegs() {
		if r.Name == "version" {
			versionCell = r.ValueArg
		}
	}
	return guardedBy(ret.Block(), func(cond ssa.Value, truth bool) bool {
		if !truth {
			return false
		}
		if call, ok := cond.(*ssa.Call); ok && calleeQ(&call.Call) == "errors.Is" && c.isGlobal(call.Call.Args[1], "github.com/spf13/pflag", "ErrHelp") {
			return true
		}
		if u, ok := cond.(*ssa.UnOp); ok && u.Op == token.MUL && versionCell != nil && u.X == versionCell {
			return true
		}
		return false
	})
}

// predicateMeansExitCode1: f(err) bool returns true only on paths guarded by
// `<ExitError>.ExitCode() == 1`.
func (c *Ctx) predicateMeansExitCode1(f *ssa.Function) bool {
	if f.Signature.Results().Len() != 1 || !isBoolType(f.Signature.Results().At(0).Type()) {
		return false
	}
	sawTrue := false
	for _, ret := range returnsOf(f) {
		for _, v := range c.resultValues(ret, 0) {
			guarded := func(b *ssa.BasicBlock) bool {
				return guardedBy(b, func(cond ssa.Value, truth bool) bool {
					cmp, ok := isCmp(cond, token.EQL)
					if !ok || !truth {
						return false
					}
					n, ok := constInt(cmp.Y)
					if !ok || n != 1 {
						return false
					}
					call, ok := cmp.X.(*ssa.Call)
					return ok && strings.HasSuffix(calleeQ(&call.Call), ".ExitCode")
				})
			}
			switch x := v.(type) {
			case *ssa.Const:
				if x.Value != nil && x.Value.String() == "true" {
					if !guarded(ret.Block()) {
						return false
					}
					sawTrue = true
				}
			case *ssa.BinOp:
				// return ok && ee.ExitCode() == 1 lowered to a phi normally; a direct comparison:
				if cmp, ok := isCmp(x, token.EQL); ok {
					if n, ok := constInt(cmp.Y); ok && n == 1 {
						if call, ok := cmp.X.(*ssa.Call); ok && strings.HasSuffix(calleeQ(&call.Call), ".ExitCode") {
							sawTrue = true
							continue
						}
					}
				}
				return false
			default:
				return false
			}
		}
	}
	return sawTrue
}

// loopWithHead returns the loop of f whose head is b.
func loopWithHead(f *ssa.Function, b *ssa.BasicBlock) *loop {
	for _, l := range loopsOf(f) {
		if l.Head == b {
			return l
		}
	}
	return nil
}
