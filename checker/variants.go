package main

import (
	"encoding/json"
	"fmt"
	"os"
	"os/exec"
	"path/filepath"
	"sort"
	"strings"
	"sync"
)

// Thorough-tier self-test. Every patch under /verif/variants/breaking/<prop>
// and every seeded change under /verif/seeded whose meta.json names this
// property as a detector must make the analyzer report a violation; every
// patch under /verif/variants/silent/<prop> (behaviour-preserving edits)
// must leave it silent. Each variant is applied to a scratch copy of /repo
// outside /repo and /verif, built, analysed in a fresh process, and removed.

type variantCase struct {
	ID    string
	Patch string
	Want  int // expected exit status of the analyzer
}

func (c *Ctx) variantCases() []variantCase {
	var out []variantCase
	for kind, want := range map[string]int{"breaking": 1, "silent": 0} {
		ps, _ := filepath.Glob(filepath.Join(c.Verif, "variants", kind, c.Prop, "*.patch"))
		for _, p := range ps {
			out = append(out, variantCase{ID: kind + "/" + strings.TrimSuffix(filepath.Base(p), ".patch"), Patch: p, Want: want})
		}
		// silent variants apply to every property: a behaviour-preserving edit must not alarm anybody
		if kind == "silent" {
			ps, _ := filepath.Glob(filepath.Join(c.Verif, "variants", kind, "*", "*.patch"))
			for _, p := range ps {
				if filepath.Base(filepath.Dir(p)) == c.Prop {
					continue
				}
				out = append(out, variantCase{ID: kind + "/" + filepath.Base(filepath.Dir(p)) + "/" + strings.TrimSuffix(filepath.Base(p), ".patch"), Patch: p, Want: want})
			}
		}
	}
	metas, _ := filepath.Glob(filepath.Join(c.Verif, "seeded", "*", "meta.json"))
	for _, m := range metas {
		b, err := os.ReadFile(m)
		if err != nil {
			continue
		}
		var meta struct {
			DetectedBy string `json:"detected_by"`
		}
		if json.Unmarshal(b, &meta) != nil || !strings.Contains(meta.DetectedBy, c.Prop+"[") {
			continue
		}
		dir := filepath.Dir(m)
		out = append(out, variantCase{ID: "seeded/" + filepath.Base(dir), Patch: filepath.Join(dir, "patch.diff"), Want: 1})
	}
	sort.Slice(out, func(i, j int) bool { return out[i].ID < out[j].ID })
	return out
}

var runVariants func(c *Ctx)

func init() {
	runVariants = func(c *Ctx) {
		cases := c.variantCases()
		if len(cases) == 0 {
			return
		}
		// The corpora state what the checker does on the reference tree. On an
		// edited tree a patch may still apply and mean something else, so an
		// unexpected outcome there is listed, not raised; and a tree that
		// already violates the property is reported as such without the
		// self-test on top of it.
		if c.hasNewFindings() {
			fmt.Println("  variants: skipped, the analysed tree itself is reported")
			return
		}
		onReference := c.isReferenceTree()
		self, err := os.Executable()
		if err != nil {
			c.checkError("variants: cannot locate the analyzer binary: " + err.Error())
			return
		}
		env := append(os.Environ(), "GOFLAGS=-mod=mod", "GOPROXY=off", "GOSUMDB=off", "GOTOOLCHAIN=local", "GOWORK=off")
		type result struct {
			id, status string
			err        bool
		}
		results := make([]result, len(cases))
		sem := make(chan struct{}, 8)
		var wg sync.WaitGroup
		for i, vc := range cases {
			wg.Add(1)
			go func(i int, vc variantCase) {
				defer wg.Done()
				sem <- struct{}{}
				defer func() { <-sem }()
				tmp, err := os.MkdirTemp("", "sizercheck-variant-")
				if err != nil {
					results[i] = result{vc.ID, "cannot create scratch dir: " + err.Error(), true}
					return
				}
				defer os.RemoveAll(tmp)
				dst := filepath.Join(tmp, "repo")
				if out, err := exec.Command("rsync", "-a", "--exclude", ".git", strings.TrimSuffix(c.Repo, "/")+"/", dst+"/").CombinedOutput(); err != nil {
					results[i] = result{vc.ID, "copy failed: " + string(out), true}
					return
				}
				ap := exec.Command("git", "apply", "--whitespace=nowarn", vc.Patch)
				ap.Dir = dst
				if out, err := ap.CombinedOutput(); err != nil {
					results[i] = result{vc.ID, "skipped: patch no longer applies to the edited tree (" + firstLine(string(out)) + ")", false}
					return
				}
				bld := exec.Command("go", "build", "./...")
				bld.Dir = dst
				bld.Env = env
				if out, err := bld.CombinedOutput(); err != nil {
					results[i] = result{vc.ID, "skipped: variant does not build (" + firstLine(string(out)) + ")", false}
					return
				}
				an := exec.Command(self, "-prop", c.Prop, "-tier", "quick", "-repo", dst, "-verif", c.Verif, "-no-evidence")
				an.Env = env
				out, _ := an.CombinedOutput()
				code := an.ProcessState.ExitCode()
				rules := ""
				for _, ln := range strings.Split(string(out), "\n") {
					if strings.HasPrefix(ln, "  VIOLATED") || strings.HasPrefix(ln, "  UNDECIDED") {
						f := strings.Fields(ln)
						if len(f) >= 3 {
							rules += " " + f[1] + ":" + f[2]
						}
					}
				}
				switch {
				case code == vc.Want && vc.Want == 1:
					results[i] = result{vc.ID, "fired:" + rules, false}
				case code == vc.Want:
					results[i] = result{vc.ID, "silent as required", false}
				case vc.Want == 1:
					results[i] = result{vc.ID, fmt.Sprintf("NOT REPORTED (exit %d)", code), true}
				default:
					results[i] = result{vc.ID, fmt.Sprintf("FALSE ALARM on a behaviour-preserving edit (exit %d):%s", code, rules), true}
				}
			}(i, vc)
		}
		wg.Wait()
		fired := 0
		for _, r := range results {
			c.Variants = append(c.Variants, r.id+" — "+r.status)
			fmt.Printf("  variant %-60s %s\n", r.id, r.status)
			if r.err && onReference {
				c.checkError("self-test variant " + r.id + ": " + r.status)
			} else if r.err {
				c.Variants[len(c.Variants)-1] += " (edited tree: listed only)"
			}
			if strings.HasPrefix(r.status, "fired") || strings.HasPrefix(r.status, "silent") {
				fired++
			}
		}
		c.Stats["variants_run"] = len(results)
		c.Stats["variants_ok"] = fired
	}
}

func firstLine(s string) string {
	s = strings.TrimSpace(s)
	if i := strings.IndexByte(s, '\n'); i >= 0 {
		s = s[:i]
	}
	if len(s) > 160 {
		s = s[:160]
	}
	return s
}

// isReferenceTree: the analysed tree is the commit the corpora were made
// for (recorded in REFERENCE_COMMIT) with no tracked file modified.
func (c *Ctx) isReferenceTree() bool {
	want, err := os.ReadFile(filepath.Join(c.Verif, "REFERENCE_COMMIT"))
	if err != nil {
		return true
	}
	head, err := exec.Command("git", "-C", c.Repo, "rev-parse", "HEAD").Output()
	if err != nil {
		return true // not a git checkout: nothing says it was edited
	}
	if strings.TrimSpace(string(head)) != strings.TrimSpace(string(want)) {
		return false
	}
	st, err := exec.Command("git", "-C", c.Repo, "status", "--porcelain", "--untracked-files=no").Output()
	return err != nil || strings.TrimSpace(string(st)) == ""
}

// hasNewFindings: a finding that is not listed as known.
func (c *Ctx) hasNewFindings() bool {
	for _, f := range c.Findings {
		known := false
		for _, k := range c.Known {
			if k.Kind == "finding" && k.Prop == c.Prop && k.Key == f.fullKey() {
				known = true
			}
		}
		if !known {
			return true
		}
	}
	return false
}
