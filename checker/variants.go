package main

// runVariants is the thorough-tier self-test: filled in by variants_impl.go.
var runVariants = func(c *Ctx) {}
