package main

func ruleC07RenderTotal(c *Ctx) {}
