package main

import (
	"fmt"
	"go/constant"
	"go/token"
	"go/types"
	"reflect"
	"sort"
	"strings"

	"golang.org/x/tools/go/ssa"
)

// ---------- naming ----------

func shortPkg(path string) string {
	if path == modPath {
		return "main"
	}
	if strings.HasPrefix(path, modPath+"/") {
		return strings.TrimPrefix(path, modPath+"/")
	}
	return path
}

// fnName is a stable readable name: pkg.(Recv).Name with $n for closures.
func fnName(f *ssa.Function) string {
	if f == nil {
		return "<nil>"
	}
	if f.Parent() != nil {
		idx := 0
		for i, a := range f.Parent().AnonFuncs {
			if a == f {
				idx = i + 1
			}
		}
		return fmt.Sprintf("%s$%d", fnName(f.Parent()), idx)
	}
	s := refQ(f)
	s = strings.ReplaceAll(s, modPath+"/", "")
	s = strings.ReplaceAll(s, modPath+".", "main.")
	return s
}

// rootFn returns the outermost enclosing declared function.
func rootFn(f *ssa.Function) *ssa.Function {
	for f.Parent() != nil {
		f = f.Parent()
	}
	return f
}

// qualified name for comparison: "pkgpath.Func" or "(pkgpath.T).M" / "(*pkgpath.T).M".
func qname(f *ssa.Function) string {
	if f == nil {
		return ""
	}
	return refQ(f)
}

func modQ(pkgSuffix, recv, name string) string {
	p := modPath + pkgSuffix
	if recv == "" {
		return p + "." + name
	}
	if strings.HasPrefix(recv, "*") {
		return "(*" + p + "." + recv[1:] + ")." + name
	}
	return "(" + p + "." + recv + ")." + name
}

func calleeOf(in ssa.Instruction) *ssa.Function {
	if ci, ok := in.(ssa.CallInstruction); ok {
		return ci.Common().StaticCallee()
	}
	return nil
}

func calleeQ(cc *ssa.CallCommon) string {
	if f := cc.StaticCallee(); f != nil {
		return refQ(f)
	}
	if cc.IsInvoke() {
		return "invoke " + cc.Method.FullName()
	}
	if b, ok := cc.Value.(*ssa.Builtin); ok {
		return "builtin " + b.Name()
	}
	return "dynamic"
}

func isBuiltin(cc *ssa.CallCommon, name string) bool {
	b, ok := cc.Value.(*ssa.Builtin)
	return ok && b.Name() == name
}

// ---------- constants ----------

func constStr(v ssa.Value) (string, bool) {
	if c, ok := v.(*ssa.Const); ok && c.Value != nil && c.Value.Kind() == constant.String {
		return constant.StringVal(c.Value), true
	}
	return "", false
}

func constInt(v ssa.Value) (int64, bool) {
	if c, ok := v.(*ssa.Const); ok && c.Value != nil && c.Value.Kind() == constant.Int {
		if n, ok := constant.Int64Val(c.Value); ok {
			return n, true
		}
	}
	return 0, false
}

func constUint(v ssa.Value) (uint64, bool) {
	if c, ok := v.(*ssa.Const); ok && c.Value != nil && c.Value.Kind() == constant.Int {
		if n, ok := constant.Uint64Val(c.Value); ok {
			return n, true
		}
	}
	return 0, false
}

func constFloat(v ssa.Value) (float64, bool) {
	if c, ok := v.(*ssa.Const); ok && c.Value != nil && (c.Value.Kind() == constant.Float || c.Value.Kind() == constant.Int) {
		f, _ := constant.Float64Val(constant.ToFloat(c.Value))
		return f, true
	}
	return 0, false
}

func isNilConst(v ssa.Value) bool {
	c, ok := v.(*ssa.Const)
	return ok && c.Value == nil
}

// ---------- types ----------

func namedOf(t types.Type) *types.Named {
	for {
		switch x := t.(type) {
		case *types.Pointer:
			t = x.Elem()
		case *types.Named:
			return x
		case *types.Alias:
			t = types.Unalias(x)
		default:
			return nil
		}
	}
}

func isNamed(t types.Type, pkgPath, name string) bool {
	n, ok := types.Unalias(t).(*types.Named)
	if !ok {
		return false
	}
	o := n.Obj()
	return tname(o) == name && o.Pkg() != nil && o.Pkg().Path() == pkgPath
}

func isPtrToNamed(t types.Type, pkgPath, name string) bool {
	p, ok := t.Underlying().(*types.Pointer)
	return ok && isNamed(p.Elem(), pkgPath, name)
}

// countKind returns "Count32"/"Count64" for the saturating counter types.
func countKind(t types.Type) string {
	if isNamed(t, modPath+"/counts", "Count32") {
		return "Count32"
	}
	if isNamed(t, modPath+"/counts", "Count64") {
		return "Count64"
	}
	return ""
}

func isErrorType(t types.Type) bool {
	return types.Identical(t, types.Universe.Lookup("error").Type())
}

func typeName(t types.Type) string {
	if n := namedOf(t); n != nil {
		if n.Obj().Pkg() != nil {
			return shortPkg(n.Obj().Pkg().Path()) + "." + tname(n.Obj())
		}
		return tname(n.Obj())
	}
	return t.String()
}

func jsonTag(tag string) string {
	v, ok := reflect.StructTag(tag).Lookup("json")
	if !ok {
		return ""
	}
	if i := strings.IndexByte(v, ','); i >= 0 {
		v = v[:i]
	}
	return v
}

// fieldInfo describes a struct field accessed by a FieldAddr or Field.
type fieldInfo struct {
	Struct  *types.Named // may be nil for anonymous structs
	StructT types.Type
	Var     *types.Var
	Index   int
	Tag     string // json tag name, "" if none
}

func (fi fieldInfo) String() string {
	sn := "struct"
	if fi.Struct != nil {
		sn = typeName(fi.Struct)
	} else if fi.StructT != nil {
		sn = "anon"
	}
	return sn + "." + vname(fi.Var)
}

func fieldOfAddr(x *ssa.FieldAddr) fieldInfo {
	pt := x.X.Type().Underlying().(*types.Pointer).Elem()
	return mkField(pt, x.Field)
}

func fieldOfVal(x *ssa.Field) fieldInfo {
	return mkField(x.X.Type(), x.Field)
}

func mkField(t types.Type, idx int) fieldInfo {
	st := t.Underlying().(*types.Struct)
	n, _ := types.Unalias(t).(*types.Named)
	return fieldInfo{Struct: n, StructT: t, Var: st.Field(idx), Index: idx, Tag: jsonTag(st.Tag(idx))}
}

// ---------- value resolution ----------

// storesTo lists the Store instructions whose address is exactly a.
func storesTo(a ssa.Value) []*ssa.Store {
	var out []*ssa.Store
	refs := a.Referrers()
	if refs == nil {
		return nil
	}
	for _, r := range *refs {
		if s, ok := r.(*ssa.Store); ok && s.Addr == a {
			out = append(out, s)
		}
	}
	return out
}

// freeVarBindings returns, for a free variable of a closure, the values
// bound to it at every MakeClosure site.
func (c *Ctx) freeVarBindings(fv *ssa.FreeVar) []ssa.Value {
	fn := fv.Parent()
	idx := -1
	for i, v := range fn.FreeVars {
		if v == fv {
			idx = i
		}
	}
	var out []ssa.Value
	for _, mc := range c.ClosureSites[fn] {
		if idx >= 0 && idx < len(mc.Bindings) {
			out = append(out, mc.Bindings[idx])
		}
	}
	return out
}

// cellOf returns the allocation behind an address, looking through free
// variables bound to a single cell.
func (c *Ctx) cellOf(addr ssa.Value) *ssa.Alloc {
	switch a := addr.(type) {
	case *ssa.Alloc:
		return a
	case *ssa.FreeVar:
		bs := c.freeVarBindings(a)
		if len(bs) == 0 {
			return nil
		}
		var first *ssa.Alloc
		for _, b := range bs {
			al := c.cellOf(b)
			if al == nil || (first != nil && al != first) {
				return nil
			}
			first = al
		}
		return first
	}
	return nil
}

// sameAddr: a and b are the same address: the same value, or the same field
// of the same local struct computed twice (`&o.version` at the registration
// of the flag and `o.version` where it is read).
func (c *Ctx) sameAddr(a, b ssa.Value) bool {
	if a == b {
		return true
	}
	fa, ok1 := a.(*ssa.FieldAddr)
	fb, ok2 := b.(*ssa.FieldAddr)
	if !ok1 || !ok2 || fa.Field != fb.Field {
		return false
	}
	base := func(v ssa.Value) ssa.Value {
		if u, ok := v.(*ssa.UnOp); ok && u.Op == token.MUL {
			v = c.resolve(u)
		}
		if fv, ok := v.(*ssa.FreeVar); ok {
			if al := c.cellOf(fv); al != nil {
				return al
			}
		}
		return v
	}
	ba, bb := base(fa.X), base(fb.X)
	if ba == bb {
		_, isAlloc := ba.(*ssa.Alloc)
		return isAlloc
	}
	// nested: o.flags.version
	return c.sameAddr(ba, bb)
}

// localFieldStores: the stores to the field addressed by fa, when fa's base
// is a struct allocated in this function (or captured from the enclosing
// one) whose address is used for nothing but field accesses — no call
// receives the struct's address, it is stored nowhere, and no field's address
// is handed out either. ok=false when that cannot be established.
func (c *Ctx) localFieldStores(fa *ssa.FieldAddr) ([]*ssa.Store, bool) {
	base := fa.X
	if u, ok := base.(*ssa.UnOp); ok && u.Op == token.MUL {
		base = c.resolve(u) // a pointer kept in a single-assignment local
	}
	var al *ssa.Alloc
	switch b := base.(type) {
	case *ssa.Alloc:
		al = b
	case *ssa.FreeVar:
		al = c.cellOf(b)
	}
	if al == nil {
		return nil, false
	}
	if _, isStruct := al.Type().Underlying().(*types.Pointer).Elem().Underlying().(*types.Struct); !isStruct {
		return nil, false
	}
	key := fmt.Sprintf("localfield:%p:%d", al, fa.Field)
	if v, ok := c.memo[key]; ok {
		r := v.([]*ssa.Store)
		return r, r != nil
	}
	var out []*ssa.Store
	okAll := true
	var visit func(v ssa.Value, depth int)
	visit = func(v ssa.Value, depth int) {
		refs := v.Referrers()
		if refs == nil || depth > 4 {
			return
		}
		for _, r := range *refs {
			switch x := r.(type) {
			case *ssa.DebugRef:
			case *ssa.FieldAddr:
				if x.X != v {
					okAll = false
					continue
				}
				for _, r2 := range *x.Referrers() {
					switch y := r2.(type) {
					case *ssa.Store:
						if y.Addr != ssa.Value(x) {
							if x.Field == fa.Field {
								okAll = false // the field's address is stored somewhere
							}
							continue
						}
						if x.Field == fa.Field {
							out = append(out, y)
						}
					case *ssa.UnOp, *ssa.DebugRef:
					case *ssa.FieldAddr, *ssa.IndexAddr:
						// a nested aggregate: writes below this field are writes to it
						if x.Field == fa.Field {
							okAll = false
						}
					default:
						// the field's address escapes (flags.IntVar(&o.n, …)): written elsewhere
						if x.Field == fa.Field {
							okAll = false
						}
					}
				}
			case *ssa.Store:
				if x.Val == v {
					// the struct's address kept in a local: follow single-assignment copies
					if cell, isAlloc := x.Addr.(*ssa.Alloc); isAlloc && len(c.cellStores(cell)) == 1 {
						for _, r3 := range *cell.Referrers() {
							if ld, isLd := r3.(*ssa.UnOp); isLd && ld.Op == token.MUL {
								visit(ld, depth+1)
							}
						}
						continue
					}
					okAll = false
				} else if x.Addr == v {
					okAll = false // the whole struct is overwritten
				}
			case *ssa.UnOp:
				if x.Op == token.MUL {
					continue // a copy of the whole struct is read
				}
				okAll = false
			case *ssa.MakeClosure:
				fn, isFn := x.Fn.(*ssa.Function)
				if !isFn {
					okAll = false
					continue
				}
				for i, bnd := range x.Bindings {
					if bnd == v && i < len(fn.FreeVars) {
						visit(fn.FreeVars[i], depth+1)
					}
				}
			default:
				okAll = false
			}
		}
	}
	visit(al, 0)
	if !okAll {
		c.memo[key] = []*ssa.Store(nil)
		return nil, false
	}
	if out == nil {
		out = []*ssa.Store{}
	}
	c.memo[key] = out
	return out, true
}

// resolve looks through loads of single-store cells (incl. captured
// variables), ChangeType, and trivially copied values.
func (c *Ctx) resolve(v ssa.Value) ssa.Value {
	for i := 0; i < 20; i++ {
		switch x := v.(type) {
		case *ssa.UnOp:
			if x.Op != token.MUL {
				return v
			}
			cell := c.cellOf(x.X)
			if cell == nil {
				// a field of a local struct that is written exactly once
				// (`o := &options{stdout: stdout, …}` … `o.stdout`)
				if fa, isFA := x.X.(*ssa.FieldAddr); isFA {
					if st, ok := c.localFieldStores(fa); ok && len(st) == 1 {
						v = st[0].Val
						continue
					}
				}
				return v
			}
			st := c.cellStores(cell)
			if len(st) != 1 {
				return v
			}
			v = st[0].Val
		case *ssa.ChangeType:
			v = x.X
		default:
			return v
		}
	}
	return v
}

// cellStores lists all stores to a cell, including stores through free
// variables of closures that capture it.
func (c *Ctx) cellStores(cell *ssa.Alloc) []*ssa.Store {
	out := storesTo(cell)
	refs := cell.Referrers()
	if refs == nil {
		return out
	}
	for _, r := range *refs {
		mc, ok := r.(*ssa.MakeClosure)
		if !ok {
			continue
		}
		fn := mc.Fn.(*ssa.Function)
		for i, b := range mc.Bindings {
			if b == cell && i < len(fn.FreeVars) {
				out = append(out, c.freeVarStores(fn.FreeVars[i])...)
			}
		}
	}
	return out
}

func (c *Ctx) freeVarStores(fv *ssa.FreeVar) []*ssa.Store {
	out := storesTo(fv)
	refs := fv.Referrers()
	if refs == nil {
		return out
	}
	for _, r := range *refs {
		if mc, ok := r.(*ssa.MakeClosure); ok {
			fn := mc.Fn.(*ssa.Function)
			for i, b := range mc.Bindings {
				if b == fv && i < len(fn.FreeVars) {
					out = append(out, c.freeVarStores(fn.FreeVars[i])...)
				}
			}
		}
	}
	return out
}

// stringElems reconstructs the elements of a []string built for a variadic
// call or composite literal. Non-constant elements are "<dyn>" and a
// trailing spread of another slice is "<args...>".
func (c *Ctx) stringElems(v ssa.Value) ([]string, bool) {
	switch s := v.(type) {
	case *ssa.Const:
		if s.Value == nil {
			return nil, true
		}
	case *ssa.UnOp:
		// a package-level slice variable assigned once, in the package
		// initialiser, from a literal
		g, ok := s.X.(*ssa.Global)
		if !ok || s.Op != token.MUL || g.Pkg == nil || !isSliceType(s.Type()) {
			return nil, false
		}
		var stores []*ssa.Store
		scan := func(f *ssa.Function) {
			if f == nil {
				return
			}
			allInstrs(f, func(in ssa.Instruction) {
				if st, isSt := in.(*ssa.Store); isSt && st.Addr == ssa.Value(g) {
					stores = append(stores, st)
				}
			})
		}
		scan(g.Pkg.Func("init"))
		for _, f := range c.ModFns {
			scan(f)
		}
		if len(stores) != 1 || stores[0].Parent() != g.Pkg.Func("init") {
			return nil, false
		}
		return c.stringElems(stores[0].Val)
	case *ssa.Slice:
		if g, ok := s.X.(*ssa.Global); ok {
			return c.globalStringArray(g)
		}
		al, ok := s.X.(*ssa.Alloc)
		if !ok {
			return nil, false
		}
		arr, ok := al.Type().Underlying().(*types.Pointer).Elem().Underlying().(*types.Array)
		if !ok {
			return nil, false
		}
		res := make([]string, arr.Len())
		for i := range res {
			res[i] = "<unset>"
		}
		for _, r := range *al.Referrers() {
			ia, ok := r.(*ssa.IndexAddr)
			if !ok {
				continue
			}
			idx, ok := constInt(ia.Index)
			if !ok || idx < 0 || int(idx) >= len(res) {
				return nil, false
			}
			for _, rr := range *ia.Referrers() {
				if st, ok := rr.(*ssa.Store); ok && st.Addr == ia {
					if str, ok := constStr(st.Val); ok {
						res[idx] = str
					} else {
						res[idx] = "<dyn>"
					}
				}
			}
		}
		return res, true
	case *ssa.Call:
		// append chains: append(append(base, a...), b...)
		if isBuiltin(&s.Call, "append") {
			base, elems := c.appendChain(s, 0)
			var out []string
			if !isEmptySliceBase(base) {
				b, ok := c.stringElems(base)
				if !ok {
					b = []string{"<base:" + calleeQOf(base) + ">"}
				}
				out = append(out, b...)
			}
			for _, e := range elems {
				switch {
				case e.Spread != nil:
					sub, ok := c.stringElems(e.Spread)
					if !ok {
						sub = []string{"<args...>"}
					}
					out = append(out, sub...)
				default:
					if str, ok := constStr(e.Val); ok {
						out = append(out, str)
					} else {
						out = append(out, "<dyn>")
					}
				}
			}
			return out, true
		}
	case *ssa.Parameter:
		return []string{"<args...>"}, true
	case *ssa.MakeSlice:
		// s := make([]string, K+len(rest)); s[0] = …; …; copy(s[K:], rest)
		elems := map[int64]string{}
		var tailAt int64 = -1
		var tail []string
		okShape := true
		for _, r := range *s.Referrers() {
			switch x := r.(type) {
			case *ssa.IndexAddr:
				idx, ok := constInt(x.Index)
				if !ok || idx < 0 {
					okShape = false
					continue
				}
				for _, rr := range *x.Referrers() {
					if st, ok := rr.(*ssa.Store); ok && st.Addr == ssa.Value(x) {
						if str, ok := constStr(st.Val); ok {
							elems[idx] = str
						} else {
							elems[idx] = "<dyn>"
						}
					}
				}
			case *ssa.Slice:
				lo, ok := int64(0), true
				if x.Low != nil {
					lo, ok = constInt(x.Low)
				}
				if !ok || x.High != nil {
					continue
				}
				for _, rr := range *x.Referrers() {
					if call, ok := rr.(*ssa.Call); ok && isBuiltin(&call.Call, "copy") && call.Call.Args[0] == ssa.Value(x) {
						sub, ok := c.stringElems(c.resolve(call.Call.Args[1]))
						if !ok {
							sub = []string{"<args...>"}
						}
						tailAt, tail = lo, sub
					}
				}
			}
		}
		if !okShape || len(elems) == 0 {
			return nil, false
		}
		var out []string
		for i := int64(0); ; i++ {
			if i == tailAt {
				out = append(out, tail...)
				break
			}
			e, ok := elems[i]
			if !ok {
				if tailAt < 0 && int(i) == len(elems) {
					break
				}
				return nil, false
			}
			out = append(out, e)
		}
		return out, true
	}
	return nil, false
}

// ---------- CFG helpers ----------

// condFact is a branch condition known to hold (or not) at a block.
type condFact struct {
	Cond  ssa.Value
	Truth bool
	If    *ssa.If
}

// edgeDominates reports whether the CFG edge p->s dominates block b.
func edgeDominates(p, s, b *ssa.BasicBlock) bool {
	if !s.Dominates(b) {
		return false
	}
	for _, q := range s.Preds {
		if q != p && !s.Dominates(q) {
			return false
		}
	}
	return true
}

// factsAt returns the branch conditions whose outcome is fixed on every
// path reaching b (dominating edges), innermost first. Conjunctions and
// disjunctions are lowered to branches by go/ssa, so each conjunct of a
// guard appears as its own fact.
func factsAt(b *ssa.BasicBlock) []condFact {
	var out []condFact
	for cur := b; cur != nil; {
		p := cur.Idom()
		if p == nil {
			break
		}
		if iff, ok := p.Instrs[len(p.Instrs)-1].(*ssa.If); ok && p.Succs[0] != p.Succs[1] {
			if edgeDominates(p, p.Succs[0], b) {
				out = append(out, condFact{iff.Cond, true, iff})
			} else if edgeDominates(p, p.Succs[1], b) {
				out = append(out, condFact{iff.Cond, false, iff})
			}
		}
		cur = p
	}
	return out
}

// normCond strips negations: returns the underlying condition and the truth.
func normCond(v ssa.Value, truth bool) (ssa.Value, bool) {
	for {
		switch u := v.(type) {
		case *ssa.UnOp:
			if u.Op == token.NOT {
				v, truth = u.X, !truth
				continue
			}
		case *ssa.BinOp:
			// `b == true`, `b != false`, `b == false`, `b != true`
			if (u.Op == token.EQL || u.Op == token.NEQ) && isBoolType(u.X.Type()) {
				other := u.X
				k, ok := boolConstOf(u.Y)
				if !ok {
					k, ok = boolConstOf(u.X)
					other = u.Y
				}
				if ok {
					if (u.Op == token.EQL) != k {
						truth = !truth
					}
					v = other
					continue
				}
			}
		}
		return v, truth
	}
}

func reachable(from *ssa.BasicBlock) map[*ssa.BasicBlock]bool {
	m := map[*ssa.BasicBlock]bool{}
	st := []*ssa.BasicBlock{from}
	for len(st) > 0 {
		x := st[len(st)-1]
		st = st[:len(st)-1]
		if m[x] {
			continue
		}
		m[x] = true
		st = append(st, x.Succs...)
	}
	return m
}

// instrIndex is the position of in within its block.
func instrIndex(in ssa.Instruction) int {
	for i, x := range in.Block().Instrs {
		if x == in {
			return i
		}
	}
	return -1
}

// instrDominates: a executes before b on every path reaching b.
func instrDominates(a, b ssa.Instruction) bool {
	if a.Block() == b.Block() {
		return instrIndex(a) < instrIndex(b)
	}
	return a.Block().Dominates(b.Block())
}

// isPanicBlock: block ends in panic (or an os.Exit / log.Fatal call).
func endsInPanic(b *ssa.BasicBlock) bool {
	if len(b.Instrs) == 0 {
		return false
	}
	_, ok := b.Instrs[len(b.Instrs)-1].(*ssa.Panic)
	return ok
}

func sortedKeys(m map[string]bool) []string {
	var k []string
	for s := range m {
		k = append(k, s)
	}
	sort.Strings(k)
	return k
}

func uniq(ss []string) []string {
	m := map[string]bool{}
	for _, s := range ss {
		m[s] = true
	}
	return sortedKeys(m)
}

func allInstrs(f *ssa.Function, visit func(ssa.Instruction)) {
	for _, b := range f.Blocks {
		for _, in := range b.Instrs {
			visit(in)
		}
	}
}

// posOf gives a usable position for an instruction (falls back to the
// enclosing function's position for synthesized instructions).
func posOf(in ssa.Instruction) token.Pos {
	if p := in.Pos(); p.IsValid() {
		return p
	}
	if v, ok := in.(ssa.Value); ok {
		if refs := v.Referrers(); refs != nil {
			for _, r := range *refs {
				if p := r.Pos(); p.IsValid() {
					return p
				}
			}
		}
	}
	// nearest instruction with a position in the same block
	if b := in.Block(); b != nil {
		for _, x := range b.Instrs {
			if p := x.Pos(); p.IsValid() {
				return p
			}
		}
		return b.Parent().Pos()
	}
	return token.NoPos
}

// appendChain flattens `append(append(base, a...), b...)` (possibly through
// single-store locals and phis with one real source) into the base value and
// the list of element sources: each element is either a single value or a
// spread marker (Spread != nil) for `xs...` of a non-literal slice.
type chainElem struct {
	Val    ssa.Value // element value (for literals)
	Spread ssa.Value // `xs...` of a slice that is not a literal here
}

func (c *Ctx) appendChain(v ssa.Value, depth int) (base ssa.Value, elems []chainElem) {
	v = c.resolve(v)
	if depth > 24 {
		return v, nil
	}
	// a list kept in a field of a local builder struct and extended step by
	// step (`b.args = append(b.args, …)`): the store that reaches this load
	if ld, isLd := v.(*ssa.UnOp); isLd && ld.Op == token.MUL {
		if fa, isFA := ld.X.(*ssa.FieldAddr); isFA {
			if sts, ok := c.localFieldStores(fa); ok && len(sts) > 1 {
				var last *ssa.Store
				okOrder := true
				for _, st := range sts {
					if !instrDominates(st, ld) {
						continue
					}
					switch {
					case last == nil || instrDominates(last, st):
						last = st
					case instrDominates(st, last):
					default:
						okOrder = false
					}
				}
				// stores that do not dominate the load must come after it
				for _, st := range sts {
					if !instrDominates(st, ld) && !instrDominates(ld, st) {
						okOrder = false
					}
				}
				if last != nil && okOrder {
					return c.appendChain(last.Val, depth+1)
				}
				if last == nil && okOrder {
					// read before the first assignment: the zero value
					return ssa.NewConst(nil, ld.Type()), nil
				}
			}
		}
	}
	call, ok := v.(*ssa.Call)
	if !ok || !isBuiltin(&call.Call, "append") {
		return v, nil
	}
	base, elems = c.appendChain(call.Call.Args[0], depth+1)
	if len(call.Call.Args) < 2 {
		return base, elems
	}
	more := c.resolve(call.Call.Args[1])
	if vals := c.sliceElemValues(more); vals != nil {
		for _, x := range vals {
			elems = append(elems, chainElem{Val: x})
		}
		return base, elems
	}
	elems = append(elems, chainElem{Spread: more})
	return base, elems
}

// isEmptySliceBase: nil, a zero-length make, or an empty literal.
func isEmptySliceBase(v ssa.Value) bool {
	switch x := v.(type) {
	case *ssa.Const:
		return x.Value == nil
	case *ssa.MakeSlice:
		n, ok := constInt(x.Len)
		return ok && n == 0
	case *ssa.Slice:
		if al, ok := x.X.(*ssa.Alloc); ok {
			if n, ok := staticLenOf(al.Type()); ok && n == 0 {
				return true
			}
		}
	}
	return false
}

func staticLenOf(t types.Type) (int64, bool) {
	if p, ok := t.Underlying().(*types.Pointer); ok {
		if a, ok := p.Elem().Underlying().(*types.Array); ok {
			return a.Len(), true
		}
	}
	return 0, false
}

func calleeQOf(v ssa.Value) string {
	if call, ok := v.(*ssa.Call); ok {
		return calleeQ(&call.Call)
	}
	return fmt.Sprintf("%T", v)
}

// globalStringArray reads a package-level [N]string / []string initialised
// with constants in the package initialiser.
func (c *Ctx) globalStringArray(g *ssa.Global) ([]string, bool) {
	if g.Pkg == nil {
		return nil, false
	}
	initFn := g.Pkg.Func("init")
	if initFn == nil {
		return nil, false
	}
	vals := map[int64]string{}
	var n int64 = -1
	if a, ok := g.Type().Underlying().(*types.Pointer).Elem().Underlying().(*types.Array); ok {
		n = a.Len()
	}
	ok := true
	allInstrs(initFn, func(in ssa.Instruction) {
		ia, isIA := in.(*ssa.IndexAddr)
		if !isIA || ia.X != ssa.Value(g) {
			return
		}
		idx, isC := constInt(ia.Index)
		if !isC {
			ok = false
			return
		}
		for _, st := range storesTo(ia) {
			if str, isS := constStr(st.Val); isS {
				vals[idx] = str
			} else {
				ok = false
			}
		}
	})
	if !ok || n < 0 {
		return nil, false
	}
	out := make([]string, n)
	for i := range out {
		out[i] = vals[int64(i)]
	}
	return out, true
}

// sepOfIndexCall: for strings/bytes IndexByte(x, b) or Index(x, "b") with a
// one-byte constant separator, the separator byte.
func (c *Ctx) sepOfIndexCall(call *ssa.Call) (int64, bool) {
	q := calleeQ(&call.Call)
	switch q {
	case "strings.IndexByte", "bytes.IndexByte", "strings.LastIndexByte", "bytes.LastIndexByte", "strings.IndexRune", "bytes.IndexRune":
		return constInt(call.Call.Args[1])
	case "strings.Index", "bytes.Index", "strings.LastIndex", "bytes.LastIndex":
		sv := c.resolve(call.Call.Args[1])
		if cv, ok := sv.(*ssa.Convert); ok {
			sv = cv.X
		}
		if s, ok := constStr(sv); ok && len(s) == 1 {
			return int64(s[0]), true
		}
	case "strings.Cut", "bytes.Cut":
		return c.sepByte(call.Call.Args[1])
	}
	return 0, false
}

// factsOnEdge: the facts at the end of block `from` plus, when `from` ends
// in a branch, the outcome that leads to `to`.
func factsOnEdge(from, to *ssa.BasicBlock) []condFact {
	out := factsAt(from)
	if iff, ok := from.Instrs[len(from.Instrs)-1].(*ssa.If); ok && from.Succs[0] != from.Succs[1] {
		if from.Succs[0] == to {
			out = append([]condFact{{iff.Cond, true, iff}}, out...)
		} else if from.Succs[1] == to {
			out = append([]condFact{{iff.Cond, false, iff}}, out...)
		}
	}
	return out
}

// throughLocalStruct looks through a copy kept in a field of a local struct
// (`h := header{oid: obj.OID}; use(h.oid)`): a load of a field of a local
// that has exactly one store yields the stored value.
func (c *Ctx) throughLocalStruct(v ssa.Value) ssa.Value {
	for i := 0; i < 6; i++ {
		v = c.resolve(v)
		var base ssa.Value
		field := -1
		switch x := v.(type) {
		case *ssa.UnOp:
			if x.Op != token.MUL {
				return v
			}
			fa, ok := x.X.(*ssa.FieldAddr)
			if !ok {
				return v
			}
			base, field = fa.X, fa.Field
		case *ssa.Field:
			if u, ok := x.X.(*ssa.UnOp); ok && u.Op == token.MUL {
				base, field = u.X, x.Field
			} else {
				return v
			}
		default:
			return v
		}
		al, ok := base.(*ssa.Alloc)
		if !ok {
			return v
		}
		var stored ssa.Value
		n := 0
		whole := false
		for _, r := range *al.Referrers() {
			switch y := r.(type) {
			case *ssa.FieldAddr:
				if y.Field != field {
					continue
				}
				for _, st := range storesTo(y) {
					stored = st.Val
					n++
				}
			case *ssa.Store:
				if y.Addr == ssa.Value(al) {
					whole = true
				}
			}
		}
		if n != 1 || whole {
			return v
		}
		v = stored
	}
	return v
}
