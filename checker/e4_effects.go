package main

import (
	"fmt"
	"go/token"
	"go/types"
	"sort"
	"strings"

	"golang.org/x/tools/go/ssa"
)

// E4: the update-effect graph. One node per struct field (field-based, all
// instances share the node); one edge per update site:
//
//	target <-OP {alternative terms} [marks]
//
// OP ∈ SET ADD MAX APPEND. Terms are the backward slice of the operand.

type term struct {
	Atom string  // leaf, or "" for a sum
	Add  []*term // saturating/raw sum of sub-terms
	// Origin: for an alternative selected by a phi, the predecessor block
	// it flows in from (its guards are the facts of that block)
	Origin *ssa.BasicBlock
	// OriginTo: the block of the phi (Origin -> OriginTo is the edge taken)
	OriginTo *ssa.BasicBlock
}

func atom(s string) *term { return &term{Atom: s} }

func (t *term) String() string {
	if t.Atom != "" {
		return t.Atom
	}
	var parts []string
	for _, a := range t.flat() {
		parts = append(parts, a.String())
	}
	sort.Strings(parts)
	return "ADD(" + strings.Join(parts, ",") + ")"
}

// flat flattens nested sums.
func (t *term) flat() []*term {
	if t.Atom != "" {
		return []*term{t}
	}
	var out []*term
	for _, a := range t.Add {
		out = append(out, a.flat()...)
	}
	return out
}

func (t *term) atoms() []string {
	var out []string
	for _, a := range t.flat() {
		out = append(out, a.Atom)
	}
	return out
}

type marks map[string]bool

func (m marks) list() []string { return sortedKeys(m) }

type effEdge struct {
	// Guard: for a hand-written maximum (`if v > x { x = v }`) the test
	// that decides whether the store happens
	Guard  *ssa.If
	Target string
	Op     string
	Terms  []*term // alternatives
	Marks  marks
	Site   ssa.Instruction
	Fn     *ssa.Function
	// Counter: the target holds a saturating counter (Count32/Count64)
	Counter bool
	// Alternatives: number of alternative operands selected at this site (>1: a phi chooses)
	Alternatives int
}

func termsKey(ts []*term) string {
	var parts []string
	for _, t := range ts {
		parts = append(parts, t.String())
	}
	parts = uniq(parts)
	return strings.Join(parts, "|")
}

// Key is the position-independent identity of the edge.
func (e *effEdge) Key() string {
	return fmt.Sprintf("%s <-%s {%s}", e.Target, e.Op, termsKey(e.Terms))
}

func (e *effEdge) OpTerms() string { return fmt.Sprintf("%s{%s}", e.Op, termsKey(e.Terms)) }

type effects struct {
	c      *Ctx
	raw    []*effEdge
	Edges  []*effEdge            // after carrier expansion
	ByNode map[string][]*effEdge // expanded, by target
	BySite map[ssa.Instruction]*effEdge
	// AllBySite: every alternative edge of a site
	AllBySite map[ssa.Instruction][]*effEdge
	carrier   map[string]bool
	real      map[string]bool
}

var sizesPrefix = map[string]string{"HistorySize": "H", "TreeSize": "T", "CommitSize": "C"}

func nodeOfField(fi fieldInfo) string {
	if fi.Struct != nil && fi.Struct.Obj().Pkg() != nil {
		pkg := fi.Struct.Obj().Pkg().Path()
		if pkg == modPath+"/sizes" && fi.Tag != "" {
			if p, ok := sizesPrefix[tname(fi.Struct.Obj())]; ok {
				return p + ":" + fi.Tag
			}
		}
		return "F:" + shortPkg(pkg) + "." + tname(fi.Struct.Obj()) + "." + vname(fi.Var)
	}
	return "F:anon." + vname(fi.Var)
}

// isAPINode: exported field of an exported type of package git, or a
// JSON-tagged field of a sizes type: always a real node.
func isAPINode(fi fieldInfo) bool {
	if fi.Struct == nil || fi.Struct.Obj().Pkg() == nil {
		return false
	}
	pkg := fi.Struct.Obj().Pkg().Path()
	if pkg == modPath+"/sizes" && fi.Tag != "" {
		_, ok := sizesPrefix[tname(fi.Struct.Obj())]
		return ok
	}
	return pkg == modPath+"/git" && token.IsExported(tname(fi.Struct.Obj())) && token.IsExported(vname(fi.Var))
}

func trackedType(t types.Type) bool {
	if countKind(t) != "" {
		return true
	}
	switch u := t.Underlying().(type) {
	case *types.Basic:
		return u.Info()&(types.IsString|types.IsInteger) != 0
	case *types.Slice:
		return true
	}
	return false
}

func (c *Ctx) effects() *effects {
	if v, ok := c.memo["effects"]; ok {
		return v.(*effects)
	}
	e := &effects{c: c, ByNode: map[string][]*effEdge{}, BySite: map[ssa.Instruction]*effEdge{}, AllBySite: map[ssa.Instruction][]*effEdge{}, carrier: map[string]bool{}, real: map[string]bool{}}
	e.extract()
	e.expand()
	c.memo["effects"] = e
	return e
}

// target names the node behind an address; "" if not a tracked target.
func (e *effects) target(addr ssa.Value) string {
	switch a := addr.(type) {
	case *ssa.FieldAddr:
		fi := fieldOfAddr(a)
		if isAPINode(fi) {
			e.real[nodeOfField(fi)] = true
		}
		return nodeOfField(fi)
	case *ssa.Extract:
		// c, ok := m[k] where m is a map field of *CountN
		if lk, ok := a.Tuple.(*ssa.Lookup); ok {
			return e.elemNode(lk.X)
		}
	case *ssa.Lookup:
		return e.elemNode(a.X)
	case *ssa.IndexAddr:
		return ""
	}
	return ""
}

func (e *effects) elemNode(m ssa.Value) string {
	if u, ok := m.(*ssa.UnOp); ok && u.Op == token.MUL {
		if fa, ok := u.X.(*ssa.FieldAddr); ok {
			return nodeOfField(fieldOfAddr(fa)) + "[*]"
		}
	}
	if f, ok := m.(*ssa.Field); ok {
		return nodeOfField(fieldOfVal(f)) + "[*]"
	}
	return ""
}

func (e *effects) add(ed *effEdge) {
	e.raw = append(e.raw, ed)
}

func (e *effects) extract() {
	c := e.c
	countsPkg := modPath + "/counts"
	for _, f := range c.ModFns {
		if pkgOf(f) == countsPkg {
			continue
		}
		for _, b := range f.Blocks {
			for _, in := range b.Instrs {
				switch x := in.(type) {
				case *ssa.Call:
					cal := x.Call.StaticCallee()
					if cal == nil || pkgOf(cal) != countsPkg || cal.Signature.Recv() == nil {
						continue
					}
					if pt, isPtr := cal.Signature.Recv().Type().(*types.Pointer); !isPtr || countKind(pt.Elem()) == "" || len(x.Call.Args) < 2 {
						continue
					}
					op := ""
					switch cal.Name() {
					case "Increment":
						op = "ADD"
					case "AdjustMaxIfNecessary", "AdjustMaxIfPossible":
						op = "MAX"
					default:
						op = "CALL:" + cal.Name()
					}
					tgt := e.target(x.Call.Args[0])
					if tgt == "" {
						tgt = "?addr@" + fnName(f)
					}
					m := marks{}
					ts := e.terms(x.Call.Args[1], 0, map[ssa.Value]bool{}, m)
					e.add(&effEdge{Target: tgt, Op: op, Terms: ts, Marks: m, Site: x, Fn: f, Counter: true})
				case *ssa.Store:
					if !trackedType(x.Val.Type()) {
						continue
					}
					tgt := e.target(x.Addr)
					if tgt == "" {
						continue
					}
					m := marks{}
					op := "SET"
					var ts []*term
					// x = x.Plus(v)  → ADD ;  x = append(x, v) → APPEND
					if call, ok := x.Val.(*ssa.Call); ok {
						if cal := call.Call.StaticCallee(); cal != nil && pkgOf(cal) == countsPkg && refName(cal) == "Plus" {
							for i, a := range call.Call.Args {
								if e.loadsNode(a, tgt) {
									op = "ADD"
									ts = e.terms(call.Call.Args[1-i], 0, map[ssa.Value]bool{}, m)
								}
							}
						}
						if isBuiltin(&call.Call, "append") && e.loadsNode(call.Call.Args[0], tgt) {
							op = "APPEND"
							ts = []*term{atom("elems")}
						}
					}
					// `if v > x { x = v }`: the hand-written maximum
					var guard *ssa.If
					if ts == nil && op == "SET" {
						for _, fct := range factsAt(x.Block()) {
							cond, truth := normCond(fct.Cond, fct.Truth)
							cmp, isCmp := cond.(*ssa.BinOp)
							if !isCmp || !truth {
								continue
							}
							sameVal := func(a, b ssa.Value) bool {
								if a == b {
									return true
								}
								// the same component of the same value, written twice
								fa, ok1 := a.(*ssa.Field)
								fb, ok2 := b.(*ssa.Field)
								if ok1 && ok2 && fa.X == fb.X && fa.Field == fb.Field {
									return true
								}
								la, ok1 := a.(*ssa.UnOp)
								lb, ok2 := b.(*ssa.UnOp)
								if ok1 && ok2 && la.Op == token.MUL && lb.Op == token.MUL && c.sameAddr(la.X, lb.X) {
									// two loads of one field of a local that is not written
									// between them (every store to it precedes both)
									fa, isFA := la.X.(*ssa.FieldAddr)
									if !isFA {
										return false
									}
									al, isAl := fa.X.(*ssa.Alloc)
									if !isAl || al.Heap {
										return false
									}
									for _, r := range *al.Referrers() {
										switch y := r.(type) {
										case *ssa.Store:
											if y.Addr == ssa.Value(al) && !(instrDominates(y, la) && instrDominates(y, lb)) {
												return false
											}
										case *ssa.FieldAddr:
											for _, r2 := range *y.Referrers() {
												if st, isSt := r2.(*ssa.Store); isSt && st.Addr == ssa.Value(y) && !(instrDominates(st, la) && instrDominates(st, lb)) {
													return false
												}
											}
										case *ssa.UnOp, *ssa.DebugRef:
										default:
											return false
										}
									}
									return true
								}
								return false
							}
							bigger := func(a, b ssa.Value) bool { return sameVal(a, x.Val) && e.loadsNode(b, tgt) }
							switch cmp.Op {
							case token.GTR, token.GEQ:
								if bigger(cmp.X, cmp.Y) {
									op, guard = "MAX", fct.If
								}
							case token.LSS, token.LEQ:
								if bigger(cmp.Y, cmp.X) {
									op, guard = "MAX", fct.If
								}
							}
						}
					}
					if ts == nil {
						ts = e.terms(x.Val, 0, map[ssa.Value]bool{}, m)
					}
					e.add(&effEdge{Target: tgt, Op: op, Terms: ts, Marks: m, Site: x, Fn: f, Counter: countKind(x.Val.Type()) != "", Guard: guard})
				case *ssa.MapUpdate:
					tgt := e.elemNode(x.Map)
					if tgt == "" {
						continue
					}
					// value is &n for a local n: edges are the stores into n
					if al, ok := x.Value.(*ssa.Alloc); ok && countKind(al.Type().Underlying().(*types.Pointer).Elem()) != "" {
						for _, st := range c.cellStores(al) {
							m := marks{}
							ts := e.terms(st.Val, 0, map[ssa.Value]bool{}, m)
							e.add(&effEdge{Target: tgt, Op: "SET", Terms: ts, Marks: m, Site: x, Fn: f, Counter: true})
						}
					} else if countKind(x.Value.Type()) != "" {
						m := marks{}
						ts := e.terms(x.Value, 0, map[ssa.Value]bool{}, m)
						e.add(&effEdge{Target: tgt, Op: "SET", Terms: ts, Marks: m, Site: x, Fn: f, Counter: true})
					} else if p, ok := x.Value.Type().Underlying().(*types.Pointer); ok && countKind(p.Elem()) != "" {
						e.add(&effEdge{Target: tgt, Op: "SET", Terms: []*term{atom("?ptr@" + fnName(f))}, Marks: marks{}, Site: x, Fn: f})
					}
				}
			}
		}
	}
}

func (e *effects) loadsNode(v ssa.Value, node string) bool {
	u, ok := v.(*ssa.UnOp)
	if !ok || u.Op != token.MUL {
		return false
	}
	return e.target(u.X) == node
}

const maxTermDepth = 10

func cross(as, bs []*term) []*term {
	var out []*term
	for _, a := range as {
		for _, b := range bs {
			o, ot := a.Origin, a.OriginTo
			if o == nil {
				o, ot = b.Origin, b.OriginTo
			}
			out = append(out, &term{Add: []*term{a, b}, Origin: o, OriginTo: ot})
		}
	}
	return out
}

// terms computes the alternative terms of value v.
func (e *effects) terms(v ssa.Value, depth int, seen map[ssa.Value]bool, m marks) []*term {
	c := e.c
	if depth > maxTermDepth {
		return []*term{atom("DEPTH")}
	}
	if seen[v] {
		return nil
	}
	seen[v] = true
	defer delete(seen, v)
	fn := "?"
	if in, ok := v.(ssa.Instruction); ok && in.Parent() != nil {
		fn = fnName(in.Parent())
	}
	switch x := v.(type) {
	case *ssa.Const:
		if x.Value == nil {
			return []*term{atom("const:zero")}
		}
		return []*term{atom("const:" + x.Value.ExactString())}
	case *ssa.Convert:
		from, to := countKind(x.X.Type()), countKind(x.Type())
		if from == "Count32" && to == "Count64" {
			m["widen"] = true
		}
		if to != "" && from == "" {
			if _, isConst := x.X.(*ssa.Const); !isConst {
				m["rawconv:"+to] = true
			}
		}
		if from == "Count64" && to == "Count32" {
			m["narrow"] = true
		}
		return e.terms(x.X, depth, seen, m)
	case *ssa.ChangeType:
		return e.terms(x.X, depth, seen, m)
	case *ssa.MakeInterface:
		return e.terms(x.X, depth, seen, m)
	case *ssa.Phi:
		var out []*term
		for i, ed := range x.Edges {
			for _, t := range e.terms(ed, depth, seen, m) {
				if t.Origin == nil && i < len(x.Block().Preds) {
					t.Origin = x.Block().Preds[i]
					t.OriginTo = x.Block()
				}
				out = append(out, t)
			}
		}
		return out
	case *ssa.BinOp:
		if x.Op == token.ADD {
			if countKind(x.Type()) != "" {
				m["rawadd"] = true
			}
			return cross(e.terms(x.X, depth, seen, m), e.terms(x.Y, depth, seen, m))
		}
		if countKind(x.Type()) != "" {
			m["rawop"+x.Op.String()] = true
		}
		return []*term{atom(fmt.Sprintf("op%s(%s,%s)", x.Op, termsKey(e.terms(x.X, depth, seen, m)), termsKey(e.terms(x.Y, depth, seen, m))))}
	case *ssa.UnOp:
		if x.Op != token.MUL {
			return []*term{atom(fmt.Sprintf("op%s(%s)", x.Op, termsKey(e.terms(x.X, depth, seen, m))))}
		}
		switch a := x.X.(type) {
		case *ssa.FieldAddr:
			return []*term{atom(nodeOfField(fieldOfAddr(a)))}
		case *ssa.Alloc, *ssa.FreeVar:
			cell := c.cellOf(a)
			if cell == nil {
				return []*term{atom("cell?@" + fn)}
			}
			var out []*term
			for _, st := range c.cellStores(cell) {
				out = append(out, e.terms(st.Val, depth+1, seen, m)...)
			}
			if len(out) == 0 {
				return []*term{atom("const:zero")}
			}
			return out
		case *ssa.Global:
			return []*term{atom("G:" + shortPkg(a.Pkg.Pkg.Path()) + "." + a.Name())}
		case *ssa.IndexAddr:
			return []*term{atom("elem@" + fn)}
		default:
			if t := e.target(x.X); t != "" {
				return []*term{atom(t)}
			}
			return []*term{atom(fmt.Sprintf("load?%T@%s", x.X, fn))}
		}
	case *ssa.Field:
		return []*term{atom(nodeOfField(fieldOfVal(x)))}
	case *ssa.Extract:
		if call, ok := x.Tuple.(*ssa.Call); ok {
			if cal := call.Call.StaticCallee(); cal != nil {
				if c.inRuleScope(cal) && len(cal.Blocks) > 0 {
					var out []*term
					for _, r := range returnsOf(cal) {
						for _, rv := range c.resultValues(r, x.Index) {
							out = append(out, e.terms(rv, depth+1, seen, m)...)
						}
					}
					return out
				}
				return []*term{atom(fmt.Sprintf("call:%s#%d@%s", refQ(cal), x.Index, fn))}
			}
			return []*term{atom(fmt.Sprintf("call:%s#%d@%s", calleeQ(&call.Call), x.Index, fn))}
		}
		return []*term{atom(fmt.Sprintf("extract:%T@%s", x.Tuple, fn))}
	case *ssa.Call:
		cal := x.Call.StaticCallee()
		if cal != nil && pkgOf(cal) == modPath+"/counts" {
			switch cal.Name() {
			case "Plus":
				return cross(e.terms(x.Call.Args[0], depth, seen, m), e.terms(x.Call.Args[1], depth, seen, m))
			case "NewCount32":
				m["clamp"] = true
				return e.terms(x.Call.Args[0], depth, seen, m)
			case "NewCount64":
				return e.terms(x.Call.Args[0], depth, seen, m)
			}
		}
		if isBuiltin(&x.Call, "len") {
			inner := e.terms(x.Call.Args[0], depth, seen, marks{})
			var out []*term
			for _, t := range inner {
				out = append(out, atom("len("+t.String()+")"))
			}
			return out
		}
		if cal != nil && c.inRuleScope(cal) && len(cal.Blocks) > 0 && cal.Signature.Results().Len() == 1 {
			var out []*term
			for _, r := range returnsOf(cal) {
				for _, rv := range c.resultValues(r, 0) {
					out = append(out, e.terms(rv, depth+1, seen, m)...)
				}
			}
			return out
		}
		return []*term{atom("call:" + calleeQ(&x.Call) + "@" + fn)}
	case *ssa.Parameter:
		f := x.Parent()
		idx := -1
		for i, p := range f.Params {
			if p == x {
				idx = i
			}
		}
		name := fmt.Sprintf("param:%s#%d", fnName(f), idx)
		// parameters of package git are sources: the layer where bytes enter
		if pkgOf(f) == modPath+"/git" {
			return []*term{atom(name)}
		}
		cs := c.Callers[f]
		if len(cs) == 0 {
			return []*term{atom(name)}
		}
		var out []*term
		for _, ci := range cs {
			args := ci.Common().Args
			if idx < len(args) {
				out = append(out, e.terms(args[idx], depth+1, seen, m)...)
			}
		}
		return out
	case *ssa.Slice:
		return []*term{atom("slice@" + fn)}
	case *ssa.Lookup:
		return []*term{atom("lookup@" + fn)}
	case *ssa.TypeAssert:
		return e.terms(x.X, depth, seen, m)
	case *ssa.Alloc:
		return []*term{atom("addr@" + fn)}
	case *ssa.MakeSlice:
		return []*term{atom("make@" + fn)}
	}
	return []*term{atom(fmt.Sprintf("?%T@%s", v, fn))}
}

// expand substitutes carrier nodes by their sources.
func (e *effects) expand() {
	byNode := map[string][]*effEdge{}
	for _, ed := range e.raw {
		byNode[ed.Target] = append(byNode[ed.Target], ed)
	}
	// carriers: not API nodes, only SET edges, not self-referential
	for n, eds := range byNode {
		if e.real[n] || strings.HasPrefix(n, "H:") || strings.HasPrefix(n, "T:") || strings.HasPrefix(n, "C:") || strings.HasSuffix(n, "[*]") || strings.HasPrefix(n, "?") {
			continue
		}
		isCarrier := true
		for _, ed := range eds {
			if ed.Op != "SET" {
				isCarrier = false
			}
			for _, t := range ed.Terms {
				for _, a := range t.atoms() {
					if a == n {
						isCarrier = false
					}
				}
			}
		}
		if isCarrier {
			e.carrier[n] = true
		}
	}
	var substTerm func(t *term, m marks, stack map[string]bool, depth int) []*term
	var origin *ssa.BasicBlock
	substAtom := func(a string, m marks, stack map[string]bool, depth int) []*term {
		inner, wrapped := a, false
		if strings.HasPrefix(a, "len(") && strings.HasSuffix(a, ")") {
			inner, wrapped = a[4:len(a)-1], true
		}
		if !e.carrier[inner] || stack[inner] || depth > 8 {
			return []*term{atom(a)}
		}
		stack[inner] = true
		defer delete(stack, inner)
		var out []*term
		for _, ed := range byNode[inner] {
			for k := range ed.Marks {
				if !wrapped {
					m[k] = true
				}
			}
			for _, t := range ed.Terms {
				for _, s := range substTerm(t, m, stack, depth+1) {
					if wrapped {
						out = append(out, atom("len("+s.String()+")"))
					} else {
						out = append(out, s)
					}
				}
			}
		}
		_ = origin
		if len(out) == 0 {
			return []*term{atom(a)}
		}
		return out
	}
	substTerm = func(t *term, m marks, stack map[string]bool, depth int) []*term {
		if t.Atom != "" {
			res := substAtom(t.Atom, m, stack, depth)
			for _, r := range res {
				if r.Origin == nil {
					if len(res) == 1 && r.Atom == t.Atom {
						r = &term{Atom: r.Atom, Origin: t.Origin, OriginTo: t.OriginTo}
						res[0] = r
					} else {
						r.Origin, r.OriginTo = t.Origin, t.OriginTo
					}
				}
			}
			return res
		}
		alts := []*term{nil}
		for _, part := range t.flat() {
			ps := substAtom(part.Atom, m, stack, depth)
			var next []*term
			for _, a := range alts {
				for _, p := range ps {
					if a == nil {
						next = append(next, &term{Add: []*term{p}, Origin: t.Origin, OriginTo: t.OriginTo})
					} else {
						next = append(next, &term{Add: append(append([]*term{}, a.Add...), p), Origin: t.Origin, OriginTo: t.OriginTo})
					}
				}
			}
			alts = next
		}
		return alts
	}
	for _, ed := range e.raw {
		if e.carrier[ed.Target] {
			continue
		}
		m := marks{}
		for k := range ed.Marks {
			m[k] = true
		}
		var ts []*term
		for _, t := range ed.Terms {
			ts = append(ts, substTerm(t, m, map[string]bool{}, 0)...)
		}
		// one edge per alternative: `x.Max(cond ? a : b)` is two updates selected by cond
		byKey := map[string]*effEdge{}
		var keys []string
		for _, t := range ts {
			k := t.String()
			if prev, ok := byKey[k]; ok {
				if prev.Terms[0].Origin == nil {
					prev.Terms[0].Origin, prev.Terms[0].OriginTo = t.Origin, t.OriginTo
				}
				continue
			}
			byKey[k] = &effEdge{Target: ed.Target, Op: ed.Op, Terms: []*term{t}, Marks: m, Site: ed.Site, Fn: ed.Fn, Counter: ed.Counter, Guard: ed.Guard}
			keys = append(keys, k)
		}
		sort.Strings(keys)
		for i, k := range keys {
			ne := byKey[k]
			ne.Alternatives = len(keys)
			e.Edges = append(e.Edges, ne)
			e.ByNode[ne.Target] = append(e.ByNode[ne.Target], ne)
			if i == 0 {
				e.BySite[ne.Site] = ne
			}
			e.AllBySite[ne.Site] = append(e.AllBySite[ne.Site], ne)
		}
	}
	sort.SliceStable(e.Edges, func(i, j int) bool { return e.Edges[i].Key() < e.Edges[j].Key() })
}

// edgeSet returns the distinct "OP{terms}" strings entering node n.
func (e *effects) edgeSet(n string) map[string][]*effEdge {
	out := map[string][]*effEdge{}
	for _, ed := range e.ByNode[n] {
		out[ed.OpTerms()] = append(out[ed.OpTerms()], ed)
	}
	return out
}

// soleAtom returns the single atom of the single edge with op into node n.
func (e *effects) soleAtom(n, op string) (string, bool) {
	var found string
	cnt := 0
	for k, eds := range e.edgeSet(n) {
		if !strings.HasPrefix(k, op+"{") {
			continue
		}
		cnt++
		ed := eds[0]
		if len(ed.Terms) != 1 || ed.Terms[0].Atom == "" {
			return "", false
		}
		found = ed.Terms[0].Atom
	}
	return found, cnt == 1
}

func init() {
	dumpers["effects"] = func(c *Ctx) {
		e := c.effects()
		for _, ed := range e.Edges {
			fmt.Printf("%-70s %v  @%s %s\n", ed.Key(), ed.Marks.list(), fnName(ed.Fn), c.pos(posOf(ed.Site)))
		}
		fmt.Println("carriers:", sortedKeys(e.carrier))
	}
}
