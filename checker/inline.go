package main

import (
	"fmt"
	"go/types"
	"os"
	"reflect"
	"sort"
	"strings"
	"unsafe"

	"golang.org/x/tools/go/ssa"
)

// Helper normalisation.
//
// Every rule of this checker is written against the functions of the
// reference tree (knownFuncs, known_funcs.go). A named module function that
// is not in that table is, by definition, a helper somebody extracted: its
// statically dispatched calls are expanded in place (at SSA level) in every
// caller, so that "the loop body was moved into readTrees()" is analysed
// exactly like the loop body it replaced. Expansion preserves semantics; the
// table only decides where precision is spent, it is never a verdict.
//
// Not expanded (the helper then stays an ordinary module function that the
// rules see as such): helpers in a cycle of unknown helpers, helpers without
// a return, helpers whose defers are conditional or looped or that recover,
// calls through interfaces / function values, and `go f()` / `defer f()`
// statements (rules that care about goroutine entries accept named
// functions).
//
// go/ssa has no public constructor for instructions; clones are shallow
// copies of the original instruction whose operands are rewritten through
// Instruction.Operands, and the few unexported links (block, parent, type,
// dominator info) are set through reflect+unsafe against the field names of
// x/tools v0.29.0, which go.mod pins.

func setUnexported(ptr interface{}, name string, val interface{}) {
	v := reflect.ValueOf(ptr).Elem()
	f := v.FieldByName(name)
	if !f.IsValid() {
		panic(fmt.Sprintf("inline: %T has no field %s", ptr, name))
	}
	dst := reflect.NewAt(f.Type(), unsafe.Pointer(f.UnsafeAddr())).Elem()
	if val == nil {
		dst.Set(reflect.Zero(f.Type()))
		return
	}
	dst.Set(reflect.ValueOf(val))
}

func cloneStruct(ptr interface{}) interface{} {
	ov := reflect.ValueOf(ptr)
	nv := reflect.New(ov.Elem().Type())
	nv.Elem().Set(ov.Elem())
	return nv.Interface()
}

type inliner struct {
	c            *Ctx
	cand         map[*ssa.Function]bool
	counter      int
	allowClosure bool
	touched      []*ssa.Function
	Log          []string
}

func newBlock(parent *ssa.Function, comment string) *ssa.BasicBlock {
	b := &ssa.BasicBlock{Comment: comment}
	setUnexported(b, "parent", parent)
	return b
}

func setBlock(in ssa.Instruction, b *ssa.BasicBlock) { setUnexported(in, "block", b) }

// cloneInstr makes an unlinked copy of in (operands still the old ones).
func cloneInstr(in ssa.Instruction) ssa.Instruction {
	ni := cloneStruct(in).(ssa.Instruction)
	switch x := ni.(type) {
	case *ssa.Call:
		x.Call.Args = append([]ssa.Value(nil), x.Call.Args...)
	case *ssa.Go:
		x.Call.Args = append([]ssa.Value(nil), x.Call.Args...)
	case *ssa.Defer:
		x.Call.Args = append([]ssa.Value(nil), x.Call.Args...)
	case *ssa.Phi:
		x.Edges = append([]ssa.Value(nil), x.Edges...)
	case *ssa.MakeClosure:
		x.Bindings = append([]ssa.Value(nil), x.Bindings...)
	case *ssa.Return:
		x.Results = append([]ssa.Value(nil), x.Results...)
	case *ssa.Select:
		st := make([]*ssa.SelectState, len(x.States))
		for i, s := range x.States {
			cp := *s
			st[i] = &cp
		}
		x.States = st
	}
	if v, ok := ni.(ssa.Value); ok {
		if r := v.Referrers(); r != nil {
			*r = nil
		}
	}
	return ni
}

// cloneBody clones the blocks of g into function dst. vmap maps old values
// (parameters, free variables, instructions, nested functions) to new ones.
func (il *inliner) cloneBody(g, dst *ssa.Function, vmap map[ssa.Value]ssa.Value, skip *ssa.BasicBlock) (blocks []*ssa.BasicBlock, bmap map[*ssa.BasicBlock]*ssa.BasicBlock) {
	bmap = map[*ssa.BasicBlock]*ssa.BasicBlock{}
	for _, b := range g.Blocks {
		if b == skip {
			continue
		}
		nb := newBlock(dst, b.Comment)
		bmap[b] = nb
		blocks = append(blocks, nb)
	}
	// nested functions first (their MakeClosure operands are remapped below)
	for _, af := range g.AnonFuncs {
		naf := il.cloneFunc(af, dst)
		vmap[af] = naf
	}
	var all []ssa.Instruction
	for _, b := range g.Blocks {
		if b == skip {
			continue
		}
		nb := bmap[b]
		for _, in := range b.Instrs {
			ni := cloneInstr(in)
			setBlock(ni, nb)
			nb.Instrs = append(nb.Instrs, ni)
			all = append(all, ni)
			if ov, ok := in.(ssa.Value); ok {
				vmap[ov] = ni.(ssa.Value)
			}
			if al, ok := ni.(*ssa.Alloc); ok && !al.Heap {
				dst.Locals = append(dst.Locals, al)
			}
		}
		for _, s := range b.Succs {
			nb.Succs = append(nb.Succs, bmap[s])
		}
		for _, p := range b.Preds {
			nb.Preds = append(nb.Preds, bmap[p])
		}
	}
	var rands []*ssa.Value
	for _, ni := range all {
		rands = ni.Operands(rands[:0])
		for _, op := range rands {
			if *op == nil {
				continue
			}
			if nv, ok := vmap[*op]; ok {
				*op = nv
			}
		}
	}
	return blocks, bmap
}

// cloneFunc deep-copies an anonymous function under a new parent.
func (il *inliner) cloneFunc(af, parent *ssa.Function) *ssa.Function {
	nf := cloneStruct(af).(*ssa.Function)
	il.counter++
	setUnexported(nf, "parent", parent)
	setUnexported(nf, "name", fmt.Sprintf("%s$%d", parent.Name(), len(parent.AnonFuncs)+1))
	setUnexported(nf, "anonIdx", int32(len(parent.AnonFuncs)))
	setUnexported(nf, "referrers", []ssa.Instruction(nil))
	parent.AnonFuncs = append(parent.AnonFuncs, nf)
	vmap := map[ssa.Value]ssa.Value{}
	nf.Params = nil
	for _, p := range af.Params {
		np := cloneStruct(p).(*ssa.Parameter)
		setUnexported(np, "parent", nf)
		setUnexported(np, "referrers", []ssa.Instruction(nil))
		nf.Params = append(nf.Params, np)
		vmap[p] = np
	}
	nf.FreeVars = nil
	for _, fv := range af.FreeVars {
		nfv := cloneStruct(fv).(*ssa.FreeVar)
		setUnexported(nfv, "parent", nf)
		setUnexported(nfv, "referrers", []ssa.Instruction(nil))
		nf.FreeVars = append(nf.FreeVars, nfv)
		vmap[fv] = nfv
	}
	nf.Locals = nil
	nf.AnonFuncs = nil
	blocks, bmap := il.cloneBody(af, nf, vmap, nil)
	nf.Blocks = blocks
	if af.Recover != nil {
		nf.Recover = bmap[af.Recover]
	}
	finishFunc(nf)
	return nf
}

// finishFunc renumbers blocks and registers, recomputes referrers and the
// dominator tree of f.
func finishFunc(f *ssa.Function) {
	for i, b := range f.Blocks {
		b.Index = i
	}
	// referrers
	for _, p := range f.Params {
		*p.Referrers() = nil
	}
	for _, fv := range f.FreeVars {
		*fv.Referrers() = nil
	}
	num := 0
	for _, b := range f.Blocks {
		for _, in := range b.Instrs {
			if v, ok := in.(ssa.Value); ok {
				if r := v.Referrers(); r != nil {
					*r = nil
				}
				if reflect.ValueOf(in).Elem().FieldByName("num").IsValid() {
					setUnexported(in, "num", num)
					num++
				}
			}
		}
	}
	var rands []*ssa.Value
	for _, b := range f.Blocks {
		for _, in := range b.Instrs {
			rands = in.Operands(rands[:0])
			for _, op := range rands {
				if *op == nil {
					continue
				}
				if r := (*op).Referrers(); r != nil {
					// only values of this function track referrers here
					switch d := (*op).(type) {
					case ssa.Instruction:
						if d.Parent() != f {
							continue
						}
					case *ssa.Parameter:
						if d.Parent() != f {
							continue
						}
					case *ssa.FreeVar:
						if d.Parent() != f {
							continue
						}
					case *ssa.Function:
						continue
					}
					*r = append(*r, in)
				}
			}
		}
	}
	buildDom(f)
}

// buildDom computes immediate dominators (Cooper/Harvey/Kennedy) with the
// entry block and the recover block as roots, and writes go/ssa's domInfo.
func buildDom(f *ssa.Function) {
	n := len(f.Blocks)
	if n == 0 {
		return
	}
	type info struct {
		idom      *ssa.BasicBlock
		children  []*ssa.BasicBlock
		pre, post int32
	}
	inf := make([]info, n)
	roots := []*ssa.BasicBlock{f.Blocks[0]}
	if f.Recover != nil {
		roots = append(roots, f.Recover)
	}
	reach := make([]bool, n)
	for _, root := range roots {
		// reverse postorder from root
		var order []*ssa.BasicBlock
		seen := map[*ssa.BasicBlock]bool{}
		var dfs func(b *ssa.BasicBlock)
		dfs = func(b *ssa.BasicBlock) {
			seen[b] = true
			for _, s := range b.Succs {
				if !seen[s] && !reach[s.Index] {
					dfs(s)
				}
			}
			order = append(order, b)
		}
		if reach[root.Index] {
			continue
		}
		dfs(root)
		rpoNum := map[*ssa.BasicBlock]int{}
		for i := range order {
			rpoNum[order[len(order)-1-i]] = i
		}
		idom := map[*ssa.BasicBlock]*ssa.BasicBlock{root: root}
		intersect := func(a, b *ssa.BasicBlock) *ssa.BasicBlock {
			for a != b {
				for rpoNum[a] > rpoNum[b] {
					a = idom[a]
				}
				for rpoNum[b] > rpoNum[a] {
					b = idom[b]
				}
			}
			return a
		}
		for changed := true; changed; {
			changed = false
			for i := len(order) - 2; i >= 0; i-- {
				b := order[i]
				var ni *ssa.BasicBlock
				for _, p := range b.Preds {
					if _, ok := rpoNum[p]; !ok {
						continue
					}
					if idom[p] == nil {
						continue
					}
					if ni == nil {
						ni = p
					} else {
						ni = intersect(p, ni)
					}
				}
				if ni != nil && idom[b] != ni {
					idom[b] = ni
					changed = true
				}
			}
		}
		for _, b := range order {
			reach[b.Index] = true
			if b != root {
				inf[b.Index].idom = idom[b]
			}
		}
	}
	// children in block order (deterministic)
	for _, b := range f.Blocks {
		if d := inf[b.Index].idom; d != nil {
			inf[d.Index].children = append(inf[d.Index].children, b)
		}
	}
	var pre, post int32
	var number func(b *ssa.BasicBlock)
	number = func(b *ssa.BasicBlock) {
		inf[b.Index].pre = pre
		pre++
		for _, ch := range inf[b.Index].children {
			number(ch)
		}
		inf[b.Index].post = post
		post++
	}
	for _, root := range roots {
		number(root)
	}
	for _, b := range f.Blocks {
		domField := reflect.ValueOf(b).Elem().FieldByName("dom")
		dom := reflect.NewAt(domField.Type(), unsafe.Pointer(domField.UnsafeAddr())).Elem()
		set := func(name string, val interface{}) {
			fl := dom.FieldByName(name)
			d := reflect.NewAt(fl.Type(), unsafe.Pointer(fl.UnsafeAddr())).Elem()
			if val == nil {
				d.Set(reflect.Zero(fl.Type()))
			} else {
				d.Set(reflect.ValueOf(val))
			}
		}
		i := inf[b.Index]
		if i.idom == nil {
			set("idom", nil)
		} else {
			set("idom", i.idom)
		}
		set("children", i.children)
		set("pre", i.pre)
		set("post", i.post)
	}
}

// inlinable decides whether g's body can be expanded at call sites.
func (il *inliner) inlinable(g *ssa.Function) (bool, string) {
	if len(g.Blocks) == 0 {
		return false, "no body"
	}
	if (len(g.FreeVars) > 0 || g.Parent() != nil) && !il.allowClosure {
		return false, "closure"
	}
	if g.Signature.Variadic() {
		// variadic calls are fine in SSA (the slice is explicit); allowed
	}
	var rets []*ssa.BasicBlock
	for _, b := range g.Blocks {
		if len(b.Instrs) == 0 {
			return false, "empty block"
		}
		if b == g.Recover {
			continue
		}
		if _, ok := b.Instrs[len(b.Instrs)-1].(*ssa.Return); ok {
			rets = append(rets, b)
		}
	}
	if len(rets) == 0 {
		return false, "never returns"
	}
	inCycle := blocksInCycles(g)
	for _, b := range g.Blocks {
		for _, in := range b.Instrs {
			if d, ok := in.(*ssa.Defer); ok {
				if inCycle[b] {
					return false, "defer in a loop"
				}
				for _, r := range rets {
					if !b.Dominates(r) {
						return false, "conditional defer"
					}
				}
				if mayRecover(d) {
					return false, "a deferred call may recover"
				}
			}
		}
	}
	return true, ""
}

// mayRecover: the deferred callee is module code containing recover().
func mayRecover(d *ssa.Defer) bool {
	var fn *ssa.Function
	switch x := d.Call.Value.(type) {
	case *ssa.Function:
		fn = x
	case *ssa.MakeClosure:
		fn, _ = x.Fn.(*ssa.Function)
	default:
		if d.Call.IsInvoke() {
			return false // interface method of a foreign object (Close, Unlock, ...)
		}
		return true
	}
	if fn == nil {
		return true
	}
	if !inModulePath(pkgOf(fn)) {
		return false
	}
	rec := false
	var visit func(f *ssa.Function)
	visit = func(f *ssa.Function) {
		for _, b := range f.Blocks {
			for _, in := range b.Instrs {
				if call, ok := in.(*ssa.Call); ok {
					if bi, ok := call.Call.Value.(*ssa.Builtin); ok && bi.Name() == "recover" {
						rec = true
					}
				}
			}
		}
	}
	visit(fn)
	return rec
}

func blocksInCycles(f *ssa.Function) map[*ssa.BasicBlock]bool {
	out := map[*ssa.BasicBlock]bool{}
	for _, b := range f.Blocks {
		// b is in a cycle iff b is reachable from one of its successors
		seen := map[*ssa.BasicBlock]bool{}
		stack := append([]*ssa.BasicBlock(nil), b.Succs...)
		for len(stack) > 0 {
			x := stack[len(stack)-1]
			stack = stack[:len(stack)-1]
			if seen[x] {
				continue
			}
			seen[x] = true
			if x == b {
				out[b] = true
				break
			}
			stack = append(stack, x.Succs...)
		}
	}
	return out
}

func resultType(sig *types.Signature) types.Type {
	switch sig.Results().Len() {
	case 0:
		return types.NewTuple()
	case 1:
		return sig.Results().At(0).Type()
	}
	return sig.Results()
}

// inlineCall expands call (a static call to g) inside f.
func (il *inliner) inlineCall(f *ssa.Function, call *ssa.Call, g *ssa.Function) {
	B := call.Block()
	idx := -1
	for i, in := range B.Instrs {
		if in == ssa.Instruction(call) {
			idx = i
		}
	}
	if idx < 0 {
		panic("inline: call not in its block")
	}
	cont := newBlock(f, "inl.cont:"+g.Name())
	cont.Instrs = append(cont.Instrs, B.Instrs[idx+1:]...)
	for _, in := range cont.Instrs {
		setBlock(in, cont)
	}
	cont.Succs = B.Succs
	for _, s := range cont.Succs {
		for i, p := range s.Preds {
			if p == B {
				s.Preds[i] = cont
			}
		}
	}
	B.Instrs = append([]ssa.Instruction(nil), B.Instrs[:idx]...)
	B.Succs = nil

	vmap := map[ssa.Value]ssa.Value{}
	for k, p := range g.Params {
		vmap[p] = call.Call.Args[k]
	}
	if mc := localClosure(call.Call.Value); mc != nil && mc.Fn == ssa.Value(g) {
		for k, fv := range g.FreeVars {
			vmap[fv] = mc.Bindings[k]
		}
	}
	blocks, bmap := il.cloneBody(g, f, vmap, g.Recover)
	entry := bmap[g.Blocks[0]]
	j := &ssa.Jump{}
	setBlock(j, B)
	B.Instrs = append(B.Instrs, j)
	B.Succs = []*ssa.BasicBlock{entry}
	entry.Preds = append(entry.Preds, B)

	// defers of g, in execution order at a return (LIFO of dominance order)
	var defers []*ssa.Defer
	for _, b := range g.DomPreorder() {
		if b == g.Recover {
			continue
		}
		for _, in := range b.Instrs {
			if d, ok := in.(*ssa.Defer); ok {
				defers = append(defers, vmap0(bmap, b, d))
			}
		}
	}

	nres := g.Signature.Results().Len()
	var retResults [][]ssa.Value
	for _, nb := range blocks {
		if len(nb.Instrs) == 0 {
			continue
		}
		// turn cloned Defer instructions into no-ops by dropping them, and
		// RunDefers into the deferred calls
		var out []ssa.Instruction
		for _, in := range nb.Instrs {
			switch x := in.(type) {
			case *ssa.Defer:
				continue
			case *ssa.RunDefers:
				for i := len(defers) - 1; i >= 0; i-- {
					d := defers[i]
					nc := &ssa.Call{Call: d.Call}
					nc.Call.Args = append([]ssa.Value(nil), d.Call.Args...)
					setBlock(nc, nb)
					setUnexported(nc, "typ", resultType(d.Call.Signature()))
					setUnexported(nc, "pos", d.Pos())
					out = append(out, nc)
				}
				continue
			case *ssa.Return:
				retResults = append(retResults, x.Results)
				jj := &ssa.Jump{}
				setBlock(jj, nb)
				out = append(out, jj)
				nb.Succs = []*ssa.BasicBlock{cont}
				cont.Preds = append(cont.Preds, nb)
				continue
			}
			out = append(out, in)
		}
		nb.Instrs = out
	}
	// result values
	res := make([]ssa.Value, nres)
	var phis []ssa.Instruction
	for k := 0; k < nres; k++ {
		if len(retResults) == 1 {
			res[k] = retResults[0][k]
			continue
		}
		phi := &ssa.Phi{Comment: "inl.result"}
		for _, rr := range retResults {
			phi.Edges = append(phi.Edges, rr[k])
		}
		setBlock(phi, cont)
		setUnexported(phi, "typ", g.Signature.Results().At(k).Type())
		setUnexported(phi, "pos", call.Pos())
		res[k] = phi
		phis = append(phis, phi)
	}
	cont.Instrs = append(phis, cont.Instrs...)

	// splice blocks: [.. B, clones.., cont, rest ..]
	var nbs []*ssa.BasicBlock
	for _, b := range f.Blocks {
		nbs = append(nbs, b)
		if b == B {
			nbs = append(nbs, blocks...)
			nbs = append(nbs, cont)
		}
	}
	f.Blocks = nbs

	// replace uses of the call
	repl := map[ssa.Value]ssa.Value{}
	if nres == 1 {
		repl[call] = res[0]
	} else if nres > 1 {
		for _, r := range *call.Referrers() {
			if ex, ok := r.(*ssa.Extract); ok {
				repl[ex] = res[ex.Index]
			}
		}
	}
	var rands []*ssa.Value
	for _, b := range f.Blocks {
		var out []ssa.Instruction
		for _, in := range b.Instrs {
			if ex, ok := in.(*ssa.Extract); ok {
				if _, dead := repl[ex]; dead {
					continue
				}
			}
			rands = in.Operands(rands[:0])
			for _, op := range rands {
				if *op == nil {
					continue
				}
				if nv, ok := repl[*op]; ok {
					*op = nv
				}
			}
			out = append(out, in)
		}
		b.Instrs = out
	}
	finishFunc(f)
	simplifyCFG(f)
}

// vmap0 finds the clone of instruction d (position-wise) in the cloned block.
func vmap0(bmap map[*ssa.BasicBlock]*ssa.BasicBlock, b *ssa.BasicBlock, d *ssa.Defer) *ssa.Defer {
	for i, in := range b.Instrs {
		if in == ssa.Instruction(d) {
			return bmap[b].Instrs[i].(*ssa.Defer)
		}
	}
	panic("inline: defer clone not found")
}

// Renames: a function of the reference tree that is gone while an unknown
// function with the same receiver and signature exists. The rules look
// functions up by their reference names; these tables translate.
var (
	renamedFn     map[string]*ssa.Function // reference full name -> current function
	renamedBack   map[*ssa.Function]string // current function -> reference full name
	renamedMethod map[string]string        // current method name -> reference method name
)

// refQ: the full name of f as the reference tree spells it.
func refQ(f *ssa.Function) string {
	if f == nil {
		return ""
	}
	if old, ok := renamedBack[f]; ok {
		return old
	}
	return f.String()
}

// refName: the bare name of f as the reference tree spells it.
func refName(f *ssa.Function) string {
	if old, ok := renamedBack[f]; ok {
		return old[strings.LastIndex(old, ".")+1:]
	}
	return f.Name()
}

// mname: the name of an interface method as the reference tree spells it.
func mname(m *types.Func) string {
	if m == nil {
		return ""
	}
	if m.Pkg() != nil && strings.HasPrefix(m.Pkg().Path(), modPath) {
		if old, ok := renamedMethod[m.Name()]; ok {
			return old
		}
	}
	return m.Name()
}

// normalizeHelpers expands unknown helpers everywhere; returns the helpers
// that no longer have any reference (to be dropped from the rule scope).
func (c *Ctx) normalizeHelpers(all map[*ssa.Function]bool) map[*ssa.Function]bool {
	il := &inliner{c: c, cand: map[*ssa.Function]bool{}}
	if os.Getenv("SIZERCHECK_NOINLINE") != "" {
		return nil
	}
	var modFns []*ssa.Function
	for f := range all {
		if c.inRuleScope(f) && f.Synthetic == "" {
			modFns = append(modFns, f)
		}
	}
	sort.Slice(modFns, func(i, j int) bool {
		if modFns[i].Pos() != modFns[j].Pos() {
			return modFns[i].Pos() < modFns[j].Pos()
		}
		return modFns[i].String() < modFns[j].String()
	})
	// a known function that is gone and an unknown one with the same receiver
	// and signature: a rename, not an extracted helper
	present := map[string]bool{}
	for _, f := range modFns {
		present[f.String()] = true
	}
	// pair each missing reference function with an unknown function of the
	// same receiver and signature, in declaration order
	renamedFn, renamedBack, renamedMethod = map[string]*ssa.Function{}, map[*ssa.Function]string{}, map[string]string{}
	missingBySig := map[string][]string{}
	for name := range knownFuncs {
		if !present[name] {
			if sig, ok := knownSigs[name]; ok {
				missingBySig[sig] = append(missingBySig[sig], name)
			}
		}
	}
	for _, ms := range missingBySig {
		sort.Slice(ms, func(i, j int) bool { return knownOrder[ms[i]] < knownOrder[ms[j]] })
	}
	taken := map[string]int{}
	for _, f := range modFns {
		if f.Parent() != nil || knownFuncs[f.String()] || f.Name() == "init" || f.Name() == "main" {
			continue
		}
		if sig := refSig(sigKey(f)); taken[sig] < len(missingBySig[sig]) {
			old := missingBySig[sig][taken[sig]]
			taken[sig]++
			renamedFn[old] = f
			renamedBack[f] = old
			if f.Signature.Recv() != nil {
				renamedMethod[f.Name()] = old[strings.LastIndex(old, ".")+1:]
			}
			il.Log = append(il.Log, fmt.Sprintf("helper %s not expanded: takes the place of %s of the reference tree (same receiver and signature: a rename)", f, old))
			continue
		}
		if ok, why := il.inlinable(f); ok {
			il.cand[f] = true
		} else {
			il.Log = append(il.Log, fmt.Sprintf("helper %s not expanded: %s", f, why))
		}
	}
	// boolean / nil-ness phis that feed a branch directly are threaded in
	// every module function (`changed := a || b; if !changed {…}` becomes the
	// branch structure of `if !a && !b {…}`)
	defer func() {
		for _, f := range modFns {
			if len(f.Blocks) > 0 {
				threadOnly(f)
			}
		}
	}()
	if len(il.cand) == 0 {
		gone := map[*ssa.Function]bool{}
		il.finishUp(modFns, gone)
		c.memo["inline.log"] = il.Log
		return gone
	}
	// drop candidates on a cycle of candidates
	callees := func(f *ssa.Function) []*ssa.Function {
		var out []*ssa.Function
		var visit func(fn *ssa.Function)
		visit = func(fn *ssa.Function) {
			for _, b := range fn.Blocks {
				for _, in := range b.Instrs {
					if call, ok := in.(*ssa.Call); ok {
						if g := call.Call.StaticCallee(); g != nil && il.cand[g] {
							out = append(out, g)
						}
					}
				}
			}
			for _, af := range fn.AnonFuncs {
				visit(af)
			}
		}
		visit(f)
		return out
	}
	for changed := true; changed; {
		changed = false
		for g := range il.cand {
			// g on a cycle?
			seen := map[*ssa.Function]bool{}
			stack := callees(g)
			for len(stack) > 0 {
				x := stack[len(stack)-1]
				stack = stack[:len(stack)-1]
				if seen[x] {
					continue
				}
				seen[x] = true
				if x == g {
					delete(il.cand, g)
					il.Log = append(il.Log, fmt.Sprintf("helper %s not expanded: recursive", g))
					changed = true
					break
				}
				stack = append(stack, callees(x)...)
			}
		}
	}
	// order: leaves first
	var order []*ssa.Function
	done := map[*ssa.Function]bool{}
	var visit func(g *ssa.Function)
	visit = func(g *ssa.Function) {
		if done[g] {
			return
		}
		done[g] = true
		for _, h := range callees(g) {
			visit(h)
		}
		order = append(order, g)
	}
	var cands []*ssa.Function
	for g := range il.cand {
		cands = append(cands, g)
	}
	sort.Slice(cands, func(i, j int) bool { return cands[i].String() < cands[j].String() })
	for _, g := range cands {
		visit(g)
	}
	expandIn := func(f *ssa.Function) {
		for guard := 0; guard < 200; guard++ {
			var site *ssa.Call
			var g *ssa.Function
			for _, b := range f.Blocks {
				for _, in := range b.Instrs {
					if call, ok := in.(*ssa.Call); ok && site == nil {
						if cal := call.Call.StaticCallee(); cal != nil && il.cand[cal] && cal != f && !skipNormalize[rootFn(f).String()] {
							site, g = call, cal
						}
					}
				}
			}
			if site == nil {
				return
			}
			il.inlineCall(f, site, g)
			il.touched = append(il.touched, f)
			il.Log = append(il.Log, fmt.Sprintf("expanded %s in %s", g, f))
		}
	}
	var expandTree func(f *ssa.Function)
	expandTree = func(f *ssa.Function) {
		expandIn(f)
		for _, af := range f.AnonFuncs {
			expandTree(af)
		}
	}
	for _, g := range order {
		expandTree(g)
	}
	for _, f := range modFns {
		if f.Parent() == nil && !il.cand[f] {
			expandTree(f)
		}
	}
	// which candidates are still referenced?
	live := map[*ssa.Function]bool{}
	var mark func(f *ssa.Function)
	mark = func(f *ssa.Function) {
		if live[f] {
			return
		}
		live[f] = true
		var rands []*ssa.Value
		for _, b := range f.Blocks {
			for _, in := range b.Instrs {
				rands = in.Operands(rands[:0])
				for _, op := range rands {
					if *op == nil {
						continue
					}
					if fn, ok := (*op).(*ssa.Function); ok && il.c.inRuleScope(fn) {
						mark(fn)
					}
				}
			}
		}
		for _, af := range f.AnonFuncs {
			mark(af)
		}
	}
	for _, f := range modFns {
		if f.Parent() == nil && !il.cand[f] {
			mark(f)
		}
	}
	// methods of candidates' receiver types may be reached through interfaces
	dead := map[*ssa.Function]bool{}
	for g := range il.cand {
		if !live[g] && !il.viaInterface(g) {
			dead[g] = true
			var kill func(f *ssa.Function)
			kill = func(f *ssa.Function) {
				for _, af := range f.AnonFuncs {
					dead[af] = true
					kill(af)
				}
			}
			kill(g)
		}
	}
	il.finishUp(modFns, dead)
	sort.Strings(il.Log)
	c.memo["inline.log"] = il.Log
	return dead
}

// viaInterface: g is a method whose name is declared by some interface type
// of the program's module packages or could satisfy one (conservative: any
// exported or unexported method with a receiver is kept if an interface in
// the module declares a method of that name).
func (il *inliner) viaInterface(g *ssa.Function) bool {
	if g.Signature.Recv() == nil {
		return false
	}
	for _, p := range il.c.Pkgs {
		if !inModulePath(p.PkgPath) {
			continue
		}
		sc := p.Types.Scope()
		for _, n := range sc.Names() {
			tn, ok := sc.Lookup(n).(*types.TypeName)
			if !ok {
				continue
			}
			if it, ok := tn.Type().Underlying().(*types.Interface); ok {
				for i := 0; i < it.NumMethods(); i++ {
					if it.Method(i).Name() == g.Name() {
						return true
					}
				}
			}
		}
	}
	// standard interfaces the program relies on
	switch g.Name() {
	case "String", "Error", "Set", "Type", "MarshalJSON", "Write", "Read", "Close", "Less", "Len", "Swap", "Filter":
		return true
	}
	return false
}

// sanity validates the structural invariants of a rewritten function.
func sanity(f *ssa.Function) []string {
	var errs []string
	bad := func(format string, a ...interface{}) { errs = append(errs, f.String()+": "+fmt.Sprintf(format, a...)) }
	inF := map[*ssa.BasicBlock]bool{}
	for _, b := range f.Blocks {
		inF[b] = true
	}
	pos := map[ssa.Instruction]int{}
	for i, b := range f.Blocks {
		if b.Index != i {
			bad("block %d has index %d", i, b.Index)
		}
		if b.Parent() != f {
			bad("block %d has a foreign parent", i)
		}
		if len(b.Instrs) == 0 {
			bad("block %d is empty", i)
			continue
		}
		for k, in := range b.Instrs {
			pos[in] = k
			if in.Block() != b {
				bad("b%d[%d] %T has a wrong block link", i, k, in)
			}
		}
		switch t := b.Instrs[len(b.Instrs)-1].(type) {
		case *ssa.If:
			if len(b.Succs) != 2 {
				bad("b%d: If with %d successors", i, len(b.Succs))
			}
		case *ssa.Jump:
			if len(b.Succs) != 1 {
				bad("b%d: Jump with %d successors", i, len(b.Succs))
			}
		case *ssa.Return, *ssa.Panic:
			if len(b.Succs) != 0 {
				bad("b%d: %T with successors", i, t)
			}
		default:
			bad("b%d does not end in a terminator (%T)", i, t)
		}
		for _, s := range b.Succs {
			if !inF[s] {
				bad("b%d has a successor outside the function", i)
				continue
			}
			n := 0
			for _, p := range s.Preds {
				if p == b {
					n++
				}
			}
			m := 0
			for _, s2 := range b.Succs {
				if s2 == s {
					m++
				}
			}
			if n != m {
				bad("b%d->b%d: %d succ edges but %d pred entries", i, s.Index, m, n)
			}
		}
		for _, p := range b.Preds {
			if !inF[p] {
				bad("b%d has a predecessor outside the function", i)
			}
		}
	}
	var rands []*ssa.Value
	for _, b := range f.Blocks {
		for k, in := range b.Instrs {
			if phi, ok := in.(*ssa.Phi); ok {
				if len(phi.Edges) != len(b.Preds) {
					bad("b%d phi has %d edges for %d preds", b.Index, len(phi.Edges), len(b.Preds))
				}
				for i, e := range phi.Edges {
					if d, ok := e.(ssa.Instruction); ok && i < len(b.Preds) {
						if d.Parent() != f {
							bad("b%d phi edge from another function (%s)", b.Index, d.Parent())
						} else if !d.Block().Dominates(b.Preds[i]) {
							bad("b%d phi edge %d (%s in b%d) does not dominate pred b%d", b.Index, i, e.Name(), d.Block().Index, b.Preds[i].Index)
						}
					}
				}
				continue
			}
			rands = in.Operands(rands[:0])
			for _, op := range rands {
				if *op == nil {
					continue
				}
				switch d := (*op).(type) {
				case ssa.Instruction:
					if d.Parent() != f {
						bad("b%d[%d] %T uses %s of function %s", b.Index, k, in, (*op).Name(), d.Parent())
						continue
					}
					db := d.Block()
					if db == b {
						if pos[d] >= k {
							bad("b%d[%d] uses %s defined later in the block", b.Index, k, (*op).Name())
						}
					} else if !db.Dominates(b) && isReachable(f, b) {
						bad("b%d[%d] %T uses %s (b%d) which does not dominate", b.Index, k, in, (*op).Name(), db.Index)
					}
				case *ssa.Parameter:
					if d.Parent() != f {
						bad("b%d[%d] uses parameter %s of %s", b.Index, k, d.Name(), d.Parent())
					}
				case *ssa.FreeVar:
					if d.Parent() != f {
						bad("b%d[%d] uses free variable %s of %s", b.Index, k, d.Name(), d.Parent())
					}
				}
			}
		}
	}
	return errs
}

func isReachable(f *ssa.Function, b *ssa.BasicBlock) bool {
	// the recover block is a second root that uses allocations of the entry block
	return f.Blocks[0].Dominates(b)
}

// sigKey: package, receiver type and signature of a named function.
func sigKey(f *ssa.Function) string {
	recv := ""
	if r := f.Signature.Recv(); r != nil {
		recv = r.Type().String()
	}
	sig := "("
	for i := 0; i < f.Signature.Params().Len(); i++ {
		sig += f.Signature.Params().At(i).Type().String() + ","
	}
	sig += ")("
	for i := 0; i < f.Signature.Results().Len(); i++ {
		sig += f.Signature.Results().At(i).Type().String() + ","
	}
	sig += ")"
	if f.Signature.Variadic() {
		sig += "..."
	}
	return pkgOf(f) + "|" + recv + "|" + sig
}

// devirtualize turns `MakeInterface(x).M(args)` into the static call of the
// concrete method.
func (il *inliner) devirtualize(f *ssa.Function) {
	did := false
	for _, b := range f.Blocks {
		for _, in := range b.Instrs {
			ci, ok := in.(ssa.CallInstruction)
			if !ok {
				continue
			}
			cc := ci.Common()
			if !cc.IsInvoke() {
				continue
			}
			mi, ok := cc.Value.(*ssa.MakeInterface)
			if !ok {
				continue
			}
			ms := f.Prog.MethodSets.MethodSet(mi.X.Type())
			sel := ms.Lookup(cc.Method.Pkg(), cc.Method.Name())
			if sel == nil {
				continue
			}
			m := f.Prog.MethodValue(sel)
			if m == nil || m.Synthetic != "" || len(m.Blocks) == 0 {
				continue
			}
			cc.Args = append([]ssa.Value{mi.X}, cc.Args...)
			cc.Value = m
			cc.Method = nil
			did = true
			il.Log = append(il.Log, fmt.Sprintf("devirtualized %s in %s", m, f))
		}
	}
	if did {
		finishFunc(f)
	}
}

// localClosure: v is a closure made in the same function: the MakeClosure
// itself or the load of a local that is assigned exactly once, with it.
func localClosure(v ssa.Value) *ssa.MakeClosure {
	switch x := v.(type) {
	case *ssa.MakeClosure:
		return x
	case *ssa.UnOp:
		al, ok := x.X.(*ssa.Alloc)
		if !ok {
			return nil
		}
		var mc *ssa.MakeClosure
		n := 0
		for _, r := range *al.Referrers() {
			switch y := r.(type) {
			case *ssa.Store:
				if y.Addr == ssa.Value(al) {
					n++
					mc, _ = y.Val.(*ssa.MakeClosure)
				}
			case *ssa.UnOp:
			default:
				return nil // address escapes
			}
		}
		if n == 1 {
			return mc
		}
	}
	return nil
}

// finishUp: closure expansion at calls inside loops, devirtualisation and
// validation of everything that was rewritten.
func (il *inliner) finishUp(modFns []*ssa.Function, dead map[*ssa.Function]bool) {
	// a local closure that is called directly (`add := func(name …){ flags.Var(…) }` applied
	// to every row of a table, `note := func(p **Path){ setPath(…) }` used in eight
	// branches) is expanded at those calls
	il.allowClosure = true
	for _, f := range modFns {
		if len(f.Blocks) == 0 || dead[f] {
			continue
		}
		for guard := 0; guard < 50; guard++ {
			inCycle := blocksInCycles(f)
			var site *ssa.Call
			var g *ssa.Function
			_ = inCycle
			for _, b := range f.Blocks {
				for _, in := range b.Instrs {
					call, ok := in.(*ssa.Call)
					if !ok || site != nil {
						continue
					}
					mc := localClosure(call.Call.Value)
					if mc == nil || skipNormalize[rootFn(f).String()] {
						continue
					}
					fn, _ := mc.Fn.(*ssa.Function)
					if fn == nil || fn.Parent() != f {
						continue
					}
					if ok, _ := il.inlinable(fn); !ok {
						continue
					}
					// the closure must not call itself
					selfRef := false
					for _, b2 := range fn.Blocks {
						for _, in2 := range b2.Instrs {
							if c2, ok := in2.(*ssa.Call); ok {
								if m2 := localClosure(c2.Call.Value); m2 != nil && m2.Fn == ssa.Value(fn) {
									selfRef = true
								}
							}
						}
					}
					if selfRef {
						continue
					}
					site, g = call, fn
				}
			}
			if site == nil {
				break
			}
			il.inlineCall(f, site, g)
			il.touched = append(il.touched, f)
			il.Log = append(il.Log, fmt.Sprintf("expanded closure %s at its call in %s", g, f))
			// a closure with no use left is gone (its slot among the parent's
			// anonymous functions stays, so that the names of its siblings do
			// not shift)
			for _, b := range f.Blocks {
				var out []ssa.Instruction
				for _, in := range b.Instrs {
					if mc, ok := in.(*ssa.MakeClosure); ok && mc.Fn == ssa.Value(g) {
						n := 0
						for _, r := range *mc.Referrers() {
							if _, isDbg := r.(*ssa.DebugRef); !isDbg {
								n++
							}
						}
						if n == 0 {
							// the closure is gone, and with it the originals of the
							// functions nested in it (their copies now belong to f)
							var kill func(h *ssa.Function)
							kill = func(h *ssa.Function) {
								h.Blocks = nil
								if dead != nil {
									dead[h] = true
								}
								for _, af := range h.AnonFuncs {
									kill(af)
								}
							}
							kill(g)
							continue
						}
					}
					out = append(out, in)
				}
				b.Instrs = out
			}
			finishFunc(f)
		}
	}
	il.allowClosure = false
	// in rewritten functions, an interface method call whose receiver was
	// made from a concrete value right there (a parameter of interface type
	// replaced by its argument) is the call of that type's method
	for _, f := range il.touched {
		il.devirtualize(f)
		for _, af := range f.AnonFuncs {
			il.devirtualize(af)
		}
	}
	// a rewritten function that is not well-formed SSA is an internal failure
	changed := map[*ssa.Function]bool{}
	for _, l := range il.touched {
		changed[l] = true
	}
	for f := range changed {
		if errs := sanity(f); len(errs) > 0 {
			panic(normFailure{rootFn(f).String(), "helper expansion produced malformed SSA: " + errs[0]})
		}
		for _, af := range f.AnonFuncs {
			if errs := sanity(af); len(errs) > 0 {
				panic(normFailure{rootFn(f).String(), "helper expansion produced malformed SSA: " + errs[0]})
			}
		}
	}
}
