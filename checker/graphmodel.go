package main

import (
	"fmt"
	"go/token"
	"go/types"
	"sort"

	"golang.org/x/tools/go/ssa"
)

// Structural model of the aggregation graph: the Require{Tree,Tag}Size call
// sites (immediate branch vs. deferred listener) and the tree-entry loop.

type requireSite struct {
	Kind      string // "tree" | "tag"
	Call      *ssa.Call
	Fn        *ssa.Function
	Listener  *ssa.Function
	OkIf      *ssa.If
	ImmBlock  *ssa.BasicBlock // successor taken when the size is already known
	PendBlock *ssa.BasicBlock // successor taken when a listener was registered
	ImmEmpty  bool            // the immediate branch has no block of its own
	PendEmpty bool
}

func (c *Ctx) requireSites() []*requireSite {
	if v, ok := c.memo["require"]; ok {
		return v.([]*requireSite)
	}
	var out []*requireSite
	for kind, name := range map[string]string{"tree": "RequireTreeSize", "tag": "RequireTagSize"} {
		f := c.fn("/sizes", "*Graph", name)
		if f == nil {
			continue
		}
		for _, ci := range c.Callers[f] {
			call, ok := ci.(*ssa.Call)
			if !ok {
				continue
			}
			rs := &requireSite{Kind: kind, Call: call, Fn: call.Parent()}
			if mc, ok := c.resolve(call.Call.Args[2]).(*ssa.MakeClosure); ok {
				rs.Listener = mc.Fn.(*ssa.Function)
			}
			for _, r := range *call.Referrers() {
				ex, ok := r.(*ssa.Extract)
				if !ok || ex.Index != 1 {
					continue
				}
				for _, rr := range *ex.Referrers() {
					if iff, ok := rr.(*ssa.If); ok {
						rs.OkIf = iff
						b := iff.Block()
						rs.ImmBlock, rs.PendBlock = b.Succs[0], b.Succs[1]
						rs.ImmEmpty = !edgeDominates(b, rs.ImmBlock, rs.ImmBlock)
						rs.PendEmpty = !edgeDominates(b, rs.PendBlock, rs.PendBlock)
					}
				}
			}
			out = append(out, rs)
		}
	}
	sort.Slice(out, func(i, j int) bool { return out[i].Call.Pos() < out[j].Call.Pos() })
	c.memo["require"] = out
	return out
}

// branchRegionEnds: blocks of the region dominated by `start` whose
// successors leave the region (or that return).
func branchRegionEnds(start *ssa.BasicBlock) map[*ssa.BasicBlock]bool {
	ends := map[*ssa.BasicBlock]bool{}
	f := start.Parent()
	for _, b := range f.Blocks {
		if !start.Dominates(b) {
			continue
		}
		if len(b.Succs) == 0 {
			ends[b] = true
		}
		for _, s := range b.Succs {
			if !start.Dominates(s) {
				ends[b] = true
			}
		}
	}
	return ends
}

// effectCounter counts executions of update sites whose expanded edge
// satisfies pred, descending into module callees; deferred listeners are
// credited to the branch that registers them.
func (c *Ctx) effectCounter(pred func(*effEdge) bool, creditListeners bool) *eventCounter {
	e := c.effects()
	ec := c.newEventCounter(func(in ssa.Instruction) int { return 0 }, true)
	ec.isEventR = func(in ssa.Instruction) countRange {
		alts := e.AllBySite[in]
		if len(alts) == 0 {
			return countRange{}
		}
		n := 0
		for _, ed := range alts {
			if pred(ed) {
				n++
			}
		}
		switch {
		case n == 0:
			return countRange{}
		case n == len(alts):
			return countRange{1, 1}
		}
		return countRange{0, 1} // the operand is one of several alternatives
	}
	ec.skip = c.maybeFinalizeFns()
	if creditListeners {
		ec.credit = map[*ssa.BasicBlock]countRange{}
		for _, rs := range c.requireSites() {
			if rs.Listener != nil && rs.PendBlock != nil && !rs.PendEmpty {
				ec.credit[rs.PendBlock] = ec.function(rs.Listener)
			}
		}
	}
	return ec
}

// entryLoop finds the loop that iterates (*git.TreeIter).NextEntry.
type entryLoopInfo struct {
	Fn   *ssa.Function
	Call *ssa.Call
	L    *loop
}

func (c *Ctx) entryLoop() *entryLoopInfo {
	if v, ok := c.memo["entryloop"]; ok {
		return v.(*entryLoopInfo)
	}
	var out *entryLoopInfo
	next := c.fn("/git", "*TreeIter", "NextEntry")
	if next != nil {
		for _, ci := range c.Callers[next] {
			if call, ok := ci.(*ssa.Call); ok {
				l := innermostLoop(loopsOf(call.Parent()), call.Block())
				if l != nil {
					if out != nil {
						out = &entryLoopInfo{} // ambiguous
						break
					}
					out = &entryLoopInfo{Fn: call.Parent(), Call: call, L: l}
				}
			}
		}
	}
	c.memo["entryloop"] = out
	return out
}

// modeFacts returns the entry-kind facts known at block b: for every
// dominating comparison (mode & mask) == K, K -> truth. ok=false if a
// comparison with an unexpected mask is seen.
func (c *Ctx) modeFacts(b *ssa.BasicBlock, entryCall *ssa.Call) (map[int64]bool, []string) {
	out := map[int64]bool{}
	var problems []string
	for _, f := range factsAt(b) {
		cond, truth := normCond(f.Cond, f.Truth)
		cmp, ok := isCmp(cond, token.EQL, token.NEQ)
		if !ok {
			continue
		}
		and, ok := cmp.X.(*ssa.BinOp)
		k, kok := constInt(cmp.Y)
		if !ok || !kok || and.Op != token.AND {
			continue
		}
		mask, mok := constInt(and.Y)
		val := and.X
		if !mok {
			mask, mok = constInt(and.X)
			val = and.Y
		}
		if !mok {
			continue
		}
		// ((mode >> s) & m) == k is (mode & (m << s)) == (k << s)
		if sh, isShift := val.(*ssa.BinOp); isShift && sh.Op == token.SHR {
			if n, isConst := constInt(sh.Y); isConst && n >= 0 && n < 32 {
				val, mask, k = sh.X, mask<<uint(n), k<<uint(n)
			}
		}
		if !c.isFieldOfResult(c.resolve(val), entryCall, "Filemode") {
			continue
		}
		if mask != 0o170000 {
			problems = append(problems, fmt.Sprintf("mode is masked with %#o instead of 0170000", mask))
		}
		out[k] = (cmp.Op == token.EQL) == truth
	}
	return out, problems
}

// finalizers: the *Graph methods that publish a final size, recognised by
// the map they update (value type sizes.TreeSize / sizes.TagSize /
// sizes.CommitSize), not by name.
func (c *Ctx) finalizers() map[string]*ssa.Function {
	if v, ok := c.memo["finalizers"]; ok {
		return v.(map[string]*ssa.Function)
	}
	out := map[string]*ssa.Function{}
	for _, f := range c.ModFns {
		if f.Signature.Recv() == nil || !isPtrToNamed(f.Signature.Recv().Type(), modPath+"/sizes", "Graph") {
			continue
		}
		allInstrs(f, func(in ssa.Instruction) {
			mu, ok := in.(*ssa.MapUpdate)
			if !ok {
				return
			}
			for kind, tn := range map[string]string{"tree": "TreeSize", "tag": "TagSize"} {
				if isNamed(mu.Value.Type(), modPath+"/sizes", tn) {
					out[kind] = f
				}
			}
		})
	}
	c.memo["finalizers"] = out
	return out
}

// pendingVars: the counter fields tested against zero to guard a call to a
// finalizer (treeRecord.pending / tagRecord.pending today).
func (c *Ctx) pendingVars() map[*types.Var]bool {
	if v, ok := c.memo["pendingvars"]; ok {
		return v.(map[*types.Var]bool)
	}
	out := map[*types.Var]bool{}
	for _, fin := range c.finalizers() {
		for _, ci := range c.Callers[fin] {
			for _, f := range factsAt(ci.Block()) {
				cond, truth := normCond(f.Cond, f.Truth)
				cmp, ok := isCmp(cond, token.EQL, token.NEQ)
				if !ok || (cmp.Op == token.EQL) != truth {
					continue
				}
				if n, isZero := constInt(cmp.Y); !isZero || n != 0 {
					continue
				}
				if u, ok := cmp.X.(*ssa.UnOp); ok {
					if fa, ok := u.X.(*ssa.FieldAddr); ok {
						out[fieldOfAddr(fa).Var] = true
					}
				}
			}
		}
	}
	c.memo["pendingvars"] = out
	return out
}
