package main

import (
	"fmt"
	"go/token"
	"go/types"
	"strings"

	"golang.org/x/tools/go/ssa"
)

func init() {
	register("C01",
		"Structural necessary conditions of C01 decided from /repo's SSA: (argv) the object enumeration is one `git rev-list` with a constant argv containing --objects, --stdin, one ordering flag and no option that adds or hides objects; (roots) the only writer of that process's stdin is the feeder, every AddRoot call is reached only under root.Walk()==true and passes that root's OID(); (dispatch) every header is dispatched on its type literal to exactly one of RegisterBlob / the tree, commit or tag list, and each list is requested and read back once per element by loops over the same list with exactly one Register call per iteration; (effects) the eight census counters receive exactly the update edges the statement demands (update-effect graph vs. frozen oracle) and object id and size handed to a Register call come from the same record; (rootset) the scanned roots are all collected references followed by one explicit root per ROOT argument; (once) record*/finalize* have single callers and double registration panics before any counter update. Not decided: that git enumerates exactly the reachable set, the numeric equality itself.",
		[]string{"git rev-list --objects --stdin lists each object reachable from the given roots exactly once", "field-based heap model: all instances of a struct type share one node per field", "go/ssa models the source faithfully"},
		ruleC01Argv, ruleC01Roots, ruleC01Dispatch, ruleC01Effects, ruleC01Rootset, ruleC01Once, func(c *Ctx) { pendingWidth(c, "C01.once") }, func(c *Ctx) { c.checkCollect("C01.rootset") }, ruleC01Borrowed)
}

var revListAllowed = map[string]string{
	"--objects":           "required: list trees and blobs as well",
	"--stdin":             "required: roots come from the feeder",
	"--date-order":        "ordering only",
	"--topo-order":        "ordering only",
	"--author-date-order": "ordering only",
	"--no-object-names":   "output only",
	"--object-names":      "output only",
	"--quiet":             "",
}

func ruleC01Argv(c *Ctx) {
	sites := c.gitSites("rev-list")
	if len(sites) != 1 {
		c.violate("C01.argv", "rev-list:sites", token.NoPos, "", fmt.Sprintf("expected exactly one `git rev-list` call site, found %d", len(sites)))
		return
	}
	s := sites[0]
	name := fnName(s.Fn)
	if !s.ArgOK {
		c.undecided("C01.argv", "rev-list:argv", s.Call.Pos(), name, "argv is not a literal list")
		return
	}
	have := map[string]bool{}
	for _, a := range s.Argv[1:] {
		have[a] = true
		if a == "<dyn>" || a == "<args...>" {
			c.violate("C01.argv", "rev-list:dynamic", s.Call.Pos(), name, "rev-list receives a non-constant argument: positional revisions or options may add or drop objects", "argv: "+strings.Join(s.Argv, " "))
			continue
		}
		if _, ok := revListAllowed[a]; !ok || a == "--quiet" {
			c.violate("C01.argv", "rev-list:"+a, s.Call.Pos(), name, fmt.Sprintf("rev-list argument %q changes the set of objects listed relative to \"reachable from the chosen roots\" (or is unknown to the allow-list)", a), "argv: "+strings.Join(s.Argv, " "))
		}
	}
	for _, req := range []string{"--objects", "--stdin"} {
		if !have[req] {
			c.violate("C01.argv", "rev-list:missing:"+req, s.Call.Pos(), name, "rev-list is run without "+req, "argv: "+strings.Join(s.Argv, " "))
		}
	}
	c.hold("C01.argv", "rev-list", s.Call.Pos(), "argv: "+strings.Join(s.Argv, " "))
	// the batch-check stage that types the objects must follow it unfiltered
	for _, p := range c.pipelines() {
		for i, st := range p.Stages {
			if st.Spawn != s {
				continue
			}
			var tail []string
			for _, t := range p.Stages[i+1:] {
				tail = append(tail, t.Kind+":"+t.Name)
				if t.Spawn != nil {
					tail[len(tail)-1] += "[" + strings.Join(t.Spawn.Argv, " ") + "]"
				}
			}
			foundCheck := false
			for _, t := range p.Stages[i+1:] {
				if t.Spawn != nil && t.Spawn.sub() == "cat-file" {
					foundCheck = true
					ok := false
					for _, a := range t.Spawn.Argv {
						if a == "--batch-check" {
							ok = true
						}
						if strings.HasPrefix(a, "--batch-check=") || strings.HasPrefix(a, "--filter") || a == "--batch-all-objects" || a == "--unordered" || a == "--follow-symlinks" {
							c.violate("C01.argv", "cat-file:"+a, t.Spawn.Call.Pos(), fnName(t.Spawn.Fn), "cat-file option "+a+" changes which objects are typed or the header layout the reader expects")
						}
					}
					if !ok {
						c.violate("C01.argv", "cat-file:--batch-check", t.Spawn.Call.Pos(), fnName(t.Spawn.Fn), "the stage after rev-list is not `cat-file --batch-check`")
					}
				}
			}
			if !foundCheck {
				c.violate("C01.argv", "pipeline:batch-check", p.Call.Pos(), fnName(p.Fn), "rev-list output is not piped into cat-file --batch-check", strings.Join(tail, " | "))
			} else {
				c.hold("C01.argv", "pipeline", p.Call.Pos(), "rev-list | "+strings.Join(tail, " | "))
			}
		}
	}
}

func ruleC01Roots(c *Ctx) {
	addRoot := c.fn("/git", "*ObjectIter", "AddRoot")
	if addRoot == nil {
		c.violate("C01.roots", "AddRoot", token.NoPos, "", "(*git.ObjectIter).AddRoot not found")
		return
	}
	// 1. the stage feeding rev-list's stdin reads only the iterator's oid channel
	var reqStage *pipeStage
	for _, p := range c.pipelines() {
		for i, st := range p.Stages {
			if st.Spawn != nil && st.Spawn.sub() == "rev-list" {
				if i == 0 {
					c.violate("C01.roots", "stdin-stage", p.Call.Pos(), fnName(p.Fn), "rev-list is the first stage: its stdin is not fed by the scanner")
				} else {
					reqStage = p.Stages[i-1]
				}
			}
		}
	}
	if reqStage == nil || reqStage.Fn == nil {
		c.undecided("C01.roots", "stdin-stage", token.NoPos, "", "cannot find the stage function that writes rev-list's stdin")
		return
	}
	var chField *types.Var
	nRecv := 0
	allInstrs(reqStage.Fn, func(in ssa.Instruction) {
		var chans []ssa.Value
		switch x := in.(type) {
		case *ssa.Select:
			for _, st := range x.States {
				if st.Dir == types.RecvOnly {
					chans = append(chans, st.Chan)
				}
			}
		case *ssa.UnOp:
			if x.Op == token.ARROW {
				chans = append(chans, x.X)
			}
		}
		for _, ch := range chans {
			if call, ok := ch.(*ssa.Call); ok && call.Call.IsInvoke() && mname(call.Call.Method) == "Done" {
				continue // ctx.Done()
			}
			f, _ := c.chanIdent(ch)
			if f == nil && reqStage.Helper != nil {
				// the stage is built by a shared helper: identify the channel at this pipeline's call of it
				if p, ok := c.chanParam(ch); ok {
					if idx := paramIndex(p); idx < len(reqStage.Helper.Call.Args) {
						f, _ = c.chanIdent(reqStage.Helper.Call.Args[idx])
					}
				}
			}
			if f != nil {
				chField = f
				nRecv++
			} else {
				c.undecided("C01.roots", "stdin-stage:recv", in.Pos(), fnName(reqStage.Fn), "the stdin-writing stage receives from a channel that is not a field of the iterator")
			}
		}
	})
	if chField == nil {
		c.violate("C01.roots", "stdin-stage:source", reqStage.Fn.Pos(), fnName(reqStage.Fn), "the stage that writes rev-list's stdin does not read the iterator's root channel")
		return
	}
	// what it writes: only oid.String() lines
	badWrite := false
	allInstrs(reqStage.Fn, func(in ssa.Instruction) {
		call, ok := in.(*ssa.Call)
		if !ok {
			return
		}
		q := calleeQ(&call.Call)
		if strings.HasPrefix(q, "fmt.Fprint") {
			for _, e := range c.sliceElemValues(call.Call.Args[len(call.Call.Args)-1]) {
				if mi, ok := e.(*ssa.MakeInterface); ok {
					if inner, ok := mi.X.(*ssa.Call); ok && inner.Call.StaticCallee() != nil && refQ(inner.Call.StaticCallee()) == modQ("/git", "OID", "String") {
						continue
					}
				}
				badWrite = true
				c.violate("C01.roots", "stdin-stage:write", call.Pos(), fnName(reqStage.Fn), "the stdin-writing stage writes something other than the received object id")
			}
		}
	})
	if !badWrite {
		c.hold("C01.roots", "stdin-stage", reqStage.Fn.Pos(), "stage "+reqStage.Name+" forwards ids received on "+chField.Name())
	}
	// 2. senders on that channel: only AddRoot
	ops := c.chanOpsFor(chField, nil)
	for _, s := range ops.Sends {
		if s.Parent() == addRoot {
			c.hold("C01.roots", "sender:AddRoot", s.Pos(), "AddRoot sends its argument on the root channel")
			// the value sent is the parameter
			if sel, ok := s.(*ssa.Select); ok {
				for _, st := range sel.States {
					if st.Dir == types.SendOnly && c.resolve(st.Send) != ssa.Value(addRoot.Params[1]) {
						c.violate("C01.roots", "sender:AddRoot:value", s.Pos(), fnName(addRoot), "AddRoot sends something other than its oid argument")
					}
				}
			}
			if sd, ok := s.(*ssa.Send); ok && c.resolve(sd.X) != ssa.Value(addRoot.Params[1]) {
				c.violate("C01.roots", "sender:AddRoot:value", s.Pos(), fnName(addRoot), "AddRoot sends something other than its oid argument")
			}
		} else {
			c.violate("C01.roots", "sender:"+fnName(s.Parent()), s.Pos(), fnName(s.Parent()), "an object id is fed to rev-list outside AddRoot: roots other than the walked ones enter the traversal")
		}
	}
	if len(ops.Sends) == 0 {
		c.violate("C01.roots", "sender:none", addRoot.Pos(), fnName(addRoot), "nothing sends on the root channel")
	}
	// 3. callers of AddRoot: guarded by Walk()==true on the same root, passing its OID()
	callers := c.Callers[addRoot]
	if len(callers) == 0 {
		c.violate("C01.roots", "AddRoot:callers", addRoot.Pos(), fnName(addRoot), "AddRoot has no caller: no root is ever walked")
	}
	for _, ci := range callers {
		call, ok := ci.(*ssa.Call)
		f := ci.Parent()
		key := fnName(f)
		if !ok {
			c.undecided("C01.roots", key+":go/defer", ci.Pos(), key, "AddRoot called through go/defer")
			continue
		}
		arg := c.resolve(call.Call.Args[1])
		oidCall, ok := arg.(*ssa.Call)
		if !ok || !oidCall.Call.IsInvoke() || mname(oidCall.Call.Method) != "OID" {
			c.violate("C01.roots", key+":arg", call.Pos(), key, "the id passed to AddRoot is not root.OID()")
			continue
		}
		root := c.resolve(oidCall.Call.Value)
		guarded := guardedBy(call.Block(), func(cond ssa.Value, truth bool) bool {
			w, ok := cond.(*ssa.Call)
			return ok && truth && w.Call.IsInvoke() && mname(w.Call.Method) == "Walk" && c.resolve(w.Call.Value) == root
		})
		if guarded {
			c.hold("C01.roots", key+":walk-guard", call.Pos(), "AddRoot(root.OID()) only under root.Walk()==true for the same root")
		} else {
			c.violate("C01.roots", key+":walk-guard", call.Pos(), key, "AddRoot is reached without root.Walk() being true for the root whose id is passed: unselected references would be traversed")
		}
		// … and under nothing else: every walked root is fed exactly once
		l := innermostLoop(loopsOf(f), call.Block())
		extra := ""
		for _, fct := range factsAt(call.Block()) {
			if l == nil || !l.Blocks[fct.If.Block()] || fct.If.Block() == l.Head {
				continue
			}
			cond, _ := normCond(fct.Cond, fct.Truth)
			if w, ok := cond.(*ssa.Call); ok && w.Call.IsInvoke() && mname(w.Call.Method) == "Walk" {
				continue
			}
			extra = strings.TrimSpace(cond.String())
		}
		if l == nil {
			c.violate("C01.roots", key+":loop", call.Pos(), key, "AddRoot is not called from a loop over the roots")
		} else if extra != "" {
			c.violate("C01.roots", key+":every-walked-root", call.Pos(), key, "whether a walked root is fed to rev-list depends on a further condition ("+extra+"): some selected roots would not be traversed")
		} else {
			ec := c.newEventCounter(func(in ssa.Instruction) int {
				if in == ssa.Instruction(call) {
					return 1
				}
				return 0
			}, false)
			if r := ec.perIteration(l); r.Max == 1 {
				c.hold("C01.roots", key+":every-walked-root", call.Pos(), "within one iteration AddRoot depends on Walk() alone and is called at most once")
			} else {
				c.violate("C01.roots", key+":every-walked-root", call.Pos(), key, fmt.Sprintf("AddRoot is called %s times per root", rangeStr(r)))
			}
		}
		// the root iterates over the scanner's roots parameter
		c.checkRootsSource(root, f, call)
	}
}

// checkRootsSource: root must be an element of the `roots` parameter of
// the exported scan function.
func (c *Ctx) checkRootsSource(root ssa.Value, f *ssa.Function, at *ssa.Call) {
	u, ok := root.(*ssa.UnOp)
	if !ok {
		c.undecided("C01.roots", fnName(f)+":roots-source", at.Pos(), fnName(f), "cannot tell which collection the walked root comes from")
		return
	}
	ia, ok := u.X.(*ssa.IndexAddr)
	if !ok {
		c.undecided("C01.roots", fnName(f)+":roots-source", at.Pos(), fnName(f), "walked root is not an element of a slice")
		return
	}
	src := c.resolve(ia.X)
	if p, ok := src.(*ssa.Parameter); ok && rootFn(f) == p.Parent() {
		c.hold("C01.roots", fnName(f)+":roots-source", at.Pos(), "roots are the elements of parameter "+p.Name()+" of "+fnName(p.Parent()))
		return
	}
	c.undecided("C01.roots", fnName(f)+":roots-source", at.Pos(), fnName(f), "walked roots are not the elements of the scanner's roots parameter")
}

func ruleC01Dispatch(c *Ctx) {
	si := c.scanModel()
	if len(si.Problems) > 0 || si.HeaderLoop == nil {
		c.violate("C01.dispatch", "scan-loop", token.NoPos, "", "cannot identify the header loop: "+strings.Join(si.Problems, "; "))
		return
	}
	name := fnName(si.Fn)
	// literals
	want := map[string]bool{"tree": true, "commit": true, "tag": true}
	for _, li := range si.Lists {
		if !want[li.Literal] {
			c.violate("C01.dispatch", "list-literal:"+li.Literal, li.Append.Pos(), name, fmt.Sprintf("a list is filled under object type %q, expected tree/commit/tag", li.Literal))
		}
		delete(want, li.Literal)
	}
	for lit := range want {
		c.violate("C01.dispatch", "arm:"+lit, si.NextCall.Pos(), name, "no list is filled for headers of type "+lit+": such objects are never registered")
	}
	if len(si.BlobCalls) != 1 {
		c.violate("C01.dispatch", "arm:blob", si.NextCall.Pos(), name, fmt.Sprintf("expected one RegisterBlob call in the header loop, found %d", len(si.BlobCalls)))
	} else if lit := c.typeLiteralAt(si.BlobCalls[0].Block(), si.NextCall); lit != "blob" {
		c.violate("C01.dispatch", "arm:blob:literal", si.BlobCalls[0].Pos(), name, fmt.Sprintf("RegisterBlob is reached for object type %q", lit))
	}
	// exactly one dispatch event per iteration
	events := map[ssa.Instruction]bool{}
	for _, b := range si.BlobCalls {
		events[b] = true
	}
	for _, li := range si.Lists {
		events[li.Append] = true
	}
	ec := c.newEventCounter(func(in ssa.Instruction) int {
		if events[in] {
			return 1
		}
		return 0
	}, false)
	r := ec.perIteration(si.HeaderLoop)
	if r.Min == 1 && r.Max == 1 {
		c.hold("C01.dispatch", "once-per-header", si.NextCall.Pos(), "every path through one iteration of the header loop performs exactly one of: RegisterBlob, append to the tree/commit/tag list")
	} else {
		c.violate("C01.dispatch", "once-per-header", si.NextCall.Pos(), name, fmt.Sprintf("a header is dispatched between %d and %d times per iteration (must be exactly once): objects are dropped or counted twice", r.Min, r.Max))
	}
	// the default arm leaves with an error: every path that skips all four arms must not reach the back edge (implied by Min==1)
	// each list: one feed loop, one read loop, same direction, one request / one Next+Register per iteration
	requestObject := c.fn("/git", "*BatchObjectIter", "RequestObject")
	batchNext := c.fn("/git", "*BatchObjectIter", "Next")
	regs := map[string]*ssa.Function{
		"tree":   c.fn("/sizes", "*Graph", "RegisterTree"),
		"commit": c.fn("/sizes", "*Graph", "RegisterCommit"),
		"tag":    c.fn("/sizes", "*Graph", "RegisterTag"),
	}
	for _, li := range si.Lists {
		lit := li.Literal
		if len(li.FeedLoops) != 1 || len(li.ReadLoops) != 1 {
			c.violate("C01.dispatch", "list:"+lit+":loops", li.Append.Pos(), name, fmt.Sprintf("the %s list must be requested by exactly one loop and read back by exactly one loop over the same list; found %d request loop(s), %d read loop(s)", lit, len(li.FeedLoops), len(li.ReadLoops)))
			continue
		}
		fl, rl := li.FeedLoops[0], li.ReadLoops[0]
		if fl.Desc() != rl.Desc() && c.loopIndexesList(rl) {
			c.violate("C01.dispatch", "list:"+lit+":direction", rl.L.Head.Instrs[0].Pos(), name, "the "+lit+" list is requested and read back in opposite directions")
		}
		cnt := func(l *scanLoop, callee *ssa.Function) countRange {
			ec := c.newEventCounter(func(in ssa.Instruction) int {
				if call, ok := in.(*ssa.Call); ok && callee != nil && call.Call.StaticCallee() == callee {
					return 1
				}
				return 0
			}, false)
			return ec.perIteration(l.L)
		}
		okAll := true
		if r := cnt(fl, requestObject); r.Min != 1 || r.Max != 1 {
			okAll = false
			c.violate("C01.dispatch", "list:"+lit+":request-once", posOf(fl.L.Head.Instrs[0]), fnName(fl.Fn), fmt.Sprintf("each %s is requested between %d and %d times (must be exactly once)", lit, r.Min, r.Max))
		}
		if r := cnt(rl, batchNext); r.Min != 1 || r.Max != 1 {
			okAll = false
			c.violate("C01.dispatch", "list:"+lit+":read-once", posOf(rl.L.Head.Instrs[0]), name, fmt.Sprintf("between %d and %d objects are read per listed %s (must be exactly one)", r.Min, r.Max, lit))
		}
		if reg := regs[lit]; reg == nil {
			okAll = false
			c.violate("C01.dispatch", "list:"+lit+":register", token.NoPos, name, "Register function for "+lit+" not found")
		} else if r := cnt(rl, reg); r.Min != 1 || r.Max != 1 {
			okAll = false
			c.violate("C01.dispatch", "list:"+lit+":register-once", posOf(rl.L.Head.Instrs[0]), name, fmt.Sprintf("each listed %s is registered between %d and %d times (must be exactly once on every path that continues the scan)", lit, r.Min, r.Max))
		}
		// requested id is the list element's id
		if !c.feedsElementOID(fl, requestObject) {
			okAll = false
			c.violate("C01.dispatch", "list:"+lit+":request-arg", posOf(fl.L.Head.Instrs[0]), fnName(fl.Fn), "the id requested is not the id stored in the list element of this iteration")
		}
		if okAll {
			c.hold("C01.dispatch", "list:"+lit, li.Append.Pos(), "one request loop and one read loop over the same list, same direction, exactly one RequestObject / Next / Register per element")
		}
	}
	// order of the request loops == order of the read loops
	var feedOrder, readOrder []string
	for _, a := range si.Lists {
		if len(a.FeedLoops) != 1 || len(a.ReadLoops) != 1 {
			return
		}
	}
	ordered := func(get func(*listInfo) *scanLoop) []string {
		ls := append([]*listInfo{}, si.Lists...)
		// selection sort by dominance
		var out []string
		for len(ls) > 0 {
			pick := 0
			for i := range ls {
				if i != pick && get(ls[i]).L.Head.Dominates(get(ls[pick]).L.Head) {
					pick = i
				}
			}
			out = append(out, ls[pick].Literal)
			ls = append(ls[:pick], ls[pick+1:]...)
		}
		return out
	}
	feedOrder = ordered(func(l *listInfo) *scanLoop { return l.FeedLoops[0] })
	readOrder = ordered(func(l *listInfo) *scanLoop { return l.ReadLoops[0] })
	if strings.Join(feedOrder, ",") != strings.Join(readOrder, ",") {
		c.violate("C01.dispatch", "phase-order", si.NextCall.Pos(), name, fmt.Sprintf("objects are requested in the order %v but read back in the order %v", feedOrder, readOrder))
	} else {
		c.hold("C01.dispatch", "phase-order", si.NextCall.Pos(), "request order = read order = "+strings.Join(feedOrder, ", "))
	}
}

// feedsElementOID: the argument of the single RequestObject call in the
// loop is a field of cell[index-of-this-iteration].
func (c *Ctx) feedsElementOID(l *scanLoop, requestObject *ssa.Function) bool {
	ok := false
	for b := range l.L.Blocks {
		for _, in := range b.Instrs {
			call, isCall := in.(*ssa.Call)
			if !isCall || call.Call.StaticCallee() != requestObject {
				continue
			}
			base, path := c.fieldPath(c.resolve(call.Call.Args[1]))
			if base == nil || len(path) == 0 {
				return false
			}
			ok = c.isLoopElement(base, l)
		}
	}
	return ok
}

// isLoopElement: v is (a copy of) cell[i] for the loop's current index.
func (c *Ctx) isLoopElement(v ssa.Value, l *scanLoop) bool {
	for i := 0; i < 6; i++ {
		switch x := v.(type) {
		case *ssa.Alloc:
			st := c.cellStores(x)
			if len(st) != 1 {
				return false
			}
			v = st[0].Val
		case *ssa.UnOp:
			if x.Op != token.MUL {
				return false
			}
			v = x.X
		case *ssa.IndexAddr:
			if id := c.listID(x.X); id == nil || id != l.Var {
				return false
			}
			return c.isLoopIndex(x.Index, l)
		default:
			return false
		}
	}
	return false
}

func (c *Ctx) isLoopIndex(idx ssa.Value, l *scanLoop) bool {
	if l.Mirror {
		return c.mirrorIndex(idx, l)
	}
	if !l.Descending {
		// rotated range: index is phi+1 ; plain for: phi
		if bo, ok := idx.(*ssa.BinOp); ok && bo.Op == token.ADD && bo.X == ssa.Value(l.IndexPhi) {
			n, ok := constInt(bo.Y)
			return ok && n == 1
		}
		return idx == ssa.Value(l.IndexPhi)
	}
	// a second counter kept in step with the loop's own (the element index
	// next to a count of what remains)
	if ip, isPhi := idx.(*ssa.Phi); isPhi && ip != l.IndexPhi && l.IndexPhi != nil {
		same := func(a, b ssa.Value) bool {
			ca, ok1 := a.(*ssa.Call)
			cb, ok2 := b.(*ssa.Call)
			if ok1 && ok2 && isBuiltin(&ca.Call, "len") && isBuiltin(&cb.Call, "len") {
				ia, ib := c.listID(ca.Call.Args[0]), c.listID(cb.Call.Args[0])
				return ia != nil && ia == ib
			}
			return false
		}
		if d, ok := lockstep(ip, l.IndexPhi, same); ok {
			if l.FromLen {
				return d == -1
			}
			return d == 0
		}
		return false
	}
	if l.FromLen {
		bo, ok := idx.(*ssa.BinOp)
		if !ok || bo.Op != token.SUB || bo.X != ssa.Value(l.IndexPhi) {
			return false
		}
		n, ok := constInt(bo.Y)
		return ok && n == 1
	}
	return idx == ssa.Value(l.IndexPhi)
}

func ruleC01Effects(c *Ctx) {
	checkEffects(c, "C01", "C01.effects")
	c.checkEntryCountOnce("C01.effects")
	// provenance: id and size/data handed to a Register* call come from the same record
	si := c.scanModel()
	if si.Fn == nil {
		return
	}
	batchNext := c.fn("/git", "*BatchObjectIter", "Next")
	for _, reg := range []struct{ name, parse string }{{"RegisterBlob", ""}, {"RegisterTree", "ParseTree"}, {"RegisterCommit", "ParseCommit"}, {"RegisterTag", "ParseTag"}} {
		f := c.fn("/sizes", "*Graph", reg.name)
		if f == nil {
			c.violate("C01.effects", "provenance:"+reg.name, token.NoPos, "", "(*sizes.Graph)."+reg.name+" not found")
			continue
		}
		calls := callsTo(si.Fn, f)
		if len(calls) == 0 {
			c.violate("C01.effects", "provenance:"+reg.name, token.NoPos, fnName(si.Fn), reg.name+" is never called by the scanner")
			continue
		}
		for _, call := range calls {
			oidBase, oidPath := c.fieldPath(c.throughLocalStruct(call.Call.Args[1]))
			if oidBase == nil || oidPath[len(oidPath)-1] != "OID" {
				c.violate("C01.effects", "provenance:"+reg.name+":oid", call.Pos(), fnName(si.Fn), "the object id registered is not the OID field of the record just read")
				continue
			}
			var recBase ssa.Value
			if reg.parse == "" {
				b, p := c.fieldPath(c.throughLocalStruct(call.Call.Args[2]))
				if b == nil || p[len(p)-1] != "ObjectSize" {
					c.violate("C01.effects", "provenance:"+reg.name+":size", call.Pos(), fnName(si.Fn), "the size registered is not the ObjectSize field of the header just read")
					continue
				}
				recBase = b
				if !c.holdsResult(oidBase, si.NextCall, 0) {
					c.violate("C01.effects", "provenance:"+reg.name+":record", call.Pos(), fnName(si.Fn), "the registered blob is not the header returned by this iteration's Next()")
					continue
				}
			} else {
				ex, ok := c.resolve(call.Call.Args[2]).(*ssa.Extract)
				var pcall *ssa.Call
				if ok {
					pcall, _ = ex.Tuple.(*ssa.Call)
				}
				if pcall == nil || pcall.Call.StaticCallee() == nil || refQ(pcall.Call.StaticCallee()) != modQ("/git", "", reg.parse) {
					c.violate("C01.effects", "provenance:"+reg.name+":parsed", call.Pos(), fnName(si.Fn), "the object registered is not the result of git."+reg.parse)
					continue
				}
				b, p := c.fieldPath(c.resolve(pcall.Call.Args[1]))
				if b == nil || p[len(p)-1] != "Data" {
					c.violate("C01.effects", "provenance:"+reg.name+":data", pcall.Pos(), fnName(si.Fn), "git."+reg.parse+" is not given the Data field of the record just read")
					continue
				}
				recBase = b
				// the record is the result of a BatchObjectIter.Next in the same iteration
				okRec := false
				for _, nx := range callsTo(si.Fn, batchNext) {
					if c.holdsResult(recBase, nx, 0) && nx.Block().Dominates(call.Block()) {
						okRec = true
					}
				}
				if !okRec {
					c.violate("C01.effects", "provenance:"+reg.name+":record", call.Pos(), fnName(si.Fn), "the parsed data do not come from the record returned by this iteration's Next()")
					continue
				}
			}
			if c.baseCell(oidBase) != c.baseCell(recBase) {
				c.violate("C01.effects", "provenance:"+reg.name+":same-record", call.Pos(), fnName(si.Fn), "object id and size/data passed to "+reg.name+" come from different records")
				continue
			}
			c.hold("C01.effects", "provenance:"+reg.name, call.Pos(), "id and size/data derive from the same record of the same iteration")
		}
	}
}

func (c *Ctx) baseCell(v ssa.Value) ssa.Value {
	if u, ok := v.(*ssa.UnOp); ok && u.Op == token.MUL {
		return u.X
	}
	return v
}

func ruleC01Rootset(c *Ctx) {
	scan := c.fn("/sizes", "", "ScanRepositoryUsingGraph")
	if scan == nil {
		c.violate("C01.rootset", "scan", token.NoPos, "", "sizes.ScanRepositoryUsingGraph not found")
		return
	}
	collect := c.fn("/sizes", "", "CollectReferences")
	newExplicit := c.fn("/sizes", "", "NewExplicitRoot")
	resolveObj := c.fn("/git", "*Repository", "ResolveObject")
	for _, ci := range c.Callers[scan] {
		call, ok := ci.(*ssa.Call)
		if !ok {
			continue
		}
		f := call.Parent()
		name := fnName(f)
		// roots parameter index
		ridx := -1
		for i, p := range scan.Params {
			if s, ok := p.Type().Underlying().(*types.Slice); ok && isNamed(s.Elem(), modPath+"/sizes", "Root") {
				ridx = i
			}
		}
		if ridx < 0 {
			c.violate("C01.rootset", "roots-param", scan.Pos(), fnName(scan), "the scanner has no []sizes.Root parameter")
			return
		}
		// walk the append chain
		var appends []*ssa.Call
		var adds []rootAdd
		var bases []ssa.Value
		seen := map[ssa.Value]bool{}
		var walk func(v ssa.Value)
		walk = func(v ssa.Value) {
			if seen[v] {
				return
			}
			seen[v] = true
			switch x := v.(type) {
			case *ssa.Phi:
				for _, e := range x.Edges {
					walk(e)
				}
			case *ssa.Call:
				if isBuiltin(&x.Call, "append") {
					appends = append(appends, x)
					walk(x.Call.Args[0])
					return
				}
				bases = append(bases, v)
			case *ssa.UnOp:
				if cell := c.cellOf(x.X); cell != nil && x.Op == token.MUL {
					for _, st := range c.cellStores(cell) {
						walk(st.Val)
					}
					return
				}
				bases = append(bases, v)
			default:
				bases = append(bases, v)
			}
		}
		walk(call.Call.Args[ridx])
		// the roots may be assembled by a helper: continue in its results
		for pass := 0; pass < 3; pass++ {
			var next []ssa.Value
			for _, b := range bases {
				var hc *ssa.Call
				idx := 0
				switch x := b.(type) {
				case *ssa.Extract:
					hc, _ = x.Tuple.(*ssa.Call)
					idx = x.Index
				case *ssa.Call:
					hc = x
				}
				if hc != nil && hc.Call.StaticCallee() != nil && c.inRuleScope(hc.Call.StaticCallee()) && len(hc.Call.StaticCallee().Blocks) > 0 && !isBuiltin(&hc.Call, "append") {
					cal := hc.Call.StaticCallee()
					f = cal
					name = fnName(cal)
					for _, ret := range returnsOf(cal) {
						for _, rv := range c.resultValues(ret, idx) {
							if !isNilConst(rv) {
								old := bases
								bases = nil
								walk(rv)
								next = append(next, bases...)
								bases = old
							}
						}
					}
					continue
				}
				next = append(next, b)
			}
			bases = next
		}
		for _, b := range bases {
			switch b.(type) {
			case *ssa.MakeSlice:
			case *ssa.Const:
			default:
				c.violate("C01.rootset", name+":base", call.Pos(), name, fmt.Sprintf("the roots slice starts from something other than an empty slice (%T)", b))
			}
			if ms, ok := b.(*ssa.MakeSlice); ok {
				if n, ok := constInt(ms.Len); !ok || n != 0 {
					// make([]Root, p+q) filled by index: [0,p) from one loop, [p,p+q) from another
					if fills, ok := c.indexedFill(ms); ok {
						adds = append(adds, fills...)
					} else {
						c.violate("C01.rootset", name+":base-len", call.Pos(), name, "the roots slice is created with a non-zero length: zero-valued roots would be scanned")
					}
				}
			}
		}
		sawRef, sawExplicit := false, false
		for _, ap := range appends {
			elems := c.sliceElemValues(ap.Call.Args[1])
			if len(elems) != 1 {
				c.violate("C01.rootset", name+":append-shape", ap.Pos(), name, "roots are appended other than one at a time")
				continue
			}
			adds = append(adds, rootAdd{ap, elems[0]})
		}
		for _, ad := range adds {
			var ap ssa.Instruction = ad.At
			el := ad.Elem
			if mi, ok := el.(*ssa.MakeInterface); ok {
				el = mi.X
			}
			el = c.resolve(el)
			l := innermostLoop(loopsOf(ap.Parent()), ap.Block())
			switch x := el.(type) {
			case *ssa.UnOp:
				// element of CollectReferences' result
				ia, ok := x.X.(*ssa.IndexAddr)
				fromCollect := false
				if ok {
					if ex, ok := c.resolve(ia.X).(*ssa.Extract); ok && ex.Index == 0 {
						if cc, ok := ex.Tuple.(*ssa.Call); ok && collect != nil && cc.Call.StaticCallee() == collect {
							fromCollect = true
						}
					}
				}
				if !fromCollect || l == nil {
					c.violate("C01.rootset", name+":foreign-root", ap.Pos(), name, "a root is appended that is neither a collected reference nor an explicit ROOT")
					continue
				}
				sawRef = true
				c.checkOncePerIter(l, ap, "C01.rootset", name+":every-reference", "every collected reference becomes a root (exactly one append per iteration)")
			case *ssa.Call:
				if newExplicit == nil || x.Call.StaticCallee() != newExplicit {
					c.violate("C01.rootset", name+":foreign-root", ap.Pos(), name, "a root is appended that is neither a collected reference nor an explicit ROOT")
					continue
				}
				sawExplicit = true
				// NewExplicitRoot(arg, oid) with oid = ResolveObject(arg) for the same arg
				oid, ok := c.resolve(x.Call.Args[1]).(*ssa.Extract)
				var rc *ssa.Call
				if ok {
					rc, _ = oid.Tuple.(*ssa.Call)
				}
				if rc == nil || resolveObj == nil || rc.Call.StaticCallee() != resolveObj || oid.Index != 0 {
					c.violate("C01.rootset", name+":explicit-oid", x.Pos(), name, "the id of an explicit root is not the result of ResolveObject")
				} else if c.resolve(rc.Call.Args[1]) != c.resolve(x.Call.Args[0]) {
					c.violate("C01.rootset", name+":explicit-same-arg", x.Pos(), name, "an explicit root is named after one argument but resolved from another")
				} else if !c.isElemOfFlagArgs(c.resolve(x.Call.Args[0])) {
					c.undecided("C01.rootset", name+":explicit-args", x.Pos(), name, "explicit roots do not iterate over flags.Args()")
				} else if l != nil {
					c.checkOncePerIter(l, ap, "C01.rootset", name+":every-arg", "every ROOT argument becomes a root named after itself and resolved from itself")
				}
			default:
				c.violate("C01.rootset", name+":foreign-root", ap.Pos(), name, "a root is appended that is neither a collected reference nor an explicit ROOT")
			}
		}
		if !sawRef {
			c.violate("C01.rootset", name+":references", call.Pos(), name, "the collected references are not added to the roots")
		}
		if !sawExplicit {
			c.violate("C01.rootset", name+":explicit", call.Pos(), name, "explicit ROOT arguments are not added to the roots")
		}
	}
	if len(c.Callers[scan]) == 0 {
		c.violate("C01.rootset", "scan-callers", scan.Pos(), fnName(scan), "the scanner is never called")
	}
}

// checkOncePerIter: event in occurs exactly once on every path through an
// iteration of l that reaches the back edge.
func (c *Ctx) checkOncePerIter(l *loop, ev ssa.Instruction, rule, key, note string) {
	ec := c.newEventCounter(func(in ssa.Instruction) int {
		if in == ev {
			return 1
		}
		return 0
	}, false)
	r := ec.perIteration(l)
	if r.Min == 1 && r.Max == 1 {
		c.hold(rule, key, ev.Pos(), note)
	} else {
		c.violate(rule, key, ev.Pos(), fnName(ev.Parent()), fmt.Sprintf("expected exactly one occurrence per iteration, found between %d and %d: %s", r.Min, r.Max, note))
	}
}

// isElemOfFlagArgs: v is an element of the slice returned by (*pflag.FlagSet).Args.
func (c *Ctx) isElemOfFlagArgs(v ssa.Value) bool {
	u, ok := v.(*ssa.UnOp)
	if !ok {
		return false
	}
	ia, ok := u.X.(*ssa.IndexAddr)
	if !ok {
		return false
	}
	src := c.resolve(ia.X)
	if p, ok := src.(*ssa.Parameter); ok {
		idx := paramIndex(p)
		n := 0
		for _, ci := range c.Callers[p.Parent()] {
			if idx < len(ci.Common().Args) {
				call, ok := c.resolve(ci.Common().Args[idx]).(*ssa.Call)
				if !ok || calleeQ(&call.Call) != "(*github.com/spf13/pflag.FlagSet).Args" {
					return false
				}
				n++
			}
		}
		return n > 0
	}
	call, ok := src.(*ssa.Call)
	return ok && calleeQ(&call.Call) == "(*github.com/spf13/pflag.FlagSet).Args"
}

func ruleC01Once(c *Ctx) {
	// record* and finalize* have exactly one static caller each
	for _, m := range []string{"recordBlob", "recordTree", "recordCommit", "recordTag"} {
		f := c.fn("/sizes", "*HistorySize", m)
		if f == nil {
			continue // unexported helper may be renamed or inlined; the effect graph still sees the updates
		}
		n := len(c.Callers[f])
		if n == 1 {
			c.hold("C01.once", "single-caller:"+m, f.Pos(), "called from "+fnName(c.Callers[f][0].Parent()))
		} else {
			c.violate("C01.once", "single-caller:"+m, f.Pos(), fnName(f), fmt.Sprintf("%s has %d callers: an object kind could be counted from two places", m, n))
		}
	}
	// every update site of the census counters is reached from exactly one Register entry point
	e := c.effects()
	entry := map[string]string{
		"H:unique_blob_count": "RegisterBlob", "H:unique_blob_size": "RegisterBlob",
		"H:unique_tree_count": "RegisterTree", "H:unique_tree_size": "RegisterTree", "H:unique_tree_entries": "RegisterTree",
		"H:unique_commit_count": "RegisterCommit", "H:unique_commit_size": "RegisterCommit",
		"H:unique_tag_count": "RegisterTag",
	}
	for tgt, reg := range entry {
		eds := e.ByNode[tgt]
		if len(eds) != 1 {
			c.violate("C01.once", "single-site:"+tgt, token.NoPos, "", fmt.Sprintf("%s is updated at %d sites (must be exactly one)", tgt, len(eds)))
			continue
		}
		c.hold("C01.once", "single-site:"+tgt, posOf(eds[0].Site), "one update site, in "+fnName(eds[0].Fn)+" ("+reg+" path)")
	}
	// "registered twice" panics precede any other call
	for _, spec := range []struct{ fn, mapField string }{{"RegisterTree", "treeSizes"}, {"RegisterCommit", "commitSizes"}, {"RegisterTag", "tagSizes"}} {
		f := c.fn("/sizes", "*Graph", spec.fn)
		if f == nil {
			c.violate("C01.once", "twice-guard:"+spec.fn, token.NoPos, "", "(*sizes.Graph)."+spec.fn+" not found")
			continue
		}
		c.checkTwiceGuard(f, spec.fn)
	}
	// finalizers (recognised by the final-size map they fill) only under pending == 0
	fins := c.finalizers()
	for _, kind := range []string{"tree", "tag"} {
		f := fins[kind]
		if f == nil {
			c.violate("C01.once", "finalizer:"+kind, token.NoPos, "", "no *Graph method publishes final "+kind+" sizes")
			continue
		}
		if len(c.Callers[f]) == 0 {
			c.violate("C01.once", "finalize-guard:"+kind, f.Pos(), fnName(f), "the "+kind+" finalizer is never called")
		}
		for _, ci := range c.Callers[f] {
			if c.isPendingZeroGuarded(ci.Block()) {
				c.hold("C01.once", "finalize-guard:"+kind+"@"+fnName(ci.Parent()), ci.Pos(), "reached only when the pending counter is 0")
			} else {
				c.violate("C01.once", "finalize-guard:"+kind+"@"+fnName(ci.Parent()), ci.Pos(), fnName(ci.Parent()), "the "+kind+" finalizer is reached without the pending==0 test: a "+kind+" would be counted before (or more than once while) its dependencies resolve")
			}
		}
	}
}

// checkTwiceGuard: the function panics when the object already has a final
// size, and that test precedes every call other than lock operations.
func (c *Ctx) checkTwiceGuard(f *ssa.Function, what string) {
	var guardIf *ssa.If
	for _, b := range f.Blocks {
		if !endsInPanic(b) {
			continue
		}
		for _, fact := range factsAt(b) {
			cond, truth := normCond(fact.Cond, fact.Truth)
			ex, ok := cond.(*ssa.Extract)
			if !ok || !truth || ex.Index != 1 {
				continue
			}
			lk, ok := ex.Tuple.(*ssa.Lookup)
			if !ok || !lk.CommaOk {
				continue
			}
			// key is the oid parameter
			if c.resolve(lk.Index) != ssa.Value(f.Params[1]) {
				continue
			}
			guardIf = fact.If
		}
	}
	if guardIf == nil {
		c.violate("C01.once", "twice-guard:"+what, f.Pos(), fnName(f), what+" no longer panics when the object already has a final size: a repeated object would be counted twice")
		return
	}
	bad := false
	allInstrs(f, func(in ssa.Instruction) {
		call, ok := in.(*ssa.Call)
		if !ok {
			return
		}
		q := calleeQ(&call.Call)
		if strings.HasPrefix(q, "(*sync.Mutex).") || strings.HasPrefix(q, "builtin") || strings.HasPrefix(q, "fmt.") || strings.HasPrefix(q, "(github.com/github/git-sizer/git.OID)") {
			return
		}
		if !instrDominates(guardIf, call) {
			bad = true
			c.violate("C01.once", "twice-guard:"+what+":order", call.Pos(), fnName(f), "a call ("+q+") is made before the registered-twice test")
		}
	})
	if !bad {
		c.hold("C01.once", "twice-guard:"+what, guardIf.Pos(), "panics on a second registration before doing anything else")
	}
}

// checkEntryCountOnce: the per-tree entry counter is bumped exactly once
// per tree entry, on every path through the entry loop.
func (c *Ctx) checkEntryCountOnce(rule string) {
	el := c.entryLoop()
	if el == nil || el.Fn == nil {
		c.violate(rule, "entry-loop", token.NoPos, "", "cannot find the single loop that iterates (*git.TreeIter).NextEntry")
		return
	}
	roles, _ := c.effects().bindRoles()
	en := roles["$E"]
	ec := c.effectCounter(func(ed *effEdge) bool { return ed.Target == en && ed.Op == "ADD" && termsKey(ed.Terms) == "const:1" }, true)
	if r := ec.perIteration(el.L); r.Min == 1 && r.Max == 1 {
		c.hold(rule, "entry-count-once", el.Call.Pos(), "the entry counter is incremented by 1 exactly once on every path through an iteration of the tree-entry loop")
	} else {
		c.violate(rule, "entry-count-once", el.Call.Pos(), fnName(el.Fn), fmt.Sprintf("the per-tree entry counter is incremented between %d and %d times per tree entry (must be exactly once in every entry-kind arm and in both delivery orders of a subtree)", r.Min, r.Max))
	}
}

// chanParam: the channel value is (a captured copy of) a parameter.
func (c *Ctx) chanParam(v ssa.Value) (*ssa.Parameter, bool) {
	v = c.resolve(v)
	if p, ok := v.(*ssa.Parameter); ok {
		return p, true
	}
	if u, ok := v.(*ssa.UnOp); ok && u.Op == token.MUL {
		if cell := c.cellOf(u.X); cell != nil {
			if st := c.cellStores(cell); len(st) == 1 {
				if p, ok := st[0].Val.(*ssa.Parameter); ok {
					return p, true
				}
			}
		}
	}
	return nil, false
}

// loopIndexesList: the loop body reads elements of the list it counts over
// (only then does the direction of the loop matter: objects come back in
// request order whatever index the counting loop runs over).
func (c *Ctx) loopIndexesList(l *scanLoop) bool {
	found := false
	for b := range l.L.Blocks {
		for _, in := range b.Instrs {
			switch x := in.(type) {
			case *ssa.IndexAddr:
				if id := c.listID(x.X); id != nil && id == l.Var {
					found = true
				}
			case *ssa.Index:
				if id := c.listID(x.X); id != nil && id == l.Var {
					found = true
				}
			}
		}
	}
	return found
}

// ruleC01Borrowed: clauses decided under other properties' names on which
// the census depends as well: the pending bookkeeping of a record (one
// increment per registered listener, one decrement per callback, exactly one
// finalisation — a double finalisation counts the object twice), and
// --no-replace-objects on every git command (with replace references the
// enumeration walks the replacement's history).
func ruleC01Borrowed(c *Ctx) {
	c.RuleAlias = map[string]string{"C09.pending": "C01.once", "C13.isolation": "C01.argv"}
	defer func() { c.RuleAlias = nil }()
	ruleC09Pending(c)
	ruleC13Isolation(c)
}

// rootAdd: one place where a root enters the roots slice.
type rootAdd struct {
	At   ssa.Instruction
	Elem ssa.Value
}

// loopCounterBound: idx is the counter of a loop `for i := 0; i < N; i++`
// (or the rotated range form); returns N.
func (c *Ctx) loopCounterBound(f *ssa.Function, idx ssa.Value) (ssa.Value, bool) {
	phi, _ := idx.(*ssa.Phi)
	if bo, ok := idx.(*ssa.BinOp); ok && bo.Op == token.ADD {
		if k, isK := constInt(bo.Y); isK && k == 1 {
			phi, _ = bo.X.(*ssa.Phi)
		}
	}
	if phi == nil {
		return nil, false
	}
	l := loopWithHead(f, phi.Block())
	if l == nil {
		return nil, false
	}
	iff, ok := l.Head.Instrs[len(l.Head.Instrs)-1].(*ssa.If)
	if !ok {
		return nil, false
	}
	cmp, ok := iff.Cond.(*ssa.BinOp)
	if !ok || cmp.Op != token.LSS {
		return nil, false
	}
	if cmp.X != idx && cmp.X != ssa.Value(phi) {
		// rotated: cmp.X is phi+1 while the element index is phi+1 too
		if bo, ok := cmp.X.(*ssa.BinOp); !ok || bo.X != ssa.Value(phi) {
			return nil, false
		}
	}
	// starts at 0 (or -1 for the rotated form)
	for i, pred := range l.Head.Preds {
		if !l.Blocks[pred] {
			if k, ok := constInt(phi.Edges[i]); !ok || (k != 0 && k != -1) {
				return nil, false
			}
		}
	}
	return cmp.Y, true
}

// indexedFill recognises `s := make([]T, p+q)` followed by exactly two
// indexed assignments: s[i] for i over [0,p) and s[p+j] for j over [0,q).
func (c *Ctx) indexedFill(ms *ssa.MakeSlice) ([]rootAdd, bool) {
	lb, isSumLen := ms.Len.(*ssa.BinOp)
	if isSumLen && lb.Op != token.ADD {
		isSumLen = false
	}
	f := ms.Parent()
	sameLen := func(a, b ssa.Value) bool {
		if a == b {
			return true
		}
		ca, ok1 := a.(*ssa.Call)
		cb, ok2 := b.(*ssa.Call)
		if ok1 && ok2 && isBuiltin(&ca.Call, "len") && isBuiltin(&cb.Call, "len") {
			return c.resolve(ca.Call.Args[0]) == c.resolve(cb.Call.Args[0])
		}
		return false
	}
	var stores []*ssa.Store
	var idxs []ssa.Value
	var lows []ssa.Value // for a store through `s[low:]`: that low bound
	var collect func(v ssa.Value, low ssa.Value)
	collect = func(v ssa.Value, low ssa.Value) {
		for _, r := range *v.Referrers() {
			switch x := r.(type) {
			case *ssa.IndexAddr:
				for _, rr := range *x.Referrers() {
					if st, ok := rr.(*ssa.Store); ok && st.Addr == ssa.Value(x) {
						stores = append(stores, st)
						idxs = append(idxs, x.Index)
						lows = append(lows, low)
					}
				}
			case *ssa.Slice:
				// tail := s[p:] ; tail[j] = … fills s[p+j]
				if low == nil && x.Low != nil && x.High == nil && x.Max == nil {
					collect(x, x.Low)
				}
			}
		}
	}
	collect(ms, nil)
	if !isSumLen {
		// make([]T, p, cap) whose p elements are all assigned by one index
		// loop over [0,p) (further elements are appended)
		if len(stores) == 1 && lows[0] == nil {
			if n1, ok := c.loopCounterBound(f, idxs[0]); ok && sameLen(n1, ms.Len) {
				return []rootAdd{{stores[0], stores[0].Val}}, true
			}
		}
		return nil, false
	}
	if len(stores) != 2 {
		return nil, false
	}
	for _, pq := range [][2]ssa.Value{{lb.X, lb.Y}, {lb.Y, lb.X}} {
		p, q := pq[0], pq[1]
		for a := 0; a < 2; a++ {
			b := 1 - a
			// stores[a] fills [0,p), stores[b] fills [p,p+q)
			n1, ok1 := c.loopCounterBound(f, idxs[a])
			if !ok1 || !sameLen(n1, p) || lows[a] != nil {
				continue
			}
			if lows[b] != nil {
				// through the tail s[p:]: index j over [0,q)
				if sameLen(lows[b], p) {
					if n2, ok2 := c.loopCounterBound(f, idxs[b]); ok2 && sameLen(n2, q) {
						return []rootAdd{{stores[a], stores[a].Val}, {stores[b], stores[b].Val}}, true
					}
				}
				continue
			}
			sum, isSum := idxs[b].(*ssa.BinOp)
			if !isSum || sum.Op != token.ADD {
				continue
			}
			for _, tj := range [][2]ssa.Value{{sum.X, sum.Y}, {sum.Y, sum.X}} {
				if !sameLen(tj[0], p) {
					continue
				}
				if n2, ok2 := c.loopCounterBound(f, tj[1]); ok2 && sameLen(n2, q) {
					return []rootAdd{{stores[a], stores[a].Val}, {stores[b], stores[b].Val}}, true
				}
			}
		}
	}
	return nil, false
}
