package main

import (
	"fmt"
	"go/token"
	"go/types"
	"sort"
	"strings"

	"golang.org/x/tools/go/ssa"
)

func init() {
	register("C06",
		"Structural necessary conditions of C06 decided from /repo's SSA: (algebra) the Filter methods of the union/intersection/inverse/all/none helpers and Include/Exclude.Combine followed by Filter are interpreted over all assignments of the opaque atoms `f matches` and must equal a∨b, a∧b, ¬a, true, false, f | g∨f, ¬f | g∧¬f; Inverted swaps the two combiners — from these identities the last-matching-rule fold follows by induction on the option list; (fold) at every site that extends a filter the first Combine argument is the current value of the very field the result is stored to; (default) Finish turns a nil top-level filter into all-references iff its parameter is true, and the only caller passes len(flags.Args())==0; (flags) the include/exclude/…-regexp and the five --X/--no-X pairs are registered with the stated polarity, pattern and regexp bit; (prefix) the prefix filter's truth table is HasPrefix ∧ (ends-in-'/' ∨ equal length ∨ next byte '/') with the index evaluated only when in bounds; (anchor) a user pattern is wrapped in a group before being anchored; (flex) /…/, @…, else-prefix dispatch with in-bounds slicing. Not decided: regexp matching itself, pflag's in-order Set calls.",
		[]string{"spf13/pflag calls Value.Set in command-line order", "regexp semantics", "induction on the option list (on paper, DESIGN.md C06)"},
		ruleC06Algebra, ruleC06Fold, ruleC06Default, ruleC06Flags, ruleC06Prefix, ruleC06Anchor, ruleC06Flex, ruleC06RefGroup, ruleC06ImmutableOptions, ruleC06LastDot)
}

// combineCalls lists every call of a Combiner's Combine method.
func (c *Ctx) combineCalls() []*ssa.Call {
	var out []*ssa.Call
	for _, f := range c.ModFns {
		if pkgOf(f) == modPath+"/git" {
			continue
		}
		allInstrs(f, func(in ssa.Instruction) {
			call, ok := in.(*ssa.Call)
			if !ok {
				return
			}
			if call.Call.IsInvoke() && mname(call.Call.Method) == "Combine" && isNamed(call.Call.Value.Type(), modPath+"/git", "Combiner") {
				out = append(out, call)
				return
			}
			if cal := call.Call.StaticCallee(); cal != nil && refName(cal) == "Combine" && pkgOf(cal) == modPath+"/git" {
				out = append(out, call)
			}
		})
	}
	return out
}

func ruleC06Fold(c *Ctx) {
	calls := c.combineCalls()
	for _, call := range calls {
		f := call.Parent()
		args := call.Call.Args
		if !call.Call.IsInvoke() {
			args = args[1:] // drop receiver
		}
		key := fmt.Sprintf("%s@%s", fnName(f), c.combinerName(call))
		// result must be stored to a field; first arg must be the load of the same field of the same base
		var target *ssa.FieldAddr
		for _, r := range *call.Referrers() {
			if st, ok := r.(*ssa.Store); ok && st.Val == ssa.Value(call) {
				target, _ = st.Addr.(*ssa.FieldAddr)
			}
		}
		if target == nil {
			c.undecided("C06.fold", key, call.Pos(), fnName(f), "the combined filter is not stored back into a filter field")
			continue
		}
		u, ok := args[0].(*ssa.UnOp)
		var src *ssa.FieldAddr
		if ok {
			src, _ = u.X.(*ssa.FieldAddr)
		}
		if src == nil || fieldOfAddr(src).Var != fieldOfAddr(target).Var || !c.sameBase(src.X, target.X) {
			c.violate("C06.fold", key, call.Pos(), fnName(f), "Combine's first argument is not the current value of the filter being extended (arguments swapped or another filter used): option order would no longer decide")
			continue
		}
		// second argument must be a freshly built filter, not the accumulated one
		if u2, ok := args[1].(*ssa.UnOp); ok {
			if fa2, ok := u2.X.(*ssa.FieldAddr); ok && fieldOfAddr(fa2).Var == fieldOfAddr(target).Var {
				c.violate("C06.fold", key, call.Pos(), fnName(f), "Combine's second argument is the accumulated filter itself")
				continue
			}
		}
		c.hold("C06.fold", key, call.Pos(), "filter = Combine(filter, <new>) on field "+fieldOfAddr(target).String())
	}
	c.floor("C06.fold", 2, "sites that extend a reference filter")
}

func (c *Ctx) combinerName(call *ssa.Call) string {
	if call.Call.IsInvoke() {
		return "combiner@" + c.lineKey(call)
	}
	recv := call.Call.Args[0]
	if u, ok := recv.(*ssa.UnOp); ok {
		if g, ok := u.X.(*ssa.Global); ok {
			return g.Name() + "@" + c.lineKey(call)
		}
	}
	return "static@" + c.lineKey(call)
}

// sameBase: two address bases denote the same object (same SSA value, or
// loads of the same field chain from the same root).
func (c *Ctx) sameBase(a, b ssa.Value) bool {
	a, b = c.resolve(a), c.resolve(b)
	if a == b {
		return true
	}
	ua, ok1 := a.(*ssa.UnOp)
	ub, ok2 := b.(*ssa.UnOp)
	if ok1 && ok2 {
		fa, ok1 := ua.X.(*ssa.FieldAddr)
		fb, ok2 := ub.X.(*ssa.FieldAddr)
		if ok1 && ok2 && fieldOfAddr(fa).Var == fieldOfAddr(fb).Var {
			return c.sameBase(fa.X, fb.X)
		}
	}
	return false
}

func ruleC06Default(c *Ctx) {
	// argsEmpty: v is `len(flags.Args()) == 0` / `flags.NArg() == 0` (emptyWhen:
	// the truth value for which there are no ROOT arguments)
	argsEmpty := func(v ssa.Value) (ok, emptyWhen bool) {
		cond, truth := normCond(c.resolve(v), true)
		cmp, isCmp2 := cond.(*ssa.BinOp)
		if !isCmp2 {
			return false, false
		}
		n, isK := constInt(cmp.Y)
		if !isK || n != 0 {
			return false, false
		}
		count := false
		switch x := cmp.X.(type) {
		case *ssa.Call:
			if isBuiltin(&x.Call, "len") {
				if a, isCall := c.resolve(x.Call.Args[0]).(*ssa.Call); isCall && calleeQ(&a.Call) == "(*github.com/spf13/pflag.FlagSet).Args" {
					count = true
				}
			}
			if calleeQ(&x.Call) == "(*github.com/spf13/pflag.FlagSet).NArg" {
				count = true
			}
		}
		if !count {
			return false, false
		}
		switch cmp.Op {
		case token.EQL, token.LEQ:
			return true, truth
		case token.NEQ, token.GTR:
			return true, !truth
		}
		return false, false
	}
	seen := map[string]bool{}
	viaParam := map[*ssa.Parameter]bool{}
	judge := func(fn *ssa.Function, st *ssa.Store, val ssa.Value, facts []condFact) {
		mi, ok := val.(*ssa.MakeInterface)
		if !ok {
			return
		}
		u, ok := mi.X.(*ssa.UnOp)
		if !ok {
			return
		}
		g, ok := u.X.(*ssa.Global)
		if !ok || (g.Name() != "AllReferencesFilter" && g.Name() != "NoReferencesFilter") {
			return
		}
		ta, ok := st.Addr.(*ssa.FieldAddr)
		if !ok || !isNamed(fieldOfAddr(ta).StructT, modPath+"/internal/refopts", "refGroup") {
			return
		}
		name := fnName(fn)
		var nilOK, decided, emptyArgs bool
		for _, f := range facts {
			cond, truth := normCond(f.Cond, f.Truth)
			if p, isParam := c.resolve(cond).(*ssa.Parameter); isParam && isBoolType(p.Type()) {
				decided, emptyArgs = true, truth
				viaParam[p] = true
			}
			if isEmpty, emptyWhen := argsEmpty(cond); isEmpty {
				decided, emptyArgs = true, truth == emptyWhen
			}
			if cmp, ok := isCmp(cond, token.EQL, token.NEQ); ok && isNilConst(cmp.Y) && (cmp.Op == token.EQL) == truth {
				if lu, ok := cmp.X.(*ssa.UnOp); ok {
					if fa, ok := lu.X.(*ssa.FieldAddr); ok && fieldOfAddr(fa).Var == fieldOfAddr(ta).Var {
						nilOK = true
					}
				}
			}
		}
		wantEmpty := g.Name() == "AllReferencesFilter"
		seen[g.Name()] = true
		switch {
		case !nilOK:
			c.violate("C06.default", g.Name(), st.Pos(), name, "the default filter overwrites a filter that the options already built (not guarded by filter == nil)")
		case !decided || emptyArgs != wantEmpty:
			c.violate("C06.default", g.Name(), st.Pos(), name, fmt.Sprintf("%s is installed when 'no ROOT arguments' is %v (decided: %v): with no options and no ROOT nothing (or with only ROOTs everything) would be traversed", g.Name(), emptyArgs, decided))
		default:
			c.hold("C06.default", g.Name(), st.Pos(), fmt.Sprintf("installed iff filter==nil ∧ (no ROOT arguments)==%v", wantEmpty))
		}
	}
	for _, fn := range c.ModFns {
		fn := fn
		allInstrs(fn, func(in ssa.Instruction) {
			st, ok := in.(*ssa.Store)
			if !ok {
				return
			}
			if phi, isPhi := st.Val.(*ssa.Phi); isPhi {
				// `fallback := None; if defaultAll { fallback = All }; filter = fallback`
				for i, e := range phi.Edges {
					facts := append(factsOnEdge(phi.Block().Preds[i], phi.Block()), factsAt(st.Block())...)
					judge(fn, st, e, facts)
				}
				return
			}
			judge(fn, st, st.Val, factsAt(st.Block()))
		})
	}
	for _, g := range []string{"AllReferencesFilter", "NoReferencesFilter"} {
		if !seen[g] {
			c.violate("C06.default", g, token.NoPos, "", "git."+g+" is never installed as the default top-level filter")
		}
	}
	// a boolean parameter that decides receives `len(flags.Args()) == 0`
	for p := range viaParam {
		fn := p.Parent()
		idx := -1
		for i, q := range fn.Params {
			if q == p {
				idx = i
			}
		}
		for _, ci := range c.Callers[fn] {
			call, ok := ci.(*ssa.Call)
			if !ok || idx < 0 || idx >= len(call.Call.Args) {
				continue
			}
			if isEmpty, emptyWhen := argsEmpty(call.Call.Args[idx]); isEmpty && emptyWhen {
				c.hold("C06.default", "caller@"+fnName(call.Parent()), call.Pos(), fnName(fn)+"(len(flags.Args()) == 0)")
			} else {
				c.violate("C06.default", "caller@"+fnName(call.Parent()), call.Pos(), fnName(call.Parent()), fnName(fn)+" is not called with `len(flags.Args()) == 0`: the all/none default no longer follows the presence of ROOT arguments")
			}
		}
		if len(c.Callers[fn]) == 0 {
			c.violate("C06.default", "caller", fn.Pos(), fnName(fn), fnName(fn)+" is never called")
		}
	}
}

// flagReg is one pflag registration whose value is a composite literal.
type flagReg struct {
	Name      string
	Short     string
	Call      *ssa.Call
	ValueType string            // named type of the pflag.Value
	Fields    map[string]string // field name -> rendering of stored value
	ValueArg  ssa.Value
}

// flagRegs extracts the pflag registrations of the module.
func (c *Ctx) flagRegs() []*flagReg {
	if v, ok := c.memo["flagregs"]; ok {
		return v.([]*flagReg)
	}
	var out []*flagReg
	const fs = "(*github.com/spf13/pflag.FlagSet)."
	for _, f := range c.ModFns {
		allInstrs(f, func(in ssa.Instruction) {
			call, ok := in.(*ssa.Call)
			if !ok {
				return
			}
			q := calleeQ(&call.Call)
			if !strings.HasPrefix(q, fs) {
				return
			}
			m := strings.TrimPrefix(q, fs)
			args := call.Call.Args
			r := &flagReg{Call: call, Fields: map[string]string{}}
			switch m {
			case "Var":
				r.ValueArg = args[1]
				r.Name, _ = constStr(args[2])
			case "VarP", "VarPF":
				r.ValueArg = args[1]
				r.Name, _ = constStr(args[2])
				r.Short, _ = constStr(args[3])
			case "BoolVar", "IntVar", "StringVar", "Float64Var":
				r.ValueArg = args[1]
				r.Name, _ = constStr(args[2])
			case "BoolVarP", "IntVarP", "StringVarP":
				r.ValueArg = args[1]
				r.Name, _ = constStr(args[2])
				r.Short, _ = constStr(args[3])
			default:
				return
			}
			v := r.ValueArg
			if mi, ok := v.(*ssa.MakeInterface); ok {
				v = mi.X
			}
			if n := namedOf(v.Type()); n != nil {
				r.ValueType = typeName(n)
			}
			if al, ok := v.(*ssa.Alloc); ok {
				for _, ref := range *al.Referrers() {
					fa, ok := ref.(*ssa.FieldAddr)
					if !ok {
						continue
					}
					for _, st := range storesTo(fa) {
						r.Fields[vname(fieldOfAddr(fa).Var)] = c.renderVal(st.Val)
					}
				}
			}
			// a registration inside a loop over a constant table: one entry per table row
			if r.Name == "" {
				if nameArg := flagNameArg(call, m); nameArg != nil {
					if tbl, n := c.findConstTable(nameArg); tbl != nil {
						for i := 0; i < n; i++ {
							name, ok := c.evalWithRow(nameArg, tbl, i)
							if !ok {
								continue
							}
							ri := &flagReg{Name: name, Call: call, ValueType: r.ValueType, ValueArg: r.ValueArg, Fields: map[string]string{}}
							if rv, ok := c.rowValue(r.ValueArg, tbl, i); ok {
								// the value itself comes from the table row
								ri.ValueArg = rv
								vv := rv
								if mi, ok := vv.(*ssa.MakeInterface); ok {
									vv = mi.X
								}
								if n := namedOf(vv.Type()); n != nil {
									ri.ValueType = typeName(n)
								}
							}
							if (m == "VarP" || m == "VarPF" || strings.HasSuffix(m, "VarP")) && len(args) > 3 {
								if sh, ok := c.evalWithRow(args[3], tbl, i); ok {
									ri.Short = sh
								}
							}
							for k, val := range r.Fields {
								ri.Fields[k] = val
							}
							if al, ok := v.(*ssa.Alloc); ok {
								for _, ref := range *al.Referrers() {
									if fa, ok := ref.(*ssa.FieldAddr); ok {
										for _, st := range storesTo(fa) {
											if _, isConst := st.Val.(*ssa.Const); isConst {
												continue
											}
											if ev, ok := c.evalWithRowRendered(st.Val, tbl, i); ok {
												ri.Fields[vname(fieldOfAddr(fa).Var)] = ev
											}
										}
									}
								}
							}
							out = append(out, ri)
						}
						return
					}
				}
			}
			out = append(out, r)
		})
	}
	sort.SliceStable(out, func(i, j int) bool { return out[i].Call.Pos() < out[j].Call.Pos() })
	c.memo["flagregs"] = out
	return out
}

func flagNameArg(call *ssa.Call, method string) ssa.Value {
	args := call.Call.Args
	if len(args) > 2 {
		return args[2]
	}
	return nil
}

// constTable: rows of a local composite literal `[]struct{…}{ {…}, … }`.
type constTable struct {
	alloc *ssa.Alloc
	rows  map[int64]map[int]ssa.Value // row -> field index -> stored value
}

// findConstTable finds the table whose current row value v depends on.
func (c *Ctx) findConstTable(v ssa.Value) (*constTable, int) {
	var found *constTable
	n := 0
	seen := map[ssa.Value]bool{}
	var walk func(x ssa.Value, depth int)
	walk = func(x ssa.Value, depth int) {
		if x == nil || seen[x] || depth > 6 || found != nil {
			return
		}
		seen[x] = true
		switch y := x.(type) {
		case *ssa.BinOp:
			walk(y.X, depth+1)
			walk(y.Y, depth+1)
		case *ssa.Field:
			walk(y.X, depth+1)
		case *ssa.FieldAddr:
			walk(y.X, depth+1)
		case *ssa.UnOp:
			walk(y.X, depth+1)
		case *ssa.Alloc:
			for _, st := range c.cellStores(y) {
				walk(st.Val, depth+1)
			}
		case *ssa.IndexAddr:
			if _, isConst := y.Index.(*ssa.Const); isConst {
				return
			}
			sl, ok := c.resolve(y.X).(*ssa.Slice)
			if !ok {
				return
			}
			al, ok := sl.X.(*ssa.Alloc)
			if !ok {
				return
			}
			ln, ok := staticLenOf(al.Type())
			if !ok {
				return
			}
			t := &constTable{alloc: al, rows: map[int64]map[int]ssa.Value{}}
			for _, r := range *al.Referrers() {
				ia, ok := r.(*ssa.IndexAddr)
				if !ok {
					continue
				}
				row, ok := constInt(ia.Index)
				if !ok {
					continue
				}
				for _, rr := range *ia.Referrers() {
					if fa, ok := rr.(*ssa.FieldAddr); ok {
						for _, st := range storesTo(fa) {
							if t.rows[row] == nil {
								t.rows[row] = map[int]ssa.Value{}
							}
							t.rows[row][fa.Field] = st.Val
						}
					}
				}
			}
			found, n = t, int(ln)
		}
	}
	walk(v, 0)
	return found, n
}

// evalWithRow evaluates a string expression with the loop element bound to row i.
func (c *Ctx) evalWithRow(v ssa.Value, t *constTable, i int) (string, bool) {
	switch x := v.(type) {
	case *ssa.Const:
		return constStr(x)
	case *ssa.BinOp:
		if x.Op == token.ADD {
			a, ok1 := c.evalWithRow(x.X, t, i)
			b, ok2 := c.evalWithRow(x.Y, t, i)
			return a + b, ok1 && ok2
		}
	case *ssa.Field:
		if val, ok := t.rows[int64(i)][x.Field]; ok && c.dependsOnTable(x.X, t) {
			return constStr(val)
		}
	case *ssa.UnOp:
		if fa, ok := x.X.(*ssa.FieldAddr); ok && c.dependsOnTable(fa.X, t) {
			if val, ok := t.rows[int64(i)][fa.Field]; ok {
				return constStr(val)
			}
		}
	}
	return "", false
}

// rowValue: the value stored in row i for the table field v reads.
func (c *Ctx) rowValue(v ssa.Value, t *constTable, i int) (ssa.Value, bool) {
	fieldIdx := -1
	switch x := v.(type) {
	case *ssa.Field:
		if c.dependsOnTable(x.X, t) {
			fieldIdx = x.Field
		}
	case *ssa.UnOp:
		if fa, ok := x.X.(*ssa.FieldAddr); ok && c.dependsOnTable(fa.X, t) {
			fieldIdx = fa.Field
		}
	}
	if fieldIdx < 0 {
		return nil, false
	}
	val, ok := t.rows[int64(i)][fieldIdx]
	return val, ok
}

func (c *Ctx) evalWithRowRendered(v ssa.Value, t *constTable, i int) (string, bool) {
	var fieldIdx = -1
	switch x := v.(type) {
	case *ssa.Field:
		if c.dependsOnTable(x.X, t) {
			fieldIdx = x.Field
		}
	case *ssa.UnOp:
		if fa, ok := x.X.(*ssa.FieldAddr); ok && c.dependsOnTable(fa.X, t) {
			fieldIdx = fa.Field
		}
	}
	if fieldIdx < 0 {
		return "", false
	}
	val, ok := t.rows[int64(i)][fieldIdx]
	if !ok {
		// zero value of the field
		return "", false
	}
	return c.renderVal(val), true
}

// dependsOnTable: v is (a copy of) the current element of the table.
func (c *Ctx) dependsOnTable(v ssa.Value, t *constTable) bool {
	for i := 0; i < 6; i++ {
		switch x := v.(type) {
		case *ssa.UnOp:
			v = x.X
		case *ssa.Alloc:
			st := c.cellStores(x)
			if len(st) != 1 {
				return false
			}
			v = st[0].Val
		case *ssa.IndexAddr:
			sl, ok := c.resolve(x.X).(*ssa.Slice)
			return ok && sl.X == ssa.Value(t.alloc)
		default:
			return false
		}
	}
	return false
}

func (c *Ctx) renderVal(v ssa.Value) string {
	switch x := v.(type) {
	case *ssa.Const:
		if x.Value == nil {
			return "nil"
		}
		return x.Value.ExactString()
	case *ssa.MakeInterface:
		return c.renderVal(x.X)
	case *ssa.UnOp:
		if g, ok := x.X.(*ssa.Global); ok {
			return "global:" + g.Name()
		}
	case *ssa.Alloc:
		return "&" + x.Comment
	case *ssa.Parameter:
		return "param:" + x.Name()
	}
	return fmt.Sprintf("%T", v)
}

func ruleC06Flags(c *Ctx) {
	regs := map[string]*flagReg{}
	for _, r := range c.flagRegs() {
		regs[r.Name] = r
	}
	// which struct fields of the filter value hold combiner / pattern / regexp bit: by type
	attr := func(r *flagReg) (comb, pattern, re string, ok bool) {
		v := r.ValueArg
		if mi, isMI := v.(*ssa.MakeInterface); isMI {
			v = mi.X
		}
		n := namedOf(v.Type())
		if n == nil {
			return
		}
		st, isS := n.Underlying().(*types.Struct)
		if !isS {
			return
		}
		for i := 0; i < st.NumFields(); i++ {
			fv := st.Field(i)
			val, set := r.Fields[vname(fv)]
			switch {
			case isNamed(fv.Type(), modPath+"/git", "Combiner"):
				comb = val
				ok = set
			case isBoolType(fv.Type()):
				re = val
				if !set {
					re = "false"
				}
			default:
				if b, isB := fv.Type().Underlying().(*types.Basic); isB && b.Kind() == types.String {
					pattern = val
					if !set {
						pattern = `""`
					}
				}
			}
		}
		return
	}
	type want struct{ comb, pattern, re string }
	table := map[string]want{
		"include":        {"global:Include", `""`, "false"},
		"exclude":        {"global:Exclude", `""`, "false"},
		"include-regexp": {"global:Include", `""`, "true"},
		"exclude-regexp": {"global:Exclude", `""`, "true"},
	}
	for x, pat := range map[string][2]string{"branches": {`"refs/heads"`, "false"}, "tags": {`"refs/tags"`, "false"}, "remotes": {`"refs/remotes"`, "false"}, "notes": {`"refs/notes"`, "false"}, "stash": {`"refs/stash"`, "true"}} {
		table[x] = want{"global:Include", pat[0], pat[1]}
		table["no-"+x] = want{"global:Exclude", pat[0], pat[1]}
	}
	var names []string
	for n := range table {
		names = append(names, n)
	}
	sort.Strings(names)
	for _, n := range names {
		w := table[n]
		r := regs[n]
		if r == nil {
			c.violate("C06.flags", "--"+n, token.NoPos, "", "option --"+n+" is not registered")
			continue
		}
		comb, pattern, re, ok := attr(r)
		if !ok {
			c.undecided("C06.flags", "--"+n, r.Call.Pos(), fnName(r.Call.Parent()), "the option's value is not a literal with a combiner field")
			continue
		}
		if comb == w.comb && pattern == w.pattern && re == w.re {
			c.hold("C06.flags", "--"+n, r.Call.Pos(), fmt.Sprintf("combiner=%s pattern=%s regexp=%s", comb, pattern, re))
		} else {
			c.violate("C06.flags", "--"+n, r.Call.Pos(), fnName(r.Call.Parent()), fmt.Sprintf("option --%s is registered with combiner=%s pattern=%s regexp=%s; the documented meaning needs combiner=%s pattern=%s regexp=%s", n, comb, pattern, re, w.comb, w.pattern, w.re))
		}
	}
	// any other X/no-X pair of the same value type keeps the pairing
	for n, r := range regs {
		if strings.HasPrefix(n, "no-") || table[n].comb != "" {
			continue
		}
		if nr := regs["no-"+n]; nr != nil && nr.ValueType == r.ValueType && regs["include"] != nil && r.ValueType == regs["include"].ValueType {
			c1, p1, r1, _ := attr(r)
			c2, p2, r2, _ := attr(nr)
			if p1 != p2 || r1 != r2 || c1 == c2 {
				c.violate("C06.flags", "--"+n+"/--no-"+n, r.Call.Pos(), fnName(r.Call.Parent()), "an --X/--no-X pair does not carry the same pattern with opposite polarity")
			}
		}
	}
	// the hard-wired patterns are interpreted as documented: non-regexp patterns go through the flexible/prefix path, regexp ones through RegexpFilter
	c.Stats["flag_registrations"] = len(c.flagRegs())
}

func ruleC06Anchor(c *Ctx) {
	n := 0
	for _, f := range c.ModFns {
		allInstrs(f, func(in ssa.Instruction) {
			call, ok := in.(*ssa.Call)
			if !ok {
				return
			}
			q := calleeQ(&call.Call)
			if q != "regexp.Compile" && q != "regexp.MustCompile" && q != "regexp.CompilePOSIX" {
				return
			}
			parts := c.concatParts(call.Call.Args[0])
			hasVar := false
			for _, p := range parts {
				if !p.isConst {
					hasVar = true
				}
			}
			if !hasVar {
				return
			}
			n++
			key := fnName(f)
			anchored := false
			for _, p := range parts {
				if p.isConst && (strings.Contains(p.s, "^") || strings.Contains(p.s, "$") || strings.Contains(p.s, `\A`) || strings.Contains(p.s, `\z`)) {
					anchored = true
				}
			}
			if !anchored {
				c.violate("C06.anchor", key+":anchors", call.Pos(), key, "a user-supplied pattern is compiled without ^…$ anchors: it would match a substring of the reference name instead of the entire name")
				return
			}
			good := true
			for i, p := range parts {
				if p.isConst {
					continue
				}
				left, right := "", ""
				if i > 0 && parts[i-1].isConst {
					left = parts[i-1].s
				}
				if i+1 < len(parts) && parts[i+1].isConst {
					right = parts[i+1].s
				}
				if !(strings.HasSuffix(left, "(") || strings.HasSuffix(left, "(?:")) || !strings.HasPrefix(right, ")") {
					good = false
					c.violate("C06.anchor", key+":group", call.Pos(), key, fmt.Sprintf("the user's pattern is concatenated between %q and %q without a group: an alternation `a|b` is anchored only at its outer ends, so `^a|b$` matches names that merely start with a or end with b", left, right))
				}
			}
			if good {
				c.hold("C06.anchor", key+":group", call.Pos(), "the variable part of the pattern is wrapped in a group inside the anchors")
			}
		})
	}
	if n == 0 {
		c.violate("C06.anchor", "sites", token.NoPos, "", "no regexp is compiled from a user-supplied pattern: /REGEXP/ selection is gone")
	}
}

type concatPart struct {
	s       string
	isConst bool
}

// concatParts flattens a string concatenation into its constant and
// variable parts, looking through single-store locals.
func (c *Ctx) concatParts(v ssa.Value) []concatPart {
	v = c.resolve(v)
	if s, ok := constStr(v); ok {
		return []concatPart{{s, true}}
	}
	if bo, ok := v.(*ssa.BinOp); ok && bo.Op == token.ADD {
		l, r := c.concatParts(bo.X), c.concatParts(bo.Y)
		out := append([]concatPart{}, l...)
		for _, p := range r {
			if len(out) > 0 && out[len(out)-1].isConst && p.isConst {
				out[len(out)-1].s += p.s
			} else {
				out = append(out, p)
			}
		}
		return out
	}
	return []concatPart{{"<" + v.Name() + ">", false}}
}

func ruleC06Flex(c *Ctx) {
	regexpFilter := c.fn("/git", "", "RegexpFilter")
	prefixFilter := c.fn("/git", "", "PrefixFilter")
	if regexpFilter == nil || prefixFilter == nil {
		c.violate("C06.flex", "filters", token.NoPos, "", "git.RegexpFilter / git.PrefixFilter not found")
		return
	}
	// the flexible interpreter: a refopts function calling both on a parameter-derived string
	var flex *ssa.Function
	for _, f := range c.ModFns {
		if pkgOf(f) != modPath+"/internal/refopts" {
			continue
		}
		if len(callsTo(f, regexpFilter)) > 0 && len(callsTo(f, prefixFilter)) > 0 {
			param := false
			for _, call := range callsTo(f, prefixFilter) {
				if _, ok := c.resolve(call.Call.Args[0]).(*ssa.Parameter); ok {
					param = true
				}
			}
			if param {
				flex = f
			}
		}
	}
	if flex == nil {
		c.violate("C06.flex", "dispatcher", token.NoPos, "", "no function dispatches an option argument between /REGEXP/, @REFGROUP and PREFIX")
		return
	}
	name := fnName(flex)
	var s *ssa.Parameter
	for _, p := range flex.Params {
		if b, ok := p.Type().Underlying().(*types.Basic); ok && b.Kind() == types.String {
			s = p
		}
	}
	lenFact := func(b *ssa.BasicBlock, min int64) bool {
		// implied by the dominating conditions (`s != ""`, HasPrefix, …)
		if fn := b.Parent(); len(b.Instrs) > 0 {
			F := &bfn{c: c, f: fn}
			F.computeLoadEq()
			z := newZone()
			F.defFacts(z, b.Instrs[0])
			F.pathFacts(z, b)
			if !z.proveLE(zLin{a: "0", k: 1}, zLin{a: "0"}) && z.proveLE(zLin{a: "0", k: min}, F.lenLin(s)) {
				return true
			}
		}
		return guardedBy(b, func(cond ssa.Value, truth bool) bool {
			cmp, ok := cond.(*ssa.BinOp)
			if !ok {
				return false
			}
			// len(s) op n, or (len(s) - k) op n  ==  len(s) op n+k
			lhs := cmp.X
			var off int64
			if bo, isBO := lhs.(*ssa.BinOp); isBO && bo.Op == token.SUB {
				if k, isK := constInt(bo.Y); isK {
					lhs, off = bo.X, k
				}
			}
			l, ok := lhs.(*ssa.Call)
			if !ok || !isBuiltin(&l.Call, "len") || l.Call.Args[0] != ssa.Value(s) {
				return false
			}
			n, ok := constInt(cmp.Y)
			if !ok {
				return false
			}
			n += off
			switch {
			case cmp.Op == token.GEQ && truth:
				return n >= min
			case cmp.Op == token.GTR && truth:
				return n+1 >= min
			case cmp.Op == token.LSS && !truth:
				return n >= min
			case cmp.Op == token.LEQ && !truth:
				return n+1 >= min
			}
			return false
		})
	}
	// "s starts/ends with the byte ch", in any of its spellings
	strFact := func(b *ssa.BasicBlock, fn, lit string) bool {
		ch := int64(lit[0])
		return guardedBy(b, func(cond ssa.Value, truth bool) bool {
			if call, ok := cond.(*ssa.Call); ok && truth && calleeQ(&call.Call) == fn && call.Call.Args[0] == ssa.Value(s) {
				l, ok := constStr(call.Call.Args[1])
				return ok && l == lit
			}
			// `rest, found := strings.CutPrefix(s, lit)` / CutSuffix
			if ex, ok := cond.(*ssa.Extract); ok && truth && ex.Index == 1 {
				if call, ok := ex.Tuple.(*ssa.Call); ok && call.Call.Args[0] == ssa.Value(s) {
					q := calleeQ(&call.Call)
					if (fn == "strings.HasPrefix" && q == "strings.CutPrefix") || (fn == "strings.HasSuffix" && q == "strings.CutSuffix") {
						l, ok := constStr(call.Call.Args[1])
						return ok && l == lit
					}
				}
			}
			// s[0] == ch  /  s[len(s)-1] == ch
			cmp, ok := isCmp(cond, token.EQL)
			if !ok || !truth {
				return false
			}
			n, ok := constInt(cmp.Y)
			if !ok || n != ch {
				return false
			}
			var base, index ssa.Value
			switch idx := cmp.X.(type) {
			case *ssa.Lookup:
				base, index = idx.X, idx.Index
			case *ssa.Index:
				base, index = idx.X, idx.Index
			default:
				return false
			}
			if base != ssa.Value(s) {
				return false
			}
			if fn == "strings.HasPrefix" {
				i, ok := constInt(index)
				return ok && i == 0
			}
			// len(s)-1
			bo, ok := index.(*ssa.BinOp)
			if !ok || bo.Op != token.SUB {
				return false
			}
			k, ok := constInt(bo.Y)
			l, isLen := bo.X.(*ssa.Call)
			return ok && k == 1 && isLen && isBuiltin(&l.Call, "len") && l.Call.Args[0] == ssa.Value(s)
		})
	}
	// "v is s without its first byte": s[1:] or strings.TrimPrefix(s, "<ch>")
	isRest := func(v ssa.Value, ch string) bool {
		v = c.resolve(v)
		for i := 0; i < 3; i++ {
			switch x := v.(type) {
			case *ssa.ChangeType:
				v = x.X
			case *ssa.Convert:
				v = x.X
			}
		}
		if sl, ok := v.(*ssa.Slice); ok && sl.X == ssa.Value(s) && sl.High == nil && sl.Low != nil {
			lo, ok := constInt(sl.Low)
			return ok && lo == 1
		}
		if call, ok := v.(*ssa.Call); ok && calleeQ(&call.Call) == "strings.TrimPrefix" && call.Call.Args[0] == ssa.Value(s) {
			l, ok := constStr(call.Call.Args[1])
			return ok && l == ch
		}
		if ex, ok := v.(*ssa.Extract); ok && ex.Index == 0 {
			if call, ok := ex.Tuple.(*ssa.Call); ok && calleeQ(&call.Call) == "strings.CutPrefix" && call.Call.Args[0] == ssa.Value(s) {
				l, ok := constStr(call.Call.Args[1])
				return ok && l == ch
			}
		}
		return false
	}
	// "v is s without its first and last byte"
	isInner := func(v ssa.Value) bool {
		v = c.resolve(v)
		if sl, ok := v.(*ssa.Slice); ok && sl.X == ssa.Value(s) && sl.Low != nil && sl.High != nil {
			lo, _ := constInt(sl.Low)
			if hi, ok := sl.High.(*ssa.BinOp); ok && hi.Op == token.SUB && lo == 1 {
				if n, ok := constInt(hi.Y); ok && n == 1 {
					if l, ok := hi.X.(*ssa.Call); ok && isBuiltin(&l.Call, "len") && l.Call.Args[0] == ssa.Value(s) {
						return true
					}
				}
			}
		}
		// strings.TrimSuffix(strings.TrimPrefix(s, "/"), "/") and the reverse nesting
		if outer, ok := v.(*ssa.Call); ok && (calleeQ(&outer.Call) == "strings.TrimSuffix" || calleeQ(&outer.Call) == "strings.TrimPrefix") {
			if inner, ok := c.resolve(outer.Call.Args[0]).(*ssa.Call); ok && (calleeQ(&inner.Call) == "strings.TrimSuffix" || calleeQ(&inner.Call) == "strings.TrimPrefix") && calleeQ(&inner.Call) != calleeQ(&outer.Call) {
				a, ok1 := constStr(outer.Call.Args[1])
				b, ok2 := constStr(inner.Call.Args[1])
				return ok1 && ok2 && a == "/" && b == "/" && inner.Call.Args[0] == ssa.Value(s)
			}
		}
		return false
	}
	// regexp branch
	for _, call := range callsTo(flex, regexpFilter) {
		b := call.Block()
		okGuard := strFact(b, "strings.HasPrefix", "/") && strFact(b, "strings.HasSuffix", "/") && lenFact(b, 2)
		_ = isRest
		okSlice := isInner(call.Call.Args[0])
		// `inner, ok := CutPrefix(s, "/")` then `pattern, ok := CutSuffix(inner, "/")`:
		// both found ⇒ s starts and ends with distinct slashes and pattern is what
		// lies between them
		cutOK := func(ex *ssa.Extract, fn string, on func(ssa.Value) bool) bool {
			cc, isCall := ex.Tuple.(*ssa.Call)
			if !isCall || ex.Index != 0 || calleeQ(&cc.Call) != fn || !on(cc.Call.Args[0]) {
				return false
			}
			if l, isL := constStr(cc.Call.Args[1]); !isL || l != "/" {
				return false
			}
			return guardedBy(b, func(cond ssa.Value, truth bool) bool {
				e1, isE := cond.(*ssa.Extract)
				return isE && truth && e1.Index == 1 && e1.Tuple == ex.Tuple
			})
		}
		if ex, isEx := c.resolve(call.Call.Args[0]).(*ssa.Extract); isEx {
			for _, order := range [][2]string{{"strings.CutSuffix", "strings.CutPrefix"}, {"strings.CutPrefix", "strings.CutSuffix"}} {
				if cutOK(ex, order[0], func(v ssa.Value) bool {
					in, isIn := c.resolve(v).(*ssa.Extract)
					return isIn && cutOK(in, order[1], func(w ssa.Value) bool { return c.resolve(w) == ssa.Value(s) })
				}) {
					okGuard, okSlice = true, true
				}
			}
		}
		switch {
		case !okGuard:
			c.violate("C06.flex", "regexp:guard", call.Pos(), name, "the /REGEXP/ branch is not guarded by HasPrefix(s,\"/\") ∧ HasSuffix(s,\"/\") ∧ len(s) >= 2 (a lone \"/\" would slice out of range or be taken as a regexp)")
		case !okSlice:
			c.violate("C06.flex", "regexp:slice", call.Pos(), name, "the regular expression is not s[1:len(s)-1]")
		default:
			c.hold("C06.flex", "regexp", call.Pos(), "s[1:len(s)-1] under HasPrefix ∧ HasSuffix ∧ len>=2")
		}
	}
	// prefix default
	for _, call := range callsTo(flex, prefixFilter) {
		if c.resolve(call.Call.Args[0]) == ssa.Value(s) {
			c.hold("C06.flex", "prefix", call.Pos(), "otherwise PrefixFilter(s)")
		} else {
			c.violate("C06.flex", "prefix", call.Pos(), name, "the prefix branch does not pass the option argument unchanged")
		}
	}
	// refgroup branch: an index s[0]=='@' fact guards a map lookup keyed by s[1:]
	found := false
	allInstrs(flex, func(in ssa.Instruction) {
		lk, ok := in.(*ssa.Lookup)
		if !ok {
			return
		}
		if _, isMap := lk.X.Type().Underlying().(*types.Map); !isMap {
			return
		}
		atGuard := strFact(lk.Block(), "strings.HasPrefix", "@")
		// an index s[0] needs len(s) >= 1; HasPrefix(s,"@") implies it
		hasPrefixForm := guardedBy(lk.Block(), func(cond ssa.Value, truth bool) bool {
			if ex, ok := cond.(*ssa.Extract); ok && truth && ex.Index == 1 {
				if call, ok := ex.Tuple.(*ssa.Call); ok && calleeQ(&call.Call) == "strings.CutPrefix" && call.Call.Args[0] == ssa.Value(s) {
					return true
				}
			}
			call, ok := cond.(*ssa.Call)
			return ok && truth && calleeQ(&call.Call) == "strings.HasPrefix" && call.Call.Args[0] == ssa.Value(s)
		})
		if atGuard && (hasPrefixForm || lenFact(lk.Block(), 1)) {
			found = true
			if !isRest(lk.Index, "@") {
				c.violate("C06.flex", "refgroup:key", lk.Pos(), name, "the refgroup looked up for @NAME is not s[1:]")
			} else {
				c.hold("C06.flex", "refgroup", lk.Pos(), "groups[s[1:]] under s[0]=='@' ∧ len(s)>=1")
			}
			// every filter returned for @NAME is the group filter on the looked-up group (ancestors included), as --refgroup builds it
			for _, ret := range returnsOf(flex) {
				if !lk.Block().Dominates(ret.Block()) {
					continue
				}
				for _, v := range c.resultValues(ret, 0) {
					if isNilConst(v) {
						continue
					}
					okWrap := false
					if mi, isMI := v.(*ssa.MakeInterface); isMI && isNamed(mi.X.Type(), modPath+"/internal/refopts", "refGroupFilter") {
						if u, isU := mi.X.(*ssa.UnOp); isU {
							if al, isAl := u.X.(*ssa.Alloc); isAl {
								for _, r := range *al.Referrers() {
									if fa, isFA := r.(*ssa.FieldAddr); isFA {
										for _, st := range storesTo(fa) {
											if st.Val == ssa.Value(lk) {
												okWrap = true
											}
											// `rg, ok := groups[name]`: the looked-up group is element 0 of the lookup
											if ex, isEx := st.Val.(*ssa.Extract); isEx && ex.Tuple == ssa.Value(lk) && ex.Index == 0 {
												okWrap = true
											}
										}
									}
								}
							}
						}
					}
					if okWrap {
						c.hold("C06.flex", "refgroup:filter", ret.Pos(), "@NAME yields refGroupFilter{groups[NAME]} (the group with its ancestors), the filter --refgroup NAME builds")
					} else {
						c.violate("C06.flex", "refgroup:filter", ret.Pos(), name, "@NAME does not yield the refgroup filter of the looked-up group (group and ancestors): --include @G and --refgroup G would select different references")
					}
				}
			}
		}
	})
	if !found {
		c.violate("C06.flex", "refgroup", flex.Pos(), name, "no @REFGROUP branch (lookup of s[1:] guarded by s[0]=='@' with len(s) >= 1)")
	}
}

// ruleC06ImmutableOptions: a selection option may occur several times; each
// occurrence must be judged by the polarity and pattern it was registered
// with, so the option value must not rewrite its own configuration while
// handling an occurrence (a `=false` on one occurrence must not stick).
func ruleC06ImmutableOptions(c *Ctx) {
	types_ := map[string]bool{}
	for _, r := range c.flagRegs() {
		if pkgOf(r.Call.Parent()) == modPath+"/internal/refopts" && r.ValueType != "" {
			types_[r.ValueType] = true
		}
	}
	n := 0
	for _, f := range c.ModFns {
		if f.Signature.Recv() == nil || pkgOf(f) != modPath+"/internal/refopts" {
			continue
		}
		rn := namedOf(f.Signature.Recv().Type())
		if rn == nil || !types_[typeName(rn)] {
			continue
		}
		n++
		bad := false
		allInstrs(f, func(in ssa.Instruction) {
			st, ok := in.(*ssa.Store)
			if !ok {
				return
			}
			fa, ok := st.Addr.(*ssa.FieldAddr)
			if !ok || c.resolve(fa.X) != ssa.Value(f.Params[0]) {
				return
			}
			bad = true
			c.violate("C06.fold", "immutable-option:"+fnName(f)+":"+vname(fieldOfAddr(fa).Var), st.Pos(), fnName(f), "handling one occurrence of the option rewrites the option's own "+vname(fieldOfAddr(fa).Var)+": a later occurrence of the same option is then judged with the altered polarity/pattern instead of its own")
		})
		if !bad {
			c.hold("C06.fold", "immutable-option:"+fnName(f), f.Pos(), "the option value's own configuration is not modified")
		}
	}
	if n == 0 {
		c.violate("C06.fold", "immutable-option", token.NoPos, "", "no methods of the registered selection-option values found")
	}
}

// lastDotRule: a refgroup symbol `a.b.c` has the parent `a.b`, and the
// gitconfig key `a.b.c.include` belongs to group `a.b.c`: wherever package
// refopts splits at '.', it must split at the LAST dot. A first-dot split
// attaches a third-level group to its top-most ancestor (skipping the
// intermediate group's filter) and misreads keys of nested groups.
func lastDotRule(c *Ctx, rule string) {
	n := 0
	for _, f := range c.ModFns {
		if pkgOf(f) != modPath+"/internal/refopts" {
			continue
		}
		allInstrs(f, func(in ssa.Instruction) {
			call, ok := in.(*ssa.Call)
			if !ok {
				return
			}
			sep, ok := c.sepOfIndexCall(call)
			q := calleeQ(&call.Call)
			if !ok {
				// Split/SplitN on "." is a first-to-last split as well
				if (strings.HasSuffix(q, ".Split") || strings.HasSuffix(q, ".SplitN") || strings.HasSuffix(q, ".Fields")) && len(call.Call.Args) > 1 {
					if s, isC := constStr(call.Call.Args[1]); isC && s == "." {
						n++
						c.undecided(rule, "last-dot@"+fnName(f), call.Pos(), fnName(f), "a refgroup symbol or key is split at every '.': cannot tell that the parent is the part before the last one")
					}
				}
				return
			}
			if sep != '.' {
				return
			}
			n++
			if strings.Contains(q, ".Last") {
				c.hold(rule, "last-dot@"+fnName(f), call.Pos(), "split at the last '.'")
			} else {
				c.violate(rule, "last-dot@"+fnName(f), call.Pos(), fnName(f), "a refgroup symbol / key is split at its FIRST '.' ("+q+"): the parent of a.b.c must be a.b, and the key a.b.c.include belongs to group a.b.c; nested groups would be attached to the wrong parent, skipping the intermediate group's rules")
			}
		})
	}
	if n < 2 {
		c.notDecided(rule, "last-dot", token.NoPos, fmt.Sprintf("only %d searches for '.' found in package refopts (parent symbol and key/field split expected): the hierarchy is derived another way", n))
	}
}

func ruleC06LastDot(c *Ctx) { lastDotRule(c, "C06.refgroup") }
