package main

import (
	"fmt"
	"go/token"
	"go/types"
	"os"
	"strings"

	"golang.org/x/tools/go/ssa"
)

// decideCmp: the integer comparison cmp, evaluated by instruction site at
// the end of block b, has the same outcome on every execution according to
// the zone built from the post-conditions of dominating definitions and the
// dominating branch conditions.
func (F *bfn) decideCmp(cmp *ssa.BinOp, site ssa.Instruction, b *ssa.BasicBlock) tri {
	switch cmp.Op {
	case token.LSS, token.LEQ, token.GTR, token.GEQ, token.EQL, token.NEQ:
	default:
		return triUnknown
	}
	isInt := func(v ssa.Value) bool {
		bt, ok := v.Type().Underlying().(*types.Basic)
		return ok && bt.Info()&types.IsInteger != 0
	}
	if !isInt(cmp.X) || !isInt(cmp.Y) {
		return triUnknown
	}
	z := newZone()
	F.defFacts(z, site)
	F.pathFacts(z, b)
	F.floatFacts(z, cmp.X, b)
	F.floatFacts(z, cmp.Y, b)
	X, Y := F.linear(cmp.X), F.linear(cmp.Y)
	if os.Getenv("SIZERCHECK_DEBUGFOLD") != "" && strings.Contains(fnName(F.f), os.Getenv("SIZERCHECK_DEBUGFOLD")) {
		z.close()
		fmt.Printf("debugfold %s: %s %s %s  X=%+v Y=%+v atoms=%v\n", fnName(F.f), cmp.X.Name(), cmp.Op, cmp.Y.Name(), X, Y, z.idx)
	}
	le := func(A, B zLin) bool { return z.proveLE(A, B) }
	lt := func(A, B zLin) bool { A.k++; return z.proveLE(A, B) }
	// a contradictory zone (unreachable code) proves everything: leave it
	if lt(zLin{a: "0"}, zLin{a: "0"}) {
		return triUnknown
	}
	switch cmp.Op {
	case token.LSS:
		if lt(X, Y) {
			return triTrue
		}
		if le(Y, X) {
			return triFalse
		}
	case token.LEQ:
		if le(X, Y) {
			return triTrue
		}
		if lt(Y, X) {
			return triFalse
		}
	case token.GTR:
		if lt(Y, X) {
			return triTrue
		}
		if le(X, Y) {
			return triFalse
		}
	case token.GEQ:
		if le(Y, X) {
			return triTrue
		}
		if lt(X, Y) {
			return triFalse
		}
	case token.EQL:
		if lt(X, Y) || lt(Y, X) {
			return triFalse
		}
	case token.NEQ:
		if lt(X, Y) || lt(Y, X) {
			return triTrue
		}
	}
	return triUnknown
}

// foldProved removes, in every module function, the conditionals whose
// outcome the bounds engine proves (a repeated bound that IndexByte or
// HasPrefix already implies, a clamp of a value that is in range).
func (c *Ctx) foldProved() {
	if os.Getenv("SIZERCHECK_NOFOLD") != "" {
		return
	}
	var log []string
	for _, f := range c.ModFns {
		if len(f.Blocks) == 0 || skipNormalize[rootFn(f).String()] {
			continue
		}
		did := false
		// go/ssa has no common-subexpression elimination: every read of an
		// address-taken variable or of a field is a load of its own. A load
		// that provably yields what an earlier, dominating load (or store)
		// of the same location yielded is replaced by that value, so that two
		// tests of "the same variable" are tests of the same SSA value.
		if c.cseLoads(f) {
			did = true
			foldDecided(f, decidedCond)
			for iter := 0; iter < 100; iter++ {
				progress := false
				for _, x := range f.Blocks {
					if threadBlock(f, x) {
						progress = true
						break
					}
				}
				if !progress {
					break
				}
			}
		}
		for iter := 0; iter < 100; iter++ {
			F := &bfn{c: c, f: f}
			F.computeLoadEq()
			var at *ssa.BasicBlock
			var d tri
			for _, x := range f.Blocks {
				if len(x.Instrs) == 0 || x == f.Recover {
					continue
				}
				iff, ok := x.Instrs[len(x.Instrs)-1].(*ssa.If)
				if !ok || x.Succs[0] == x.Succs[1] {
					continue
				}
				cond, truth := normCond(iff.Cond, true)
				cmp, ok := cond.(*ssa.BinOp)
				if !ok {
					continue
				}
				if r := F.decideCmp(cmp, iff, x); r != triUnknown {
					if !truth {
						r = r.not()
					}
					at, d = x, r
					log = append(log, fmt.Sprintf("%s: `%s %s %s` is always %v at %s", fnName(f), cmp.X.Name(), cmp.Op, cmp.Y.Name(), (r == triTrue) == truth, c.pos(iff.Cond.Pos())))
					break
				}
			}
			if at == nil {
				break
			}
			cond := at.Instrs[len(at.Instrs)-1].(*ssa.If).Cond
			foldIf(f, at, d == triTrue)
			removeUnreachable(f)
			finishFunc(f)
			dropDeadCond(f, cond)
			if dropSingleEdgePhis(f) {
				finishFunc(f)
			}
			did = true
		}
		if did {
			simplifyCFG(f)
			if errs := sanity(f); len(errs) > 0 {
				panic(normFailure{rootFn(f).String(), "dead-branch elimination produced malformed SSA: " + errs[0]})
			}
		}
	}
	c.memo["fold.log"] = log
}

func init() {
	dumpers["fold"] = func(c *Ctx) {
		if l, ok := c.memo["fold.log"].([]string); ok {
			for _, s := range l {
				fmt.Println(s)
			}
		}
	}
}

// cseLoads replaces loads by the equal dominating value E8's load
// equivalence finds (boolean and nilable values only: the ones conditions
// are made of).
func (c *Ctx) cseLoads(f *ssa.Function) bool {
	F := &bfn{c: c, f: f}
	F.computeLoadEq()
	changed := false
	for ld, eq := range F.loadEq {
		u, ok := ld.(*ssa.UnOp)
		if !ok || eq == nil || eq == ld {
			continue
		}
		if !isBoolType(u.Type()) && !isNilable(u.Type()) {
			continue
		}
		rep := F.rep(eq)
		if rep == ssa.Value(u) || !types.Identical(rep.Type(), u.Type()) {
			continue
		}
		if ri, isInstr := rep.(ssa.Instruction); isInstr {
			if ri.Parent() != f || !instrDominates(ri, u) {
				continue
			}
		}
		replaceUses(f, u, rep)
		changed = true
	}
	if changed {
		finishFunc(f)
	}
	return changed
}
