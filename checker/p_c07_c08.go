package main

import (
	"fmt"
	"go/constant"
	"go/token"
	"go/types"
	"sort"
	"strings"

	"golang.org/x/tools/go/ssa"
)

func init() {
	register("C07",
		"Structural necessary conditions of C07 decided from /repo's SSA: (render-total) every index/slice expression in the table renderer and the footnote collector is discharged from dominating facts by the zone-domain bounds engine, so no refgroup nesting depth or name can crash the report; (count) reference_count receives exactly ADD{1}, RegisterReference is called for every root that is a reference regardless of Walk(), exactly one root is collected per reference delivered with walk/groups from the same Categorize call, and each group symbol bumps its tally exactly once; (argv) the reference listing is `for-each-ref` with only the --format argument; (ignored) the `ignored` symbol is appended iff the reference is not walked, and a group whose own filter rejects the name returns (false, no symbols) before collecting any; (symbols) v2 symbols are `refgroup.<symbol>`, indentation is the dot count of the symbol, groups absent from the tally are skipped. Not decided: the recursive tally semantics (`other` buckets, union of subgroups) over arbitrary forests.",
		[]string{"git for-each-ref lists every reference once", "field-based heap model"},
		ruleC07RenderTotal, ruleC07Count, ruleC07Argv, ruleC07Ignored, ruleC07Symbols, ruleC07Subgroups, ruleC07EachGroup, ruleC07LastDot, ruleC07IgnoredGroup)
	register("C08",
		"Structural necessary conditions of C08 decided from /repo's SSA: (pairing) every witness-path update is control-dependent on the `true` result of the AdjustMax* call on the paired value field (pairing table = the documented JSON v1 keys), passes the function's own object id and the object kind of the metric, and forgets the previous path before requesting the new one; (siblings) in the report's item list every item cites the path field paired with its value field; (none) with NameStyleNone the resolver hands out no path, Footnote is always empty, hash style cites the object id and full style the path description; (refcount) a parent link of a sought path is only ever set to a path on which a reference was taken on that very path (requested, i.e. its seeker count incremented or initialised to 1), so a parent cannot be dropped from the table while a child still points at it. Not decided: that a printed description resolves with git rev-parse (depends on git's revision grammar and run-time strings).",
		[]string{"the enumeration delivers each object's id together with its size (C01.effects provenance)"},
		ruleC08Pairing, ruleC08Siblings, ruleC08None, ruleC08ParentKind, ruleC08RootPrefix, ruleC08Refcount, ruleC08RootName, ruleC08NameBeforeFinalize, ruleC08TagReferent)
}

// ---------------- C07 ----------------

func ruleC07Argv(c *Ctx) {
	sites := c.gitSites("for-each-ref")
	if len(sites) != 1 {
		c.violate("C07.argv", "for-each-ref:sites", token.NoPos, "", fmt.Sprintf("expected exactly one `git for-each-ref` call site, found %d", len(sites)))
		return
	}
	s := sites[0]
	nfmt := 0
	for _, a := range s.Argv[1:] {
		if strings.HasPrefix(a, "--format=") {
			nfmt++
			continue
		}
		c.violate("C07.argv", "for-each-ref:"+a, s.Call.Pos(), fnName(s.Fn), fmt.Sprintf("for-each-ref argument %q restricts or reorders the references listed (patterns, --count, --contains, --merged, --points-at, --exclude hide references from the count)", a))
	}
	if nfmt == 1 {
		c.hold("C07.argv", "for-each-ref", s.Call.Pos(), "argv: "+strings.Join(s.Argv, " "))
	} else {
		c.violate("C07.argv", "for-each-ref:format", s.Call.Pos(), fnName(s.Fn), "for-each-ref is not run with exactly one --format argument")
	}
}

func ruleC07Count(c *Ctx) {
	checkEffects(c, "C07", "C07.effects")
	si := c.scanModel()
	regRef := c.fn("/sizes", "*Graph", "RegisterReference")
	if si.Fn == nil || regRef == nil {
		c.violate("C07.count", "model", token.NoPos, "", "cannot identify the scanner or (*sizes.Graph).RegisterReference")
		return
	}
	var calls []*ssa.Call
	for _, ci := range c.Callers[regRef] {
		if call, ok := ci.(*ssa.Call); ok {
			calls = append(calls, call)
		}
	}
	if len(calls) != 1 {
		c.violate("C07.count", "register-site", si.Fn.Pos(), fnName(si.Fn), fmt.Sprintf("expected one RegisterReference call site, found %d", len(calls)))
		return
	}
	call := calls[0]
	regFn := call.Parent()
	name := fnName(regFn)
	// the function holding the loop is the scanner or a helper called from it
	if regFn != si.Fn && len(callsTo(si.Fn, regFn)) != 1 {
		c.violate("C07.count", "register-site:reached", call.Pos(), name, "the reference registration loop is not called exactly once from the scanner")
	}
	l := innermostLoop(loopsOf(regFn), call.Block())
	if l == nil || !c.loopOverParam(l, regFn) {
		c.violate("C07.count", "register-loop", call.Pos(), name, "RegisterReference is not called from the loop over the scanner's roots")
	} else {
		// guards: only the type assertion to ReferenceRoot
		bad := ""
		nAssert := 0
		for _, f := range factsAt(call.Block()) {
			if !l.Blocks[f.If.Block()] {
				continue
			}
			cond, truth := normCond(f.Cond, f.Truth)
			if ex, ok := cond.(*ssa.Extract); ok && ex.Index == 1 && truth {
				if ta, ok := ex.Tuple.(*ssa.TypeAssert); ok {
					// the interface of reference roots, or the one concrete
					// type that implements it (what CollectReferences returns)
					if n := namedOf(ta.AssertedType); n != nil && n.Obj().Pkg() != nil && n.Obj().Pkg().Path() == modPath+"/sizes" && (tname(n.Obj()) == "ReferenceRoot" || tname(n.Obj()) == "RefRoot") {
						nAssert++
						continue
					}
				}
			}
			if f.If.Block() == l.Head {
				continue // the loop condition itself
			}
			bad = "registration of a reference is made conditional on " + strings.TrimSpace(cond.String()) + ": references that are not traversed would not be counted"
		}
		if bad != "" {
			c.violate("C07.count", "register-unconditional", call.Pos(), name, bad)
		} else if nAssert == 1 {
			c.hold("C07.count", "register-unconditional", call.Pos(), "every root that is a ReferenceRoot is registered, whether or not it is walked")
		} else {
			c.undecided("C07.count", "register-unconditional", call.Pos(), name, "cannot find the ReferenceRoot type assertion guarding the registration")
		}
	}
	// no successful way out of the scanner avoids the registration: an early
	// `return report, nil` leaves reference_count and the tallies at zero
	if l != nil {
		anchor := l.Head
		if regFn != si.Fn {
			anchor = nil
			if cs := callsTo(si.Fn, regFn); len(cs) == 1 {
				anchor = cs[0].Block()
			}
		}
		nRet := 0
		for _, ret := range returnsOf(si.Fn) {
			if anchor == nil || len(ret.Results) == 0 || !isErrorType(ret.Results[len(ret.Results)-1].Type()) {
				continue
			}
			nRet++
			// an error path: some error is known to be non-nil here, or the
			// value returned is one
			onErrorPath := false
			nonNilHere := func(v ssa.Value) bool {
				for _, f := range factsAt(ret.Block()) {
					cond, truth := normCond(f.Cond, f.Truth)
					if m, isNil := errNilFact(cond, truth, v); m && !isNil {
						return true
					}
				}
				return false
			}
			for _, f := range factsAt(ret.Block()) {
				cond, truth := normCond(f.Cond, f.Truth)
				if cmp, ok := isCmp(cond, token.EQL, token.NEQ); ok && isErrorType(cmp.X.Type()) && isNilConst(cmp.Y) && (cmp.Op == token.NEQ) == truth {
					onErrorPath = true
				}
			}
			var errorish func(v ssa.Value, depth int) bool
			errorish = func(v ssa.Value, depth int) bool {
				if depth > 4 || isNilConst(v) {
					return false
				}
				if nonNilHere(v) {
					return true
				}
				switch x := v.(type) {
				case *ssa.MakeInterface:
					return true
				case *ssa.UnOp:
					// a package-level sentinel error
					if _, isGlobal := x.X.(*ssa.Global); isGlobal && x.Op == token.MUL {
						return true
					}
				case *ssa.Call:
					if q := calleeQ(&x.Call); q == "errors.New" || q == "fmt.Errorf" {
						return true
					}
					for _, a := range x.Call.Args {
						if isErrorType(a.Type()) && errorish(a, depth+1) {
							return true
						}
					}
				case *ssa.Extract:
					return errorish(x.Tuple, depth+1)
				case *ssa.Phi:
					for _, e := range x.Edges {
						if !errorish(e, depth+1) {
							return false
						}
					}
					return true
				}
				return false
			}
			maySucceed := false
			for _, v := range c.resultValues(ret, len(ret.Results)-1) {
				if !onErrorPath && !errorish(v, 0) {
					maySucceed = true
				}
			}
			if maySucceed && !anchor.Dominates(ret.Block()) {
				c.violate("C07.count", "register-reached", ret.Pos(), fnName(si.Fn), "the scanner can return successfully without having passed the reference registration loop: the reference count and every tally stay at zero on that path")
			}
		}
		if nRet > 0 && c.seen("C07.count", "register-reached") == nil {
			c.hold("C07.count", "register-reached", call.Pos(), fmt.Sprintf("each of the scanner's %d returns either carries a non-nil error or is dominated by the registration loop", nRet))
		}
	}
	// inside RegisterReference: count += 1 once; one tally update per group
	ecCount := c.effectCounter(func(ed *effEdge) bool { return ed.Target == "H:reference_count" }, false)
	if r := ecCount.function(regRef); r.Min == 1 && r.Max == 1 {
		c.hold("C07.count", "count-once", regRef.Pos(), "reference_count += 1 exactly once per registered reference")
	} else {
		c.violate("C07.count", "count-once", regRef.Pos(), fnName(regRef), fmt.Sprintf("reference_count is updated between %d and %d times per registered reference", r.Min, r.Max))
	}
	ecTally := c.effectCounter(func(ed *effEdge) bool { return ed.Target == "H:reference_groups[*]" }, false)
	var gl *loop
	for _, l := range loopsOf(regRef) {
		gl = l
	}
	if gl == nil {
		c.violate("C07.count", "tally-loop", regRef.Pos(), fnName(regRef), "RegisterReference has no loop over the reference's group symbols")
	} else if r := ecTally.perIteration(gl); r.Min == 1 && r.Max == 1 {
		c.hold("C07.count", "tally-once", regRef.Pos(), "each group symbol of the reference bumps (or creates at 1) its tally exactly once")
	} else {
		c.violate("C07.count", "tally-once", regRef.Pos(), fnName(regRef), fmt.Sprintf("a group symbol updates its tally between %d and %d times", r.Min, r.Max))
	}
	c.checkCollect("C07.count")
}

// checkCollect: exactly one root per reference delivered, carrying that
// reference and the walk decision / symbols of its own Categorize call.
func (c *Ctx) checkCollect(rule string) {
	// CollectReferences: one root per delivered reference
	collect := c.fn("/sizes", "", "CollectReferences")
	refNext := c.fn("/git", "*ReferenceIter", "Next")
	if collect == nil || refNext == nil {
		c.violate(rule, "collect", token.NoPos, "", "sizes.CollectReferences / (*git.ReferenceIter).Next not found")
		return
	}
	nexts := callsTo(collect, refNext)
	if len(nexts) != 1 {
		c.violate(rule, "collect:next", collect.Pos(), fnName(collect), "CollectReferences does not read the reference iterator from exactly one place")
		return
	}
	cl := innermostLoop(loopsOf(collect), nexts[0].Block())
	if cl == nil {
		c.violate(rule, "collect:loop", nexts[0].Pos(), fnName(collect), "references are not read in a loop")
		return
	}
	ecApp := c.newEventCounter(func(in ssa.Instruction) int {
		if call, ok := in.(*ssa.Call); ok && isBuiltin(&call.Call, "append") {
			return 1
		}
		return 0
	}, false)
	if r := ecApp.perIteration(cl); r.Min == 1 && r.Max == 1 {
		c.hold(rule, "collect:once", nexts[0].Pos(), "exactly one root is appended per reference delivered")
	} else {
		c.violate(rule, "collect:once", nexts[0].Pos(), fnName(collect), fmt.Sprintf("between %d and %d roots are collected per reference delivered (must be exactly one)", r.Min, r.Max))
	}
	// the root's fields: ref from Next, walk/groups from Categorize(ref.Refname)
	okFields := map[string]bool{}
	var catCall *ssa.Call
	allInstrs(collect, func(in ssa.Instruction) {
		if call, ok := in.(*ssa.Call); ok && call.Call.IsInvoke() && mname(call.Call.Method) == "Categorize" {
			catCall = call
		}
	})
	if catCall == nil {
		c.violate(rule, "collect:categorize", collect.Pos(), fnName(collect), "CollectReferences does not categorise the references")
		return
	}
	if b, p := c.fieldPath(c.resolve(catCall.Call.Args[0])); b == nil || p[len(p)-1] != "Refname" || !c.holdsResult(b, nexts[0], 0) {
		c.violate(rule, "collect:categorize-arg", catCall.Pos(), fnName(collect), "Categorize is not given the name of the reference just read")
	}
	allInstrs(collect, func(in ssa.Instruction) {
		st, ok := in.(*ssa.Store)
		if !ok {
			return
		}
		fa, ok := st.Addr.(*ssa.FieldAddr)
		if !ok {
			return
		}
		fi := fieldOfAddr(fa)
		if fi.Struct == nil || tname(fi.Struct.Obj()) != "RefRoot" {
			return
		}
		v := c.resolve(st.Val)
		switch {
		case isNamed(fi.Var.Type(), modPath+"/git", "Reference"):
			okFields["ref"] = c.holdsResult(v, nexts[0], 0) || c.isLoadOfResult(v, nexts[0], 0)
		case isBoolType(fi.Var.Type()):
			ex, ok := v.(*ssa.Extract)
			okFields["walk"] = ok && ex.Tuple == ssa.Value(catCall) && ex.Index == 0
		default:
			ex, ok := v.(*ssa.Extract)
			okFields["groups"] = ok && ex.Tuple == ssa.Value(catCall) && ex.Index == 1
		}
	})
	for _, k := range []string{"ref", "walk", "groups"} {
		if okFields[k] {
			c.hold(rule, "collect:field:"+k, catCall.Pos(), "taken from this iteration's reference / Categorize result")
		} else {
			c.violate(rule, "collect:field:"+k, catCall.Pos(), fnName(collect), "the collected root's "+k+" does not come from this iteration's reference and its Categorize result")
		}
	}
}

func (c *Ctx) isLoadOfResult(v ssa.Value, call *ssa.Call, idx int) bool {
	u, ok := v.(*ssa.UnOp)
	return ok && u.Op == token.MUL && c.holdsResult(u.X, call, idx)
}

// loopOverParam: the loop ranges over a slice parameter of f (possibly
// through a captured cell).
func (c *Ctx) loopOverParam(l *loop, f *ssa.Function) bool {
	sl := c.loopOver(f, l)
	if sl == nil {
		return false
	}
	if sl.Param != nil {
		return true
	}
	if sl.Cell == nil {
		return false
	}
	st := c.cellStores(sl.Cell)
	if len(st) != 1 {
		return false
	}
	_, ok := st[0].Val.(*ssa.Parameter)
	return ok
}

func ruleC07Ignored(c *Ctx) {
	n := 0
	for _, f := range c.ModFns {
		if refName(f) != "Categorize" || pkgOf(f) != modPath+"/internal/refopts" {
			continue
		}
		// the collecting call: a static call returning (bool, []RefGroupSymbol)
		var collect *ssa.Call
		allInstrs(f, func(in ssa.Instruction) {
			if call, ok := in.(*ssa.Call); ok && !call.Call.IsInvoke() && call.Call.StaticCallee() != nil && c.inRuleScope(call.Call.StaticCallee()) {
				if sig := call.Call.Signature(); sig.Results().Len() == 2 && isBoolType(sig.Results().At(0).Type()) {
					collect = call
				}
			}
		})
		if collect == nil {
			// a wrapper (e.g. --show-refs) that delegates: it must hand the delegate's verdict and symbols through unchanged
			var deleg *ssa.Call
			allInstrs(f, func(in ssa.Instruction) {
				if call, ok := in.(*ssa.Call); ok && call.Call.IsInvoke() && mname(call.Call.Method) == "Categorize" {
					deleg = call
				}
			})
			if deleg == nil {
				continue
			}
			n++
			okPass := true
			for _, ret := range returnsOf(f) {
				for i := 0; i < 2; i++ {
					for _, v := range c.resultValues(ret, i) {
						if ex, ok := v.(*ssa.Extract); !ok || ex.Tuple != ssa.Value(deleg) || ex.Index != i {
							okPass = false
						}
					}
				}
			}
			if okPass {
				c.hold("C07.ignored", fnName(f)+":pass-through", deleg.Pos(), "the wrapper returns the wrapped grouper's walk decision and symbols unchanged on every path")
			} else {
				c.violate("C07.ignored", fnName(f)+":pass-through", deleg.Pos(), fnName(f), "a grouper wrapper alters what the wrapped grouper decided (walk flag or symbols): with that wrapper active (e.g. --show-refs) tallies such as `ignored` differ from a plain run")
			}
			continue
		}
		n++
		name := fnName(f)
		var apps []*ssa.Call
		allInstrs(f, func(in ssa.Instruction) {
			if call, ok := in.(*ssa.Call); ok && isBuiltin(&call.Call, "append") {
				apps = append(apps, call)
			}
		})
		if len(apps) != 1 {
			c.violate("C07.ignored", name+":append", f.Pos(), name, fmt.Sprintf("expected exactly one place where the `ignored` symbol is added, found %d", len(apps)))
			continue
		}
		ap := apps[0]
		walkFalse := guardedBy(ap.Block(), func(cond ssa.Value, truth bool) bool {
			ex, ok := cond.(*ssa.Extract)
			return ok && !truth && ex.Tuple == ssa.Value(collect) && ex.Index == 0
		})
		if walkFalse {
			c.hold("C07.ignored", name+":iff-not-walked", ap.Pos(), "the ignored symbol is appended only when walk is false")
		} else {
			c.violate("C07.ignored", name+":iff-not-walked", ap.Pos(), name, "the `ignored` symbol is appended without walk==false: traversed references would be tallied under Ignored")
		}
		// and on every path with walk == false and a configured ignored group it IS appended: the append's guards are only {walk false, ignoredRefGroup != nil}
		extra := 0
		for _, fct := range factsAt(ap.Block()) {
			cond, _ := normCond(fct.Cond, fct.Truth)
			if ex, ok := cond.(*ssa.Extract); ok && ex.Tuple == ssa.Value(collect) {
				continue
			}
			if cmp, ok := isCmp(cond, token.EQL, token.NEQ); ok && (isNilConst(cmp.Y) || isNilConst(cmp.X)) {
				continue
			}
			extra++
		}
		if extra > 0 {
			c.violate("C07.ignored", name+":only-if", ap.Pos(), name, "the `ignored` tally depends on a further condition besides walk==false and the group being configured")
		}
		// returned walk flag is collect's
		for _, ret := range returnsOf(f) {
			for _, v := range c.resultValues(ret, 0) {
				// … or the constant it is known to equal on this path
				if k, isConst := boolConstOf(v); isConst {
					same := false
					for _, fct := range factsAt(ret.Block()) {
						cond, truth := normCond(fct.Cond, fct.Truth)
						if ex, ok := cond.(*ssa.Extract); ok && ex.Tuple == ssa.Value(collect) && ex.Index == 0 && truth == k {
							same = true
						}
					}
					if same {
						continue
					}
				}
				if ex, ok := v.(*ssa.Extract); !ok || ex.Tuple != ssa.Value(collect) || ex.Index != 0 {
					c.violate("C07.ignored", name+":walk-result", ret.Pos(), name, "Categorize does not return the walk decision of the group hierarchy unchanged")
				}
			}
		}
		// the collector: own filter failing => (false, nil)
		c.checkCollector(collect.Call.StaticCallee())
	}
	if n == 0 {
		c.violate("C07.ignored", "Categorize", token.NoPos, "", "no Categorize implementation in refopts decides the `ignored` tally")
	}
}

func (c *Ctx) checkCollector(f *ssa.Function) {
	name := fnName(f)
	found := false
	for _, ret := range returnsOf(f) {
		if len(ret.Results) != 2 {
			continue
		}
		filterFalse := guardedBy(ret.Block(), func(cond ssa.Value, truth bool) bool {
			call, ok := cond.(*ssa.Call)
			return ok && !truth && call.Call.IsInvoke() && mname(call.Call.Method) == "Filter"
		})
		if !filterFalse {
			continue
		}
		found = true
		w := c.resultValues(ret, 0)
		s := c.resultValues(ret, 1)
		okRet := len(w) == 1 && len(s) == 1 && isNilConst(s[0])
		if k, isC := w[0].(*ssa.Const); !isC || k.Value == nil || k.Value.String() != "false" {
			okRet = false
		}
		if okRet {
			c.hold("C07.ignored", name+":own-filter", ret.Pos(), "a group whose own filter rejects the name returns (false, no symbols)")
		} else {
			c.violate("C07.ignored", name+":own-filter", ret.Pos(), name, "when a group's own filter rejects the reference the group still reports it as walked or hands back symbols")
		}
	}
	if !found {
		c.violate("C07.ignored", name+":own-filter", f.Pos(), name, "no early return when a group's own filter rejects the reference: subgroups would be consulted for references the group excludes")
	}
}

func ruleC07Symbols(c *Ctx) {
	contents := c.fn("/sizes", "*HistorySize", "contents")
	newItem := c.itemCtor()
	if contents == nil || newItem == nil {
		c.violate("C07.symbols", "contents", token.NoPos, "", "the report's item list builder (sizes.(*HistorySize).contents / newItem) not found")
		return
	}
	name := fnName(contents)
	var groupItem *ssa.Call
	for _, row := range c.itemRows(contents, newItem) {
		if _, isConst := row.Args[0].(*ssa.Const); !isConst {
			groupItem = row.Call
		}
	}
	if groupItem == nil {
		c.violate("C07.symbols", "group-item", contents.Pos(), name, "no per-refgroup item is built")
		return
	}
	// symbol = Sprintf("refgroup.%s", rg.Symbol)
	okSym := false
	switch sp := c.resolve(groupItem.Call.Args[0]).(type) {
	case *ssa.Call:
		if calleeQ(&sp.Call) == "fmt.Sprintf" {
			if f, ok := constStr(sp.Call.Args[0]); ok && f == "refgroup.%s" {
				okSym = true
			}
		}
	case *ssa.BinOp:
		// "refgroup." + symbol
		if sp.Op == token.ADD {
			if f, ok := constStr(sp.X); ok && f == "refgroup." {
				okSym = true
			}
		}
	}
	if okSym {
		c.hold("C07.symbols", "symbol", groupItem.Pos(), "v2 symbol is refgroup.<symbol>")
	} else {
		c.violate("C07.symbols", "symbol", groupItem.Pos(), name, "the per-group item's symbol is not fmt.Sprintf(\"refgroup.%s\", symbol)")
	}
	// guarded by the tally lookup being present
	okGuard := guardedBy(groupItem.Block(), func(cond ssa.Value, truth bool) bool {
		ex, ok := cond.(*ssa.Extract)
		if !ok || !truth || ex.Index != 1 {
			return false
		}
		lk, ok := ex.Tuple.(*ssa.Lookup)
		return ok && lk.CommaOk
	})
	if okGuard {
		c.hold("C07.symbols", "skip-absent", groupItem.Pos(), "groups absent from the tally map produce no row")
	} else {
		c.violate("C07.symbols", "skip-absent", groupItem.Pos(), name, "a group row is built without the group being present in the tally map (nil counter dereference or phantom rows)")
	}
	// value = *count of that lookup
	if mi, ok := groupItem.Call.Args[4].(*ssa.MakeInterface); ok {
		if u, ok := mi.X.(*ssa.UnOp); ok {
			if ex, ok := u.X.(*ssa.Extract); ok {
				if _, ok := ex.Tuple.(*ssa.Lookup); ok && ex.Index == 0 {
					c.hold("C07.symbols", "value", groupItem.Pos(), "the row's value is the tally looked up for this group's symbol")
				}
			}
		}
	}
	if c.seen("C07.symbols", "value") == nil {
		c.violate("C07.symbols", "value", groupItem.Pos(), name, "the per-group row's value is not the tally looked up for its own symbol")
	}
	// indentation = strings.Count(symbol, ".")
	indented := false
	allInstrs(contents, func(in ssa.Instruction) {
		call, ok := in.(*ssa.Call)
		if !ok || call.Call.StaticCallee() == nil || refName(call.Call.StaticCallee()) != "Indented" {
			return
		}
		if cnt, ok := c.resolve(call.Call.Args[1]).(*ssa.Call); ok && calleeQ(&cnt.Call) == "strings.Count" {
			if sep, ok := constStr(cnt.Call.Args[1]); ok && sep == "." {
				indented = true
			}
		}
	})
	if indented {
		c.hold("C07.symbols", "indent", groupItem.Pos(), "indentation = number of dots in the symbol")
	} else {
		c.violate("C07.symbols", "indent", groupItem.Pos(), name, "a group row is not indented by the number of dots in its symbol")
	}
}

// ---------------- C08 ----------------

// witnessPairs: value field (JSON v1 key) -> path field key, object kind.
var witnessPairs = map[string][2]string{
	"max_commit_size":              {"max_commit", "commit"},
	"max_parent_count":             {"max_parent_count_commit", "commit"},
	"max_tree_entries":             {"max_tree_entries_tree", "tree"},
	"max_blob_size":                {"max_blob_size_blob", "blob"},
	"max_tag_depth":                {"max_tag_depth_tag", "tag"},
	"max_path_depth":               {"max_path_depth_tree", "tree"},
	"max_path_length":              {"max_path_length_tree", "tree"},
	"max_expanded_tree_count":      {"max_expanded_tree_count_tree", "tree"},
	"max_expanded_blob_count":      {"max_expanded_blob_count_tree", "tree"},
	"max_expanded_blob_size":       {"max_expanded_blob_size_tree", "tree"},
	"max_expanded_link_count":      {"max_expanded_link_count_tree", "tree"},
	"max_expanded_submodule_count": {"max_expanded_submodule_count_tree", "tree"},
}

func historyFieldTag(c *Ctx, v ssa.Value) string {
	fa, ok := v.(*ssa.FieldAddr)
	if !ok {
		if u, ok2 := v.(*ssa.UnOp); ok2 && u.Op == token.MUL {
			fa, ok = u.X.(*ssa.FieldAddr)
		}
	}
	if !ok {
		return ""
	}
	fi := fieldOfAddr(fa)
	if fi.Struct == nil || tname(fi.Struct.Obj()) != "HistorySize" {
		return ""
	}
	return fi.Tag
}

func ruleC08Pairing(c *Ctx) {
	// the witness setter: a function with a **Path parameter
	var setters []*ssa.Function
	for _, f := range c.ModFns {
		for _, p := range f.Params {
			if pp, ok := p.Type().Underlying().(*types.Pointer); ok && isPtrToNamed(pp.Elem(), modPath+"/sizes", "Path") {
				setters = append(setters, f)
			}
		}
	}
	type site struct {
		call    *ssa.Call
		pathArg ssa.Value
		oidArg  ssa.Value
		typeArg ssa.Value
	}
	var sites []site
	for _, set := range setters {
		c.checkSetter(set)
		for _, ci := range c.Callers[set] {
			call, ok := ci.(*ssa.Call)
			if !ok {
				continue
			}
			s := site{call: call}
			for i, p := range set.Params {
				switch {
				case func() bool {
					pp, ok := p.Type().Underlying().(*types.Pointer)
					return ok && isPtrToNamed(pp.Elem(), modPath+"/sizes", "Path")
				}():
					s.pathArg = call.Call.Args[i]
				case isNamed(p.Type(), modPath+"/git", "OID"):
					s.oidArg = call.Call.Args[i]
				case func() bool { b, ok := p.Type().Underlying().(*types.Basic); return ok && b.Kind() == types.String }():
					s.typeArg = call.Call.Args[i]
				}
			}
			sites = append(sites, s)
		}
	}
	// also direct stores of RequestPath results into HistorySize path fields (inlined setter)
	for _, f := range c.ModFns {
		allInstrs(f, func(in ssa.Instruction) {
			st, ok := in.(*ssa.Store)
			if !ok {
				return
			}
			fa, ok := st.Addr.(*ssa.FieldAddr)
			if !ok || historyFieldTag(c, fa) == "" {
				return
			}
			call, ok := st.Val.(*ssa.Call)
			if !ok || !call.Call.IsInvoke() || mname(call.Call.Method) != "RequestPath" {
				return
			}
			// the previous path must be forgotten first (if non-nil), as in the setter
			forgot := false
			allInstrs(f, func(in2 ssa.Instruction) {
				if fc, ok := in2.(*ssa.Call); ok && fc.Call.IsInvoke() && mname(fc.Call.Method) == "ForgetPath" && instrDominatesOrGuards(fc, call) {
					if historyFieldTag(c, fc.Call.Args[0]) == historyFieldTag(c, fa) {
						forgot = true
					}
				}
			})
			if !forgot {
				c.violate("C08.pairing", "inline-forget:"+historyFieldTag(c, fa), st.Pos(), fnName(f), "a new witness is requested without the previous one being forgotten first")
			}
			sites = append(sites, site{call: call, pathArg: fa, oidArg: call.Call.Args[0], typeArg: call.Call.Args[1]})
		})
	}
	seenPaths := map[string]bool{}
	for _, s := range sites {
		f := s.call.Parent()
		ptag := historyFieldTag(c, s.pathArg)
		key := ptag
		if ptag == "" {
			c.undecided("C08.pairing", "site@"+fnName(f)+"@"+c.lineKey(s.call), s.call.Pos(), fnName(f), "a witness path is stored somewhere other than a HistorySize path field")
			continue
		}
		seenPaths[ptag] = true
		// find the guarding AdjustMax call
		var vtag string
		guarded := guardedBy(s.call.Block(), func(cond ssa.Value, truth bool) bool {
			call, ok := cond.(*ssa.Call)
			if !ok || !truth {
				return false
			}
			cal := call.Call.StaticCallee()
			if cal == nil || pkgOf(cal) != modPath+"/counts" || !strings.HasPrefix(refName(cal), "AdjustMax") {
				return false
			}
			t := historyFieldTag(c, call.Call.Args[0])
			if t == "" {
				return false
			}
			if pr, ok := witnessPairs[t]; ok && pr[0] == ptag {
				vtag = t
				return true
			}
			if vtag == "" {
				vtag = "!" + t
			}
			return false
		})
		if !guarded {
			if strings.HasPrefix(vtag, "!") {
				c.violate("C08.pairing", key, s.call.Pos(), fnName(f), fmt.Sprintf("the witness %s is recorded when %s reaches a new maximum, but it is the footnote of another metric: the cited object would not attain the reported value", ptag, vtag[1:]))
			} else {
				c.violate("C08.pairing", key, s.call.Pos(), fnName(f), "the witness "+ptag+" is recorded without (or on the false branch of) the AdjustMax* update of its own metric: the cited object would not attain the reported value")
			}
			continue
		}
		// oid is the function's oid parameter; kind literal matches
		okOID := false
		if p, ok := c.resolve(s.oidArg).(*ssa.Parameter); ok && p.Parent() == f && isNamed(p.Type(), modPath+"/git", "OID") {
			okOID = true
		}
		kind, _ := constStr(s.typeArg)
		switch {
		case !okOID:
			c.violate("C08.pairing", key+":oid", s.call.Pos(), fnName(f), "the object id cited is not the id of the object whose value was just compared")
		case kind != witnessPairs[vtag][1]:
			c.violate("C08.pairing", key+":kind", s.call.Pos(), fnName(f), fmt.Sprintf("the witness of %s is recorded as a %q, the metric is about a %s", vtag, kind, witnessPairs[vtag][1]))
		default:
			c.hold("C08.pairing", key, s.call.Pos(), fmt.Sprintf("recorded iff AdjustMax*(%s) returned true, with this object's id, kind %s", vtag, kind))
		}
	}
	var missing []string
	for _, pr := range witnessPairs {
		if !seenPaths[pr[0]] {
			missing = append(missing, pr[0])
		}
	}
	sort.Strings(missing)
	for _, m := range missing {
		c.violate("C08.pairing", m, token.NoPos, "", "no witness is ever recorded for "+m)
	}
}

// checkSetter: forget the previous path (if any) before requesting the new one.
func (c *Ctx) checkSetter(set *ssa.Function) {
	var forget, request ssa.Instruction
	allInstrs(set, func(in ssa.Instruction) {
		call, ok := in.(*ssa.Call)
		if !ok || !call.Call.IsInvoke() {
			return
		}
		switch mname(call.Call.Method) {
		case "ForgetPath":
			forget = call
		case "RequestPath":
			request = call
		}
	})
	name := fnName(set)
	if request == nil {
		c.violate("C08.pairing", "setter:"+name+":request", set.Pos(), name, "the witness setter does not request a path for the new object")
		return
	}
	// result stored through the **Path parameter
	stored := false
	for _, r := range *request.(*ssa.Call).Referrers() {
		if st, ok := r.(*ssa.Store); ok {
			if _, ok := c.resolve(st.Addr).(*ssa.Parameter); ok {
				stored = true
			}
		}
	}
	if !stored {
		c.violate("C08.pairing", "setter:"+name+":store", request.Pos(), name, "the requested path is not stored into the witness field")
	}
	if forget == nil {
		c.violate("C08.pairing", "setter:"+name+":forget", set.Pos(), name, "the previous witness is not forgotten before the new one is requested")
		return
	}
	nonNil := guardedBy(forget.Block(), func(cond ssa.Value, truth bool) bool {
		cmp, ok := isCmp(cond, token.EQL, token.NEQ)
		return ok && isNilConst(cmp.Y) && (cmp.Op == token.NEQ) == truth
	})
	// every path to the request either passed through forget or had a nil old path
	if nonNil && forget.Block().Index < request.Block().Index {
		c.hold("C08.pairing", "setter:"+name, set.Pos(), "if *path != nil { ForgetPath(*path) } ; *path = RequestPath(oid, kind)")
	} else {
		c.violate("C08.pairing", "setter:"+name+":order", forget.Pos(), name, "ForgetPath is not applied to the non-nil previous path before RequestPath")
	}
}

func ruleC08Siblings(c *Ctx) {
	contents := c.fn("/sizes", "*HistorySize", "contents")
	newItem := c.itemCtor()
	if contents == nil || newItem == nil {
		c.violate("C08.siblings", "contents", token.NoPos, "", "the report's item list builder not found")
		return
	}
	// newItem's parameter positions by type
	pathIdx, valIdx := -1, -1
	for i, p := range newItem.Params {
		if isPtrToNamed(p.Type(), modPath+"/sizes", "Path") {
			pathIdx = i
		}
		if isNamed(p.Type(), modPath+"/counts", "Humanable") {
			valIdx = i
		}
	}
	if pathIdx < 0 || valIdx < 0 {
		c.violate("C08.siblings", "newItem", newItem.Pos(), fnName(newItem), "newItem has no (*Path, Humanable) parameters")
		return
	}
	n := 0
	for _, call := range c.itemRows(contents, newItem) {
		pv := call.Args[pathIdx]
		if isNilConst(pv) {
			continue
		}
		n++
		ptag := historyFieldTag(c, pv)
		vtag := historyFieldTag(c, itemValue(call.Args[valIdx]))
		sym, _ := constStr(call.Args[0])
		pr, ok := witnessPairs[vtag]
		if ok && pr[0] == ptag {
			c.hold("C08.siblings", sym, call.Pos, fmt.Sprintf("item %s shows %s and cites %s", sym, vtag, ptag))
		} else {
			c.violate("C08.siblings", sym, call.Pos, fnName(contents), fmt.Sprintf("item %s shows the value %s but cites the witness %s, which is recorded for another metric", sym, vtag, ptag))
		}
	}
	if n < len(witnessPairs) {
		c.violate("C08.siblings", "floor", contents.Pos(), fnName(contents), fmt.Sprintf("only %d items cite a witness; each of the %d maxima with a footnote must", n, len(witnessPairs)))
	}
}

// ruleC07Subgroups: in the recursive symbol collector every subgroup of a
// group is consulted, exactly once, and everything it reports is kept: the
// loops over the subgroups have no early exit, make exactly one recursive
// call per subgroup and append its symbols exactly once.
func ruleC07Subgroups(c *Ctx) {
	var collector *ssa.Function
	for _, f := range c.ModFns {
		if pkgOf(f) != modPath+"/internal/refopts" {
			continue
		}
		res := f.Signature.Results()
		shape := res.Len() == 2 && isBoolType(res.At(0).Type())
		if res.Len() == 1 {
			// (walk, symbols) packed into one result struct
			if st, ok := res.At(0).Type().Underlying().(*types.Struct); ok && st.NumFields() == 2 {
				nb, ns := 0, 0
				for i := 0; i < 2; i++ {
					if isBoolType(st.Field(i).Type()) {
						nb++
					}
					if isSliceType(st.Field(i).Type()) {
						ns++
					}
				}
				shape = nb == 1 && ns == 1
			}
		}
		if shape && len(callsTo(f, f)) > 0 {
			collector = f
		}
	}
	// recResult: v is the symbol list returned by a recursive call
	recResult := func(v ssa.Value) (ssa.Value, bool) {
		switch x := v.(type) {
		case *ssa.Extract:
			if rc, ok := x.Tuple.(*ssa.Call); ok && rc.Call.StaticCallee() == collector && x.Index == 1 {
				return x, true
			}
		case *ssa.Field:
			if rc, ok := x.X.(*ssa.Call); ok && rc.Call.StaticCallee() == collector && isSliceType(x.Type()) {
				return x, true
			}
		case *ssa.UnOp:
			// the result struct spilled into a local: a load of its slice field
			if fa, ok := x.X.(*ssa.FieldAddr); ok && isSliceType(x.Type()) {
				if al, ok := fa.X.(*ssa.Alloc); ok {
					for _, st := range storesTo(al) {
						if rc, ok := st.Val.(*ssa.Call); ok && rc.Call.StaticCallee() == collector {
							return x, true
						}
					}
				}
			}
		}
		return nil, false
	}
	if collector == nil {
		c.violate("C07.subgroups", "collector", token.NoPos, "", "no recursive symbol collector found in refopts: subgroup tallies are not computed")
		return
	}
	name := fnName(collector)
	n := 0
	for _, l := range loopsOf(collector) {
		if !c.rangeOverField(collector, l, "subgroups") {
			continue
		}
		n++
		key := fmt.Sprintf("loop@%s", c.lineKey(l.Head.Instrs[0]))
		// no early exit
		early := false
		for b := range l.Blocks {
			if b == l.Head {
				continue
			}
			for _, s := range b.Succs {
				if !l.Blocks[s] {
					early = true
				}
			}
			if len(b.Succs) == 0 {
				early = true
			}
		}
		if early {
			c.violate("C07.subgroups", key+":all", posOf(l.Head.Instrs[0]), name, "the loop over a group's subgroups can stop early: a reference matching several sibling subgroups would be tallied only under the first")
			continue
		}
		ecCall := c.newEventCounter(func(in ssa.Instruction) int {
			if call, ok := in.(*ssa.Call); ok && call.Call.StaticCallee() == collector {
				return 1
			}
			return 0
		}, false)
		ecApp := c.newEventCounter(func(in ssa.Instruction) int {
			call, ok := in.(*ssa.Call)
			if !ok || !isBuiltin(&call.Call, "append") {
				return 0
			}
			// append(symbols, ss...) where ss is the recursive result
			if _, ok := recResult(call.Call.Args[1]); ok {
				return 1
			}
			return 0
		}, false)
		rc, ra := ecCall.perIteration(l), ecApp.perIteration(l)
		if ra.Min == 0 && ra.Max == 1 {
			// `if len(ss) > 0 { symbols = append(symbols, ss...) }`: skipping the append of an
			// empty result changes nothing
			onlyEmptyGuard := true
			found := false
			for b := range l.Blocks {
				for _, in := range b.Instrs {
					call, ok := in.(*ssa.Call)
					if !ok || !isBuiltin(&call.Call, "append") {
						continue
					}
					ex, ok := recResult(call.Call.Args[1])
					if !ok {
						continue
					}
					found = true
					for _, fct := range factsAt(b) {
						if !l.Blocks[fct.If.Block()] || fct.If.Block() == l.Head {
							continue
						}
						cond, truth := normCond(fct.Cond, fct.Truth)
						cmp, isCmp2 := cond.(*ssa.BinOp)
						okGuard := false
						if isCmp2 {
							if lc, isLen := cmp.X.(*ssa.Call); isLen && isBuiltin(&lc.Call, "len") && lc.Call.Args[0] == ex {
								if k, isK := constInt(cmp.Y); isK && k == 0 {
									okGuard = (cmp.Op == token.GTR && truth) || (cmp.Op == token.NEQ && truth) || (cmp.Op == token.EQL && !truth) || (cmp.Op == token.LEQ && !truth)
								}
							}
							if cmp.X == ex && isNilConst(cmp.Y) {
								okGuard = (cmp.Op == token.NEQ && truth) || (cmp.Op == token.EQL && !truth)
							}
						}
						if !okGuard {
							onlyEmptyGuard = false
						}
					}
				}
			}
			if found && onlyEmptyGuard {
				ra = countRange{1, 1}
			}
		}
		if rc.Min == 1 && rc.Max == 1 && ra.Min == 1 && ra.Max == 1 {
			c.hold("C07.subgroups", key, posOf(l.Head.Instrs[0]), "every subgroup is consulted exactly once and its symbols are kept")
		} else {
			c.violate("C07.subgroups", key, posOf(l.Head.Instrs[0]), name, fmt.Sprintf("per subgroup the collector is called %s times and its symbols are appended %s times (must be exactly once each)", rangeStr(rc), rangeStr(ra)))
		}
		// the recursive call is made on the subgroup of this iteration with the same reference name
		for b := range l.Blocks {
			for _, in := range b.Instrs {
				if call, ok := in.(*ssa.Call); ok && call.Call.StaticCallee() == collector {
					if c.resolve(call.Call.Args[1]) != ssa.Value(collector.Params[1]) {
						c.violate("C07.subgroups", key+":refname", call.Pos(), name, "a subgroup is asked about a different reference name")
					}
				}
			}
		}
	}
	// with and without a filter of its own, a group answers only after its
	// subgroups were asked: no return is reachable around the loops, except
	// the one that reports "not matched" when the group's own filter rejects
	heads := map[*ssa.BasicBlock]bool{}
	for _, l := range loopsOf(collector) {
		if c.rangeOverField(collector, l, "subgroups") {
			heads[l.Head] = true
		}
	}
	around := false
	if n > 0 && len(collector.Blocks) > 0 {
		seen := map[*ssa.BasicBlock]bool{collector.Blocks[0]: true}
		work := []*ssa.BasicBlock{collector.Blocks[0]}
		for len(work) > 0 {
			b := work[len(work)-1]
			work = work[:len(work)-1]
			if heads[b] {
				continue
			}
			if ret, ok := b.Instrs[len(b.Instrs)-1].(*ssa.Return); ok && len(ret.Results) > 0 {
				k, isConst := boolConstOf(ret.Results[0])
				if zc, isZero := ret.Results[0].(*ssa.Const); isZero && zc.Value == nil {
					k, isConst = false, true // the zero value of a result struct: not matched
				}
				if !isConst || k {
					around = true
					c.violate("C07.subgroups", "loops", ret.Pos(), name, "a group can answer \"matched\" without its subgroups having been asked: references would be missing from the tallies of the subgroups")
				}
			}
			for _, s := range b.Succs {
				if !seen[s] {
					seen[s] = true
					work = append(work, s)
				}
			}
		}
	}
	if n < 1 {
		c.violate("C07.subgroups", "loops", collector.Pos(), name, "no loop over a group's subgroups")
	} else if !around {
		c.hold("C07.subgroups", "loops", collector.Pos(), "the subgroups are asked on every path to an answer other than the own filter's rejection")
	}
}

// instrDominatesOrGuards: a is executed before b on the paths where a's
// guard holds (a sits in a conditional block whose If dominates b).
func instrDominatesOrGuards(a, b ssa.Instruction) bool {
	if instrDominates(a, b) {
		return true
	}
	if idom := a.Block().Idom(); idom != nil {
		return idom.Dominates(b.Block()) && a.Block().Index < b.Block().Index
	}
	return false
}

// ruleC08ParentKind: the resolver records the referrer of a sought object
// with the referrer's own kind (a commit for RecordCommit, a tree for
// RecordTreeEntry): the kind selects how the description is rendered.
func ruleC08ParentKind(c *Ctx) {
	want := map[string]string{"RecordCommit": "commit", "RecordTreeEntry": "tree"}
	n := 0
	for _, f := range c.ModFns {
		kind, ok := want[refName(f)]
		if !ok || pkgOf(f) != modPath+"/sizes" || f.Signature.Recv() == nil {
			continue
		}
		allInstrs(f, func(in ssa.Instruction) {
			var lit string
			var oidOK bool
			isOwnOID := func(a ssa.Value) bool {
				p, ok := c.resolve(a).(*ssa.Parameter)
				return ok && p.Parent() == f && isNamed(p.Type(), modPath+"/git", "OID") && len(f.Params) > 1 && p == f.Params[1]
			}
			switch x := in.(type) {
			case *ssa.Call:
				cal := x.Call.StaticCallee()
				if cal == nil || !c.inRuleScope(cal) || cal.Signature.Results().Len() != 1 || !isPtrToNamed(cal.Signature.Results().At(0).Type(), modPath+"/sizes", "Path") {
					return
				}
				for _, a := range x.Call.Args {
					if s, ok := constStr(a); ok {
						lit = s
					}
					if isOwnOID(a) {
						oidOK = true
					}
				}
			case *ssa.Alloc:
				// the referrer's path created in place: &Path{OID: oid, objectType: "...", …}
				if !isNamed(x.Type().Underlying().(*types.Pointer).Elem(), modPath+"/sizes", "Path") {
					return
				}
				for _, r := range *x.Referrers() {
					fa, ok := r.(*ssa.FieldAddr)
					if !ok {
						continue
					}
					for _, st := range storesTo(fa) {
						if s, ok := constStr(st.Val); ok && isBasicString(fieldOfAddr(fa).Var.Type()) {
							lit = s
						}
						if isOwnOID(st.Val) {
							oidOK = true
						}
					}
				}
			default:
				return
			}
			call := in
			n++
			key := fnName(f)
			switch {
			case lit != kind:
				c.violate("C08.parent-kind", key, call.Pos(), key, fmt.Sprintf("%s records the referring object as a %q (it is a %s): descriptions through it are rendered with the wrong separator and do not resolve", f.Name(), lit, kind))
			case !oidOK:
				c.violate("C08.parent-kind", key+":oid", call.Pos(), key, f.Name()+" does not record the referring object's own id")
			default:
				c.hold("C08.parent-kind", key, call.Pos(), "the referrer is recorded as a "+kind+" with its own id")
			}
		})
	}
	if n < 2 {
		c.violate("C08.parent-kind", "floor", token.NoPos, "", fmt.Sprintf("only %d referrer-recording sites found in the path resolver (commit→tree and tree→entry expected)", n))
	}
}

// ruleC08RootPrefix: git's revision grammar is <rev>:<path>. When an object
// that can have path components below it (a commit, a tag, or a tree that a
// root names directly) is itself named by a root, the prefix under which its
// entries are described must be "<name>:"; with no name at all it is
// "<oid>:". Interpreted with E5 on (*Path).TreePrefix for a parentless path.
func ruleC08RootPrefix(c *Ctx) {
	pt := c.namedType("/sizes", "Path")
	if pt == nil {
		c.violate("C08.root-prefix", "Path", token.NoPos, "", "sizes.Path not found")
		return
	}
	f := c.methodOf(types.NewPointer(pt), "TreePrefix")
	if f == nil {
		c.violate("C08.root-prefix", "TreePrefix", token.NoPos, "", "(*sizes.Path).TreePrefix not found: descriptions of entries below a named object cannot be built")
		return
	}
	st := pt.Underlying().(*types.Struct)
	for _, kind := range []string{"commit", "tree"} {
		mk := func() aVal {
			s := aStruct{pt, map[int]aVal{}}
			for i := 0; i < st.NumFields(); i++ {
				fv := st.Field(i)
				switch {
				case isPtrToNamed(fv.Type(), modPath+"/sizes", "Path"):
					s.f[i] = aConst{nil, fv.Type()}
				case isNamed(fv.Type(), modPath+"/git", "OID"):
					s.f[i] = aSym("OID")
				default:
					if b, ok := fv.Type().Underlying().(*types.Basic); ok && b.Kind() == types.String {
						if strings.Contains(strings.ToLower(vname(fv)), "type") {
							s.f[i] = aConst{constant.MakeString(kind), fv.Type()}
						} else {
							s.f[i] = aSym("NAME")
						}
					} else {
						s.f[i] = aSym("p." + vname(fv))
					}
				}
			}
			return aPtr{&aCell{v: s}}
		}
		sums := map[string]aSummary{
			modQ("/git", "OID", "String"): func(fr *aFrame, args []aVal) (aVal, bool) { return aSym("HEX(" + aShow(args[0]) + ")"), true },
		}
		// a module function string -> int applied to the name: the position
		// of the colon that separates <rev> from <path> (checked below)
		var sepFns []*ssa.Function
		allInstrs(f, func(in ssa.Instruction) {
			if call, ok := in.(*ssa.Call); ok {
				g := call.Call.StaticCallee()
				if g == nil || !c.inRuleScope(g) || g.Signature.Params().Len() != 1 || g.Signature.Results().Len() != 1 {
					return
				}
				pb, ok1 := g.Signature.Params().At(0).Type().Underlying().(*types.Basic)
				rb, ok2 := g.Signature.Results().At(0).Type().Underlying().(*types.Basic)
				if ok1 && ok2 && pb.Kind() == types.String && rb.Kind() == types.Int {
					sums[refQ(g)] = func(fr *aFrame, args []aVal) (aVal, bool) { return aSym("SEP(" + aShow(args[0]) + ")"), true }
					sepFns = append(sepFns, g)
				}
			}
		})
		rows := aEnumerate(nil, func(e *aEnv) aVal { return c.aCall(f, []aVal{mk()}, e, 0, sums) })
		bad := ""
		named := 0
		for _, r := range rows {
			if len(r.Undec) > 0 {
				bad = "UNDECIDED " + strings.Join(r.Undec, "; ")
				continue
			}
			hasName, asked := r.Atoms[`["" == NAME]`]
			if !asked {
				bad = "the prefix of a parentless " + kind + " does not depend on whether a root names it: " + r.String()
				continue
			}
			got := aShow(r.Result)
			if !hasName {
				named++
				// the name may itself be of the form <rev>:<path> (ROOT `master:dir`): then the path simply continues
				if kind == "tree" {
					// decided on the position of the colon that separates <rev> from <path>
					var sepX string
					for a := range r.Atoms {
						if strings.HasPrefix(a, "[-1 == ") {
							sepX = strings.TrimSuffix(strings.TrimPrefix(a, "[-1 == "), "]")
						}
					}
					if sepX == "" {
						if hs, asked := r.Atoms[`strings.HasSuffix(NAME,":")`]; asked && hs {
							bad = "a tree is taken to be named `<rev>:` whenever its name ends in ':': ROOT `HEAD:notes:` (a directory called `notes:`) has its entries described as HEAD:notes:<entry> instead of HEAD:notes:/<entry>, which git does not resolve"
						} else if bad == "" {
							bad = "the prefix of a tree that a root names directly is not decided on the position of the colon separating <rev> from <path>: " + r.String()
						}
						continue
					}
					NOSEP, LAST, SL := "[-1 == "+sepX+"]", "[(len(NAME) - 1) == "+sepX+"]", `strings.HasSuffix(NAME,"/")`
					one := []aRow{{Atoms: map[string]bool{}, Result: r.Result}}
					for a, v := range r.Atoms {
						if a != `["" == NAME]` {
							one[0].Atoms[a] = v
						}
					}
					if msg := checkTable(one, []string{NOSEP, LAST, SL}, func(a map[string]bool) string {
						switch {
						case a[NOSEP]:
							return `(NAME + ":")`
						case a[LAST], a[SL]:
							return "NAME"
						}
						return `(NAME + "/")`
					}); msg != "" {
						bad = "a tree named by a root: " + msg
					}
					continue
				}
				ct, askedCT := r.Atoms[`strings.Contains(NAME,":")`]
				hs, askedHS := r.Atoms[`strings.HasSuffix(NAME,":")`]
				sl, askedSL := r.Atoms[`strings.HasSuffix(NAME,"/")`]
				switch {
				case askedHS && hs:
					if got != "NAME" {
						bad = fmt.Sprintf("a %s named `<rev>:` gets the prefix %s instead of the name itself", kind, got)
					}
				case askedSL && sl:
					if got != "NAME" {
						bad = fmt.Sprintf("a %s named `<rev>:<path>/` gets the prefix %s instead of the name itself", kind, got)
					}
				case kind == "tree" && askedCT && ct && !askedSL:
					bad = fmt.Sprintf("a tree named `<rev>:<path>` gets the prefix %s whether or not the name already ends in '/': ROOT `main:src/` is described as main:src//<entry>, which git does not resolve", got)
				case askedCT && ct:
					if got != `(NAME + "/")` {
						bad = fmt.Sprintf("a %s named `<rev>:<path>` gets the prefix %s instead of NAME/", kind, got)
					}
				case askedCT && !ct:
					if got != `(NAME + ":")` {
						bad = fmt.Sprintf("entries below a %s that a root names as a plain tree-ish are described as %s…; git's revision grammar needs NAME:<path>", kind, got)
					}
				default:
					if kind == "tree" {
						bad = fmt.Sprintf("entries below a tree that a root names directly are described as %s… whatever the form of the name; git's revision grammar needs NAME:<path> for a plain tree-ish (refs/tags/t:dir/file, not refs/tags/t/dir/file) and NAME/<path> only when the name already is <rev>:<path>", got)
					} else if got != `(NAME + ":")` {
						bad = fmt.Sprintf("entries below a named %s are described as %s… instead of NAME:<path>", kind, got)
					}
				}
			} else if kind == "commit" && !strings.Contains(got, "HEX(") {
				bad = "entries below an unnamed commit are not described as <oid>:<path>: " + got
			}
		}
		if named == 0 && bad == "" {
			bad = "no case for a " + kind + " named directly by a root"
		}
		c.judge("C08.root-prefix", kind, f, bad, rows, "parentless "+kind+" named by a root ⇒ NAME: for a plain tree-ish (NAME/ only when the name already is <rev>:<path>)")
		if kind != "tree" {
			continue
		}
		for _, g := range sepFns {
			c.checkSeparatorFn(g)
		}
		// a tree reached through an entry of its parent tree: the parent's
		// prefix, the entry's name and '/', whatever the name looks like (the
		// rules about ':' apply to root names only; a directory may be
		// called `notes:`)
		mkChild := func() aVal {
			child := mk().(aPtr)
			cs := child.cell.v.(aStruct)
			for i := 0; i < st.NumFields(); i++ {
				if isPtrToNamed(st.Field(i).Type(), modPath+"/sizes", "Path") {
					cs.f[i] = mk()
				}
			}
			return child
		}
		rows = aEnumerate(nil, func(e *aEnv) aVal { return c.aCall(f, []aVal{mkChild()}, e, 0, sums) })
		bad = ""
		for _, r := range rows {
			if len(r.Undec) > 0 {
				bad = "UNDECIDED " + strings.Join(r.Undec, "; ")
				continue
			}
			empty, asked := r.Atoms[`["" == NAME]`]
			got := aShow(r.Result)
			switch {
			case !asked:
				bad = "the prefix of a tree below another tree does not depend on whether it is the top-level tree of a commit: " + r.String()
			case len(r.Atoms) != 1:
				bad = "the prefix of a tree reached through a tree entry depends on the form of the entry's name: " + r.String()
			case empty && !(strings.HasSuffix(got, ".TreePrefix(&cell)") && !strings.Contains(got, " + ")):
				bad = "the top-level tree of a commit does not take over the commit's prefix: " + r.String()
			case !empty && !(strings.HasPrefix(got, "((") && strings.HasSuffix(got, `.TreePrefix(&cell) + NAME) + "/")`) && strings.Count(got, " + ") == 2):
				bad = "entries below a subtree are not described as <parent prefix><name>/…: " + r.String()
			}
		}
		c.judge("C08.root-prefix", "entry", f, bad, rows, "tree below a tree ⇒ parent's prefix + entry name + '/', unconditionally")
	}
}

// ruleC07EachGroup: every group of the hierarchy gets its own rules and name
// (C15.each-group, reported under C07's name).
func ruleC07EachGroup(c *Ctx) {
	c.RuleAlias = map[string]string{"C15.each-group": "C07.hierarchy"}
	defer func() { c.RuleAlias = nil }()
	ruleC15EachGroup(c)
}

// ruleC08Refcount: a sought path's parent link holds a counted reference.
// Path.parent may only be assigned the result of a function that, on every
// path to its return, increments the seeker count of the path it returns or
// creates it with count 1. Otherwise a later ForgetPath cascade removes the
// parent while a child still needs it and the child is footnoted as `???name`.
func ruleC08Refcount(c *Ctx) {
	pt := c.namedType("/sizes", "Path")
	if pt == nil {
		c.violate("C08.refcount", "type", token.NoPos, "", "type sizes.Path not found")
		return
	}
	st, _ := pt.Underlying().(*types.Struct)
	var parentF, countF *types.Var
	for i := 0; st != nil && i < st.NumFields(); i++ {
		f := st.Field(i)
		if p, ok := f.Type().(*types.Pointer); ok && types.Identical(p.Elem(), pt) {
			parentF = f
		}
		if b, ok := f.Type().Underlying().(*types.Basic); ok && b.Info()&types.IsInteger != 0 {
			countF = f
		}
	}
	if parentF == nil || countF == nil {
		c.notDecided("C08.refcount", "fields", pt.Obj().Pos(), "sizes.Path no longer has a self-typed parent link and an integer reference count")
		return
	}
	// acquisitions: count := count + 1, or count initialised to the constant 1
	isAcquire := func(in ssa.Instruction) int {
		s, ok := in.(*ssa.Store)
		if !ok {
			return 0
		}
		fa, ok := s.Addr.(*ssa.FieldAddr)
		if !ok || fieldOfAddr(fa).Var != countF {
			return 0
		}
		if k, ok := constInt(s.Val); ok && k == 1 {
			return 1
		}
		if bo, ok := s.Val.(*ssa.BinOp); ok && bo.Op == token.ADD {
			if k, ok := constInt(bo.Y); ok && k == 1 {
				return 1
			}
		}
		return 0
	}
	ec := c.newEventCounter(isAcquire, true)
	acquiring := func(f *ssa.Function) bool {
		if f == nil || len(f.Blocks) == 0 || f.Signature.Results().Len() != 1 {
			return false
		}
		r := ec.function(f)
		return r.Min == 1 && r.Max == 1
	}
	n := 0
	for _, f := range c.ModFns {
		allInstrs(f, func(in ssa.Instruction) {
			s, ok := in.(*ssa.Store)
			if !ok {
				return
			}
			fa, ok := s.Addr.(*ssa.FieldAddr)
			if !ok || fieldOfAddr(fa).Var != parentF {
				return
			}
			n++
			key := fnName(f)
			var bad string
			// an explicit `p.count++` on the looked-up path before it is linked
			countedInline := func(v ssa.Value, at *ssa.BasicBlock) bool {
				found := false
				allInstrs(f, func(in2 ssa.Instruction) {
					if isAcquire(in2) == 0 {
						return
					}
					fa2 := in2.(*ssa.Store).Addr.(*ssa.FieldAddr)
					if c.resolve(fa2.X) == v && (in2.Block() == at || in2.Block().Dominates(at)) {
						found = true
					}
				})
				return found
			}
			var check func(v ssa.Value, depth int, at *ssa.BasicBlock)
			seen := map[ssa.Value]bool{}
			check = func(v ssa.Value, depth int, at *ssa.BasicBlock) {
				v = c.resolve(v)
				if seen[v] || depth > 8 {
					return
				}
				seen[v] = true
				switch x := v.(type) {
				case *ssa.Const:
					if !isNilConst(x) {
						bad = "a constant"
					}
				case *ssa.Phi:
					for i, e := range x.Edges {
						check(e, depth+1, x.Block().Preds[i])
					}
				case *ssa.Call:
					if cal := x.Call.StaticCallee(); cal == nil || !c.inRuleScope(cal) || !acquiring(cal) {
						if !countedInline(v, at) {
							bad = "the result of " + calleeQ(&x.Call) + ", which does not take exactly one reference on every path"
						}
					}
				default:
					if !countedInline(v, at) {
						bad = fmt.Sprintf("a path obtained without taking a reference (%s)", strings.TrimPrefix(fmt.Sprintf("%T", v), "*ssa."))
					}
				}
			}
			check(s.Val, 0, s.Block())
			if bad == "" {
				c.hold("C08.refcount", key, s.Pos(), "the parent link is the result of a request that counted this child as a seeker")
			} else {
				c.violate("C08.refcount", key, s.Pos(), key, "the parent link of a sought path is set to "+bad+": the parent's seeker count does not include this child, so forgetting another seeker drops the parent and the child is footnoted with an unresolvable `???name`")
			}
		})
	}
	if n < 2 {
		c.violate("C08.refcount", "floor", token.NoPos, "", fmt.Sprintf("only %d assignments of a parent link found (tree entries and commit trees expected)", n))
	}
}

func isBasicString(t types.Type) bool {
	b, ok := t.Underlying().(*types.Basic)
	return ok && b.Kind() == types.String
}

func ruleC07LastDot(c *Ctx) { lastDotRule(c, "C07.hierarchy") }

// ruleC07IgnoredGroup: references that match no refgroup are tallied under
// "Ignored". The function that builds the grouper must create that group on
// every success path, or only depend on the top-level filter as it is AFTER
// the default (all / no references) has been filled in — a test made before
// the defaulting drops the Ignored tally exactly when explicit ROOTs are
// given without any reference option.
func ruleC07IgnoredGroup(c *Ctx) {
	var stores []*ssa.Store
	for _, f := range c.ModFns {
		if pkgOf(f) != modPath+"/internal/refopts" {
			continue
		}
		allInstrs(f, func(in ssa.Instruction) {
			st, ok := in.(*ssa.Store)
			if !ok {
				return
			}
			fa, ok := st.Addr.(*ssa.FieldAddr)
			if !ok || !isPtrToNamed(fieldOfAddr(fa).Var.Type(), modPath+"/sizes", "RefGroup") || isNilConst(st.Val) {
				return
			}
			// the field Categorize falls back to when nothing matched: by role, a *sizes.RefGroup field of the grouper itself
			if n := namedOf(fieldOfAddr(fa).Struct); n == nil || !strings.Contains(strings.ToLower(tname(n.Obj())), "grouper") {
				return
			}
			stores = append(stores, st)
		})
	}
	if len(stores) == 0 {
		c.notDecided("C07.ignored", "group-exists", token.NoPos, "no store of the grouper's fallback (*sizes.RefGroup) field found")
		return
	}
	for _, st := range stores {
		f := st.Parent()
		name := fnName(f)
		succ := map[*ssa.BasicBlock]bool{}
		for _, ret := range returnsOf(f) {
			ok := true
			for i := 0; i < f.Signature.Results().Len(); i++ {
				if isErrorType(f.Signature.Results().At(i).Type()) {
					for _, v := range c.resultValues(ret, i) {
						if !isNilConst(v) {
							ok = false
						}
					}
				}
			}
			if ok {
				succ[ret.Block()] = true
			}
		}
		ec := c.newEventCounter(func(in ssa.Instruction) int {
			if in == ssa.Instruction(st) {
				return 1
			}
			return 0
		}, false)
		r := ec.region(f.Blocks[0], 0, succ, nil)
		if r.Min == 1 && r.Max == 1 {
			c.hold("C07.ignored", "group-exists:"+name, st.Pos(), "the Ignored group is created on every success path")
			continue
		}
		// conditional: every guard must test the top-level filter as it is after defaulting
		bad := ""
		for _, fct := range factsAt(st.Block()) {
			// only guards whose other branch still reaches a success return matter
			ib := fct.If.Block()
			other := ib.Succs[0]
			if fct.Truth {
				other = ib.Succs[1]
			}
			relevant := false
			for b := range reachable(other) {
				if succ[b] && !st.Block().Dominates(b) {
					relevant = true
				}
			}
			if !relevant {
				continue
			}
			cond, _ := normCond(fct.Cond, fct.Truth)
			cmp, ok := isCmp(cond, token.EQL, token.NEQ)
			var ld *ssa.UnOp
			if ok {
				for _, side := range []ssa.Value{cmp.X, cmp.Y} {
					if u, isU := side.(*ssa.UnOp); isU && u.Op == token.MUL {
						if _, isF := u.X.(*ssa.FieldAddr); isF {
							ld = u
						}
					}
				}
			}
			if ld == nil {
				bad = "a condition that is not a test of the top-level filter"
				break
			}
			fv := fieldOfAddr(ld.X.(*ssa.FieldAddr)).Var
			// a store to the same field reachable after the load => the test saw the pre-default value
			reach := reachable(ld.Block())
			for b := range reach {
				for _, in := range b.Instrs {
					s2, isSt := in.(*ssa.Store)
					if !isSt {
						continue
					}
					fa2, isFA := s2.Addr.(*ssa.FieldAddr)
					if !isFA || fieldOfAddr(fa2).Var != fv {
						continue
					}
					if b == ld.Block() && instrIndex(s2) < instrIndex(ld) {
						continue
					}
					bad = "the value of " + fv.Name() + " read before its default is filled in (" + c.pos(s2.Pos()) + ")"
				}
			}
		}
		if bad == "" {
			c.hold("C07.ignored", "group-exists:"+name, st.Pos(), "created under a test of the filter's final value")
		} else {
			c.violate("C07.ignored", "group-exists:"+name, st.Pos(), name, "the Ignored group is created only under "+bad+": when no reference option is given (explicit ROOT arguments) unmatched references are tallied nowhere")
		}
	}
}

// ruleC08RootName: the name under which an explicit ROOT is described is the
// argument as the user wrote it (`main:` must stay `main:`; the renderer
// decides about separators). The constructor of the explicit root stores its
// parameters unchanged.
func ruleC08RootName(c *Ctx) {
	et := c.namedType("/sizes", "ExplicitRoot")
	if et == nil {
		c.notDecided("C08.root-prefix", "root-name", token.NoPos, "type sizes.ExplicitRoot not found")
		return
	}
	n := 0
	for _, f := range c.ModFns {
		if pkgOf(f) != modPath+"/sizes" || f.Parent() != nil || f.Signature.Recv() != nil || f.Signature.Results().Len() != 1 {
			continue
		}
		if !types.Identical(f.Signature.Results().At(0).Type(), et) && !isPtrToNamed(f.Signature.Results().At(0).Type(), modPath+"/sizes", "ExplicitRoot") {
			continue
		}
		allInstrs(f, func(in ssa.Instruction) {
			st, ok := in.(*ssa.Store)
			if !ok {
				return
			}
			fa, ok := st.Addr.(*ssa.FieldAddr)
			if !ok || !types.Identical(fieldOfAddr(fa).Struct, et.Underlying()) && namedOf(fieldOfAddr(fa).Struct) != et {
				return
			}
			n++
			key := "root-name:" + fnName(f) + ":" + vname(fieldOfAddr(fa).Var)
			if _, isParam := c.resolve(st.Val).(*ssa.Parameter); isParam {
				c.hold("C08.root-prefix", key, st.Pos(), "stored as given")
			} else {
				c.violate("C08.root-prefix", key, st.Pos(), fnName(f), "the explicit root's "+vname(fieldOfAddr(fa).Var)+" is not stored as given: `main:` (a tree) described as `main` resolves to the commit, not to the cited object")
			}
		})
	}
	if n == 0 {
		c.notDecided("C08.root-prefix", "root-name", token.NoPos, "no constructor of sizes.ExplicitRoot found")
	}
}

// ruleC08NameBeforeFinalize: while a tree's entries are processed, the path
// resolver is told about an entry BEFORE the bookkeeping that may complete
// (finalise) the containing trees: finalisation reports the parent's own
// entry to the resolver, and that report only links up if the child's request
// for its parent already exists.
func ruleC08NameBeforeFinalize(c *Ctx) {
	n := 0
	for _, rs := range c.requireSites() {
		if rs.Kind != "tree" {
			continue
		}
		for _, fn := range []*ssa.Function{rs.Fn, rs.Listener} {
			if fn == nil {
				continue
			}
			var rec []ssa.Instruction
			allInstrs(fn, func(in ssa.Instruction) {
				if call, ok := in.(*ssa.Call); ok && call.Call.IsInvoke() && mname(call.Call.Method) == "RecordTreeEntry" {
					rec = append(rec, call)
				}
			})
			if len(rec) == 0 {
				continue
			}
			for _, r := range rec {
				n++
				key := "name-before-finalize:" + fnName(fn)
				bad := false
				allInstrs(fn, func(in ssa.Instruction) {
					if !c.isFinalizeStep(in) {
						return
					}
					// a finalisation step that can execute before this report
					if instrDominates(in, r) {
						bad = true
					}
				})
				if bad {
					c.violate("C08.pairing", key, r.Pos(), fnName(fn), "the entry is reported to the path resolver after the step that may finalise the containing trees: the parent's own entry is then reported before this child has requested its parent, and the child is described as `???name`")
				} else {
					c.hold("C08.pairing", key, r.Pos(), "reported before any finalisation step of the same function")
				}
			}
		}
	}
	if n == 0 {
		c.notDecided("C08.pairing", "name-before-finalize", token.NoPos, "no RecordTreeEntry report found next to the tree dependency handling")
	}
}

// ruleC08TagReferent: an object that is reachable only through an annotated
// tag (a tag on a tree or blob; entries below a tagged tree) can be described
// only if the resolver links the tag's referent to the tag, as it links a
// commit's tree to the commit. Every full-name resolver's RecordTag must do
// something with the referent it is told about, and the scanner must tell it.
func ruleC08TagReferent(c *Ctx) {
	n := 0
	for _, f := range c.ModFns {
		if refName(f) != "RecordTag" || pkgOf(f) != modPath+"/sizes" || f.Signature.Recv() == nil || f.Parent() != nil {
			continue
		}
		// only the resolver that hands out descriptions (it has a table of sought paths)
		rt := namedOf(f.Signature.Recv().Type())
		if rt == nil {
			continue
		}
		st, ok := rt.Underlying().(*types.Struct)
		if !ok {
			continue
		}
		hasTable := false
		for i := 0; i < st.NumFields(); i++ {
			if _, isMap := st.Field(i).Type().Underlying().(*types.Map); isMap {
				hasTable = true
			}
		}
		if !hasTable {
			continue
		}
		n++
		key := fnName(f) + ":links-referent"
		links := false
		allInstrs(f, func(in ssa.Instruction) {
			switch in.(type) {
			case *ssa.Store, *ssa.MapUpdate, *ssa.Call, *ssa.Lookup:
				links = true
			}
		})
		if links {
			c.hold("C08.tag-referent", key, f.Pos(), "the resolver looks at the referent of a recorded tag")
			// once tags are linked, a commit can have a tag as its parent:
			// the prefix for what lies below such a commit has to end in ':'
			// like every other commit prefix (`<tag>^{commit}:path`)
			c.checkTagParentPrefix()
		} else {
			c.violate("C08.tag-referent", key, f.Pos(), fnName(f), "the full-name resolver ignores tags (empty RecordTag): the referent of an annotated tag is never linked to the tag, so a blob or tree reachable only through a tag on a tree is described as `???<name>`, which does not resolve")
		}
	}
	if n == 0 {
		c.notDecided("C08.tag-referent", "resolver", token.NoPos, "no path resolver with a RecordTag method and a table of sought paths found")
	}
}

// checkTagParentPrefix: in TreePrefix, the arm for a commit or tag that has a
// parent returns a text that ends in ':'.
func (c *Ctx) checkTagParentPrefix() {
	const rule = "C08.root-prefix"
	pt := c.namedType("/sizes", "Path")
	if pt == nil {
		return
	}
	f := c.methodOf(types.NewPointer(pt), "TreePrefix")
	if f == nil || len(f.Params) == 0 {
		return
	}
	isField := func(v ssa.Value, field string) bool {
		b, p := c.fieldPath(c.resolve(v))
		return b != nil && len(p) == 1 && p[0] == field && c.resolve(b) == ssa.Value(f.Params[0])
	}
	endsInColon := func(v ssa.Value) (bool, bool) {
		v = c.resolve(v)
		switch x := v.(type) {
		case *ssa.Call:
			if calleeQ(&x.Call) == "fmt.Sprintf" {
				if fs, ok := constStr(x.Call.Args[0]); ok {
					return strings.HasSuffix(fs, ":"), true
				}
			}
		case *ssa.BinOp:
			if x.Op == token.ADD {
				if s, ok := constStr(x.Y); ok {
					return strings.HasSuffix(s, ":"), true
				}
			}
		case *ssa.Const:
			if s, ok := constStr(x); ok {
				return strings.HasSuffix(s, ":"), true
			}
		}
		return false, false
	}
	n := 0
	for _, ret := range returnsOf(f) {
		hasParent, isCommit := false, false
		notType := map[string]bool{}
		for _, fct := range factsAt(ret.Block()) {
			cond, truth := normCond(fct.Cond, fct.Truth)
			cmp, ok := cond.(*ssa.BinOp)
			if !ok || (cmp.Op != token.EQL && cmp.Op != token.NEQ) {
				continue
			}
			eq := (cmp.Op == token.EQL) == truth
			if isField(cmp.X, "parent") && isNilConst(cmp.Y) && !eq {
				hasParent = true
			}
			if lit, isLit := constStr(cmp.Y); isLit && isField(cmp.X, "objectType") {
				if eq && (lit == "commit" || lit == "tag") {
					isCommit = true
				}
				if !eq {
					notType[lit] = true
				}
			}
		}
		// the shared arm of `case "commit", "tag"`: neither blob nor tree, and
		// not yet excluded
		if notType["blob"] && notType["tree"] && !(notType["commit"] && notType["tag"]) {
			isCommit = true
		}
		if !hasParent || !isCommit {
			continue
		}
		for _, v := range c.resultValues(ret, 0) {
			n++
			ok, decided := endsInColon(v)
			switch {
			case !decided:
				c.notDecided(rule, "tag-parent:colon", ret.Pos(), "the text returned for a commit below a tag is not a format or a concatenation with a constant end")
			case ok:
				c.hold(rule, "tag-parent:colon", ret.Pos(), "the prefix of a commit reached through a tag ends in ':'")
			default:
				c.violate(rule, "tag-parent:colon", ret.Pos(), fnName(f), "tags are linked to their referents, so a commit can have a tag as its parent, but the prefix built for what lies below such a commit does not end in ':' (`<tag>^{commit}dir/file`): the description does not resolve")
			}
		}
	}
	_ = n
}

// checkSeparatorFn: the function that finds the colon between <rev> and
// <path> returns -1 or a position at which the name has a ':' (outside
// braces, as git reads `HEAD^{/fix: x}:dir`).
func (c *Ctx) checkSeparatorFn(g *ssa.Function) {
	const rule = "C08.root-prefix"
	key := "separator:" + g.Name()
	if len(g.Params) != 1 {
		return
	}
	name := g.Params[0]
	bad, braces := "", true
	n := 0
	for _, ret := range returnsOf(g) {
		v := ret.Results[0]
		if k, ok := constInt(v); ok && k == -1 {
			continue
		}
		n++
		colon, depth0 := false, false
		for _, f := range factsAt(ret.Block()) {
			cond, truth := normCond(f.Cond, f.Truth)
			cmp, ok := cond.(*ssa.BinOp)
			if !ok || (cmp.Op == token.EQL) != truth || (cmp.Op != token.EQL && cmp.Op != token.NEQ) {
				continue
			}
			if k, isK := constInt(cmp.Y); isK {
				if lk, isLk := cmp.X.(*ssa.Lookup); isLk && lk.X == ssa.Value(name) && lk.Index == v && k == ':' {
					colon = true
				}
				if ix, isIx := cmp.X.(*ssa.Index); isIx && ix.X == ssa.Value(name) && ix.Index == v && k == ':' {
					colon = true
				}
				// the byte at that position of a []byte copy of the name
				if ld, isLd := cmp.X.(*ssa.UnOp); isLd && ld.Op == token.MUL && k == ':' {
					if ia, isIA := ld.X.(*ssa.IndexAddr); isIA && ia.Index == v {
						if cv, isCv := c.resolve(ia.X).(*ssa.Convert); isCv && cv.X == ssa.Value(name) {
							colon = true
						}
					}
				}
				if _, isPhi := cmp.X.(*ssa.Phi); isPhi && k == 0 {
					depth0 = true
				}
			}
		}
		if !colon {
			bad = "a position is returned at which the name is not known to have a ':'"
		}
		if !depth0 {
			braces = false
		}
	}
	switch {
	case bad != "":
		c.violate(rule, key, g.Pos(), fnName(g), bad)
	case n == 0:
		c.violate(rule, key, g.Pos(), fnName(g), "never returns a position")
	case !braces:
		c.notDecided(rule, key, g.Pos(), "the colon found is not visibly one outside braces")
	default:
		c.hold(rule, key, g.Pos(), "returns -1 or the position of a ':' found at brace depth 0")
	}
}
