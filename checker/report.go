package main

import (
	"bufio"
	"encoding/json"
	"fmt"
	"go/token"
	"os"
	"path/filepath"
	"regexp"
	"sort"
	"strings"
	"time"
)

// Instance is one evaluated rule instance (an obligation).
type Instance struct {
	Rule   string `json:"rule"`
	Key    string `json:"key"`
	Status string `json:"status"` // HOLDS VIOLATED UNDECIDED EXCEPTION
	Pos    string `json:"pos,omitempty"`
	Note   string `json:"note,omitempty"`
	Config string `json:"config,omitempty"`
	// Nontrivial: the verdict needed a fact, path or table beyond mere presence.
	Nontrivial bool `json:"nontrivial,omitempty"`
}

// Finding is a VIOLATED or UNDECIDED instance with the examined material.
type Finding struct {
	Property string   `json:"property"`
	Rule     string   `json:"rule"`
	Key      string   `json:"key"`
	Kind     string   `json:"kind"` // VIOLATED | UNDECIDED
	Pos      string   `json:"pos"`
	Func     string   `json:"function,omitempty"`
	Msg      string   `json:"message"`
	Detail   []string `json:"detail,omitempty"`
	Config   string   `json:"config"`
}

func (f *Finding) fullKey() string { return f.Rule + ":" + f.Key }

type knownEntry struct {
	Kind, Prop, Key, Text string
}

var knownRe = regexp.MustCompile(`^(finding|fixed):\s+property=(C\d+)\s+(?:key=(\S+)\s+)?(.*)$`)

func readKnown(verif string) []knownEntry {
	f, err := os.Open(filepath.Join(verif, "KNOWN_FINDINGS.txt"))
	if err != nil {
		return nil
	}
	defer f.Close()
	var out []knownEntry
	sc := bufio.NewScanner(f)
	for sc.Scan() {
		m := knownRe.FindStringSubmatch(strings.TrimSpace(sc.Text()))
		if m != nil {
			out = append(out, knownEntry{m[1], m[2], m[3], m[4]})
		}
	}
	return out
}

func (c *Ctx) pos(p token.Pos) string {
	if !p.IsValid() {
		return "?"
	}
	q := c.Fset.Position(p)
	rel, err := filepath.Rel(c.Repo, q.Filename)
	if err != nil || strings.HasPrefix(rel, "..") {
		rel = q.Filename
	}
	return fmt.Sprintf("%s:%d:%d", rel, q.Line, q.Column)
}

func (c *Ctx) seen(rule, key string) *Instance {
	rule = c.mapRule(rule)
	for i := range c.Instances {
		if c.Instances[i].Rule == rule && c.Instances[i].Key == key {
			return &c.Instances[i]
		}
	}
	return nil
}

// mapRule renames a rule when a property borrows a clause from another one.
func (c *Ctx) mapRule(rule string) string {
	if r, ok := c.RuleAlias[rule]; ok {
		return r
	}
	return rule
}

func (c *Ctx) record(rule, key, status string, p token.Pos, note string, nontrivial bool) {
	if c.KeyOnly != nil && !c.KeyOnly(key) {
		return
	}
	rule = c.mapRule(rule)
	if prev := c.seen(rule, key); prev != nil {
		if prev.Status == status || status == "HOLDS" || status == "EXCEPTION" {
			return
		}
		if prev.Status == "VIOLATED" || prev.Status == "UNDECIDED" {
			return
		}
		// a later configuration is worse: fall through and append with config
	}
	if len(note) > 400 {
		note = note[:400] + "…"
	}
	c.Instances = append(c.Instances, Instance{Rule: rule, Key: key, Status: status, Pos: c.pos(p), Note: note, Config: c.Config.Name, Nontrivial: nontrivial})
}

// hold records a rule instance that holds. Nontrivial instances needed a
// path, fact or table comparison.
func (c *Ctx) hold(rule, key string, p token.Pos, note string) {
	c.record(rule, key, "HOLDS", p, note, true)
}

// present records an instance whose verdict is presence of a construct only.
func (c *Ctx) present(rule, key string, p token.Pos, note string) {
	c.record(rule, key, "HOLDS", p, note, false)
}

// notDecided records an instance the rule could not decide because the code
// uses an idiom outside the rule's fragment although nothing indicates a
// defect (for example a recursion rewritten as a loop). It is listed in the
// evidence and does not alarm.
func (c *Ctx) notDecided(rule, key string, p token.Pos, reason string) {
	if c.KeyOnly != nil && !c.KeyOnly(key) {
		return
	}
	c.record(rule, key, "NOT-DECIDED", p, reason, true)
	c.NotDecided = append(c.NotDecided, fmt.Sprintf("%s:%s — %s", c.mapRule(rule), key, reason))
}

func (c *Ctx) exception(rule, key string, p token.Pos, reason string) {
	if c.KeyOnly != nil && !c.KeyOnly(key) {
		return
	}
	c.record(rule, key, "EXCEPTION", p, reason, true)
	e := fmt.Sprintf("%s:%s — %s", rule, key, reason)
	for _, x := range c.Exceptions {
		if x == e {
			return
		}
	}
	c.Exceptions = append(c.Exceptions, e)
}

func (c *Ctx) addFinding(kind, rule, key string, p token.Pos, fn, msg string, detail []string) {
	if c.KeyOnly != nil && !c.KeyOnly(key) {
		return
	}
	rule = c.mapRule(rule)
	for _, f := range c.Findings {
		if f.Rule == rule && f.Key == key {
			return
		}
	}
	if len(detail) > 24 {
		detail = append(detail[:24:24], fmt.Sprintf("… %d more lines", len(detail)-24))
	}
	for i := range detail {
		if len(detail[i]) > 600 {
			detail[i] = detail[i][:600] + "…"
		}
	}
	c.record(rule, key, kind, p, msg, true)
	c.Findings = append(c.Findings, &Finding{Property: c.Prop, Rule: rule, Key: key, Kind: kind, Pos: c.pos(p), Func: fn, Msg: msg, Detail: detail, Config: c.Config.Name})
}

func (c *Ctx) violate(rule, key string, p token.Pos, fn, msg string, detail ...string) {
	c.addFinding("VIOLATED", rule, key, p, fn, msg, detail)
}

func (c *Ctx) undecided(rule, key string, p token.Pos, fn, msg string, detail ...string) {
	c.addFinding("UNDECIDED", rule, key, p, fn, msg, detail)
}

// floor requires at least n instances of rule in this configuration.
func (c *Ctx) floor(rule string, n int, what string) {
	rule = c.mapRule(rule)
	m := 0
	for _, in := range c.Instances {
		if in.Rule == rule {
			m++
		}
	}
	if m < n {
		c.violate(rule, "floor", token.NoPos, "", fmt.Sprintf("rule matched %d instance(s) of %s, at least %d were confirmed on the reference tree: a construct the property relies on has disappeared", m, what, n))
	}
}

func (c *Ctx) checkError(msg string) {
	c.CheckErrors = append(c.CheckErrors, msg)
}

func (c *Ctx) sample(v interface{}) {
	if len(c.Samples) < 40 {
		c.Samples = append(c.Samples, trimSample(v))
	}
}

// trimSample keeps evidence files small: long strings and long lists are cut.
func trimSample(v interface{}) interface{} {
	switch x := v.(type) {
	case string:
		if len(x) > 300 {
			return x[:300] + "…"
		}
		return x
	case []string:
		var out []interface{}
		for i, s := range x {
			if i >= 16 {
				out = append(out, fmt.Sprintf("… %d more", len(x)-i))
				break
			}
			out = append(out, trimSample(s))
		}
		return out
	case []interface{}:
		var out []interface{}
		for i, s := range x {
			if i >= 16 {
				out = append(out, fmt.Sprintf("… %d more", len(x)-i))
				break
			}
			out = append(out, trimSample(s))
		}
		return out
	case map[string]interface{}:
		out := map[string]interface{}{}
		for k, s := range x {
			out[k] = trimSample(s)
		}
		return out
	}
	return v
}

var unsafeName = regexp.MustCompile(`[^A-Za-z0-9_.-]+`)

func (c *Ctx) finish(wall time.Duration) int {
	sort.SliceStable(c.Findings, func(i, j int) bool { return c.Findings[i].fullKey() < c.Findings[j].fullKey() })
	fmt.Printf("property %s tier=%s configs=%v packages=%d functions=%d\n", c.Prop, c.Tier, c.Configs, c.Stats["packages"], c.Stats["functions"])
	// per-rule summary
	type agg struct{ n, holds, exc, bad int }
	rules := map[string]*agg{}
	var order []string
	for _, in := range c.Instances {
		a := rules[in.Rule]
		if a == nil {
			a = &agg{}
			rules[in.Rule] = a
			order = append(order, in.Rule)
		}
		a.n++
		switch in.Status {
		case "HOLDS":
			a.holds++
		case "EXCEPTION", "NOT-DECIDED":
			a.exc++
		default:
			a.bad++
		}
	}
	sort.Strings(order)
	for _, r := range order {
		a := rules[r]
		fmt.Printf("  rule %-28s instances=%-4d holds=%-4d exceptions=%-3d findings=%d\n", r, a.n, a.holds, a.exc, a.bad)
	}
	for _, e := range c.Exceptions {
		fmt.Printf("  exception %s\n", e)
	}
	for _, e := range c.NotDecided {
		fmt.Printf("  not-decided %s\n", e)
	}
	for _, e := range c.Degraded {
		fmt.Printf("  degraded %s\n", e)
	}
	violations := 0
	repDir := filepath.Join(c.Verif, "evidence", "reports")
	for _, f := range c.Findings {
		known := false
		for _, k := range c.Known {
			if k.Kind == "finding" && k.Prop == c.Prop && k.Key == f.fullKey() {
				known = true
				fmt.Printf("KNOWN-FINDING: property=%s key=%s %s (%s)\n", c.Prop, f.fullKey(), k.Text, f.Pos)
				c.KnownHit = append(c.KnownHit, f.fullKey())
			}
		}
		if known {
			continue
		}
		violations++
		path := filepath.Join(repDir, c.Prop+"-"+unsafeName.ReplaceAllString(f.fullKey(), "_")+".json")
		if !c.NoEvidence {
			os.MkdirAll(repDir, 0o755)
			b, _ := json.MarshalIndent(f, "", " ")
			os.WriteFile(path, append(b, '\n'), 0o644)
		}
		fmt.Printf("  %s %s %s at %s in %s: %s\n", f.Kind, f.Rule, f.Key, f.Pos, f.Func, f.Msg)
		for _, d := range f.Detail {
			fmt.Printf("      %s\n", d)
		}
		fmt.Printf("VIOLATION property=%s replay=%s\n", c.Prop, path)
	}
	for _, e := range c.CheckErrors {
		fmt.Printf("CHECK-ERROR property=%s %s\n", c.Prop, e)
	}
	c.Stats["violations"] = violations
	c.writeEvidence(wall)
	if len(c.CheckErrors) > 0 {
		return 2
	}
	if violations > 0 {
		return 1
	}
	fmt.Printf("OK property=%s instances=%d wall=%.1fs\n", c.Prop, len(c.Instances), wall.Seconds())
	return 0
}

func (c *Ctx) writeEvidence(wall time.Duration) {
	if c.NoEvidence {
		return
	}
	nontriv := map[string]bool{}
	discharged := 0
	for _, in := range c.Instances {
		if in.Nontrivial {
			nontriv[in.Rule+":"+in.Key] = true
		}
		if in.Status == "HOLDS" || in.Status == "EXCEPTION" {
			discharged++
		}
	}
	samples := c.Samples
	if len(samples) == 0 {
		for i, in := range c.Instances {
			if i >= 12 {
				break
			}
			samples = append(samples, in)
		}
	}
	if len(samples) == 0 {
		samples = []interface{}{"no instance evaluated"}
	}
	cov := map[string]interface{}{
		"explanation":         propExplain[c.Prop],
		"evaluations":         len(c.Instances),
		"distinct_nontrivial": len(nontriv),
		"rule":                "one evaluation per rule instance (call site, update edge, obligation, table row) extracted from /repo's working tree; non-trivial = the verdict needed a dominating fact, a path enumeration, a value chain or a table comparison rather than the mere presence of the construct; instances are keyed rule+construct and counted once across build configurations",
		"obligations":         len(c.Instances),
		"discharged":          discharged,
		"samples":             samples,
		"rule_instances":      c.Instances,
		"configs":             c.Configs,
		"packages":            c.Stats["packages"],
		"functions":           c.Stats["functions"],
		"exceptions":          c.Exceptions,
		"not_decided":         c.NotDecided,
		"degraded":            c.Degraded,
		"known_findings":      c.KnownHit,
		"check_errors":        c.CheckErrors,
		"exhaustive":          true,
	}
	for k, v := range c.Stats {
		if _, ok := cov[k]; !ok {
			cov[k] = v
		}
	}
	if len(c.Variants) > 0 {
		cov["variants_fired"] = c.Variants
	}
	if len(c.Findings) > 0 {
		cov["findings"] = c.Findings
	}
	ev := map[string]interface{}{
		"property_id": c.Prop,
		"tier":        c.Tier,
		"seed":        c.Seed,
		"level":       "other",
		"coverage":    cov,
		"assumptions": propAssume[c.Prop],
		"wall_s":      float64(int(wall.Seconds()*100)) / 100,
		"violations":  c.Stats["violations"],
	}
	if ev["assumptions"] == nil {
		ev["assumptions"] = []string{}
	}
	b, _ := json.MarshalIndent(ev, "", " ")
	dir := filepath.Join(c.Verif, "evidence")
	os.MkdirAll(dir, 0o755)
	os.WriteFile(filepath.Join(dir, c.Prop+".json"), append(b, '\n'), 0o644)
}

// seenPrefix: an instance of rule whose key starts with prefix.
func (c *Ctx) seenPrefix(rule, prefix string) *Instance {
	rule = c.mapRule(rule)
	for i := range c.Instances {
		if c.Instances[i].Rule == rule && strings.HasPrefix(c.Instances[i].Key, prefix) {
			return &c.Instances[i]
		}
	}
	return nil
}
