package main

import (
	"go/token"
	"go/types"
	"strings"

	"golang.org/x/tools/go/ssa"
)

// Clauses added after the thirteenth round of seeded changes.

func init() {
	register("C03", "", nil, ruleC03Borrowed4)
	register("C05", "", nil, ruleC05Borrowed2)
	register("C06", "", nil, ruleC06EveryRef)
	register("C07", "", nil, ruleC07Borrowed4, ruleC07ConstantFormats)
	register("C08", "", nil, ruleC08Names)
	register("C09", "", nil, ruleC09Isolation, ruleC09MemoOnlyGrows)
	register("C10", "", nil, ruleC10TruncatedListing, ruleC10SettersReject, ruleC10NameStyleSet)
	register("C13", "", nil, ruleC13StdoutOnly, ruleC13AskGit)
	register("C14", "", nil, ruleC14ConfigScope)
	register("C18", "", nil, ruleC18Borrowed3, ruleC18OnlyWorkerCounts)
	register("C19", "", nil, ruleC19ConstantFormats)
}

// ruleC03Borrowed4: the depths are those of the whole enumeration from all
// the chosen roots: a failure of the listing is not taken for its end
// (C10.errflow at the scanner's iterator calls) and every reference listed
// by for-each-ref reaches the scanner (C07.count, every-ref-sent).
func ruleC03Borrowed4(c *Ctx) {
	c.RuleAlias = map[string]string{"C10.errflow": "C03.complete", "C07.count": "C03.roots"}
	c.KeyOnly = func(key string) bool {
		return strings.HasPrefix(key, "sizes.ScanRepositoryUsingGraph:") || key == "every-ref-sent"
	}
	defer func() { c.RuleAlias = nil; c.KeyOnly = nil }()
	ruleC10Errflow(c)
	ruleC07EveryRefSent(c)
}

// ruleC05Borrowed2: a quantity that is 64 bits wide is not squeezed through
// a 32-bit accumulator on its way, and subtrees are combined by saturating
// sums, not maxima: the update edges of the per-tree quantities are exactly
// those of the recursive expansion (C04.effects, C04.descend).
func ruleC05Borrowed2(c *Ctx) {
	c.RuleAlias = map[string]string{"C04.effects": "C05.linear", "C04.descend": "C05.linear"}
	defer func() { c.RuleAlias = nil }()
	checkEffects(c, "C04", "C04.effects")
	ruleC04Descend(c)
}

// ruleC06EveryRef: a reference can be selected only if it is listed: every
// line of for-each-ref reaches the selection (C07.count, every-ref-sent).
func ruleC06EveryRef(c *Ctx) {
	c.RuleAlias = map[string]string{"C07.count": "C06.walk"}
	c.KeyOnly = func(key string) bool { return key == "every-ref-sent" }
	defer func() { c.RuleAlias = nil; c.KeyOnly = nil }()
	ruleC07EveryRefSent(c)
}

// ruleC07Borrowed4: a reference selected through a group is tallied as
// walked only if every ancestor of the group lets it through (C06.refgroup,
// ancestor-pass).
func ruleC07Borrowed4(c *Ctx) {
	c.RuleAlias = map[string]string{"C06.refgroup": "C07.hierarchy"}
	c.KeyOnly = func(key string) bool { return key == "ancestor-pass" }
	defer func() { c.RuleAlias = nil; c.KeyOnly = nil }()
	ruleC06RefGroup(c)
}

// constantFormats: text that comes from the repository (group names, object
// names) is data, never a format: every formatting call of the module has a
// constant format string (or one of several constants).
func constantFormats(c *Ctx, rule string) {
	n, bad := 0, 0
	isConstFormat := func(v ssa.Value) bool {
		ok := true
		var walk func(v ssa.Value, depth int)
		walk = func(v ssa.Value, depth int) {
			v = c.resolve(v)
			if _, isConst := constStr(v); isConst {
				return
			}
			if phi, isPhi := v.(*ssa.Phi); isPhi && depth < 5 {
				for _, e := range phi.Edges {
					walk(e, depth+1)
				}
				return
			}
			if ld, isLd := v.(*ssa.UnOp); isLd && ld.Op == token.MUL {
				if cell := c.cellOf(ld.X); cell != nil && depth < 5 {
					sts := c.cellStores(cell)
					if len(sts) > 0 {
						for _, st := range sts {
							walk(st.Val, depth+1)
						}
						return
					}
				}
			}
			ok = false
		}
		walk(v, 0)
		return ok
	}
	for _, f := range c.ModFns {
		if !strings.HasPrefix(pkgOf(f), modPath+"/sizes") {
			continue
		}
		allInstrs(f, func(in ssa.Instruction) {
			call, ok := in.(*ssa.Call)
			if !ok {
				return
			}
			idx := -1
			switch calleeQ(&call.Call) {
			case "fmt.Sprintf", "fmt.Errorf", "fmt.Printf":
				idx = 0
			case "fmt.Fprintf":
				idx = 1
			}
			if idx < 0 || idx >= len(call.Call.Args) {
				return
			}
			n++
			if !isConstFormat(call.Call.Args[idx]) {
				bad++
				c.violate(rule, "format:constant@"+fnName(f), call.Pos(), fnName(f), "a formatting call is given a format that is not a constant: text taken from the repository (a group's display name, a path) is interpreted as a format, so a `%` in it garbles the row or swallows what follows")
			}
		})
	}
	if n > 0 && bad == 0 {
		c.hold(rule, "format:constant", token.NoPos, "every formatting call of the report code has a constant format")
	}
}

func ruleC07ConstantFormats(c *Ctx) { constantFormats(c, "C07.render-total") }
func ruleC19ConstantFormats(c *Ctx) { constantFormats(c, "C19.no-crash") }

// ruleC08Names: a footnote spells the path of the cited object only if entry
// names are the bytes that stand in the tree (C16.grammar, tree clauses).
func ruleC08Names(c *Ctx) {
	c.RuleAlias = map[string]string{"C16.grammar": "C08.description"}
	c.KeyOnly = func(key string) bool { return strings.HasPrefix(key, "tree:") }
	defer func() { c.RuleAlias = nil; c.KeyOnly = nil }()
	ruleC16Grammar(c)
}

// ruleC09Isolation: what is enumerated is what the objects say: grafts and
// replace references stay switched off (C13.isolation).
func ruleC09Isolation(c *Ctx) {
	c.RuleAlias = map[string]string{"C13.isolation": "C09.isolation"}
	defer func() { c.RuleAlias = nil }()
	ruleC13Isolation(c)
}

// ruleC09MemoOnlyGrows: a size that has been finalised stays known: nothing
// is ever deleted from the maps of final sizes (whoever asks later, in
// whatever order, gets the same answer).
func ruleC09MemoOnlyGrows(c *Ctx) {
	const rule = "C09.final-only"
	n, bad := 0, 0
	for _, f := range c.ModFns {
		if pkgOf(f) != modPath+"/sizes" {
			continue
		}
		allInstrs(f, func(in ssa.Instruction) {
			call, ok := in.(*ssa.Call)
			if !ok || !isBuiltin(&call.Call, "delete") || len(call.Call.Args) != 2 {
				return
			}
			mt, isMap := call.Call.Args[0].Type().Underlying().(*types.Map)
			if !isMap {
				return
			}
			n++
			for _, tn := range []string{"TreeSize", "TagSize", "CommitSize", "BlobSize"} {
				if isNamed(mt.Elem(), modPath+"/sizes", tn) {
					bad++
					c.violate(rule, "memo-only-grows:"+tn, call.Pos(), fnName(f), "a final "+tn+" is deleted from the table of known sizes: an object that asks for it afterwards waits for a record that is never initialised again — whether that happens depends on the order in which objects arrive")
				}
			}
		})
	}
	if bad == 0 {
		c.hold(rule, "memo-only-grows", token.NoPos, "nothing is deleted from the tables of final sizes")
	}
	_ = n
}

// ruleC10TruncatedListing: a configuration listing that stops in the middle
// of a record is an error, not a shorter configuration: GetConfig has an
// error return that depends on the search for the terminating NUL.
func ruleC10TruncatedListing(c *Ctx) {
	const rule = "C10.short-read"
	gc := c.fn("/git", "*Repository", "GetConfig")
	if gc == nil {
		return
	}
	isNulSearch := func(v ssa.Value, depth int) bool {
		var walk func(v ssa.Value, depth int) bool
		walk = func(v ssa.Value, depth int) bool {
			if depth > 5 {
				return false
			}
			switch x := v.(type) {
			case *ssa.BinOp:
				return walk(x.X, depth+1) || walk(x.Y, depth+1)
			case *ssa.UnOp:
				if x.Op == token.MUL {
					if ia, ok := x.X.(*ssa.IndexAddr); ok {
						return walk(ia.X, depth+1)
					}
					return walk(c.resolve(x), depth+1) && c.resolve(x) != ssa.Value(x)
				}
				return walk(x.X, depth+1)
			case *ssa.Slice:
				return walk(x.X, depth+1)
			case *ssa.Extract:
				return walk(x.Tuple, depth+1)
			case *ssa.Call:
				q := calleeQ(&x.Call)
				if isBuiltin(&x.Call, "len") {
					return walk(x.Call.Args[0], depth+1)
				}
				switch {
				case strings.HasSuffix(q, ".IndexByte"), strings.HasSuffix(q, ".Index"), strings.HasSuffix(q, ".Split"), strings.HasSuffix(q, ".SplitN"), strings.HasSuffix(q, ".HasSuffix"), strings.HasSuffix(q, ".Cut"), strings.HasSuffix(q, ".LastIndexByte"):
					if len(x.Call.Args) >= 2 {
						if sep, ok := c.sepByte(x.Call.Args[1]); ok && sep == 0 {
							return true
						}
					}
				}
			case *ssa.Phi:
				for _, e := range x.Edges {
					if walk(e, depth+1) {
						return true
					}
				}
			}
			return false
		}
		return walk(v, depth)
	}
	found := false
	for _, ret := range returnsOf(gc) {
		isErr := false
		for _, v := range c.resultValues(ret, 1) {
			if !isNilConst(v) {
				isErr = true
			}
		}
		if !isErr {
			continue
		}
		for _, fct := range factsAt(ret.Block()) {
			if isNulSearch(fct.Cond, 0) {
				found = true
			}
		}
	}
	if found {
		c.hold(rule, "config-listing:unterminated", gc.Pos(), "a listing whose last record is not terminated by NUL is an error")
	} else {
		c.violate(rule, "config-listing:unterminated", gc.Pos(), fnName(gc), "no error depends on the terminating NUL of a record: a listing cut off in the middle of a record (a `git config` that died after a partial write but was reported as successful) is read as a complete, different configuration")
	}
}

// ruleC10SettersReject: an option parser can fail: every Set(string) error
// method of the module has a path on which it returns an error (a parser
// that accepts everything turns an invalid value into a silent default).
func ruleC10SettersReject(c *Ctx) {
	const rule = "C10.errflow"
	n := 0
	for _, f := range c.ModFns {
		if f.Signature.Recv() == nil || refName(f) != "Set" || f.Signature.Params().Len() != 1 || f.Signature.Results().Len() != 1 || !isErrorType(f.Signature.Results().At(0).Type()) || len(f.Blocks) == 0 {
			continue
		}
		n++
		canFail := false
		for _, ret := range returnsOf(f) {
			for _, v := range c.resultValues(ret, 0) {
				if !isNilConst(v) {
					canFail = true
				}
			}
		}
		if canFail {
			c.hold(rule, "setter-rejects:"+fnName(f), f.Pos(), "the option's parser has an error path")
		} else {
			c.violate(rule, "setter-rejects:"+fnName(f), f.Pos(), fnName(f), "the option's parser never returns an error: an invalid value is turned into some default and the run reports as if it had been asked for")
		}
	}
	_ = n
}

// ruleC13StdoutOnly: an answer of git (a path, an object id) is what git
// wrote to its standard output: diagnostics on stderr are not part of it.
func ruleC13StdoutOnly(c *Ctx) {
	const rule = "C13.spawn"
	bad := 0
	for _, f := range c.ModFns {
		allInstrs(f, func(in ssa.Instruction) {
			call, ok := in.(*ssa.Call)
			if !ok || calleeQ(&call.Call) != "(*os/exec.Cmd).CombinedOutput" {
				return
			}
			bad++
			c.violate(rule, "stdout-only@"+fnName(f), call.Pos(), fnName(f), "the answer of a git command is read from stdout and stderr together: a warning or trace line on stderr becomes part of the path or id, and the check made with it (the shallow marker, for instance) looks at a file that does not exist")
		})
	}
	if bad == 0 {
		c.hold(rule, "stdout-only", token.NoPos, "answers of git are read from its standard output only")
	}
}

// ruleC13AskGit: which directory is a repository is git's decision: the
// constructors do not probe the file system for HEAD or objects/ (a linked
// worktree's git directory and a split object directory have neither).
func ruleC13AskGit(c *Ctx) {
	const rule = "C13.gitdir"
	bad, n := 0, 0
	for _, name := range []string{"NewRepositoryFromGitDir", "NewRepositoryFromPath"} {
		f := c.fn("/git", "", name)
		if f == nil {
			continue
		}
		n++
		allInstrs(f, func(in ssa.Instruction) {
			call, ok := in.(*ssa.Call)
			if !ok {
				return
			}
			switch calleeQ(&call.Call) {
			case "os.Stat", "os.Lstat", "os.ReadDir", "os.Open", "os.ReadFile":
				bad++
				c.violate(rule, "asks-git:"+fnName(f), call.Pos(), fnName(f), "the constructor probes the file system ("+calleeQ(&call.Call)+") to decide whether the directory is a repository: the same repository addressed through a linked worktree or with a separate object directory is then refused")
			}
		})
	}
	if n > 0 && bad == 0 {
		c.hold(rule, "asks-git", token.NoPos, "the repository constructors leave the layout of the git directory to git")
	}
}

// ruleC14ConfigScope: a configured value counts wherever git reads it from:
// GitCommand switches no configuration scope off (C15.scope, env clause).
func ruleC14ConfigScope(c *Ctx) {
	c.RuleAlias = map[string]string{"C15.scope": "C14.config-errors"}
	c.KeyOnly = func(key string) bool { return strings.HasPrefix(key, "env:") || strings.HasPrefix(key, "config:") }
	defer func() { c.RuleAlias = nil; c.KeyOnly = nil }()
	ruleC15Scope(c)
}

// ruleC18Borrowed3: the report does not depend on whether progress is shown:
// a configured setting is consulted exactly when no option of its own family
// was given (C14.families).
func ruleC18Borrowed3(c *Ctx) {
	c.RuleAlias = map[string]string{"C14.families": "C18.stream"}
	c.KeyOnly = func(key string) bool { return strings.HasPrefix(key, "sizer.") && !strings.Contains(key, ":") }
	defer func() { c.RuleAlias = nil; c.KeyOnly = nil }()
	ruleC14Families(c)
}

// ruleC18OnlyWorkerCounts: the count shown is the number of items the worker
// reported: the reporting goroutine reads the counter and never writes it.
func ruleC18OnlyWorkerCounts(c *Ctx) {
	const rule = "C18.bracket"
	n, bad := 0, 0
	for _, ge := range c.goEntries() {
		if ge.Fn == nil || pkgOf(ge.Fn) != modPath+"/meter" {
			continue
		}
		fns := []*ssa.Function{ge.Fn}
		seen := map[*ssa.Function]bool{ge.Fn: true}
		for i := 0; i < len(fns); i++ {
			allInstrs(fns[i], func(in ssa.Instruction) {
				if call, ok := in.(ssa.CallInstruction); ok {
					if cal := call.Common().StaticCallee(); cal != nil && c.inRuleScope(cal) && !seen[cal] && len(cal.Blocks) > 0 {
						seen[cal] = true
						fns = append(fns, cal)
					}
				}
			})
			for _, af := range fns[i].AnonFuncs {
				if !seen[af] {
					seen[af] = true
					fns = append(fns, af)
				}
			}
		}
		n++
		for _, f := range fns {
			allInstrs(f, func(in ssa.Instruction) {
				isCount := func(addr ssa.Value) bool {
					fa, ok := addr.(*ssa.FieldAddr)
					return ok && vname(fieldOfAddr(fa).Var) == "count"
				}
				switch x := in.(type) {
				case *ssa.Store:
					if isCount(x.Addr) {
						bad++
						c.violate(rule, "only-worker-counts:"+fnName(f), x.Pos(), fnName(f), "the reporting goroutine writes the counter: a reporter that outlives its phase by one tick wipes what the next phase has counted, so the number shown goes down and the final line is smaller than the work done")
					}
				case *ssa.Call:
					q := calleeQ(&x.Call)
					if (strings.HasPrefix(q, "sync/atomic.Store") || strings.HasPrefix(q, "sync/atomic.Add") || strings.HasPrefix(q, "sync/atomic.Swap") || strings.HasPrefix(q, "sync/atomic.CompareAndSwap") || strings.Contains(q, "sync/atomic.Int64).Store") || strings.Contains(q, "sync/atomic.Int64).Add")) && len(x.Call.Args) > 0 && isCount(x.Call.Args[0]) {
						bad++
						c.violate(rule, "only-worker-counts:"+fnName(f), x.Pos(), fnName(f), "the reporting goroutine writes the counter: a reporter that outlives its phase by one tick wipes what the next phase has counted, so the number shown goes down and the final line is smaller than the work done")
					}
				}
			})
		}
	}
	if n > 0 && bad == 0 {
		c.hold(rule, "only-worker-counts", token.NoPos, "the reporting goroutine only reads the counter")
	}
}

// ruleC10NameStyleSet: an unknown name style is an error: the style is set
// only to one of the constants, and only where the argument was found to be
// one of the documented spellings.
func ruleC10NameStyleSet(c *Ctx) {
	const rule = "C10.errflow"
	nt := c.namedType("/sizes", "NameStyle")
	if nt == nil {
		return
	}
	f := c.methodOf(types.NewPointer(nt), "Set")
	if f == nil || len(f.Params) != 2 {
		return
	}
	recv, arg := f.Params[0], f.Params[1]
	n, bad := 0, 0
	allInstrs(f, func(in ssa.Instruction) {
		st, ok := in.(*ssa.Store)
		if !ok || c.resolve(st.Addr) != ssa.Value(recv) && st.Addr != ssa.Value(recv) {
			return
		}
		n++
		_, isConst := c.resolve(st.Val).(*ssa.Const)
		matched := guardedBy(st.Block(), func(cond ssa.Value, truth bool) bool {
			cmp, ok := isCmp(cond, token.EQL, token.NEQ)
			if !ok || (cmp.Op == token.EQL) != truth {
				return false
			}
			_, isLit := constStr(cmp.Y)
			return isLit && c.resolve(cmp.X) == ssa.Value(arg)
		})
		if !matched {
			// a switch arm shared by several spellings: every predecessor edge has its own literal
			all := len(st.Block().Preds) > 0
			for _, p := range st.Block().Preds {
				okEdge := false
				for _, fct := range append(factsAt(p), factsOnEdge(p, st.Block())...) {
					cond, truth := normCond(fct.Cond, fct.Truth)
					if cmp, ok := isCmp(cond, token.EQL, token.NEQ); ok && (cmp.Op == token.EQL) == truth {
						if _, isLit := constStr(cmp.Y); isLit && c.resolve(cmp.X) == ssa.Value(arg) {
							okEdge = true
						}
					}
				}
				if !okEdge {
					all = false
				}
			}
			matched = all
		}
		if !isConst || !matched {
			bad++
			c.violate(rule, "name-style:known-spelling", st.Pos(), fnName(f), "the name style is set from something other than a constant chosen by a documented spelling (a table lookup that cannot fail, for instance): an invalid --names / sizer.names value silently selects some style and the run reports as if it had been asked for")
		}
	})
	if n > 0 && bad == 0 {
		c.hold(rule, "name-style:known-spelling", f.Pos(), "the style is one of the constants, chosen by a documented spelling; anything else is an error")
	}
}
