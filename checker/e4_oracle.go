package main

import (
	"fmt"
	"go/token"
	"sort"
	"strings"
)

// The oracle of E4: the update edges that the property statements demand
// (DESIGN.md Appendix A). It is a specification, not generated from the
// tree. $E is the per-tree entry counter and $G the per-tag depth, bound to
// whatever field occupies that role (see bindRoles).

type oracleRow struct {
	Prop   string
	Target string
	Edges  []string // "OP{terms}"
	Why    string
}

var effectOracle = []oracleRow{
	// C01 census
	{"C01", "H:unique_commit_count", []string{"ADD{const:1}"}, "each commit counted once"},
	{"C01", "H:unique_commit_size", []string{"ADD{F:git.Commit.Size}"}, "sum of commit object sizes"},
	{"C01", "F:git.Commit.Size", []string{"SET{len(param:git.ParseCommit#1)}"}, "commit size = length of the commit's bytes"},
	{"C01", "H:unique_tree_count", []string{"ADD{const:1}"}, "each tree counted once"},
	{"C01", "H:unique_tree_size", []string{"ADD{len(param:git.ParseTree#1)}"}, "sum of tree object sizes = length of the tree's bytes"},
	{"C01", "H:unique_tree_entries", []string{"ADD{$E}"}, "sum of per-tree entry counts"},
	{"C01", "$E", []string{"ADD{const:1}"}, "one per tree entry"},
	{"C01", "H:unique_blob_count", []string{"ADD{const:1}"}, "each blob counted once"},
	{"C01", "H:unique_blob_size", []string{"ADD{F:git.BatchHeader.ObjectSize}"}, "sum of blob sizes as listed by cat-file --batch-check"},
	{"C01", "F:git.BatchHeader.ObjectSize", []string{"SET{call:strconv.ParseUint#0@git.ParseBatchHeader}"}, "size field of the batch header line"},
	{"C01", "H:unique_tag_count", []string{"ADD{const:1}"}, "each annotated tag counted once"},
	// C02 single-object maxima
	{"C02", "H:max_commit_size", []string{"MAX{F:git.Commit.Size}"}, ""},
	{"C02", "H:max_parent_count", []string{"MAX{len(F:git.Commit.Parents)}"}, "number of parent headers"},
	{"C02", "H:max_tree_entries", []string{"MAX{$E}"}, ""},
	{"C02", "H:max_blob_size", []string{"MAX{F:git.BatchHeader.ObjectSize}"}, ""},
	// C03 depths
	{"C03", "H:max_history_depth", []string{"MAX{C:max_ancestor_depth}"}, ""},
	{"C03", "C:max_ancestor_depth", []string{"ADD{const:1}", "MAX{C:max_ancestor_depth}"}, "1 + max over parents"},
	{"C03", "H:max_tag_depth", []string{"MAX{$G}"}, ""},
	{"C03", "$G", []string{"ADD{$G}", "SET{const:1}"}, "1 + depth of a tag referent"},
	// C04 checkout expansion
	{"C04", "T:max_path_depth", []string{"MAX{ADD(T:max_path_depth,const:1)}", "MAX{const:1}"}, ""},
	{"C04", "T:max_path_length", []string{"MAX{ADD(T:max_path_length,const:1,len(F:git.TreeEntry.Name))}", "MAX{len(F:git.TreeEntry.Name)}"}, ""},
	{"C04", "T:expanded_tree_count", []string{"ADD{T:expanded_tree_count}", "SET{const:1}"}, "the tree itself + every subtree occurrence"},
	{"C04", "T:expanded_blob_count", []string{"ADD{T:expanded_blob_count}", "ADD{const:1}"}, ""},
	{"C04", "T:expanded_blob_size", []string{"ADD{F:git.BatchHeader.ObjectSize}", "ADD{T:expanded_blob_size}"}, ""},
	{"C04", "T:expanded_link_count", []string{"ADD{T:expanded_link_count}", "ADD{const:1}"}, ""},
	{"C04", "T:expanded_submodule_count", []string{"ADD{T:expanded_submodule_count}", "ADD{const:1}"}, ""},
	{"C04", "H:max_path_depth", []string{"MAX{T:max_path_depth}"}, ""},
	{"C04", "H:max_path_length", []string{"MAX{T:max_path_length}"}, ""},
	{"C04", "H:max_expanded_tree_count", []string{"MAX{T:expanded_tree_count}"}, ""},
	{"C04", "H:max_expanded_blob_count", []string{"MAX{T:expanded_blob_count}"}, ""},
	{"C04", "H:max_expanded_blob_size", []string{"MAX{T:expanded_blob_size}"}, ""},
	{"C04", "H:max_expanded_link_count", []string{"MAX{T:expanded_link_count}"}, ""},
	{"C04", "H:max_expanded_submodule_count", []string{"MAX{T:expanded_submodule_count}"}, ""},
	// C07 reference tallies
	{"C07", "H:reference_count", []string{"ADD{const:1}"}, ""},
	{"C07", "H:reference_groups[*]", []string{"ADD{const:1}", "SET{const:1}"}, "first occurrence creates the counter at 1"},
}

// bindRoles identifies $E and $G from the anchored edges.
func (e *effects) bindRoles() (map[string]string, []string) {
	roles := map[string]string{}
	var problems []string
	if a, ok := e.soleAtom("H:unique_tree_entries", "ADD"); ok {
		roles["$E"] = a
	} else {
		problems = append(problems, "cannot identify the per-tree entry counter: unique_tree_entries is not fed by exactly one ADD of a single quantity")
	}
	if a, ok := e.soleAtom("H:max_tag_depth", "MAX"); ok {
		roles["$G"] = a
	} else {
		problems = append(problems, "cannot identify the per-tag depth: max_tag_depth is not fed by exactly one MAX of a single quantity")
	}
	return roles, problems
}

func substRoles(s string, roles map[string]string) string {
	for k, v := range roles {
		s = strings.ReplaceAll(s, k, v)
	}
	return s
}

// checkEffects compares the extracted edges of the property's targets with
// the oracle. rule is e.g. "C01.effects".
func checkEffects(c *Ctx, prop, rule string) {
	e := c.effects()
	roles, problems := e.bindRoles()
	n := 0
	for _, row := range effectOracle {
		if row.Prop != prop {
			continue
		}
		n++
		target := row.Target
		if strings.HasPrefix(target, "$") {
			b, ok := roles[target]
			if !ok {
				c.violate(rule, "bind:"+target, token.NoPos, "", strings.Join(problems, "; "))
				continue
			}
			target = b
		}
		unbound := false
		var want []string
		for _, w := range row.Edges {
			w2 := substRoles(w, roles)
			if strings.Contains(w2, "$") {
				unbound = true
			}
			want = append(want, w2)
		}
		if unbound {
			c.violate(rule, "bind:"+row.Target, token.NoPos, "", strings.Join(problems, "; "))
			continue
		}
		sort.Strings(want)
		got := e.edgeSet(target)
		var gotKeys []string
		for k := range got {
			gotKeys = append(gotKeys, k)
		}
		sort.Strings(gotKeys)
		ok := true
		wantSet := map[string]bool{}
		for _, w := range want {
			wantSet[w] = true
			if _, present := got[w]; !present {
				ok = false
				c.violate(rule, row.Target+":missing:"+w, token.NoPos, "", fmt.Sprintf("missing update: the specification requires `%s <-%s`%s, the tree has {%s}", row.Target, w, whySuffix(row.Why), strings.Join(gotKeys, ", ")))
			}
		}
		for _, k := range gotKeys {
			if !wantSet[k] {
				ok = false
				ed := got[k][0]
				c.violate(rule, row.Target+":foreign:"+k, posOf(ed.Site), fnName(ed.Fn), fmt.Sprintf("foreign update: `%s <-%s` is not among the updates the specification allows for this metric {%s}", row.Target, k, strings.Join(want, ", ")))
			}
		}
		if ok {
			var sites []string
			for _, k := range gotKeys {
				for _, ed := range got[k] {
					sites = append(sites, c.pos(posOf(ed.Site)))
				}
			}
			c.hold(rule, row.Target, token.NoPos, fmt.Sprintf("%s <- %s (%d update site(s))", target, strings.Join(gotKeys, " ; "), len(sites)))
			c.sample(map[string]interface{}{"target": row.Target, "node": target, "edges": gotKeys, "sites": sites})
		}
	}
	c.Stats["effect_edges"] = len(e.Edges)
	if n == 0 {
		c.checkError("no oracle rows for " + prop)
	}
}

func whySuffix(s string) string {
	if s == "" {
		return ""
	}
	return " (" + s + ")"
}
