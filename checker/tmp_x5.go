package main

func init() {
	register("X5", "debug", nil, ruleC02Max, ruleC05Plus, ruleC06Algebra, ruleC06Prefix, ruleC11Rule, ruleC05Render, ruleC08None)
}
