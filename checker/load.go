package main

import (
	"fmt"
	"go/ast"
	"go/token"
	"go/types"
	"os"
	"sort"
	"strings"

	"golang.org/x/tools/go/callgraph"
	"golang.org/x/tools/go/callgraph/cha"
	"golang.org/x/tools/go/callgraph/vta"
	"golang.org/x/tools/go/packages"
	"golang.org/x/tools/go/ssa"
	"golang.org/x/tools/go/ssa/ssautil"
)

const modPath = "github.com/github/git-sizer"

type buildConfig struct {
	Name string
	Env  []string
	Tags string
}

func hostConfig() buildConfig { return buildConfig{Name: "linux/amd64"} }

func thoroughConfigs() []buildConfig {
	return []buildConfig{
		{Name: "linux/386", Env: []string{"GOARCH=386", "CGO_ENABLED=0"}},
		{Name: "windows/amd64", Env: []string{"GOOS=windows", "CGO_ENABLED=0"}},
		{Name: "darwin/amd64", Env: []string{"GOOS=darwin", "CGO_ENABLED=0"}},
	}
}

// Ctx is the state of one property run.
type Ctx struct {
	Prop, Tier, Repo, Verif string
	Seed                    int
	NoEvidence              bool
	Primary                 bool // first (host) build configuration
	Config                  buildConfig

	Pkgs    []*packages.Package
	ModPkgs []*packages.Package // module packages subject to rules (no testutils)
	Fset    *token.FileSet
	Prog    *ssa.Program
	ModFns  []*ssa.Function // module functions incl. anonymous, sorted by position
	// static call instructions (call, go, defer) per callee
	Callers      map[*ssa.Function][]ssa.CallInstruction
	ClosureSites map[*ssa.Function][]*ssa.MakeClosure
	cg           *callgraph.Graph

	// results
	Instances   []Instance
	Findings    []*Finding
	CheckErrors []string
	Configs     []string
	Stats       map[string]int
	Samples     []interface{}
	Exceptions  []string
	NotDecided  []string
	Known       []knownEntry
	KnownHit    []string
	Variants    []string
	RuleAlias   map[string]string
	// errVals: the values carrying the error under classification (E9).
	errVals map[ssa.Value]bool
	// Degraded: functions left unnormalised after an internal failure.
	Degraded []string
	// KeyOnly restricts what a borrowed rule records to the constructs the
	// borrowing property depends on.
	KeyOnly func(key string) bool

	memo map[string]interface{}
}

func newCtx(prop, tier, repo, verif string, seed int) *Ctx {
	c := &Ctx{Prop: prop, Tier: tier, Repo: repo, Verif: verif, Seed: seed, Stats: map[string]int{}}
	c.Known = readKnown(verif)
	return c
}

func (c *Ctx) release() {
	c.Pkgs, c.ModPkgs, c.Prog, c.ModFns, c.Callers, c.ClosureSites, c.cg, c.memo = nil, nil, nil, nil, nil, nil, nil, nil
}

func inModulePath(path string) bool {
	return path == modPath || strings.HasPrefix(path, modPath+"/")
}

func isRulePkgPath(path string) bool {
	return inModulePath(path) && !strings.HasSuffix(path, "/internal/testutils")
}

// normFailure: the normaliser produced malformed SSA for one function. The
// load is repeated with that function left as the builder made it: the
// rules then see its original shape (and may report what the normalisation
// would have explained away), which is better than failing every property.
type normFailure struct {
	fn  string
	msg string
}

// skipNormalize: functions (by full name) that are not rewritten.
var skipNormalize = map[string]bool{}

func (c *Ctx) load(bc buildConfig) (err error) {
	for attempt := 0; attempt < 6; attempt++ {
		var nf *normFailure
		func() {
			defer func() {
				if r := recover(); r != nil {
					if f, ok := r.(normFailure); ok {
						nf = &f
						return
					}
					panic(r)
				}
			}()
			err = c.loadOnce(bc)
		}()
		if nf == nil {
			return err
		}
		if skipNormalize[nf.fn] {
			return fmt.Errorf("normalisation of %s keeps failing: %s", nf.fn, nf.msg)
		}
		skipNormalize[nf.fn] = true
		c.Degraded = append(c.Degraded, fmt.Sprintf("%s is analysed without normalisation (%s)", nf.fn, nf.msg))
	}
	return fmt.Errorf("normalisation keeps failing")
}

func (c *Ctx) loadOnce(bc buildConfig) error {
	c.Config = bc
	c.memo = map[string]interface{}{}
	env := append(os.Environ(), "GOFLAGS=-mod=mod", "GOPROXY=off", "GOSUMDB=off", "GOTOOLCHAIN=local", "GOWORK=off")
	env = append(env, bc.Env...)
	cfg := &packages.Config{Mode: packages.LoadAllSyntax, Dir: c.Repo, Tests: false, Env: env}
	if bc.Tags != "" {
		cfg.BuildFlags = []string{"-tags", bc.Tags}
	}
	pkgs, err := packages.Load(cfg, "./...")
	if err != nil {
		return fmt.Errorf("go/packages: %v", err)
	}
	var errs []string
	packages.Visit(pkgs, nil, func(p *packages.Package) {
		for _, e := range p.Errors {
			errs = append(errs, e.Error())
		}
	})
	if len(errs) > 0 {
		sort.Strings(errs)
		if len(errs) > 5 {
			errs = errs[:5]
		}
		return fmt.Errorf("the tree does not type-check in configuration %s: %s", bc.Name, strings.Join(errs, "; "))
	}
	c.Pkgs = pkgs
	c.ModPkgs = nil
	for _, p := range pkgs {
		if isRulePkgPath(p.PkgPath) {
			c.ModPkgs = append(c.ModPkgs, p)
		}
	}
	sort.Slice(c.ModPkgs, func(i, j int) bool { return c.ModPkgs[i].PkgPath < c.ModPkgs[j].PkgPath })
	if len(c.ModPkgs) < 7 {
		return fmt.Errorf("expected at least 7 git-sizer packages under %s, loaded %d", c.Repo, len(c.ModPkgs))
	}
	c.Fset = pkgs[0].Fset
	prog, _ := ssautil.AllPackages(pkgs, ssa.InstantiateGenerics)
	prog.Build()
	c.Prog = prog
	c.ModFns = nil
	c.Callers = map[*ssa.Function][]ssa.CallInstruction{}
	c.ClosureSites = map[*ssa.Function][]*ssa.MakeClosure{}
	allFns := ssautil.AllFunctions(prog)
	renameLog := c.detectTypeRenames()
	dead := c.normalizeHelpers(allFns)
	if len(renameLog) > 0 {
		l, _ := c.memo["inline.log"].([]string)
		c.memo["inline.log"] = append(renameLog, l...)
	}
	if len(dead) > 0 || len(c.inlineLog()) > 0 {
		allFns = ssautil.AllFunctions(prog)
	}
	for f := range allFns {
		if c.inRuleScope(f) && f.Synthetic == "" && !dead[f] {
			c.ModFns = append(c.ModFns, f)
		}
	}
	sort.Slice(c.ModFns, func(i, j int) bool {
		a, b := c.ModFns[i], c.ModFns[j]
		if a.Pos() != b.Pos() {
			return a.Pos() < b.Pos()
		}
		return a.String() < b.String()
	})
	c.foldProved()
	for _, f := range c.ModFns {
		for _, b := range f.Blocks {
			for _, in := range b.Instrs {
				switch x := in.(type) {
				case ssa.CallInstruction:
					if callee := x.Common().StaticCallee(); callee != nil {
						c.Callers[callee] = append(c.Callers[callee], x)
					}
				case *ssa.MakeClosure:
					fn := x.Fn.(*ssa.Function)
					c.ClosureSites[fn] = append(c.ClosureSites[fn], x)
				}
			}
		}
	}
	c.Configs = append(c.Configs, bc.Name)
	if c.Primary || len(c.Configs) == 1 {
		c.Stats["packages"] = len(c.ModPkgs)
		c.Stats["functions"] = len(c.ModFns)
	}
	return nil
}

func (c *Ctx) inlineLog() []string {
	l, _ := c.memo["inline.log"].([]string)
	return l
}

// inRuleScope reports whether f is source code of a module package subject to rules.
func (c *Ctx) inRuleScope(f *ssa.Function) bool {
	for f.Parent() != nil {
		f = f.Parent()
	}
	if f.Pkg == nil {
		// method wrappers etc.: attribute by receiver/object package
		if o := f.Object(); o != nil && o.Pkg() != nil {
			return isRulePkgPath(o.Pkg().Path())
		}
		return false
	}
	return isRulePkgPath(f.Pkg.Pkg.Path())
}

func pkgOf(f *ssa.Function) string {
	for f.Parent() != nil {
		f = f.Parent()
	}
	if f.Pkg != nil {
		return f.Pkg.Pkg.Path()
	}
	if o := f.Object(); o != nil && o.Pkg() != nil {
		return o.Pkg().Path()
	}
	return ""
}

// callGraph returns CHA (quick) or VTA seeded with CHA (thorough).
func (c *Ctx) callGraph() *callgraph.Graph {
	if c.cg != nil {
		return c.cg
	}
	g := cha.CallGraph(c.Prog)
	if c.Tier == "thorough" {
		g = vta.CallGraph(ssautil.AllFunctions(c.Prog), g)
	}
	c.cg = g
	return g
}

// pkg returns the loaded module package with the given path suffix ("" = main).
func (c *Ctx) pkg(suffix string) *packages.Package {
	want := modPath + suffix
	for _, p := range c.ModPkgs {
		if p.PkgPath == want {
			return p
		}
	}
	return nil
}

func (c *Ctx) ssaPkg(suffix string) *ssa.Package {
	p := c.pkg(suffix)
	if p == nil {
		return nil
	}
	return c.Prog.Package(p.Types)
}

// fn looks up a package-level function or method. recv is "" or "T" or "*T".
func (c *Ctx) fn(pkgSuffix, recv, name string) *ssa.Function {
	if f := c.fnIn(pkgSuffix, recv, name); f != nil {
		return f
	}
	// renamed: the function that took the place of the reference one
	if f := renamedFn[modQ(pkgSuffix, recv, name)]; f != nil {
		return f
	}
	// moved to another package of the module: accept a unique match elsewhere
	var found *ssa.Function
	n := 0
	for _, p := range c.ModPkgs {
		suffix := strings.TrimPrefix(p.PkgPath, modPath)
		if suffix == pkgSuffix {
			continue
		}
		if f := c.fnIn(suffix, recv, name); f != nil {
			found = f
			n++
		}
	}
	if n == 1 {
		return found
	}
	return nil
}

func (c *Ctx) fnIn(pkgSuffix, recv, name string) *ssa.Function {
	sp := c.ssaPkg(pkgSuffix)
	if sp == nil {
		return nil
	}
	if recv == "" {
		return sp.Func(name)
	}
	ptr := strings.HasPrefix(recv, "*")
	var t types.Type
	if tn := sp.Type(strings.TrimPrefix(recv, "*")); tn != nil {
		t = tn.Type()
	} else if cur := typeFwd[sp.Pkg.Path()+"."+strings.TrimPrefix(recv, "*")]; cur != nil {
		t = cur.Type()
	} else {
		return nil
	}
	if ptr {
		t = types.NewPointer(t)
	}
	return c.methodOf(t, name)
}

func (c *Ctx) methodOf(t types.Type, name string) *ssa.Function {
	ms := c.Prog.MethodSets.MethodSet(t)
	for i := 0; i < ms.Len(); i++ {
		if ms.At(i).Obj().Name() == name {
			return c.Prog.MethodValue(ms.At(i))
		}
	}
	// a renamed method
	for i := 0; i < ms.Len(); i++ {
		if f := c.Prog.MethodValue(ms.At(i)); f != nil {
			if _, renamed := renamedBack[f]; renamed && refName(f) == name {
				return f
			}
		}
	}
	return nil
}

// namedType returns the named type pkgSuffix.name or nil.
func (c *Ctx) namedType(pkgSuffix, name string) *types.Named {
	if n := c.namedTypeIn(pkgSuffix, name); n != nil {
		return n
	}
	// moved to another package of the module: accept a unique match elsewhere
	var found *types.Named
	k := 0
	for _, p := range c.ModPkgs {
		suffix := strings.TrimPrefix(p.PkgPath, modPath)
		if suffix == pkgSuffix {
			continue
		}
		if n := c.namedTypeIn(suffix, name); n != nil {
			found = n
			k++
		}
	}
	if k == 1 {
		return found
	}
	return nil
}

func (c *Ctx) namedTypeIn(pkgSuffix, name string) *types.Named {
	p := c.pkg(pkgSuffix)
	if p == nil {
		return nil
	}
	o := p.Types.Scope().Lookup(name)
	if o == nil {
		// renamed: the type that took the place of the reference one
		if tn := typeFwd[p.PkgPath+"."+name]; tn != nil {
			o = tn
		}
	}
	if o == nil {
		return nil
	}
	if _, isType := o.(*types.TypeName); !isType {
		return nil
	}
	n, _ := o.Type().(*types.Named)
	return n
}

// files yields every syntax file of the rule packages.
func (c *Ctx) files(f func(p *packages.Package, file *ast.File)) {
	for _, p := range c.ModPkgs {
		for _, file := range p.Syntax {
			f(p, file)
		}
	}
}
