package main

import (
	"path/filepath"
	"strings"

	"golang.org/x/tools/go/ssa"
)

// Assignment of the E8 obligations to properties, by package / source file
// of the enclosing function.

func (c *Ctx) fileOf(f *ssa.Function) string {
	f = rootFn(f)
	if !f.Pos().IsValid() {
		return ""
	}
	return filepath.Base(c.Fset.Position(f.Pos()).Filename)
}

func isConfigFile(name string) bool { return name == "gitconfig.go" }

var boundsExceptions = map[string]string{
	"main.main:slice": "os.Args[1:]: len(os.Args) >= 1 by process convention",
	"(*sizes.table).formatRow:repeat-count:indent": "strings.Repeat(\" \", 2*(t.indent-1)) under t.indent != 0: indent is -1 only for the outermost table, which formats no row of its own (addSection emits its sections at indent 0 and below); every row is formatted at indent >= 0",
	"(*counts.Humaner).FormatNumber:index":         "h.prefixes[0]: every Humaner value in the module is one of the package-level tables, which C12.tables requires to be non-empty",
}

func ruleC07RenderTotal(c *Ctx) {
	n := c.checkBounds("C07.render-total", func(f *ssa.Function) bool {
		p := pkgOf(f)
		if p == modPath+"/counts" {
			return true
		}
		if p != modPath+"/sizes" {
			return false
		}
		file := c.fileOf(f)
		return file == "output.go" || file == "footnotes.go" || file == "path_resolver.go"
	}, boundsExceptions)
	if n < 5 {
		c.floor("C07.render-total", 5, "index/slice obligations in the renderer")
	}
}

func ruleC16Bounds(c *Ctx) {
	n := c.checkBounds("C16.bounds", func(f *ssa.Function) bool {
		return pkgOf(f) == modPath+"/git" && !isConfigFile(c.fileOf(f))
	}, boundsExceptions)
	if n < 25 {
		c.floor("C16.bounds", 10, "index/slice obligations in the object and listing parsers")
	}
}

func ruleC15Total(c *Ctx) {
	n := c.checkBounds("C15.total", func(f *ssa.Function) bool {
		p := pkgOf(f)
		return (p == modPath+"/git" && isConfigFile(c.fileOf(f))) || p == modPath+"/internal/refopts"
	}, boundsExceptions)
	if n < 8 {
		c.floor("C15.total", 3, "index/slice obligations in the gitconfig reader and refgroup key handling")
	}
}

// boundsElsewhere: obligations of the remaining packages (scanner, main,
// meter), reported under the property given by the caller.
func (c *Ctx) boundsOfPackage(rule string, pkgSuffix string, files ...string) int {
	return c.checkBounds(rule, func(f *ssa.Function) bool {
		if pkgOf(f) != modPath+pkgSuffix {
			return false
		}
		if len(files) == 0 {
			return true
		}
		file := c.fileOf(f)
		for _, x := range files {
			if strings.EqualFold(x, file) {
				return true
			}
		}
		return false
	}, boundsExceptions)
}
