package main

import (
	"go/token"
	"go/types"
	"reflect"
	"strings"

	"golang.org/x/tools/go/ssa"
)

// Clauses added after the tenth round of seeded changes.

func init() {
	register("C01", "", nil, ruleC01Selection)
	register("C02", "", nil, ruleC02Borrowed3)
	register("C11", "", nil, ruleC11V1Tags, ruleC11ConfigThreshold)
	register("C19", "", nil, ruleC19ConfigNames, ruleC19PathEmpty)
}

// ruleC01Selection: objects reachable only from unselected references
// contribute nothing only if a pattern selects the references it spells and
// no others: a regular expression is matched against the whole name
// (C06.anchor).
func ruleC01Selection(c *Ctx) {
	c.RuleAlias = map[string]string{"C06.anchor": "C01.selection"}
	defer func() { c.RuleAlias = nil }()
	ruleC06Anchor(c)
	// … and the census is over the whole enumeration: a failure of the
	// listing is not taken for its end (C10.errflow at the scanner's
	// iterator calls)
	c.RuleAlias = map[string]string{"C10.errflow": "C01.complete"}
	c.KeyOnly = func(key string) bool { return strings.HasPrefix(key, "sizes.ScanRepositoryUsingGraph:") }
	defer func() { c.KeyOnly = nil }()
	ruleC10Errflow(c)
}

// ruleC02Borrowed3: the maxima are taken over all the selected objects and
// over nothing else: the enumeration's failure is not taken for its end
// (C10.errflow at the scanner's iterator calls), and with ROOT arguments and
// no reference option no reference is selected (C06.default).
func ruleC02Borrowed3(c *Ctx) {
	c.RuleAlias = map[string]string{"C10.errflow": "C02.complete", "C06.default": "C02.selection"}
	c.KeyOnly = func(key string) bool {
		return strings.HasPrefix(key, "sizes.ScanRepositoryUsingGraph:") || strings.Contains(key, "NoReferencesFilter")
	}
	defer func() { c.RuleAlias = nil; c.KeyOnly = nil }()
	ruleC10Errflow(c)
	ruleC06Default(c)
}

// ruleC11V1Tags: JSON v1 presents every measurement the table and JSON v2
// present: a counter field of HistorySize is always emitted (no omitempty,
// not "-"): a zero is a measurement, not an absence.
func ruleC11V1Tags(c *Ctx) {
	const rule = "C11.bijection"
	hs := c.namedType("/sizes", "HistorySize")
	if hs == nil {
		return
	}
	st, ok := hs.Underlying().(*types.Struct)
	if !ok {
		return
	}
	n, bad := 0, 0
	for i := 0; i < st.NumFields(); i++ {
		f := st.Field(i)
		if !isNamed(f.Type(), modPath+"/counts", "Count32") && !isNamed(f.Type(), modPath+"/counts", "Count64") {
			continue
		}
		n++
		tag, has := reflect.StructTag(st.Tag(i)).Lookup("json")
		if !has {
			continue // emitted under the field name
		}
		parts := strings.Split(tag, ",")
		dropped := parts[0] == "-" && len(parts) == 1
		for _, o := range parts[1:] {
			if o == "omitempty" || o == "omitzero" {
				dropped = true
			}
		}
		if dropped {
			bad++
			c.violate(rule, "v1-always:"+vname(f), f.Pos(), "sizes.HistorySize", "the measurement "+vname(f)+" is left out of JSON v1 when it is zero (or always): the table and JSON v2 show a value that JSON v1 does not have")
		}
	}
	if n > 0 && bad == 0 {
		c.hold(rule, "v1-always", hs.Obj().Pos(), "every counter of HistorySize is always emitted in JSON v1")
	}
}

// ruleC11ConfigThreshold: a configured threshold filters like the same
// threshold on the command line: the value read is applied whatever it is
// (C14.families, value-unconditional clause).
func ruleC11ConfigThreshold(c *Ctx) {
	c.RuleAlias = map[string]string{"C14.families": "C11.rule"}
	c.KeyOnly = func(key string) bool { return key == "sizer.threshold:value-unconditional" }
	defer func() { c.RuleAlias = nil; c.KeyOnly = nil }()
	ruleC14ConfigUnconditional(c)
}

// ruleC19ConfigNames: a refgroup name is data: the configuration is listed
// whole and matched in this program, never handed to git as a pattern
// (C15.nul-first, config-list clause).
func ruleC19ConfigNames(c *Ctx) {
	c.RuleAlias = map[string]string{"C15.nul-first": "C19.config-names"}
	c.KeyOnly = func(key string) bool { return key == "config-list" }
	defer func() { c.RuleAlias = nil; c.KeyOnly = nil }()
	ruleC15NulFirst(c)
}

// ruleC19PathEmpty: the set of JSON keys does not depend on how an object
// was named: `objectDescription` is omitted when Path() is empty, so Path()
// may be empty only for an object that has no name at all (no parent and an
// empty recorded name) or whose type is none of the four.
func ruleC19PathEmpty(c *Ctx) {
	const rule = "C19.keys"
	pt := c.namedType("/sizes", "Path")
	if pt == nil {
		return
	}
	pf := c.methodOf(types.NewPointer(pt), "Path")
	if pf == nil || len(pf.Params) == 0 {
		return
	}
	isField := func(v ssa.Value, field string) bool {
		b, p := c.fieldPath(c.resolve(v))
		return b != nil && len(p) == 1 && p[0] == field && c.resolve(b) == ssa.Value(pf.Params[0])
	}
	n, bad := 0, 0
	for _, ret := range returnsOf(pf) {
		for _, v := range c.resultValues(ret, 0) {
			s, isConst := constStr(v)
			if !isConst || s != "" {
				continue
			}
			n++
			unnamed, typeFalse, typeTrue := false, 0, 0
			for _, fct := range factsAt(ret.Block()) {
				cond, truth := normCond(fct.Cond, fct.Truth)
				cmp, ok := cond.(*ssa.BinOp)
				if !ok || (cmp.Op != token.EQL && cmp.Op != token.NEQ) {
					continue
				}
				eq := (cmp.Op == token.EQL) == truth
				lit, isLit := constStr(cmp.Y)
				x := cmp.X
				if !isLit {
					lit, isLit = constStr(cmp.X)
					x = cmp.Y
				}
				if !isLit {
					continue
				}
				switch {
				case isField(x, "relativePath") && lit == "" && eq:
					unnamed = true
				case isField(x, "objectType"):
					if eq {
						typeTrue++
					} else {
						typeFalse++
					}
				}
			}
			if unnamed || (typeTrue == 0 && typeFalse > 0) {
				continue
			}
			bad++
			c.violate(rule, "Path:empty-only-if-unnamed", ret.Pos(), fnName(pf), "Path() can be empty for an object that was given a name: JSON v2 then omits objectDescription for it, so the set of keys depends on how the object was named")
		}
	}
	if n > 0 && bad == 0 {
		c.hold(rule, "Path:empty-only-if-unnamed", pf.Pos(), "Path() is empty only for an object without a recorded name (or of an unknown type)")
	}
}
