package main

import (
	"fmt"
	"go/constant"
	"go/token"
	"go/types"
	"sort"
	"strings"

	"golang.org/x/tools/go/ssa"
)

// Rules decided with the E5 interpreter.

const (
	cap32 = "4294967295"
	cap64 = "18446744073709551615"
)

func capOf(kind string) string {
	if kind == "Count32" {
		return cap32
	}
	return cap64
}

func isConstStr(v aVal, s string) bool {
	k, ok := v.(aConst)
	return ok && k.v != nil && k.v.ExactString() == s
}

func isConstString(v aVal, s string) bool {
	k, ok := v.(aConst)
	return ok && k.v != nil && k.v.Kind() == constant.String && constant.StringVal(k.v) == s
}

func isWsumOf(v aVal, a, b string) bool {
	w, ok := v.(aWsum)
	if !ok {
		return false
	}
	x, y := aShow(w.a), aShow(w.b)
	return (x == a && y == b) || (x == b && y == a)
}

// ---------- C02.max ----------

func ruleC02Max(c *Ctx) {
	n := 0
	for _, kind := range []string{"Count32", "Count64"} {
		for _, m := range []string{"AdjustMaxIfNecessary", "AdjustMaxIfPossible"} {
			f := c.fn("/counts", "*"+kind, m)
			key := kind + "." + m
			if f == nil {
				c.violate("C02.max", key, token.NoPos, "", "counts.(*"+kind+")."+m+" not found")
				continue
			}
			n++
			var detail []string
			bad := ""
			for _, ord := range []int{-1, 0, 1} {
				cell := &aCell{v: aSym("old")}
				rows := aEnumerate(map[[2]string]int{{"arg", "old"}: ord}, func(e *aEnv) aVal {
					cell.v = aSym("old")
					return c.aCall(f, []aVal{aPtr{cell}, aSym("arg")}, e, 0, nil)
				})
				rel := map[int]string{-1: "arg<old", 0: "arg=old", 1: "arg>old"}[ord]
				for _, r := range rows {
					// re-run to read the final store of this row
					cell2 := &aCell{v: aSym("old")}
					e2 := &aEnv{choices: r.Env.choices, memo: map[string]bool{}, order: map[[2]string]int{{"arg", "old"}: ord}}
					ret := c.aCall(f, []aVal{aPtr{cell2}, aSym("arg")}, e2, 0, nil)
					final := aShow(cell2.v)
					detail = append(detail, fmt.Sprintf("%s %s: returns %s, stores %s", rel, strings.Join(r.Trace, " "), aShow(ret), final))
					if len(e2.undec) > 0 {
						bad = "outside the interpreted fragment: " + strings.Join(e2.undec, "; ")
						continue
					}
					larger := map[int]string{-1: "old", 1: "arg"}[ord]
					if ord == 0 {
						if final != "old" && final != "arg" {
							bad = rel + ": stores " + final
						}
					} else if final != larger {
						bad = fmt.Sprintf("%s: the stored value is %s, not the larger one (%s)", rel, final, larger)
					}
					rb, isB := ret.(aBool)
					if !isB {
						bad = rel + ": does not return a definite boolean"
					} else if bool(rb) && ord < 0 {
						bad = rel + ": reports a new maximum for a smaller value"
					} else if !bool(rb) && final != "old" && ord != 0 {
						bad = rel + ": reports no change but changed the stored value"
					} else if !bool(rb) && ord > 0 {
						bad = rel + ": a strictly larger value is not reported as a new maximum (its witness would never be recorded)"
					}
				}
			}
			c.sample(map[string]interface{}{"function": key, "rows": detail})
			if bad == "" {
				c.hold("C02.max", key, f.Pos(), "over the 3 orderings of (arg,old): stores the larger, true only if arg>=old, false leaves the store unchanged")
			} else if strings.HasPrefix(bad, "outside") {
				c.undecided("C02.max", key, f.Pos(), fnName(f), bad, detail...)
			} else {
				c.violate("C02.max", key, f.Pos(), fnName(f), bad, detail...)
			}
		}
	}
	if n < 4 {
		c.floor("C02.max", 4, "AdjustMax functions")
	}
}

// ---------- C05.plus ----------

func ruleC05Plus(c *Ctx) {
	for _, kind := range []string{"Count32", "Count64"} {
		capS := capOf(kind)
		// Plus
		if f := c.fn("/counts", kind, "Plus"); f == nil {
			c.violate("C05.plus", kind+".Plus", token.NoPos, "", "counts."+kind+".Plus not found")
		} else {
			rows := aEnumerate(nil, func(e *aEnv) aVal { return c.aCall(f, []aVal{aSym("a"), aSym("b")}, e, 0, nil) })
			c.judgeWrap("C05.plus", kind+".Plus", f, rows, capS, func(r aRow) aVal { return r.Result }, "a", "b")
		}
		// Increment
		if f := c.fn("/counts", "*"+kind, "Increment"); f == nil {
			c.violate("C05.plus", kind+".Increment", token.NoPos, "", "counts.(*"+kind+").Increment not found")
		} else {
			var finals []aVal
			rows := aEnumerate(nil, func(e *aEnv) aVal {
				cell := &aCell{v: aSym("old")}
				c.aCall(f, []aVal{aPtr{cell}, aSym("b")}, e, 0, nil)
				finals = append(finals, cell.v)
				return cell.v
			})
			c.judgeWrap("C05.plus", kind+".Increment", f, rows, capS, func(r aRow) aVal { return r.Result }, "old", "b")
		}
		// ToUint64
		if f := c.fn("/counts", kind, "ToUint64"); f == nil {
			c.violate("C05.plus", kind+".ToUint64", token.NoPos, "", "counts."+kind+".ToUint64 not found")
		} else {
			rows := aEnumerate(nil, func(e *aEnv) aVal { return c.aCall(f, []aVal{aSym("n")}, e, 0, nil) })
			bad := ""
			atomName := "[" + capS + " == n]"
			for _, r := range rows {
				if len(r.Undec) > 0 {
					bad = "UNDECIDED " + strings.Join(r.Undec, "; ")
					continue
				}
				t, ok := r.Result.(aTuple)
				if !ok || len(t) != 2 {
					bad = "does not return (value, overflowed)"
					continue
				}
				if aShow(t[0]) != "n" {
					bad = "the value returned is " + aShow(t[0]) + ", not the counter itself"
				}
				av, has := r.Atoms[atomName]
				fb, isB := t[1].(aBool)
				if !has || !isB || len(r.Atoms) != 1 || bool(fb) != av {
					bad = "the overflow flag is not `n == " + capS + "` (atoms: " + strings.Join(r.Trace, " ") + ")"
				}
			}
			c.judge("C05.plus", kind+".ToUint64", f, bad, rows, "returns (n, n == capacity)")
		}
	}
	// NewCount32
	if f := c.fn("/counts", "", "NewCount32"); f == nil {
		c.violate("C05.plus", "NewCount32", token.NoPos, "", "counts.NewCount32 not found")
	} else {
		rows := aEnumerate(nil, func(e *aEnv) aVal { return c.aCall(f, []aVal{aSym("n")}, e, 0, nil) })
		bad := ""
		for _, r := range rows {
			if len(r.Undec) > 0 {
				bad = "UNDECIDED " + strings.Join(r.Undec, "; ")
				continue
			}
			over, known := false, false
			if v, ok := r.Atoms["["+cap32+" < n]"]; ok {
				over, known = v, true
			}
			if v, ok := r.Atoms["[n < 4294967296]"]; ok {
				over, known = !v, true
			}
			// `n >= 2^32-1`: the boundary value maps to itself either way
			if v, ok := r.Atoms["[n < "+cap32+"]"]; ok {
				over, known = !v, true
			}
			if v, ok := r.Atoms["["+cap32+" <= n]"]; ok {
				over, known = v, true
			}
			if !known || len(r.Atoms) != 1 {
				bad = "the clamp is not decided by `n > 4294967295` alone (atoms: " + strings.Join(r.Trace, " ") + ")"
				continue
			}
			if over && !isConstStr(r.Result, cap32) {
				bad = "a value above 2^32-1 is converted to " + aShow(r.Result) + " instead of the capacity"
			}
			if !over && aShow(r.Result) != "n" {
				bad = "a representable value is converted to " + aShow(r.Result)
			}
		}
		c.judge("C05.plus", "NewCount32", f, bad, rows, "n > 2^32-1 => capacity, else n")
	}
}

func (c *Ctx) judge(rule, key string, f *ssa.Function, bad string, rows []aRow, note string) {
	c.sample(map[string]interface{}{"function": key, "rows": rowsText(rows)})
	switch {
	case bad == "":
		c.hold(rule, key, f.Pos(), fmt.Sprintf("%s (%d abstract run(s))", note, len(rows)))
	case strings.HasPrefix(bad, "UNDECIDED loop in "):
		// an iterative formulation is outside the loop-free fragment; nothing indicates a defect
		c.notDecided(rule, key, f.Pos(), strings.TrimPrefix(bad, "UNDECIDED ")+": the function is written with a loop, which the finite-domain interpreter does not unroll")
	case strings.HasPrefix(bad, "UNDECIDED"):
		c.undecided(rule, key, f.Pos(), fnName(f), bad, rowsText(rows)...)
	default:
		c.violate(rule, key, f.Pos(), fnName(f), bad, rowsText(rows)...)
	}
}

func (c *Ctx) judgeWrap(rule, key string, f *ssa.Function, rows []aRow, capS string, get func(aRow) aVal, x, y string) {
	bad := ""
	for _, r := range rows {
		if len(r.Undec) > 0 {
			bad = "UNDECIDED " + strings.Join(r.Undec, "; ")
			continue
		}
		w, has := r.Atoms["WRAPPED"]
		res := get(r)
		if !has {
			// an operand known to be zero: the sum is the other operand and
			// cannot wrap
			zeroOf := func(s string) bool {
				return r.Atoms["[0 == "+s+"]"] || r.Atoms["["+s+" == 0]"]
			}
			if (zeroOf(y) && aShow(res) == x) || (zeroOf(x) && aShow(res) == y) {
				continue
			}
			bad = "a path decides the result without testing for wrap-around: " + r.String()
			continue
		}
		if w && !isConstStr(res, capS) {
			bad = "when the w-bit sum wraps the result is " + aShow(res) + " instead of the capacity " + capS + " (" + strings.Join(r.Trace, " ") + ")"
		}
		if !w && !isWsumOf(res, x, y) {
			bad = "when the sum does not wrap the result is " + aShow(res) + " instead of the sum (" + strings.Join(r.Trace, " ") + ")"
		}
	}
	c.judge(rule, key, f, bad, rows, "wrapped => capacity, else the sum")
}

// ---------- truth-table helper ----------

// checkTable: every row's result must equal spec(assignment) for every
// completion of the atoms the row did not query; atoms outside `names`
// are foreign. result rendered by aShow.
func checkTable(rows []aRow, names []string, spec func(a map[string]bool) string) string {
	known := map[string]bool{}
	for _, n := range names {
		known[n] = true
	}
	for _, r := range rows {
		if len(r.Undec) > 0 {
			return "UNDECIDED " + strings.Join(r.Undec, "; ")
		}
		for a := range r.Atoms {
			if !known[a] {
				return "the result depends on an unexpected condition " + a + " (expected only " + strings.Join(names, ", ") + ")"
			}
		}
		var missing []string
		for _, n := range names {
			if _, ok := r.Atoms[n]; !ok {
				missing = append(missing, n)
			}
		}
		for mask := 0; mask < 1<<len(missing); mask++ {
			a := map[string]bool{}
			for k, v := range r.Atoms {
				a[k] = v
			}
			for i, n := range missing {
				a[n] = mask&(1<<i) != 0
			}
			// the specification may name alternatives ("x|y": spellings of the
			// same value under this assignment) or "*" (the assignment cannot
			// occur)
			want, got := spec(a), aShow(r.Result)
			if want == "*" {
				continue
			}
			matches := false
			for _, alt := range strings.Split(want, "|") {
				if alt == got {
					matches = true
				}
			}
			if !matches {
				var parts []string
				for _, n := range names {
					parts = append(parts, fmt.Sprintf("%s=%v", n, a[n]))
				}
				return fmt.Sprintf("for %s the function yields %s, the specification %s", strings.Join(parts, " "), got, want)
			}
		}
	}
	return ""
}

// ---------- C06.algebra ----------

func (c *Ctx) filterRecv(tn string) (aStruct, *types.Named, bool) {
	t := c.namedType("/git", tn)
	if t == nil {
		return aStruct{}, nil, false
	}
	st, ok := t.Underlying().(*types.Struct)
	if !ok {
		return aStruct{}, nil, false
	}
	recv := aStruct{t, map[int]aVal{}}
	ni, ns := 0, 0
	for i := 0; i < st.NumFields(); i++ {
		ft := st.Field(i).Type()
		if _, isI := ft.Underlying().(*types.Interface); isI {
			ni++
			recv.f[i] = aIface{aSym(fmt.Sprintf("f%d", ni)), ft}
		} else {
			ns++
			recv.f[i] = aSym(fmt.Sprintf("P%d", ns))
		}
	}
	return recv, t, true
}

func ruleC06Algebra(c *Ctx) {
	A, B := "f1.Filter()", "f2.Filter()"
	specs := []struct {
		tn    string
		names []string
		spec  func(a map[string]bool) string
		note  string
	}{
		{"union", []string{A, B}, func(a map[string]bool) string { return fmt.Sprint(a[A] || a[B]) }, "a ∨ b"},
		{"intersection", []string{A, B}, func(a map[string]bool) string { return fmt.Sprint(a[A] && a[B]) }, "a ∧ b"},
		{"inverse", []string{A}, func(a map[string]bool) string { return fmt.Sprint(!a[A]) }, "¬a"},
		{"allReferencesFilter", nil, func(a map[string]bool) string { return "true" }, "constant true"},
		{"noReferencesFilter", nil, func(a map[string]bool) string { return "false" }, "constant false"},
	}
	for _, s := range specs {
		recv, t, ok := c.filterRecv(s.tn)
		key := s.tn + ".Filter"
		if !ok {
			// found by role below (Combine results); a missing helper type is only an alarm if Combine needs it
			continue
		}
		f := c.methodOf(t, "Filter")
		if f == nil {
			c.violate("C06.algebra", key, token.NoPos, "", "git."+s.tn+" has no Filter method")
			continue
		}
		rows := aEnumerate(nil, func(e *aEnv) aVal { return c.aCall(f, []aVal{recv, aSym("x")}, e, 0, nil) })
		c.judge("C06.algebra", key, f, checkTable(rows, s.names, s.spec), rows, s.note)
	}
	// Combine then Filter
	rf := c.namedType("/git", "ReferenceFilter")
	if rf == nil {
		c.violate("C06.algebra", "ReferenceFilter", token.NoPos, "", "git.ReferenceFilter not found")
		return
	}
	G, F := "g.Filter()", "f.Filter()"
	for _, comb := range []struct {
		global string
		nilSp  func(a map[string]bool) string
		sp     func(a map[string]bool) string
		note   string
	}{
		{"Include", func(a map[string]bool) string { return fmt.Sprint(a[F]) }, func(a map[string]bool) string { return fmt.Sprint(a[G] || a[F]) }, "Combine(nil,f)=f ; Combine(g,f)=g∨f"},
		{"Exclude", func(a map[string]bool) string { return fmt.Sprint(!a[F]) }, func(a map[string]bool) string { return fmt.Sprint(a[G] && !a[F]) }, "Combine(nil,f)=¬f ; Combine(g,f)=g∧¬f"},
	} {
		ct := c.globalType("/git", comb.global)
		if ct == nil {
			c.violate("C06.algebra", comb.global, token.NoPos, "", "git."+comb.global+" not found")
			continue
		}
		combine := c.methodOf(ct, "Combine")
		if combine == nil {
			c.violate("C06.algebra", comb.global+".Combine", token.NoPos, "", "git."+comb.global+" has no Combine method")
			continue
		}
		recv := aStruct{ct, map[int]aVal{}}
		for _, nilF1 := range []bool{true, false} {
			var f1 aVal = aIface{aSym("g"), rf}
			names := []string{G, F}
			spec := comb.sp
			if nilF1 {
				f1 = aIface{nil, rf}
				names = []string{F}
				spec = comb.nilSp
			}
			rows := aEnumerate(nil, func(e *aEnv) aVal {
				v := c.aCall(combine, []aVal{recv, f1, aIface{aSym("f"), rf}}, e, 0, nil)
				return c.applyFilter(v, e)
			})
			key := fmt.Sprintf("%s.Combine(f1 nil=%v)", comb.global, nilF1)
			c.judge("C06.algebra", key, combine, checkTable(rows, names, spec), rows, comb.note)
		}
		// Inverted swaps the two
		inv := c.methodOf(ct, "Inverted")
		other := map[string]string{"Include": "Exclude", "Exclude": "Include"}[comb.global]
		ot := c.globalType("/git", other)
		if inv == nil || ot == nil {
			c.violate("C06.algebra", comb.global+".Inverted", token.NoPos, "", "git."+comb.global+".Inverted not found")
			continue
		}
		rows := aEnumerate(nil, func(e *aEnv) aVal { return c.aCall(inv, []aVal{recv}, e, 0, nil) })
		bad := ""
		for _, r := range rows {
			ifc, ok := r.Result.(aIface)
			if !ok || ifc.t == nil || !types.Identical(ifc.t, ot) || len(r.Atoms) > 0 {
				bad = "Inverted() does not return the opposite combiner (" + other + "): " + r.String()
			}
		}
		c.judge("C06.algebra", comb.global+".Inverted", inv, bad, rows, "returns "+other)
	}
}

func (c *Ctx) globalType(pkgSuffix, name string) types.Type {
	p := c.pkg(pkgSuffix)
	if p == nil {
		return nil
	}
	o := p.Types.Scope().Lookup(name)
	if v, ok := o.(*types.Var); ok {
		return v.Type()
	}
	return nil
}

// applyFilter evaluates <filter value>.Filter(x).
func (c *Ctx) applyFilter(v aVal, e *aEnv) aVal {
	ifc, ok := v.(aIface)
	if !ok {
		e.undecided("Combine did not return an interface value: " + aShow(v))
		return aSym("?")
	}
	if ifc.dyn == nil {
		return aSym("nil-filter")
	}
	if s, isS := ifc.dyn.(aStruct); isS {
		if m := c.methodOf(ifc.t, "Filter"); m != nil {
			return c.aCall(m, []aVal{s, aSym("x")}, e, 1, nil)
		}
	}
	return aBool(e.atom(aShow(ifc.dyn) + ".Filter()"))
}

// ---------- C06.prefix ----------

func ruleC06Prefix(c *Ctx) {
	// PrefixFilter("") is all-references; otherwise a prefixFilter on that string
	pf := c.fn("/git", "", "PrefixFilter")
	if pf == nil {
		c.violate("C06.prefix", "PrefixFilter", token.NoPos, "", "git.PrefixFilter not found")
		return
	}
	rows := aEnumerate(nil, func(e *aEnv) aVal { return c.aCall(pf, []aVal{aSym("p")}, e, 0, nil) })
	bad := ""
	var filterT types.Type
	for _, r := range rows {
		if len(r.Undec) > 0 {
			bad = "UNDECIDED " + strings.Join(r.Undec, "; ")
			continue
		}
		empty, ok := r.Atoms[`["" == p]`]
		if !ok || len(r.Atoms) != 1 {
			if v, ok2 := r.Atoms["[0 == len(p)]"]; ok2 && len(r.Atoms) == 1 {
				empty, ok = v, true
			}
		}
		if !ok {
			bad = "PrefixFilter does not decide on `prefix == \"\"` alone: " + r.String()
			continue
		}
		ifc, isI := r.Result.(aIface)
		if !isI || ifc.dyn == nil {
			bad = "PrefixFilter returns no filter: " + r.String()
			continue
		}
		if empty {
			// must be the constant-true filter
			rr := aEnumerate(nil, func(e *aEnv) aVal { return c.applyFilter(r.Result, e) })
			if t := checkTable(rr, nil, func(map[string]bool) string { return "true" }); t != "" {
				bad = "PrefixFilter(\"\") is not the all-references filter: " + t
			}
		} else {
			s, isS := ifc.dyn.(aStruct)
			if !isS {
				bad = "PrefixFilter(p) does not build a filter value from p: " + r.String()
				continue
			}
			hasP := false
			for _, fv := range s.f {
				if aShow(fv) == "p" {
					hasP = true
				}
			}
			if !hasP {
				bad = "the filter built by PrefixFilter(p) does not hold p"
			}
			filterT = ifc.t
		}
	}
	c.judge("C06.prefix", "PrefixFilter", pf, bad, rows, `"" => all references; else a filter holding the prefix`)
	if filterT == nil {
		return
	}
	// the boundary rule
	st, ok := filterT.Underlying().(*types.Struct)
	m := c.methodOf(filterT, "Filter")
	if !ok || m == nil {
		c.undecided("C06.prefix", "boundary", pf.Pos(), fnName(pf), "cannot interpret the prefix filter's Filter method")
		return
	}
	recv := aStruct{filterT, map[int]aVal{}}
	for i := 0; i < st.NumFields(); i++ {
		recv.f[i] = aSym("P")
	}
	HS, HP, EQ, SL := `strings.HasSuffix(P,"/")`, `strings.HasPrefix(R,P)`, `[len(P) == len(R)]`, `[47 == R[len(P)]]`
	rows = aEnumerate(nil, func(e *aEnv) aVal { return c.aCall(m, []aVal{recv, aSym("R")}, e, 0, nil) })
	// equivalent spellings of the same conditions (given HasPrefix(R,P))
	renameAtoms(rows, map[string]string{
		`["" == R[len(P):]]`:                EQ,
		`[0 == len(R[len(P):])]`:            EQ,
		`[len(R[len(P):]) == 0]`:            EQ,
		`[47 == R[len(P):][0]]`:             SL,
		`[47 == P[(len(P) - 1)]]`:           HS,
		`strings.HasPrefix(R[len(P):],"/")`: SL,
	})
	t := checkTable(rows, []string{HS, HP, EQ, SL}, func(a map[string]bool) string {
		return fmt.Sprint(a[HP] && (a[HS] || a[EQ] || a[SL]))
	})
	c.judge("C06.prefix", "boundary", m, t, rows, "HasPrefix(r,p) ∧ (p ends in '/' ∨ len(r)==len(p) ∨ r[len(p)]=='/')")
	// the index r[len(p)] is only evaluated after HasPrefix ∧ len differs (bounds)
	for _, r := range rows {
		if _, asked := r.Atoms[SL]; asked {
			if !r.Atoms[HP] || r.Atoms[EQ] {
				c.violate("C06.prefix", "boundary:index-guard", m.Pos(), fnName(m), "refname[len(prefix)] is evaluated without HasPrefix(refname,prefix) and len(refname) != len(prefix) being established first: index out of range", r.String())
			}
		}
	}
}

// ---------- C11.rule / C05.render (levelOfConcern) ----------

type itemModel struct {
	T          *types.Named
	ValueIdx   int
	ScaleIdx   int
	PathIdx    int
	HumanerIdx int
	UnitIdx    int
}

func (c *Ctx) itemModel() *itemModel {
	t := c.namedType("/sizes", "item")
	if t == nil {
		return nil
	}
	st, ok := t.Underlying().(*types.Struct)
	if !ok {
		return nil
	}
	m := &itemModel{T: t, ValueIdx: -1, ScaleIdx: -1, PathIdx: -1, HumanerIdx: -1, UnitIdx: -1}
	for i := 0; i < st.NumFields(); i++ {
		ft := st.Field(i).Type()
		switch {
		case isNamed(ft, modPath+"/counts", "Humanable"):
			m.ValueIdx = i
		case isNamed(ft, modPath+"/counts", "Humaner"):
			m.HumanerIdx = i
		case isPtrToNamed(ft, modPath+"/sizes", "Path"):
			m.PathIdx = i
		default:
			if b, ok := ft.Underlying().(*types.Basic); ok && b.Kind() == types.Float64 {
				m.ScaleIdx = i
			}
		}
	}
	if m.ValueIdx < 0 || m.ScaleIdx < 0 {
		return nil
	}
	return m
}

func (c *Ctx) itemCell(m *itemModel) *aCell {
	st := m.T.Underlying().(*types.Struct)
	s := aStruct{m.T, map[int]aVal{}}
	for i := 0; i < st.NumFields(); i++ {
		s.f[i] = aSym("item." + vname(st.Field(i)))
	}
	s.f[m.ValueIdx] = aIface{aSym("V"), st.Field(m.ValueIdx).Type()}
	s.f[m.ScaleIdx] = aSym("S")
	if m.PathIdx >= 0 {
		s.f[m.PathIdx] = aSym("PATH")
	}
	return &aCell{v: s}
}

const (
	atOV    = "V.ToUint64()#1"
	alertEx = "(float(V.ToUint64()#0) / S)"
)

func ruleLevelOfConcern(c *Ctx, rule string) {
	m := c.itemModel()
	f := c.fn("/sizes", "*item", "levelOfConcern")
	if m == nil || f == nil {
		c.violate(rule, "levelOfConcern", token.NoPos, "", "sizes.(*item).levelOfConcern (or the item's value/scale fields) not found")
		return
	}
	rows := aEnumerate(nil, func(e *aEnv) aVal {
		return c.aCall(f, []aVal{aPtr{c.itemCell(m)}, aSym("T")}, e, 0, nil)
	})
	LT, GT := "["+alertEx+" < T]", "[30 < "+alertEx+"]"
	bangs := strings.Repeat("!", 30)
	stars := strings.Repeat("*", 30)
	starSlice := fmt.Sprintf("%q[:int(%s)]", stars, alertEx)
	spec := func(a map[string]bool) string {
		switch {
		case a[atOV]:
			return fmt.Sprintf("(%q,true)", bangs)
		case a[LT]:
			return `("",false)`
		case a[GT]:
			return fmt.Sprintf("(%q,true)", bangs)
		}
		return "(" + starSlice + ",true)"
	}
	t := checkTable(rows, []string{atOV, LT, GT}, spec)
	c.judge(rule, "levelOfConcern", f, t, rows, "overflow ⇒ 30 bangs,shown; alert<threshold ⇒ hidden; alert>30 ⇒ 30 bangs; else stars[:int(alert)] — alert = float64(value)/scale")
	// the overflow test comes first: no row may consult the threshold before it
	for _, r := range rows {
		if len(r.Trace) > 0 && !strings.HasPrefix(r.Trace[0], atOV+"=") {
			c.violate(rule, "levelOfConcern:overflow-first", f.Pos(), fnName(f), "a saturated value is compared with the threshold before the overflow flag is consulted", r.String())
		}
	}
}

func ruleC11Rule(c *Ctx) { ruleLevelOfConcern(c, "C11.rule") }

func ruleC05Render(c *Ctx) {
	ruleLevelOfConcern(c, "C05.render")
	// Humaner.Format: infinity sign iff overflow, decided before formatting
	f := c.fn("/counts", "*Humaner", "Format")
	fn := c.fn("/counts", "*Humaner", "FormatNumber")
	if f == nil {
		c.violate("C05.render", "Humaner.Format", token.NoPos, "", "counts.(*Humaner).Format not found")
		return
	}
	sums := map[string]aSummary{}
	if fn != nil {
		sums[refQ(fn)] = func(fr *aFrame, args []aVal) (aVal, bool) {
			return aTuple{aSym("FormatNumber(" + aShow(args[1]) + "," + aShow(args[2]) + ")#0"), aSym("FormatNumber(" + aShow(args[1]) + "," + aShow(args[2]) + ")#1")}, true
		}
	}
	hv := c.namedType("/counts", "Humanable")
	rows := aEnumerate(nil, func(e *aEnv) aVal {
		return c.aCall(f, []aVal{aSym("h"), aIface{aSym("V"), hv}, aSym("unit")}, e, 0, sums)
	})
	t := checkTable(rows, []string{atOV}, func(a map[string]bool) string {
		if a[atOV] {
			return `("∞",unit)`
		}
		return "(FormatNumber(V.ToUint64()#0,unit)#0,FormatNumber(V.ToUint64()#0,unit)#1)"
	})
	c.judge("C05.render", "Humaner.Format", f, t, rows, "overflow ⇒ (∞, unit); else FormatNumber(value, unit)")
	// MarshalJSON emits the value returned by ToUint64
	mj := c.fn("/sizes", "*item", "MarshalJSON")
	if mj == nil {
		c.violate("C05.render", "item.MarshalJSON", token.NoPos, "", "sizes.(*item).MarshalJSON not found")
		return
	}
	c.checkMarshalValue(mj)
}

// checkMarshalValue: the `value` JSON field and the levelOfConcern ratio of
// the v2 item are built from ToUint64() of the item's value and its scale.
func (c *Ctx) checkMarshalValue(mj *ssa.Function) {
	m := c.itemModel()
	if m == nil {
		return
	}
	var toU *ssa.Call
	allInstrs(mj, func(in ssa.Instruction) {
		if call, ok := in.(*ssa.Call); ok && call.Call.IsInvoke() && mname(call.Call.Method) == "ToUint64" {
			if _, p := c.fieldPath(c.resolve(call.Call.Value)); len(p) == 1 {
				toU = call
			}
		}
	})
	if toU == nil {
		c.violate("C05.render", "item.MarshalJSON:value", mj.Pos(), fnName(mj), "MarshalJSON does not read the item's value through ToUint64()")
		return
	}
	found := map[string]bool{}
	allInstrs(mj, func(in ssa.Instruction) {
		st, ok := in.(*ssa.Store)
		if !ok {
			return
		}
		fa, ok := st.Addr.(*ssa.FieldAddr)
		if !ok {
			return
		}
		fi := fieldOfAddr(fa)
		switch fi.Tag {
		case "value":
			if ex, ok := c.resolve(st.Val).(*ssa.Extract); ok && ex.Tuple == ssa.Value(toU) && ex.Index == 0 {
				found["value"] = true
			} else {
				c.violate("C05.render", "item.MarshalJSON:value", st.Pos(), fnName(mj), "the JSON `value` is not the number returned by ToUint64() (the capacity when saturated)")
			}
		case "levelOfConcern":
			bo, ok := c.resolve(st.Val).(*ssa.BinOp)
			okRatio := false
			if ok && bo.Op == token.QUO {
				if cv, ok := bo.X.(*ssa.Convert); ok {
					if ex, ok := c.resolve(cv.X).(*ssa.Extract); ok && ex.Tuple == ssa.Value(toU) && ex.Index == 0 {
						if _, p := c.fieldPath(c.resolve(bo.Y)); len(p) == 1 && p[0] == vname(m.T.Underlying().(*types.Struct).Field(m.ScaleIdx)) {
							okRatio = true
						}
					}
				}
			}
			if okRatio {
				found["levelOfConcern"] = true
			} else {
				c.violate("C11.same-value", "item.MarshalJSON:levelOfConcern", st.Pos(), fnName(mj), "JSON v2 levelOfConcern is not float64(value)/scale of the same item: the table and JSON would disagree")
			}
		case "referenceValue":
			if _, p := c.fieldPath(c.resolve(st.Val)); len(p) == 1 && p[0] == vname(m.T.Underlying().(*types.Struct).Field(m.ScaleIdx)) {
				found["referenceValue"] = true
			} else {
				c.violate("C11.same-value", "item.MarshalJSON:referenceValue", st.Pos(), fnName(mj), "JSON v2 referenceValue is not the item's scale")
			}
		}
	})
	for _, k := range []string{"value", "levelOfConcern", "referenceValue"} {
		rule := "C11.same-value"
		if k == "value" {
			rule = "C05.render"
		}
		if found[k] {
			c.hold(rule, "item.MarshalJSON:"+k, mj.Pos(), "built from ToUint64() of the item's value / the item's scale")
		} else if c.seen(rule, "item.MarshalJSON:"+k) == nil {
			c.violate(rule, "item.MarshalJSON:"+k, mj.Pos(), fnName(mj), "the JSON v2 object has no `"+k+"` member fed from the item")
		}
	}
}

// ---------- C08.none ----------

func ruleC08None(c *Ctx) {
	m := c.itemModel()
	f := c.fn("/sizes", "*item", "Footnote")
	if m == nil || f == nil || m.PathIdx < 0 {
		c.violate("C08.none", "Footnote", token.NoPos, "", "sizes.(*item).Footnote (or the item's path field) not found")
		return
	}
	styles := map[string]int64{}
	for _, n := range []string{"NameStyleNone", "NameStyleHash", "NameStyleFull"} {
		if k, ok := c.pkg("/sizes").Types.Scope().Lookup(n).(*types.Const); ok {
			v, _ := constant.Int64Val(k.Val())
			styles[n] = v
		} else {
			c.violate("C08.none", n, token.NoPos, "", "constant sizes."+n+" not found")
			return
		}
	}
	nsT := c.namedType("/sizes", "NameStyle")
	sums := map[string]aSummary{
		modQ("/git", "OID", "String"): func(fr *aFrame, args []aVal) (aVal, bool) {
			return aSym("OIDHEX(" + aShow(args[0]) + ")"), true
		},
		modQ("/sizes", "*Path", "String"): func(fr *aFrame, args []aVal) (aVal, bool) {
			return aSym("PATHDESC(" + aShow(args[0]) + ")"), true
		},
	}
	run := func(style string) []aRow {
		return aEnumerate(nil, func(e *aEnv) aVal {
			return c.aCall(f, []aVal{aPtr{c.itemCell(m)}, aConst{constant.MakeInt64(styles[style]), nsT}}, e, 0, sums)
		})
	}
	rows := run("NameStyleNone")
	bad := ""
	for _, r := range rows {
		if len(r.Undec) > 0 {
			bad = "UNDECIDED " + strings.Join(r.Undec, "; ")
		} else if !isConstString(r.Result, "") {
			bad = "with --names=none a footnote text is produced: " + r.String()
		}
	}
	c.judge("C08.none", "Footnote(none)", f, bad, rows, "always the empty string")
	// hash style cites the object id, full style the path description
	for style, want := range map[string]string{"NameStyleHash": "OIDHEX(*&PATH.OID)", "NameStyleFull": "PATHDESC(PATH)"} {
		rows := run(style)
		bad := ""
		nonEmpty := 0
		for _, r := range rows {
			if len(r.Undec) > 0 {
				bad = "UNDECIDED " + strings.Join(r.Undec, "; ")
				continue
			}
			if isConstString(r.Result, "") {
				continue
			}
			nonEmpty++
			if aShow(r.Result) != want {
				bad = "style " + style + " cites " + aShow(r.Result)
			}
		}
		if nonEmpty == 0 && bad == "" {
			bad = "style " + style + " never produces a footnote"
		}
		c.judge("C08.none", "Footnote("+strings.TrimPrefix(style, "NameStyle")+")", f, bad, rows, "cites "+want+" when the item has a path")
	}
	// the resolver for `none` hands out no path at all
	npr := c.fn("/sizes", "", "NewPathResolver")
	if npr == nil {
		c.violate("C08.none", "NewPathResolver", token.NoPos, "", "sizes.NewPathResolver not found")
		return
	}
	rows = aEnumerate(nil, func(e *aEnv) aVal {
		v := c.aCall(npr, []aVal{aConst{constant.MakeInt64(styles["NameStyleNone"]), nsT}}, e, 0, nil)
		ifc, ok := v.(aIface)
		if !ok || ifc.dyn == nil {
			e.undecided("NewPathResolver(none) returns " + aShow(v))
			return v
		}
		req := c.methodOf(ifc.t, "RequestPath")
		if req == nil {
			e.undecided("resolver has no RequestPath")
			return v
		}
		return c.aCall(req, []aVal{ifc.dyn, aSym("oid"), aSym("type")}, e, 1, nil)
	})
	bad = ""
	for _, r := range rows {
		if len(r.Undec) > 0 {
			bad = "UNDECIDED " + strings.Join(r.Undec, "; ")
		} else if k, ok := r.Result.(aConst); !ok || k.v != nil {
			bad = "the path resolver used for --names=none hands out a path object: " + r.String()
		}
	}
	c.judge("C08.none", "resolver(none)", npr, bad, rows, "RequestPath returns nil")
	_ = sort.Strings
}

// ---------- C06.refgroup ----------

// ruleC06RefGroup: one unrolling of the @REFGROUP filter: a group passes its
// ancestors iff every ancestor below the top level has no filter of its own
// or accepts the name; the group filter is passes(parent) ∧ matches(group).
func ruleC06RefGroup(c *Ctx) {
	rgT := c.namedType("/internal/refopts", "refGroup")
	passes := c.fn("/internal/refopts", "", "refGroupPasses")
	if rgT == nil {
		c.violate("C06.refgroup", "refGroup", token.NoPos, "", "type refopts.refGroup not found")
		return
	}
	st, ok := rgT.Underlying().(*types.Struct)
	if !ok {
		return
	}
	// find the ancestor-pass function by role if it was renamed: (rg *refGroup, refname string) bool, self-recursive on a *refGroup field
	if passes == nil {
		for _, f := range c.ModFns {
			if pkgOf(f) != modPath+"/internal/refopts" || f.Signature.Params().Len() != 2 || f.Signature.Results().Len() != 1 || !isBoolType(f.Signature.Results().At(0).Type()) {
				continue
			}
			rec := false
			for _, call := range callsTo(f, f) {
				if _, p := c.fieldPath(c.resolve(call.Call.Args[0])); len(p) == 1 {
					rec = true
				}
			}
			if rec && isPtrToNamed(f.Signature.Params().At(0).Type(), modPath+"/internal/refopts", "refGroup") {
				passes = f
			}
		}
	}
	if passes == nil {
		c.violate("C06.refgroup", "ancestor-pass", token.NoPos, "", "no function decides whether a refgroup's ancestors let a reference through: @REFGROUP would not be limited to the members of the group")
		return
	}
	mk := func() aVal {
		s := aStruct{rgT, map[int]aVal{}}
		for i := 0; i < st.NumFields(); i++ {
			fv := st.Field(i)
			switch {
			case isNamed(fv.Type(), modPath+"/sizes", "RefGroup"):
				inner := aStruct{fv.Type(), map[int]aVal{}}
				ist := fv.Type().Underlying().(*types.Struct)
				for j := 0; j < ist.NumFields(); j++ {
					inner.f[j] = aSym("G." + vname(ist.Field(j)))
				}
				s.f[i] = inner
			case isNamed(fv.Type(), modPath+"/git", "ReferenceFilter"):
				s.f[i] = aIface{aSym("maybe-nil:F"), fv.Type()}
			case isPtrToNamed(fv.Type(), modPath+"/internal/refopts", "refGroup"):
				s.f[i] = aSym("PARENT")
			default:
				s.f[i] = aSym("g." + vname(fv))
			}
		}
		return aPtr{&aCell{v: s}}
	}
	rows := aEnumerate(nil, func(e *aEnv) aVal { return c.aCall(passes, groupAndName(passes, mk(), aSym("R")), e, 0, nil) })
	recArgs := "(PARENT,R)"
	if len(groupAndName(passes, aSym("g"), aSym("n"))) == 2 && aShow(groupAndName(passes, aSym("g"), aSym("n"))[0]) == "n" {
		recArgs = "(R,PARENT)"
	}
	TOP, REC, NIL, FIL := `["" == G.Symbol]`, "rec:"+passes.Name()+recArgs, "[F == nil]", "maybe-nil:F.Filter()"
	t := checkTable(rows, []string{TOP, REC, NIL, FIL}, func(a map[string]bool) string {
		switch {
		case a[TOP]:
			return "true"
		case !a[REC]:
			return "false"
		}
		return fmt.Sprint(a[NIL] || a[FIL])
	})
	c.judge("C06.refgroup", "ancestor-pass", passes, t, rows, "top level ⇒ true; else ancestors pass ∧ (no own filter ∨ own filter accepts)")
	// the group filter: passes(parent) ∧ matches(group)
	gf := c.namedType("/internal/refopts", "refGroupFilter")
	if gf == nil {
		return
	}
	m := c.methodOf(gf, "Filter")
	if m == nil {
		c.violate("C06.refgroup", "group-filter", token.NoPos, "", "refopts.refGroupFilter has no Filter method")
		return
	}
	matches := c.fn("/internal/refopts", "", "refGroupMatches")
	sums := map[string]aSummary{
		refQ(passes): func(fr *aFrame, args []aVal) (aVal, bool) {
			return aBool(fr.env.atom("PASSES(" + aShow(groupArg(passes, args)) + ")")), true
		},
	}
	if matches != nil {
		sums[refQ(matches)] = func(fr *aFrame, args []aVal) (aVal, bool) {
			return aBool(fr.env.atom("MATCHES(" + aShow(groupArg(matches, args)) + ")")), true
		}
	}
	recv := aStruct{gf, map[int]aVal{0: mk()}}
	rows = aEnumerate(nil, func(e *aEnv) aVal { return c.aCall(m, []aVal{recv, aSym("R")}, e, 0, sums) })
	P, M := "PASSES(PARENT)", "MATCHES(&cell)"
	t = checkTable(rows, []string{P, M}, func(a map[string]bool) string { return fmt.Sprint(a[P] && a[M]) })
	c.judge("C06.refgroup", "group-filter", m, t, rows, "@G matches a name iff G's ancestors let it through and G itself (or, without a filter of its own, one of its subgroups) matches")
	// matches(group): own filter decides when there is one
	if matches != nil {
		rows = aEnumerate(nil, func(e *aEnv) aVal { return c.aCall(matches, groupAndName(matches, mk(), aSym("R")), e, 0, nil) })
		bad := ""
		for _, r := range rows {
			isNil, asked := r.Atoms[NIL]
			if !asked {
				bad = "the group's own filter is not consulted first: " + r.String()
				continue
			}
			if !isNil {
				if len(r.Undec) > 0 {
					bad = "UNDECIDED " + strings.Join(r.Undec, "; ")
				} else if fb, ok := r.Result.(aBool); !ok || bool(fb) != r.Atoms[FIL] {
					bad = "a group with a filter of its own does not match exactly what that filter accepts: " + r.String()
				}
			}
		}
		c.judge("C06.refgroup", "group-match", matches, bad, rows, "own filter present ⇒ exactly its verdict (the filterless case, a union over subgroups, is a loop and not interpreted)")
	}
}

// renameAtoms maps equivalent spellings of a condition onto the canonical atom.
func renameAtoms(rows []aRow, alias map[string]string) {
	for i := range rows {
		for from, to := range alias {
			if v, ok := rows[i].Atoms[from]; ok {
				delete(rows[i].Atoms, from)
				rows[i].Atoms[to] = v
			}
		}
	}
}

// groupAndName orders the (group, reference name) arguments of a refgroup
// predicate as the function declares them (the name is its string
// parameter).
func groupAndName(f *ssa.Function, group, name aVal) []aVal {
	if len(f.Params) == 2 {
		if b, ok := f.Params[0].Type().Underlying().(*types.Basic); ok && b.Kind() == types.String {
			return []aVal{name, group}
		}
	}
	return []aVal{group, name}
}

// groupArg picks the group argument (the one that is not the name string).
func groupArg(f *ssa.Function, args []aVal) aVal {
	for i, p := range f.Params {
		if b, ok := p.Type().Underlying().(*types.Basic); ok && b.Kind() == types.String {
			continue
		}
		if i < len(args) {
			return args[i]
		}
	}
	return args[0]
}
