package main

import (
	"go/token"

	"golang.org/x/tools/go/ssa"
)

// E6: path rules on the SSA control-flow graph.

// ---------- loops ----------

type loop struct {
	Head   *ssa.BasicBlock
	Blocks map[*ssa.BasicBlock]bool
	Backs  []*ssa.BasicBlock // sources of back edges
}

// loopsOf finds the natural loops of f (back edge = edge to a dominator).
func loopsOf(f *ssa.Function) []*loop {
	byHead := map[*ssa.BasicBlock]*loop{}
	var order []*loop
	for _, b := range f.Blocks {
		for _, s := range b.Succs {
			if s.Dominates(b) {
				l := byHead[s]
				if l == nil {
					l = &loop{Head: s, Blocks: map[*ssa.BasicBlock]bool{s: true}}
					byHead[s] = l
					order = append(order, l)
				}
				l.Backs = append(l.Backs, b)
				// collect body: blocks that reach b without passing head
				st := []*ssa.BasicBlock{b}
				for len(st) > 0 {
					x := st[len(st)-1]
					st = st[:len(st)-1]
					if l.Blocks[x] {
						continue
					}
					l.Blocks[x] = true
					st = append(st, x.Preds...)
				}
			}
		}
	}
	return order
}

// innermostLoop returns the smallest loop containing b, or nil.
func innermostLoop(loops []*loop, b *ssa.BasicBlock) *loop {
	var best *loop
	for _, l := range loops {
		if l.Blocks[b] && (best == nil || len(l.Blocks) < len(best.Blocks)) {
			best = l
		}
	}
	return best
}

// ---------- event counting ----------

// countRange is the [min,max] number of events on the paths considered.
// max == -1 means unbounded (event inside an inner loop).
type countRange struct{ Min, Max int }

const unbounded = 1 << 20

// eventCounter counts events over paths. isEvent classifies an
// instruction: n >= 0 events of its own. Calls to module functions are
// descended into (bounded depth) and contribute their own [min,max] over
// the callee's non-panic paths.
type eventCounter struct {
	c       *Ctx
	isEvent func(in ssa.Instruction) int
	// isEventR, if set, gives a [min,max] for an instruction (a site whose
	// operand is chosen among alternatives may or may not be the event)
	isEventR func(in ssa.Instruction) countRange
	descend  bool
	// credit: extra events accounted at the entry of a block (used to
	// attribute a deferred listener's updates to the branch that registers it)
	credit map[*ssa.BasicBlock]countRange
	// skip: callees that are not descended into
	skip  map[*ssa.Function]bool
	memo  map[*ssa.Function]*countRange
	stack map[*ssa.Function]bool
}

func (c *Ctx) newEventCounter(isEvent func(ssa.Instruction) int, descend bool) *eventCounter {
	return &eventCounter{c: c, isEvent: isEvent, descend: descend, memo: map[*ssa.Function]*countRange{}, stack: map[*ssa.Function]bool{}}
}

func (ec *eventCounter) instr(in ssa.Instruction) countRange {
	var r countRange
	if ec.isEventR != nil {
		r = ec.isEventR(in)
	} else {
		n := ec.isEvent(in)
		r = countRange{n, n}
	}
	if !ec.descend {
		return r
	}
	if call, ok := in.(*ssa.Call); ok {
		if callee := call.Call.StaticCallee(); callee != nil && len(callee.Blocks) > 0 && ec.c.inRuleScope(callee) && !ec.skip[callee] {
			cr := ec.function(callee)
			r.Min += cr.Min
			r.Max += cr.Max
		}
	}
	return r
}

// function returns the event range over all entry→return paths of f.
func (ec *eventCounter) function(f *ssa.Function) countRange {
	if r, ok := ec.memo[f]; ok {
		return *r
	}
	if ec.stack[f] || len(ec.stack) > 8 {
		return countRange{0, 0}
	}
	ec.stack[f] = true
	defer delete(ec.stack, f)
	exits := map[*ssa.BasicBlock]bool{}
	for _, b := range f.Blocks {
		if len(b.Instrs) > 0 && b != f.Recover {
			if _, ok := b.Instrs[len(b.Instrs)-1].(*ssa.Return); ok {
				exits[b] = true
			}
		}
	}
	r := ec.region(f.Blocks[0], 0, exits, nil)
	ec.memo[f] = &r
	return r
}

// region computes the [min,max] count over all paths that start at
// instruction index startIdx of block start and end at the END of a block
// in `ends` (or at the start of block `stopAt` if non-nil), ignoring
// paths that end in panic. Inner loops whose blocks contain events make
// max unbounded; inner loops are otherwise traversed once (back edges cut).
func (ec *eventCounter) region(start *ssa.BasicBlock, startIdx int, ends map[*ssa.BasicBlock]bool, stopAt *ssa.BasicBlock) countRange {
	f := start.Parent()
	loops := loopsOf(f)
	type res struct {
		r  countRange
		ok bool // some path from here reaches an end
	}
	memo := map[*ssa.BasicBlock]*res{}
	onstack := map[*ssa.BasicBlock]bool{}
	first := true
	var walk func(b *ssa.BasicBlock, from int) res
	walk = func(b *ssa.BasicBlock, from int) res {
		isFirst := first
		first = false
		if from == 0 {
			if b == stopAt && !isFirst {
				return res{countRange{0, 0}, true}
			}
			if m, ok := memo[b]; ok && !isFirst {
				return *m
			}
			if onstack[b] {
				return res{} // back edge: cut
			}
			if !(isFirst && b == stopAt) {
				onstack[b] = true
				defer delete(onstack, b)
			}
		}
		own := countRange{}
		if from == 0 {
			if cr, ok := ec.credit[b]; ok {
				own = cr
			}
		}
		for _, in := range b.Instrs[from:] {
			r := ec.instr(in)
			own.Min += r.Min
			own.Max += r.Max
		}
		// an inner loop (other than one containing start) that holds events: unbounded
		if own.Max > 0 {
			if l := innermostLoop(loops, b); l != nil && !l.Blocks[start] {
				own.Max = unbounded
			} else if l != nil && l.Blocks[start] {
				// b is in the same loop as start: fine unless in a deeper loop
				for _, l2 := range loops {
					if l2.Blocks[b] && !l2.Blocks[start] {
						own.Max = unbounded
					}
				}
			}
		}
		var out res
		if endsInPanic(b) {
			out = res{}
		} else if ends[b] {
			out = res{own, true}
		} else {
			first := true
			for _, s := range b.Succs {
				sr := walk(s, 0)
				if !sr.ok {
					continue
				}
				t := countRange{own.Min + sr.r.Min, own.Max + sr.r.Max}
				if first {
					out = res{t, true}
					first = false
				} else {
					if t.Min < out.r.Min {
						out.r.Min = t.Min
					}
					if t.Max > out.r.Max {
						out.r.Max = t.Max
					}
				}
			}
		}
		if out.r.Max >= unbounded {
			out.r.Max = unbounded
		}
		if from == 0 && !isFirst {
			memo[b] = &out
		}
		return out
	}
	r := walk(start, startIdx)
	if !r.ok {
		return countRange{0, 0}
	}
	return r.r
}

// perIteration computes the event range over one iteration of loop l:
// all paths from the loop head back to the head (through a back edge).
func (ec *eventCounter) perIteration(l *loop) countRange {
	// all paths from the loop head back to the loop head; paths that leave
	// the loop never come back and are dropped by region()
	return ec.region(l.Head, 0, nil, l.Head)
}

// ---------- guards ----------

// guardedBy reports whether block b is only reached when `pred(cond,truth)`
// holds for one of the dominating branch facts.
func guardedBy(b *ssa.BasicBlock, pred func(cond ssa.Value, truth bool) bool) bool {
	for _, f := range factsAt(b) {
		cond, truth := normCond(f.Cond, f.Truth)
		if pred(cond, truth) {
			return true
		}
	}
	return false
}

// isCmp matches a BinOp comparison and returns operands.
func isCmp(v ssa.Value, ops ...token.Token) (*ssa.BinOp, bool) {
	b, ok := v.(*ssa.BinOp)
	if !ok {
		return nil, false
	}
	for _, op := range ops {
		if b.Op == op {
			return b, true
		}
	}
	return nil, false
}

// errNilFact: does fact (cond,truth) say that value e (an error) is nil / non-nil?
// returns (matches, isNil).
func errNilFact(cond ssa.Value, truth bool, e ssa.Value) (bool, bool) {
	b, ok := isCmp(cond, token.EQL, token.NEQ)
	if !ok {
		return false, false
	}
	var other ssa.Value
	if b.X == e {
		other = b.Y
	} else if b.Y == e {
		other = b.X
	} else {
		return false, false
	}
	if !isNilConst(other) {
		return false, false
	}
	isNil := (b.Op == token.EQL) == truth
	return true, isNil
}

// returnsOf lists the Return instructions of f.
func returnsOf(f *ssa.Function) []*ssa.Return {
	var out []*ssa.Return
	for _, b := range f.Blocks {
		if len(b.Instrs) == 0 || b == f.Recover {
			continue
		}
		if r, ok := b.Instrs[len(b.Instrs)-1].(*ssa.Return); ok {
			out = append(out, r)
		}
	}
	return out
}

// resultValues resolves the i-th result of a Return, looking through the
// defer spill (`*r = v; rundefers; t = *r; return t`): it returns every
// value that may be returned.
func (c *Ctx) resultValues(ret *ssa.Return, i int) []ssa.Value {
	v := ret.Results[i]
	if u, ok := v.(*ssa.UnOp); ok && u.Op == token.MUL {
		if al, ok := u.X.(*ssa.Alloc); ok {
			// result cell of a function with defers: the value returned is
			// the last store to the cell before the load, in the same block
			var last ssa.Value
			for _, in := range ret.Block().Instrs {
				if in == ssa.Instruction(u) {
					break
				}
				if st, ok := in.(*ssa.Store); ok && st.Addr == ssa.Value(al) {
					last = st.Val
				}
			}
			if last != nil {
				if phi, ok := last.(*ssa.Phi); ok {
					v = phi
				} else {
					return []ssa.Value{last}
				}
			} else {
				var out []ssa.Value
				for _, s := range c.cellStores(al) {
					out = append(out, s.Val)
				}
				if len(out) > 0 {
					return out
				}
			}
		}
	}
	if phi, ok := v.(*ssa.Phi); ok {
		var out []ssa.Value
		seen := map[ssa.Value]bool{}
		var walk func(p *ssa.Phi)
		walk = func(p *ssa.Phi) {
			if seen[p] {
				return
			}
			seen[p] = true
			for _, e := range p.Edges {
				if q, ok := e.(*ssa.Phi); ok {
					walk(q)
				} else {
					out = append(out, e)
				}
			}
		}
		walk(phi)
		return out
	}
	return []ssa.Value{v}
}
