// sizercheck decides structural necessary conditions of the git-sizer
// properties C01..C19 from /repo's current source. It never runs git-sizer,
// its tests, or git: every verdict comes from the type-checked syntax, the SSA
// form and the call graph of the working tree (see /verif/DESIGN.md).
package main

import (
	"flag"
	"fmt"
	"os"
	"path/filepath"
	"runtime/debug"
	"sort"
	"strconv"
	"strings"
	"time"
)

// propRules maps a property id to the rule functions that decide it.
var propRules = map[string][]func(*Ctx){}

// propExplain is the coverage.explanation text of a property's evidence.
var propExplain = map[string]string{}

// propAssume lists what a property's check trusts.
var propAssume = map[string][]string{}

func register(prop, explain string, assume []string, rules ...func(*Ctx)) {
	propRules[prop] = append(propRules[prop], rules...)
	if explain != "" {
		propExplain[prop] = explain
	}
	propAssume[prop] = append(propAssume[prop], assume...)
}

func main() {
	prop := flag.String("prop", "", "property id (C01..C19) or 'all'")
	tier := flag.String("tier", "", "quick|thorough (default: $VERIF_TIER or quick)")
	repo := flag.String("repo", "/repo", "path of the git-sizer working tree to analyse")
	verif := flag.String("verif", "", "path of /verif (default: directory above the binary, else /verif)")
	explain := flag.String("explain", "", "print a stored report file and exit")
	noEvidence := flag.Bool("no-evidence", false, "do not rewrite evidence/<id>.json (used by the variant self-tests)")
	list := flag.Bool("list", false, "list the properties that have rules")
	dump := flag.String("dump", "", "debug: dump an engine's extraction (spawn|effects|errors|bounds|gor)")
	flag.Parse()

	if *explain != "" {
		b, err := os.ReadFile(*explain)
		if err != nil {
			fmt.Println("CHECK-ERROR cannot read report:", err)
			os.Exit(2)
		}
		os.Stdout.Write(b)
		return
	}
	if *list {
		var ids []string
		for id := range propRules {
			ids = append(ids, id)
		}
		sort.Strings(ids)
		fmt.Println(strings.Join(ids, " "))
		return
	}
	if *tier == "" {
		*tier = os.Getenv("VERIF_TIER")
	}
	if *tier != "thorough" {
		*tier = "quick"
	}
	if *verif == "" {
		if exe, err := os.Executable(); err == nil {
			d := filepath.Dir(filepath.Dir(exe))
			if _, err := os.Stat(filepath.Join(d, "properties.jsonl")); err == nil {
				*verif = d
			}
		}
		if *verif == "" {
			*verif = "/verif"
		}
	}
	seed := 0
	if s := os.Getenv("VERIF_SEED"); s != "" {
		if n, err := strconv.Atoi(s); err == nil {
			seed = n
		}
	}
	if *dump != "" {
		ctx := newCtx("dump", *tier, *repo, *verif, seed)
		ctx.NoEvidence = true
		cfgs := []buildConfig{hostConfig()}
		if *dump == "funcs" || *dump == "types" {
			cfgs = append(cfgs, thoroughConfigs()...)
		}
		for _, bc := range cfgs {
			if err := ctx.load(bc); err != nil {
				fmt.Println("CHECK-ERROR", err)
				os.Exit(2)
			}
			runDump(ctx, *dump)
		}
		return
	}
	rules, ok := propRules[*prop]
	if !ok {
		fmt.Printf("CHECK-ERROR unknown property %q\n", *prop)
		os.Exit(2)
	}
	os.Exit(runProperty(*prop, *tier, *repo, *verif, seed, *noEvidence, rules))
}

func runProperty(prop, tier, repo, verif string, seed int, noEvidence bool, rules []func(*Ctx)) (code int) {
	start := time.Now()
	ctx := newCtx(prop, tier, repo, verif, seed)
	ctx.NoEvidence = noEvidence
	defer func() {
		if r := recover(); r != nil {
			fmt.Printf("CHECK-ERROR property=%s internal failure: %v\n%s\n", prop, r, debug.Stack())
			ctx.CheckErrors = append(ctx.CheckErrors, fmt.Sprint("panic: ", r))
			ctx.writeEvidence(time.Since(start))
			code = 2
		}
	}()
	configs := []buildConfig{hostConfig()}
	if tier == "thorough" {
		configs = append(configs, thoroughConfigs()...)
	}
	for i, bc := range configs {
		if err := ctx.load(bc); err != nil {
			fmt.Printf("CHECK-ERROR property=%s config=%s: %v\n", prop, bc.Name, err)
			ctx.CheckErrors = append(ctx.CheckErrors, err.Error())
			ctx.writeEvidence(time.Since(start))
			return 2
		}
		ctx.Primary = i == 0
		for _, r := range rules {
			r(ctx)
		}
		ctx.release()
	}
	if tier == "thorough" {
		runVariants(ctx)
	}
	code = ctx.finish(time.Since(start))
	return code
}
