package main

import (
	"go/token"
	"sort"

	"golang.org/x/tools/go/ssa"
)

// Shared structural model of the scanner (the function that drives
// (*git.ObjectIter).Next): the header loop, the per-kind lists, and the
// loops that request and read back each list. Everything is found from
// exported API anchors; nothing is matched by local identifier.

type listInfo struct {
	Cell       *ssa.Alloc      // the variable's cell, if it has one
	Var        interface{}     // identity of the list variable (listvar.go)
	Literal    string          // object-type literal under which the list is appended
	Append     ssa.Instruction // the store of the append result (cell) or the append call (register)
	FeedLoops  []*scanLoop     // loops over the list that call RequestObject
	ReadLoops  []*scanLoop     // loops over the list that call BatchObjectIter.Next
	OtherLoops []*scanLoop
}

type scanLoop struct {
	Fn         *ssa.Function
	L          *loop
	Cell       *ssa.Alloc
	Var        interface{}    // identity of the slice variable whose length bounds the loop
	Param      *ssa.Parameter // the slice is a parameter used directly
	Descending bool
	// Mirror: the loop counter runs upwards but the elements are indexed with
	// len-1-counter (so they are visited last to first)
	Mirror   bool
	IndexPhi *ssa.Phi
	// IndexExpr: for descending loops the values used as element index
	// are IndexPhi-1 (loop from len) or IndexPhi (loop from len-1).
	FromLen bool
}

type scanInfo struct {
	Fn         *ssa.Function
	HeaderLoop *loop
	NextCall   *ssa.Call
	Lists      []*listInfo
	BlobCalls  []*ssa.Call
	Problems   []string
}

// Desc: the elements are visited from the last to the first.
func (l *scanLoop) Desc() bool { return l.Descending != l.Mirror }

func (c *Ctx) qFn(pkgSuffix, recv, name string) *ssa.Function { return c.fn(pkgSuffix, recv, name) }

// callsTo lists the call instructions in f (not descending) to callee.
func callsTo(f *ssa.Function, callee *ssa.Function) []*ssa.Call {
	var out []*ssa.Call
	if callee == nil {
		return nil
	}
	allInstrs(f, func(in ssa.Instruction) {
		if call, ok := in.(*ssa.Call); ok && call.Call.StaticCallee() == callee {
			out = append(out, call)
		}
	})
	return out
}

// loopOver recognises a loop whose trip count is the length of a slice
// variable: ascending (range / for i:=0;i<len) or descending.
func (c *Ctx) loopOver(f *ssa.Function, l *loop) *scanLoop {
	head := l.Head
	iff, ok := head.Instrs[len(head.Instrs)-1].(*ssa.If)
	if !ok {
		return nil
	}
	cmp, ok := iff.Cond.(*ssa.BinOp)
	if !ok {
		return nil
	}
	var lenParam *ssa.Parameter
	var lenVar interface{}
	lenCell := func(v ssa.Value) *ssa.Alloc {
		call, ok := c.resolve(v).(*ssa.Call) // the length may be cached in a (captured) local
		if !ok || !isBuiltin(&call.Call, "len") {
			return nil
		}
		lenVar = c.listID(call.Call.Args[0])
		if p, ok := call.Call.Args[0].(*ssa.Parameter); ok {
			lenParam = p
			return nil
		}
		u, ok := call.Call.Args[0].(*ssa.UnOp)
		if !ok || u.Op != token.MUL {
			return nil
		}
		return c.cellOf(u.X)
	}
	phiInit := func(p *ssa.Phi) ssa.Value {
		for i, pred := range head.Preds {
			if !l.Blocks[pred] {
				return p.Edges[i]
			}
		}
		return nil
	}
	switch cmp.Op {
	case token.LSS:
		// idx < len(cell), idx = phi+1 (rotated range) or phi
		cell := lenCell(cmp.Y)
		if cell == nil && lenParam == nil && lenVar == nil {
			return nil
		}
		var phi *ssa.Phi
		if bo, ok := cmp.X.(*ssa.BinOp); ok && bo.Op == token.ADD {
			phi, _ = bo.X.(*ssa.Phi)
		} else {
			phi, _ = cmp.X.(*ssa.Phi)
		}
		if phi == nil || phi.Block() != head {
			return nil
		}
		return &scanLoop{Fn: f, L: l, Cell: cell, Var: lenVar, Param: lenParam, IndexPhi: phi}
	case token.GTR, token.GEQ, token.NEQ:
		phi, ok := cmp.X.(*ssa.Phi)
		if !ok || phi.Block() != head {
			return nil
		}
		if n, ok := constInt(cmp.Y); !ok || n != 0 {
			return nil
		}
		init := phiInit(phi)
		if init == nil {
			return nil
		}
		init = c.resolve(init)
		fromLen := true
		if bo, ok := init.(*ssa.BinOp); ok && bo.Op == token.SUB {
			if n, ok := constInt(bo.Y); ok && n == 1 {
				init, fromLen = bo.X, false
			}
		}
		cell := lenCell(init)
		if cell == nil && lenVar == nil {
			return nil
		}
		if (cmp.Op == token.GTR || cmp.Op == token.NEQ) != fromLen {
			return nil // i>0 (or i!=0) goes with i:=len ; i>=0 with i:=len-1
		}
		// all back-edge values must be phi-1
		for i, pred := range head.Preds {
			if l.Blocks[pred] {
				bo, ok := phi.Edges[i].(*ssa.BinOp)
				if !ok || bo.Op != token.SUB || bo.X != ssa.Value(phi) {
					return nil
				}
				if n, ok := constInt(bo.Y); !ok || n != 1 {
					return nil
				}
			}
		}
		return &scanLoop{Fn: f, L: l, Cell: cell, Var: lenVar, Param: lenParam, Descending: true, IndexPhi: phi, FromLen: fromLen}
	}
	return nil
}

func (c *Ctx) scanModel() *scanInfo {
	if v, ok := c.memo["scan"]; ok {
		return v.(*scanInfo)
	}
	si := &scanInfo{}
	c.memo["scan"] = si
	next := c.fn("/git", "*ObjectIter", "Next")
	if next == nil {
		si.Problems = append(si.Problems, "(*git.ObjectIter).Next not found")
		return si
	}
	for _, ci := range c.Callers[next] {
		if call, ok := ci.(*ssa.Call); ok {
			if si.NextCall != nil {
				si.Problems = append(si.Problems, "more than one call to (*git.ObjectIter).Next")
			}
			si.NextCall = call
			si.Fn = call.Parent()
		}
	}
	if si.Fn == nil {
		si.Problems = append(si.Problems, "no caller of (*git.ObjectIter).Next")
		return si
	}
	loops := loopsOf(si.Fn)
	si.HeaderLoop = innermostLoop(loops, si.NextCall.Block())
	if si.HeaderLoop == nil {
		si.Problems = append(si.Problems, "(*git.ObjectIter).Next is not called in a loop")
		return si
	}
	// list cells: slice-typed cells appended to inside the header loop
	registerBlob := c.fn("/sizes", "*Graph", "RegisterBlob")
	for b := range si.HeaderLoop.Blocks {
		for _, in := range b.Instrs {
			switch x := in.(type) {
			case *ssa.Call:
				if registerBlob != nil && x.Call.StaticCallee() == registerBlob {
					si.BlobCalls = append(si.BlobCalls, x)
				}
			}
		}
	}
	for b := range si.HeaderLoop.Blocks {
		for _, in := range b.Instrs {
			call, ok := in.(*ssa.Call)
			if !ok || !isBuiltin(&call.Call, "append") || !isSliceType(call.Type()) {
				continue
			}
			id := c.listID(call.Call.Args[0])
			if id == nil {
				continue
			}
			li := &listInfo{Var: id, Append: call, Literal: c.typeLiteralAt(call.Block(), si.NextCall)}
			if cell, ok := id.(*ssa.Alloc); ok {
				// the result must be stored back into the same variable
				var st *ssa.Store
				for _, r := range *call.Referrers() {
					if s, ok := r.(*ssa.Store); ok && c.cellOf(s.Addr) == cell {
						st = s
					}
				}
				if st == nil {
					continue
				}
				li.Cell, li.Append = cell, st
			} else if fc, ok := id.(fieldCell); ok {
				// the result must be stored back into the same field
				var st *ssa.Store
				for _, r := range *call.Referrers() {
					if s, ok := r.(*ssa.Store); ok {
						if fa, ok := s.Addr.(*ssa.FieldAddr); ok && fa.X == ssa.Value(fc.Alloc) && fa.Field == fc.Field {
							st = s
						}
					}
				}
				if st == nil {
					continue
				}
				li.Append = st
			} else if c.listID(call) != id {
				continue
			}
			si.Lists = append(si.Lists, li)
		}
	}
	sort.Slice(si.Lists, func(i, j int) bool { return si.Lists[i].Append.Pos() < si.Lists[j].Append.Pos() })
	// loops over each list, in the scan function and in its closures
	requestObject := c.fn("/git", "*BatchObjectIter", "RequestObject")
	batchNext := c.fn("/git", "*BatchObjectIter", "Next")
	// the scan function, its closures, and the module functions it starts or calls
	var fns []*ssa.Function
	seenFn := map[*ssa.Function]bool{}
	var addFn func(f *ssa.Function, depth int)
	addFn = func(f *ssa.Function, depth int) {
		if f == nil || seenFn[f] || depth > 3 || len(f.Blocks) == 0 || !c.inRuleScope(f) {
			return
		}
		seenFn[f] = true
		fns = append(fns, f)
		for _, af := range f.AnonFuncs {
			addFn(af, depth)
		}
		allInstrs(f, func(in ssa.Instruction) {
			if ci, ok := in.(ssa.CallInstruction); ok {
				if cal := ci.Common().StaticCallee(); cal != nil && cal.Parent() == nil && !knownFuncs[refQ(cal)] {
					addFn(cal, depth+1)
				}
			}
		})
	}
	addFn(si.Fn, 0)
	for _, f := range fns {
		for _, l := range loopsOf(f) {
			sl := c.loopOver(f, l)
			if sl == nil {
				continue
			}
			for _, li := range si.Lists {
				if sl.Var == nil || li.Var != sl.Var {
					continue
				}
				hasReq, hasNext := false, false
				for b := range l.Blocks {
					for _, in := range b.Instrs {
						if call, ok := in.(*ssa.Call); ok {
							if cal := call.Call.StaticCallee(); cal != nil {
								if cal == requestObject {
									hasReq = true
								}
								if cal == batchNext {
									hasNext = true
								}
							}
						}
					}
				}
				c.detectMirror(sl)
				switch {
				case hasReq:
					li.FeedLoops = append(li.FeedLoops, sl)
				case hasNext:
					li.ReadLoops = append(li.ReadLoops, sl)
				default:
					li.OtherLoops = append(li.OtherLoops, sl)
				}
			}
		}
	}
	return si
}

// typeLiteralAt returns the object-type literal whose equality with the
// header's type field is known true at block b ("" if none): the fact
// `hdr.ObjectType == "lit"` where hdr derives from the Next call.
func (c *Ctx) typeLiteralAt(b *ssa.BasicBlock, next *ssa.Call) string {
	for _, f := range factsAt(b) {
		cond, truth := normCond(f.Cond, f.Truth)
		cmp, ok := isCmp(cond, token.EQL, token.NEQ)
		if !ok {
			continue
		}
		if (cmp.Op == token.EQL) != truth {
			continue
		}
		lit, ok := constStr(cmp.Y)
		val := cmp.X
		if !ok {
			lit, ok = constStr(cmp.X)
			val = cmp.Y
		}
		if !ok {
			continue
		}
		if c.isFieldOfResult(val, next, "ObjectType") {
			return lit
		}
	}
	return ""
}

// isFieldOfResult: v is a load of field `field` (possibly through embedded
// structs) of a local that holds result #0 of call.
func (c *Ctx) isFieldOfResult(v ssa.Value, call *ssa.Call, field string) bool {
	base, path := c.fieldPath(v)
	if base == nil || len(path) == 0 || path[len(path)-1] != field {
		return false
	}
	return c.holdsResult(base, call, 0)
}

// fieldPath decomposes a load `*(&(&x.A).B)` or value `x.A.B` into the base
// address/value x and the field names.
func (c *Ctx) fieldPath(v ssa.Value) (ssa.Value, []string) {
	var path []string
	switch x := v.(type) {
	case *ssa.UnOp:
		if x.Op != token.MUL {
			return nil, nil
		}
		cur := x.X
		for {
			fa, ok := cur.(*ssa.FieldAddr)
			if !ok {
				break
			}
			path = append([]string{vname(fieldOfAddr(fa).Var)}, path...)
			cur = fa.X
		}
		if len(path) == 0 {
			return nil, nil
		}
		return cur, path
	case *ssa.Field:
		var cur ssa.Value = x
		for {
			f, ok := cur.(*ssa.Field)
			if !ok {
				break
			}
			path = append([]string{vname(fieldOfVal(f).Var)}, path...)
			cur = f.X
		}
		return cur, path
	}
	return nil, nil
}

// holdsResult: base is a local whose only store is Extract(call, idx), or
// is that Extract itself.
func (c *Ctx) holdsResult(base ssa.Value, call *ssa.Call, idx int) bool {
	isEx := func(v ssa.Value) bool {
		ex, ok := v.(*ssa.Extract)
		return ok && ex.Tuple == ssa.Value(call) && ex.Index == idx
	}
	if isEx(base) {
		return true
	}
	if al, ok := base.(*ssa.Alloc); ok {
		st := c.cellStores(al)
		return len(st) == 1 && isEx(st[0].Val)
	}
	if u, ok := base.(*ssa.UnOp); ok && u.Op == token.MUL {
		return c.holdsResult(u.X, call, idx)
	}
	return false
}

// mirrorIndex: idx = (N - 1) - counter, with N the length of the loop's list
// and counter the loop's ascending counter.
func (c *Ctx) mirrorIndex(idx ssa.Value, l *scanLoop) bool {
	if l.Descending || l.IndexPhi == nil {
		return false
	}
	outer, ok := c.resolve(idx).(*ssa.BinOp)
	if !ok || outer.Op != token.SUB {
		return false
	}
	isCounter := func(v ssa.Value) bool {
		if v == ssa.Value(l.IndexPhi) {
			return true
		}
		if bo, ok := v.(*ssa.BinOp); ok && bo.Op == token.ADD && bo.X == ssa.Value(l.IndexPhi) {
			n, ok := constInt(bo.Y)
			return ok && n == 1
		}
		return false
	}
	isLen := func(v ssa.Value) bool {
		call, ok := c.resolve(v).(*ssa.Call)
		if !ok || !isBuiltin(&call.Call, "len") {
			return false
		}
		id := c.listID(call.Call.Args[0])
		return id != nil && id == l.Var
	}
	// (N - 1) - k
	if inner, ok := c.resolve(outer.X).(*ssa.BinOp); ok && inner.Op == token.SUB && isCounter(outer.Y) {
		if one, ok := constInt(inner.Y); ok && one == 1 && isLen(inner.X) {
			return true
		}
	}
	// (N - k) - 1
	if one, ok := constInt(outer.Y); ok && one == 1 {
		if inner, ok := c.resolve(outer.X).(*ssa.BinOp); ok && inner.Op == token.SUB && isLen(inner.X) && isCounter(inner.Y) {
			return true
		}
	}
	return false
}

func (c *Ctx) detectMirror(l *scanLoop) {
	for b := range l.L.Blocks {
		for _, in := range b.Instrs {
			if ia, ok := in.(*ssa.IndexAddr); ok {
				if id := c.listID(ia.X); id != nil && id == l.Var && c.mirrorIndex(ia.Index, l) {
					l.Mirror = true
				}
			}
		}
	}
}

// lockstep: two phis of the same loop header that start a constant apart and
// are stepped by the same constant on every back edge (`for remaining, i :=
// len(xs), len(xs)-1; remaining > 0; remaining, i = remaining-1, i-1`):
// returns d with p == q + d throughout the loop.
func lockstep(p, q *ssa.Phi, same func(a, b ssa.Value) bool) (int64, bool) {
	if p.Block() != q.Block() || len(p.Edges) != len(q.Edges) {
		return 0, false
	}
	split := func(v ssa.Value) (ssa.Value, int64) {
		var k int64
		for i := 0; i < 4; i++ {
			bo, ok := v.(*ssa.BinOp)
			if !ok || (bo.Op != token.ADD && bo.Op != token.SUB) {
				break
			}
			n, isK := constInt(bo.Y)
			if !isK {
				break
			}
			if bo.Op == token.SUB {
				n = -n
			}
			k += n
			v = bo.X
		}
		return v, k
	}
	head := p.Block()
	var delta int64
	haveInit := false
	for k, pred := range head.Preds {
		bp, kp := split(p.Edges[k])
		bq, kq := split(q.Edges[k])
		if head.Dominates(pred) {
			// back edge: each steps itself by the same amount
			if bp != ssa.Value(p) || bq != ssa.Value(q) || kp != kq || kp == 0 {
				return 0, false
			}
			continue
		}
		if cp, okp := constInt(bp); okp {
			if cq, okq := constInt(bq); okq {
				bp, bq, kp, kq = nil, nil, kp+cp, kq+cq
			}
		}
		if bp != bq && (bp == nil || bq == nil || !same(bp, bq)) {
			return 0, false
		}
		d := kp - kq
		if haveInit && d != delta {
			return 0, false
		}
		delta, haveInit = d, true
	}
	return delta, haveInit
}
