package main

import (
	"go/token"
	"go/types"
	"strings"

	"golang.org/x/tools/go/ssa"
)

// Clauses added after the fourteenth round of seeded changes.

func init() {
	register("C01", "", nil, ruleC01Borrowed5, ruleC01InvertedCombiner)
	register("C06", "", nil, ruleC06InvertedCombiner)
	register("C02", "", nil, ruleC02StageErrors)
	register("C10", "", nil, ruleC10StageErrors, ruleC10Borrowed4)
	register("C04", "", nil, ruleC04Borrowed4)
	register("C11", "", nil, ruleC11BeforeUse)
	register("C15", "", nil, ruleC15EmptySymbol)
	register("C16", "", nil, ruleC16TagTypeTotal)
	register("C17", "", nil, ruleC17SharedStreams)
	register("C19", "", nil, ruleC19SplitKeyVerbatim)
}

// ruleC01Borrowed5: a census is reported at all only if parents are listed
// after their children: rev-list is asked for an order (C03.order-flag).
func ruleC01Borrowed5(c *Ctx) {
	c.RuleAlias = map[string]string{"C03.order-flag": "C01.argv"}
	defer func() { c.RuleAlias = nil }()
	ruleC03OrderFlag(c)
}

// invertedCombiner: `--tags=false` is `--no-tags`: the combiner that Set
// inverts for a false value is the one the filter is combined with.
func invertedCombiner(c *Ctx, rule string) {
	fvT := c.namedType("/internal/refopts", "filterValue")
	if fvT == nil {
		return
	}
	set := c.methodOf(types.NewPointer(fvT), "Set")
	if set == nil {
		return
	}
	var inverted []*ssa.Call
	var combine *ssa.Call
	allInstrs(set, func(in ssa.Instruction) {
		call, ok := in.(*ssa.Call)
		if !ok {
			return
		}
		name := ""
		if call.Call.IsInvoke() {
			name = mname(call.Call.Method)
		} else if cal := call.Call.StaticCallee(); cal != nil {
			name = refName(cal)
		}
		switch name {
		case "Inverted":
			inverted = append(inverted, call)
		case "Combine":
			combine = call
		}
	})
	if len(inverted) == 0 || combine == nil {
		return
	}
	recv := combine.Call.Value
	if !combine.Call.IsInvoke() && len(combine.Call.Args) > 0 {
		recv = combine.Call.Args[0]
	}
	reaches := func(from ssa.Value) bool {
		seen := map[ssa.Value]bool{}
		var walk func(v ssa.Value, depth int) bool
		walk = func(v ssa.Value, depth int) bool {
			if v == recv {
				return true
			}
			if seen[v] || depth > 8 || v.Referrers() == nil {
				return false
			}
			seen[v] = true
			for _, r := range *v.Referrers() {
				switch x := r.(type) {
				case *ssa.Phi, *ssa.MakeInterface, *ssa.ChangeInterface, *ssa.ChangeType:
					if walk(x.(ssa.Value), depth+1) {
						return true
					}
				case *ssa.Store:
					if x.Val == v {
						if cell := c.cellOf(x.Addr); cell != nil {
							for _, rr := range *cell.Referrers() {
								if ld, ok := rr.(*ssa.UnOp); ok && ld.Op == token.MUL && walk(ld, depth+1) {
									return true
								}
							}
						}
					}
				}
			}
			return false
		}
		return walk(from, 0)
	}
	for _, inv := range inverted {
		if reaches(inv) {
			c.hold(rule, "inverted-combiner", inv.Pos(), "the combiner inverted for a false value is the one the filter is combined with")
		} else {
			c.violate(rule, "inverted-combiner", inv.Pos(), fnName(set), "the combiner is inverted for `--X=false` but the filter is combined with another one: `--tags=false` then selects the tags instead of excluding them")
		}
	}
}

func ruleC01InvertedCombiner(c *Ctx) { invertedCombiner(c, "C01.selection") }
func ruleC06InvertedCombiner(c *Ctx) { invertedCombiner(c, "C06.flags") }

// stageErrors: a git stage whose failure is ignored ends the listing early
// without anybody noticing: no pipeline stage is wrapped in an
// error-suppressing adapter.
func stageErrors(c *Ctx, rule string) {
	bad := 0
	for _, f := range c.ModFns {
		allInstrs(f, func(in ssa.Instruction) {
			call, ok := in.(*ssa.Call)
			if !ok {
				return
			}
			q := calleeQ(&call.Call)
			if strings.HasPrefix(q, "github.com/github/go-pipe/pipe.") && (strings.Contains(q, "Ignore") || strings.Contains(q, "FinishEarly")) {
				bad++
				c.violate(rule, "stage-errors@"+fnName(f), call.Pos(), fnName(f), "a pipeline stage is wrapped in "+q+": a git command that fails (a corrupt object, a killed process) is taken for one that finished, and what it did not list is silently missing")
			}
		})
	}
	if bad == 0 {
		c.hold(rule, "stage-errors", token.NoPos, "no pipeline stage has its errors suppressed")
	}
}

func ruleC02StageErrors(c *Ctx) { stageErrors(c, "C02.complete") }
func ruleC10StageErrors(c *Ctx) { stageErrors(c, "C10.wait") }

// ruleC10Borrowed4: an invalid value is an error wherever it comes from: a
// configured value is parsed whatever it is (C14.families, value clause) and
// by the parser of the option (C14.constants, parser clauses).
func ruleC10Borrowed4(c *Ctx) {
	c.RuleAlias = map[string]string{"C14.families": "C10.errflow", "C14.constants": "C10.errflow"}
	c.KeyOnly = func(key string) bool {
		return strings.HasSuffix(key, ":value-unconditional") || key == "threshold-parser" || key == "names-parser"
	}
	defer func() { c.RuleAlias = nil; c.KeyOnly = nil }()
	ruleC14ConfigUnconditional(c)
	ruleC14Constants(c)
}

// ruleC04Borrowed4: the biggest-checkout rows show their own measurements
// (C11.bijection) over the trees of the selected references (C06.default).
func ruleC04Borrowed4(c *Ctx) {
	c.RuleAlias = map[string]string{"C11.bijection": "C04.maxima", "C06.default": "C04.roots"}
	c.KeyOnly = func(key string) bool {
		return strings.HasPrefix(key, "field:") || strings.Contains(key, "NoReferencesFilter")
	}
	defer func() { c.RuleAlias = nil; c.KeyOnly = nil }()
	ruleC11Bijection(c)
	ruleC06Default(c)
}

// ruleC11BeforeUse: the three formats are produced with the same name style:
// a configured style is in place before the scan uses it (C14.families,
// before-use clause).
func ruleC11BeforeUse(c *Ctx) {
	c.RuleAlias = map[string]string{"C14.families": "C11.same-value"}
	c.KeyOnly = func(key string) bool { return strings.HasSuffix(key, ":before-use") }
	defer func() { c.RuleAlias = nil; c.KeyOnly = nil }()
	ruleC14ConfigBeforeUse(c)
}

// ruleC15EmptySymbol: a key directly in section `refgroup` (no subsection)
// defines no group: the discovery loop skips an empty symbol, so that it
// never reaches the top-level group.
func ruleC15EmptySymbol(c *Ctx) {
	const rule = "C15.each-group"
	rd := c.fn("/internal/refopts", "*RefGroupBuilder", "readRefgroupsFromGitconfig")
	if rd == nil {
		return
	}
	found := false
	for _, f := range closuresOf(rd) {
		allInstrs(f, func(in ssa.Instruction) {
			cmp, ok := in.(*ssa.BinOp)
			if !ok || (cmp.Op != token.EQL && cmp.Op != token.NEQ) {
				return
			}
			for _, pair := range [][2]ssa.Value{{cmp.X, cmp.Y}, {cmp.Y, cmp.X}} {
				if s, isConst := constStr(pair[1]); isConst && s == "" && isNamed(pair[0].Type(), modPath+"/sizes", "RefGroupSymbol") && len(c.ifsOn(cmp)) > 0 {
					found = true
				}
			}
			// len(symbol) == 0
			if l, isLen := cmp.X.(*ssa.Call); isLen && isBuiltin(&l.Call, "len") && isNamed(l.Call.Args[0].Type(), modPath+"/sizes", "RefGroupSymbol") {
				if k, isK := constInt(cmp.Y); isK && k == 0 && len(c.ifsOn(cmp)) > 0 {
					found = true
				}
			}
		})
	}
	if found {
		c.hold(rule, "empty-symbol", rd.Pos(), "an entry without a subsection is skipped")
	} else {
		c.violate(rule, "empty-symbol", rd.Pos(), fnName(rd), "the discovery of configured groups does not test for an empty symbol: a key directly under `[refgroup]` reaches the top-level group and its value leaks into the filter of every run")
	}
}

// ruleC16TagTypeTotal: the parser returns what the tag says: no value of the
// `type` header is rejected (a tag may point at a tree).
func ruleC16TagTypeTotal(c *Ctx) {
	const rule = "C16.grammar"
	f := c.fn("/git", "", "ParseTag")
	hnext := c.fn("/git", "*ObjectHeaderIter", "Next")
	if f == nil {
		return
	}
	bad := 0
	for _, ret := range returnsOf(f) {
		isErr := false
		for i := range ret.Results {
			if isErrorType(f.Signature.Results().At(i).Type()) {
				for _, v := range c.resultValues(ret, i) {
					if !isNilConst(v) {
						isErr = true
					}
				}
			}
		}
		if !isErr {
			continue
		}
		lit, hcall := c.headerKeyLiteralAt(ret.Block(), hnext)
		if lit != "type" || hcall == nil {
			continue
		}
		for _, fct := range factsAt(ret.Block()) {
			cond, _ := normCond(fct.Cond, fct.Truth)
			cmp, ok := cond.(*ssa.BinOp)
			if !ok {
				continue
			}
			for _, op := range []ssa.Value{cmp.X, cmp.Y} {
				if ex, isEx := c.resolve(op).(*ssa.Extract); isEx && ex.Tuple == ssa.Value(hcall) && ex.Index == 1 {
					if _, isLit := constStr(cmp.X); isLit || func() bool { _, k := constStr(cmp.Y); return k }() {
						bad++
						c.violate(rule, "ParseTag:type:total", ret.Pos(), fnName(f), "a tag is rejected because of the value of its `type` header: tags of trees (or of any type the list forgot) cannot be parsed although git stores them")
					}
				}
			}
		}
	}
	if bad == 0 {
		c.hold(rule, "ParseTag:type:total", f.Pos(), "no value of the `type` header is rejected")
	}
}

// ruleC17SharedStreams: git children do not write into a stream shared with
// each other: GitCommand leaves Stdout/Stderr of the command alone (os/exec
// copies a non-file writer in a goroutine of its own, one per child).
func ruleC17SharedStreams(c *Ctx) {
	const rule = "C17.confinement"
	gc := c.fn("/git", "*Repository", "GitCommand")
	if gc == nil {
		return
	}
	bad := 0
	allInstrs(gc, func(in ssa.Instruction) {
		st, ok := in.(*ssa.Store)
		if !ok {
			return
		}
		fa, ok := st.Addr.(*ssa.FieldAddr)
		if !ok {
			return
		}
		fi := fieldOfAddr(fa)
		if fi.Struct == nil || fi.Struct.Obj().Pkg() == nil || fi.Struct.Obj().Pkg().Path() != "os/exec" {
			return
		}
		if n := fi.Var.Name(); n == "Stderr" || n == "Stdout" {
			bad++
			c.violate(rule, "shared-stream:"+n, st.Pos(), fnName(gc), "GitCommand gives every child the same "+n+" writer: the children of one pipeline run at the same time, and os/exec copies into a writer that is not a file from one goroutine per child — unsynchronised writes into shared state")
		}
	})
	if bad == 0 {
		c.hold(rule, "shared-stream", gc.Pos(), "GitCommand does not redirect the children's output streams")
	}
}

// ruleC19SplitKeyVerbatim: a group's name is the bytes of its subsection: the
// symbol and the field returned by splitKey are pieces of the key itself
// (no case mapping, no trimming).
func ruleC19SplitKeyVerbatim(c *Ctx) {
	const rule = "C19.config-names"
	f := c.fn("/internal/refopts", "", "splitKey")
	if f == nil || len(f.Params) != 1 {
		return
	}
	key := f.Params[0]
	// verdict: 1 a piece of the key, -1 rewritten, 0 not a form this clause reads
	var piece func(v ssa.Value, depth int) int
	piece = func(v ssa.Value, depth int) int {
		if depth > 6 {
			return 0
		}
		v = c.resolve(v)
		switch x := v.(type) {
		case *ssa.Parameter:
			if x == key {
				return 1
			}
			return 0
		case *ssa.Const:
			return 1
		case *ssa.Slice:
			return piece(x.X, depth+1)
		case *ssa.Convert:
			return piece(x.X, depth+1)
		case *ssa.ChangeType:
			return piece(x.X, depth+1)
		case *ssa.Phi:
			res := 1
			for _, e := range x.Edges {
				switch piece(e, depth+1) {
				case -1:
					return -1
				case 0:
					res = 0
				}
			}
			return res
		case *ssa.Call:
			q := calleeQ(&x.Call)
			for _, rw := range []string{"strings.ToLower", "strings.ToUpper", "strings.Title", "strings.ToTitle", "strings.TrimSpace", "strings.Trim", "strings.TrimLeft", "strings.TrimRight", "strings.Map", "strings.Replace", "strings.ReplaceAll", "strings.ToValidUTF8", "bytes.ToLower", "bytes.ToUpper"} {
				if q == rw {
					return -1
				}
			}
			return 0
		}
		return 0
	}
	bad, undecided := 0, 0
	for _, ret := range returnsOf(f) {
		for i := range ret.Results {
			for _, v := range c.resultValues(ret, i) {
				switch piece(v, 0) {
				case -1:
					bad++
					c.violate(rule, "splitKey:verbatim", ret.Pos(), fnName(f), "what splitKey returns is not a piece of the key as it stands (it is case-mapped or otherwise rewritten): the symbol then differs from the subsection git knows, and the group's own section is looked up under a name that does not exist")
				case 0:
					undecided++
				}
			}
		}
	}
	if bad == 0 && undecided > 0 {
		c.notDecided(rule, "splitKey:verbatim", f.Pos(), "the pieces of the key are not taken by slicing it")
		return
	}
	if bad == 0 {
		c.hold(rule, "splitKey:verbatim", f.Pos(), "symbol and field are slices of the key")
	}
}
