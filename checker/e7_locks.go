package main

import (
	"go/token"
	"go/types"
	"sort"
	"strings"

	"golang.org/x/tools/go/ssa"
)

// E7: must-hold locksets and goroutine entry points.

type lockID = *types.Var // the mutex field (class-level identity); nil for unknown

type lockState struct {
	held     map[lockID]bool
	deferred map[lockID]bool
}

type lockInfo struct {
	f       *ssa.Function
	in      map[*ssa.BasicBlock]map[lockID]bool
	at      map[ssa.Instruction]map[lockID]bool // lockset BEFORE the instruction
	defers  map[lockID]bool
	unknown bool
}

func lockOp(in ssa.Instruction) (op string, id lockID, ok bool) {
	var cc *ssa.CallCommon
	isDefer := false
	switch x := in.(type) {
	case *ssa.Call:
		cc = &x.Call
	case *ssa.Defer:
		cc = &x.Call
		isDefer = true
	default:
		return "", nil, false
	}
	q := calleeQ(cc)
	var name string
	switch q {
	case "(*sync.Mutex).Lock", "(*sync.RWMutex).Lock", "(*sync.RWMutex).RLock":
		name = "lock"
	case "(*sync.Mutex).Unlock", "(*sync.RWMutex).Unlock", "(*sync.RWMutex).RUnlock":
		name = "unlock"
	default:
		return "", nil, false
	}
	if isDefer {
		name = "defer-" + name
	}
	if fa, isFA := cc.Args[0].(*ssa.FieldAddr); isFA {
		return name, fieldOfAddr(fa).Var, true
	}
	return name, nil, true
}

func copySet(m map[lockID]bool) map[lockID]bool {
	out := map[lockID]bool{}
	for k, v := range m {
		if v {
			out[k] = true
		}
	}
	return out
}

func (c *Ctx) locksets(f *ssa.Function) *lockInfo {
	key := "locks:" + fnName(f)
	if v, ok := c.memo[key]; ok {
		return v.(*lockInfo)
	}
	li := &lockInfo{f: f, in: map[*ssa.BasicBlock]map[lockID]bool{}, at: map[ssa.Instruction]map[lockID]bool{}, defers: map[lockID]bool{}}
	c.memo[key] = li
	if len(f.Blocks) == 0 {
		return li
	}
	out := map[*ssa.BasicBlock]map[lockID]bool{}
	li.in[f.Blocks[0]] = map[lockID]bool{}
	changed := true
	for iter := 0; changed && iter < 50; iter++ {
		changed = false
		for _, b := range f.Blocks {
			if b == f.Recover {
				continue
			}
			var inSet map[lockID]bool
			if b == f.Blocks[0] {
				inSet = map[lockID]bool{}
			} else {
				first := true
				for _, p := range b.Preds {
					o, ok := out[p]
					if !ok {
						continue // unvisited: TOP
					}
					if first {
						inSet = copySet(o)
						first = false
					} else {
						for k := range inSet {
							if !o[k] {
								delete(inSet, k)
							}
						}
					}
				}
				if first {
					continue
				}
			}
			li.in[b] = inSet
			cur := copySet(inSet)
			for _, in := range b.Instrs {
				li.at[in] = copySet(cur)
				if op, id, ok := lockOp(in); ok {
					if id == nil {
						li.unknown = true
					}
					switch op {
					case "lock":
						cur[id] = true
					case "unlock":
						delete(cur, id)
					case "defer-unlock":
						li.defers[id] = true
					}
				}
			}
			if prev, ok := out[b]; !ok || !sameSet(prev, cur) {
				out[b] = cur
				changed = true
			}
		}
	}
	return li
}

func sameSet(a, b map[lockID]bool) bool {
	if len(a) != len(b) {
		return false
	}
	for k := range a {
		if !b[k] {
			return false
		}
	}
	return true
}

func lockNames(m map[lockID]bool) string {
	var out []string
	for k := range m {
		if k == nil {
			out = append(out, "?")
		} else {
			out = append(out, k.Name())
		}
	}
	sort.Strings(out)
	return "{" + strings.Join(out, ",") + "}"
}

// goroutine entry points ---------------------------------------------------

type goEntry struct {
	Fn   *ssa.Function
	Kind string // "go" | "stage:<name>"
	Site ssa.Instruction
}

func (c *Ctx) goEntries() []*goEntry {
	var out []*goEntry
	for _, f := range c.ModFns {
		allInstrs(f, func(in ssa.Instruction) {
			g, ok := in.(*ssa.Go)
			if !ok {
				return
			}
			switch v := g.Call.Value.(type) {
			case *ssa.MakeClosure:
				out = append(out, &goEntry{Fn: v.Fn.(*ssa.Function), Kind: "go", Site: g})
			case *ssa.Function:
				out = append(out, &goEntry{Fn: v, Kind: "go", Site: g})
			default:
				out = append(out, &goEntry{Fn: nil, Kind: "go:dynamic", Site: g})
			}
		})
	}
	for _, p := range c.pipelines() {
		for _, st := range p.Stages {
			if st.Fn != nil {
				out = append(out, &goEntry{Fn: st.Fn, Kind: "stage:" + st.Name, Site: st.Call})
			}
		}
	}
	return out
}

// lock order ---------------------------------------------------------------

// mayAcquire: locks a function may take, transitively through static calls,
// closures it creates and (CHA) dynamic calls into the module.
func (c *Ctx) mayAcquire() map[*ssa.Function]map[lockID]bool {
	if v, ok := c.memo["mayacquire"]; ok {
		return v.(map[*ssa.Function]map[lockID]bool)
	}
	direct := map[*ssa.Function]map[lockID]bool{}
	calls := map[*ssa.Function][]*ssa.Function{}
	g := c.callGraph()
	for _, f := range c.ModFns {
		direct[f] = map[lockID]bool{}
		allInstrs(f, func(in ssa.Instruction) {
			if op, id, ok := lockOp(in); ok && op == "lock" {
				direct[f][id] = true
			}
		})
		if n := g.Nodes[f]; n != nil {
			for _, e := range n.Out {
				if e.Callee != nil && e.Callee.Func != nil && c.inRuleScope(e.Callee.Func) {
					calls[f] = append(calls[f], e.Callee.Func)
				}
			}
		}
	}
	changed := true
	for changed {
		changed = false
		for f, cs := range calls {
			for _, cal := range cs {
				for l := range direct[cal] {
					if !direct[f][l] {
						if direct[f] == nil {
							direct[f] = map[lockID]bool{}
						}
						direct[f][l] = true
						changed = true
					}
				}
			}
		}
	}
	c.memo["mayacquire"] = direct
	return direct
}

type lockEdge struct {
	From, To lockID
	Site     ssa.Instruction
	Via      string
}

func (c *Ctx) lockOrderEdges() []lockEdge {
	var out []lockEdge
	may := c.mayAcquire()
	g := c.callGraph()
	for _, f := range c.ModFns {
		li := c.locksets(f)
		allInstrs(f, func(in ssa.Instruction) {
			held := li.at[in]
			if len(held) == 0 {
				return
			}
			if op, id, ok := lockOp(in); ok && op == "lock" {
				for h := range held {
					out = append(out, lockEdge{h, id, in, "direct"})
				}
				return
			}
			call, ok := in.(*ssa.Call)
			if !ok {
				return
			}
			var callees []*ssa.Function
			if cal := call.Call.StaticCallee(); cal != nil {
				callees = append(callees, cal)
			} else if n := g.Nodes[f]; n != nil {
				for _, e := range n.Out {
					if e.Site == call && e.Callee != nil && e.Callee.Func != nil {
						callees = append(callees, e.Callee.Func)
					}
				}
			}
			for _, cal := range callees {
				for l := range may[cal] {
					for h := range held {
						out = append(out, lockEdge{h, l, in, fnName(cal)})
					}
				}
			}
		})
	}
	return out
}

// atomicOnly: every use of &x.f is as an argument of a sync/atomic function.
func atomicUse(fa *ssa.FieldAddr) bool {
	refs := fa.Referrers()
	if refs == nil || len(*refs) == 0 {
		return false
	}
	for _, r := range *refs {
		call, ok := r.(*ssa.Call)
		if !ok {
			if _, isDbg := r.(*ssa.DebugRef); isDbg {
				continue
			}
			return false
		}
		if q := calleeQ(&call.Call); !strings.HasPrefix(q, "sync/atomic.") && !strings.HasPrefix(q, "(*sync/atomic.") {
			return false
		}
	}
	return true
}

var _ = token.NoPos
