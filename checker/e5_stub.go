package main

func ruleC02Max(c *Ctx) {}
