package main

import (
	"go/token"
	"go/types"

	"golang.org/x/tools/go/ssa"
)

// Forwarding writers: a module struct with one io.Writer field whose Write
// method hands its argument to that field's Write and returns the result
// (`type stream struct{ w io.Writer }`). Writing to such a value is writing
// to the wrapped stream; writerOrigin looks through it.

func (c *Ctx) forwardingWriterField(t types.Type) (int, bool) {
	n := namedOf(t)
	if n == nil || n.Obj().Pkg() == nil || !isRulePkgPath(n.Obj().Pkg().Path()) {
		return 0, false
	}
	st, ok := n.Underlying().(*types.Struct)
	if !ok {
		return 0, false
	}
	key := "fwdwriter:" + n.String()
	if v, ok := c.memo[key]; ok {
		idx := v.(int)
		return idx, idx >= 0
	}
	c.memo[key] = -1
	field := -1
	for i := 0; i < st.NumFields(); i++ {
		if isNamed(st.Field(i).Type(), "io", "Writer") {
			if field >= 0 {
				return 0, false
			}
			field = i
		}
	}
	if field < 0 {
		return 0, false
	}
	var write *ssa.Function
	for _, rt := range []types.Type{n, types.NewPointer(n)} {
		if m := c.methodOf(rt, "Write"); m != nil && m.Synthetic == "" && len(m.Blocks) > 0 {
			write = m
		}
	}
	if write == nil || len(write.Params) != 2 {
		return 0, false
	}
	// every return returns the results of field.Write(p)
	okAll := true
	nRet := 0
	for _, ret := range returnsOf(write) {
		nRet++
		if len(ret.Results) != 2 {
			okAll = false
			continue
		}
		ex0, ok0 := ret.Results[0].(*ssa.Extract)
		ex1, ok1 := ret.Results[1].(*ssa.Extract)
		if !ok0 || !ok1 || ex0.Tuple != ex1.Tuple || ex0.Index != 0 || ex1.Index != 1 {
			okAll = false
			continue
		}
		call, ok := ex0.Tuple.(*ssa.Call)
		if !ok || !call.Call.IsInvoke() || mname(call.Call.Method) != "Write" || len(call.Call.Args) != 1 || call.Call.Args[0] != ssa.Value(write.Params[1]) {
			okAll = false
			continue
		}
		// receiver of the invoke is the field
		isField := false
		switch x := c.resolve(call.Call.Value).(type) {
		case *ssa.UnOp:
			if fa, ok := x.X.(*ssa.FieldAddr); ok && fa.Field == field {
				isField = true
			}
		case *ssa.Field:
			isField = x.Field == field
		}
		if !isField {
			okAll = false
		}
	}
	if !okAll || nRet == 0 {
		return 0, false
	}
	c.memo[key] = field
	return field, true
}

// writerOrigin strips interface conversions and forwarding wrappers.
func (c *Ctx) writerOrigin(v ssa.Value) ssa.Value {
	for depth := 0; depth < 6; depth++ {
		for i := 0; i < 4; i++ {
			switch x := v.(type) {
			case *ssa.MakeInterface:
				v = x.X
				continue
			case *ssa.ChangeInterface:
				v = x.X
				continue
			}
			break
		}
		v = c.resolve(v)
		if mi, ok := v.(*ssa.MakeInterface); ok {
			v = mi.X
			continue
		}
		var holder *ssa.Alloc
		switch x := v.(type) {
		case *ssa.UnOp:
			if x.Op == token.MUL {
				holder = c.cellOf(x.X)
			}
		case *ssa.Alloc:
			holder = x
		}
		if holder == nil {
			return v
		}
		et := holder.Type().Underlying().(*types.Pointer).Elem()
		field, ok := c.forwardingWriterField(et)
		if !ok {
			return v
		}
		var stored ssa.Value
		n := 0
		for _, r := range *holder.Referrers() {
			if fa, ok := r.(*ssa.FieldAddr); ok && fa.Field == field {
				for _, st := range storesTo(fa) {
					stored = st.Val
					n++
				}
			}
		}
		if n != 1 {
			return v
		}
		v = stored
	}
	return v
}

// writerMayBe: target is one of the writers v can stand for (a writer chosen
// by a condition is a phi, or a local assigned in several places).
func (c *Ctx) writerMayBe(v ssa.Value, target ssa.Value, depth int) bool {
	if depth > 6 {
		return false
	}
	o := c.writerOrigin(v)
	if o == target {
		return true
	}
	switch x := o.(type) {
	case *ssa.Phi:
		for _, e := range x.Edges {
			if c.writerMayBe(e, target, depth+1) {
				return true
			}
		}
	case *ssa.UnOp:
		if x.Op == token.MUL {
			if cell := c.cellOf(x.X); cell != nil {
				for _, st := range c.cellStores(cell) {
					if c.writerMayBe(st.Val, target, depth+1) {
						return true
					}
				}
			}
		}
	}
	return false
}
