package main

import (
	"go/constant"
	"go/token"
	"go/types"

	"golang.org/x/tools/go/ssa"
)

// Dead-branch elimination: a conditional whose outcome is the same on every
// execution is replaced by a jump, so that a defensive re-check of something
// already established ("cannot happen") leaves no trace in the control-flow
// graph the rules look at. Three sources decide a condition:
//   - the range of the operand's type (`u > math.MaxUint64`, `len(x) < 0`);
//   - a dominating test of the very same value (`switch b { case true: …
//     case false: … default: panic }`);
//   - the bounds engine (E8), for integer comparisons implied by dominating
//     comparisons and library post-conditions (see foldProved in e8_fold.go).

// boolConstOf: v is the constant true/false.
func boolConstOf(v ssa.Value) (bool, bool) {
	k, ok := v.(*ssa.Const)
	if !ok || k.Value == nil || k.Value.Kind() != constant.Bool {
		return false, false
	}
	return constant.BoolVal(k.Value), true
}

// intRange returns the inclusive range of values of v known from its type
// (or from it being a length).
func intRange(v ssa.Value) (lo, hi constant.Value, ok bool) {
	if call, isCall := v.(*ssa.Call); isCall && (isBuiltin(&call.Call, "len") || isBuiltin(&call.Call, "cap")) {
		return constant.MakeInt64(0), constant.MakeInt64(1<<63 - 1), true
	}
	b, isBasic := v.Type().Underlying().(*types.Basic)
	if !isBasic || b.Info()&types.IsInteger == 0 {
		return nil, nil, false
	}
	bits := map[types.BasicKind]uint{
		types.Int8: 8, types.Int16: 16, types.Int32: 32, types.Int64: 64, types.Int: 64,
		types.Uint8: 8, types.Uint16: 16, types.Uint32: 32, types.Uint64: 64, types.Uint: 64, types.Uintptr: 64,
	}[b.Kind()]
	if bits == 0 {
		return nil, nil, false
	}
	one := constant.MakeInt64(1)
	if b.Info()&types.IsUnsigned != 0 {
		return constant.MakeInt64(0), constant.BinaryOp(constant.Shift(one, token.SHL, bits), token.SUB, one), true
	}
	half := constant.Shift(one, token.SHL, bits-1)
	return constant.UnaryOp(token.SUB, half, 0), constant.BinaryOp(half, token.SUB, one), true
}

// rangeDecided: a comparison with a constant whose outcome follows from the
// range of the other operand's type.
func rangeDecided(e *ssa.BinOp) tri {
	k, ok := e.Y.(*ssa.Const)
	if !ok || k.Value == nil || k.Value.Kind() != constant.Int {
		return triUnknown
	}
	lo, hi, ok := intRange(e.X)
	if !ok {
		return triUnknown
	}
	kv := k.Value
	lt := func(a, b constant.Value) bool { return constant.Compare(a, token.LSS, b) }
	le := func(a, b constant.Value) bool { return constant.Compare(a, token.LEQ, b) }
	switch e.Op {
	case token.GTR: // x > k
		if le(hi, kv) {
			return triFalse
		}
		if lt(kv, lo) {
			return triTrue
		}
	case token.GEQ: // x >= k
		if lt(hi, kv) {
			return triFalse
		}
		if le(kv, lo) {
			return triTrue
		}
	case token.LSS: // x < k
		if le(kv, lo) {
			return triFalse
		}
		if lt(hi, kv) {
			return triTrue
		}
	case token.LEQ: // x <= k
		if lt(kv, lo) {
			return triFalse
		}
		if le(hi, kv) {
			return triTrue
		}
	case token.EQL:
		if lt(kv, lo) || lt(hi, kv) {
			return triFalse
		}
	case token.NEQ:
		if lt(kv, lo) || lt(hi, kv) {
			return triTrue
		}
	}
	return triUnknown
}

// decidedCond: the outcome of the conditional at the end of block b, if it
// is the same on every execution.
func decidedCond(cond ssa.Value, b *ssa.BasicBlock) tri {
	v, truth := normCond(cond, true)
	res := func(t tri) tri {
		if !truth {
			return t.not()
		}
		return t
	}
	if k, ok := boolConstOf(v); ok {
		if k {
			return res(triTrue)
		}
		return res(triFalse)
	}
	if bo, ok := v.(*ssa.BinOp); ok {
		if d := rangeDecided(bo); d != triUnknown {
			return res(d)
		}
	}
	// the same value tested by a dominating conditional (values that are
	// loads or calls are the same only if they are the same instruction,
	// which is what identity of ssa.Value means)
	for _, f := range factsAt(b) {
		fv, ft := normCond(f.Cond, f.Truth)
		if fv == v {
			if ft {
				return res(triTrue)
			}
			return res(triFalse)
		}
		// the same comparison written a second time, or its complement
		// (`err == nil` … `err != nil`): registers do not change
		if same, neg := sameComparison(fv, v); same {
			if ft != neg {
				return res(triTrue)
			}
			return res(triFalse)
		}
	}
	return triUnknown
}

// sameComparison: a and b compare the same two registers (or a register and
// equal constants) with the same operator (same) or with complementary
// operators (same and neg).
func sameComparison(a, b ssa.Value) (same, neg bool) {
	x, ok1 := a.(*ssa.BinOp)
	y, ok2 := b.(*ssa.BinOp)
	if !ok1 || !ok2 || x == y {
		return false, false
	}
	sameOperand := func(p, q ssa.Value) bool {
		if p == q {
			return true
		}
		cp, ok1 := p.(*ssa.Const)
		cq, ok2 := q.(*ssa.Const)
		if !ok1 || !ok2 || !types.Identical(cp.Type(), cq.Type()) {
			return false
		}
		if cp.Value == nil || cq.Value == nil {
			return cp.Value == nil && cq.Value == nil
		}
		return constant.Compare(cp.Value, token.EQL, cq.Value)
	}
	if !sameOperand(x.X, y.X) || !sameOperand(x.Y, y.Y) {
		return false, false
	}
	if isFloatType(x.X.Type()) {
		return x.Op == y.Op && isCompareOp(x.Op), false // NaN: `<` is not the complement of `>=`
	}
	if !isCompareOp(x.Op) || !isCompareOp(y.Op) {
		return false, false
	}
	if x.Op == y.Op {
		return true, false
	}
	compl := map[token.Token]token.Token{token.EQL: token.NEQ, token.NEQ: token.EQL, token.LSS: token.GEQ, token.GEQ: token.LSS, token.GTR: token.LEQ, token.LEQ: token.GTR}
	if compl[x.Op] == y.Op {
		return true, true
	}
	return false, false
}

func isCompareOp(op token.Token) bool {
	switch op {
	case token.EQL, token.NEQ, token.LSS, token.LEQ, token.GTR, token.GEQ:
		return true
	}
	return false
}

// foldIf replaces the conditional ending block x by a jump to the successor
// taken when the condition is `truth`.
func foldIf(f *ssa.Function, x *ssa.BasicBlock, truth bool) {
	keep, dead := x.Succs[0], x.Succs[1]
	if !truth {
		keep, dead = dead, keep
	}
	if keep != dead {
		i, _ := predIndex(dead, x)
		dead.Preds = append(dead.Preds[:i:i], dead.Preds[i+1:]...)
		for _, in := range dead.Instrs {
			sp, ok := in.(*ssa.Phi)
			if !ok {
				break
			}
			sp.Edges = append(sp.Edges[:i:i], sp.Edges[i+1:]...)
		}
	}
	j := &ssa.Jump{}
	setBlock(j, x)
	x.Instrs[len(x.Instrs)-1] = j
	x.Succs = []*ssa.BasicBlock{keep}
}

// dropDeadCond removes the comparison (and negations of it) that fed a folded
// conditional once nothing else uses it. finishFunc must have run.
func dropDeadCond(f *ssa.Function, cond ssa.Value) {
	for cond != nil {
		in, ok := cond.(ssa.Instruction)
		if !ok {
			return
		}
		if refs := cond.Referrers(); refs == nil || len(*refs) != 0 {
			return
		}
		var next ssa.Value
		switch x := cond.(type) {
		case *ssa.UnOp:
			if x.Op != token.NOT {
				return
			}
			next = x.X
		case *ssa.BinOp:
		default:
			return
		}
		b := in.Block()
		for i, y := range b.Instrs {
			if y == in {
				b.Instrs = append(b.Instrs[:i:i], b.Instrs[i+1:]...)
				break
			}
		}
		finishFunc(f)
		cond = next
	}
}

// foldDecided folds every conditional of f that decide() settles; it
// reports whether anything changed (the caller re-establishes dominators
// and simplifies).
func foldDecided(f *ssa.Function, decide func(cond ssa.Value, b *ssa.BasicBlock) tri) bool {
	did := false
	for iter := 0; iter < 200; iter++ {
		progress := false
		for _, x := range f.Blocks {
			if len(x.Instrs) == 0 || x == f.Recover {
				continue
			}
			iff, ok := x.Instrs[len(x.Instrs)-1].(*ssa.If)
			if !ok || x.Succs[0] == x.Succs[1] {
				continue
			}
			d := decide(iff.Cond, x)
			if d == triUnknown {
				continue
			}
			foldIf(f, x, d == triTrue)
			removeUnreachable(f)
			finishFunc(f)
			dropDeadCond(f, iff.Cond)
			if dropSingleEdgePhis(f) {
				finishFunc(f)
			}
			progress, did = true, true
			break
		}
		if !progress {
			break
		}
	}
	return did
}

func isFloatType(t types.Type) bool {
	b, ok := t.Underlying().(*types.Basic)
	return ok && b.Info()&(types.IsFloat|types.IsComplex) != 0
}
