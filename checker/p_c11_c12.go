package main

import (
	"fmt"
	"go/ast"
	"go/constant"
	"go/token"
	"go/types"
	"math/big"
	"sort"
	"strconv"
	"strings"

	"golang.org/x/tools/go/ssa"
)

func init() {
	register("C11",
		"Structural necessary conditions of C11 decided from /repo's SSA: (bijection) the report's item list shows each of the 22 counters of the JSON v1 struct exactly once (plus one item per tallied refgroup) with distinct v2 symbols, both the table and JSON v2 are produced from that single list, and v1 marshals the same struct; (same-value) a table row formats, the concern rule judges and JSON v2 emits the same value of the same item, and v2's levelOfConcern/referenceValue are float64(value)/scale and scale; (rule) levelOfConcern is interpreted over the atoms overflow, alert<threshold, alert>30 and must be: overflow ⇒ 30 bangs and shown, alert<threshold ⇒ hidden, alert>30 ⇒ bangs, else stars[:int(alert)], with positive scale constants; a row is emitted iff that function says shown; (empty) the `No problems` line is returned iff nothing was emitted and section headers are written only together with rows. Not decided: the human-readable rendering of a value (C12), monotonicity as a relation between two runs.",
		[]string{"encoding/json marshals struct fields and map keys deterministically"},
		ruleC11Bijection, ruleC11SameValue, ruleC11Rule, ruleC11Empty, ruleC11Precision, ruleC11ThresholdSource)
	register("C12",
		"Structural necessary conditions of C12 decided from /repo's syntax, constants and SSA — the thinnest claim of the nineteen, since the heart of C12 (correct rounding, half-unit error, monotonicity over 2^64 values) is numeric and NOT decided: (tables) the i-th multiplier of the metric table is 1000^i and of the binary table 1024^i with the SI/IEC prefix names, so the tables are non-empty, start at 1 and strictly increase; (exact) values below the first prefix are printed with an integer verb from the integer itself; (selection) the prefix loop is an ascending scan keeping the last prefix whose quotient is >= 1; (precision) for every branch of the precision switch, whole part in [L,U] with verb %.Pf gives at least three significant digits and at most five characters, U for the last prefix being floor((2^64-1)/multiplier); (unit-system) every report item whose unit is B is rendered with the 1024-based table and every other item with the 1000-based one.",
		[]string{"fmt's %f rounding", "float64 conversion of uint64 (not decided)"},
		ruleC12Tables, ruleC12Exact, ruleC12Selection, ruleC12Precision, ruleC12EveryReturn, ruleC12Mantissa, ruleC12WholePart, ruleC12UnitSystem, ruleC12Borrowed)
}

// ---------------- C11 ----------------

func (c *Ctx) newItemCalls() (contents *ssa.Function, calls []itemRow, valIdx, symIdx, scaleIdx int) {
	contents = c.fn("/sizes", "*HistorySize", "contents")
	newItem := c.itemCtor()
	valIdx, symIdx, scaleIdx = -1, -1, -1
	if contents == nil || newItem == nil {
		return
	}
	for i, p := range newItem.Params {
		if isNamed(p.Type(), modPath+"/counts", "Humanable") {
			valIdx = i
		}
		if b, ok := p.Type().Underlying().(*types.Basic); ok && b.Kind() == types.Float64 {
			scaleIdx = i
		}
		if b, ok := p.Type().Underlying().(*types.Basic); ok && b.Kind() == types.String && symIdx < 0 {
			symIdx = i
		}
	}
	calls = c.itemRows(contents, newItem)
	return
}

func ruleC11Bijection(c *Ctx) {
	contents, calls, valIdx, symIdx, scaleIdx := c.newItemCalls()
	if contents == nil || valIdx < 0 || symIdx < 0 || scaleIdx < 0 {
		c.violate("C11.bijection", "contents", token.NoPos, "", "the report's item list builder (contents/newItem with symbol, value, scale parameters) not found")
		return
	}
	name := fnName(contents)
	hs := c.namedType("/sizes", "HistorySize")
	st := hs.Underlying().(*types.Struct)
	want := map[string]bool{}
	for i := 0; i < st.NumFields(); i++ {
		if countKind(st.Field(i).Type()) != "" {
			want[jsonTag(st.Tag(i))] = true
		}
	}
	seen := map[string]int{}
	syms := map[string]int{}
	groupItems := 0
	for _, call := range calls {
		sym, isConst := constStr(call.Args[symIdx])
		if !isConst {
			if call.Row <= 0 {
				groupItems++
			}
			continue
		}
		syms[sym]++
		tag := ""
		tag = historyFieldTag(c, itemValue(call.Args[valIdx]))
		if tag == "" {
			c.violate("C11.bijection", "item:"+sym, call.Pos, name, "item "+sym+" does not show a counter of the measurement struct")
			continue
		}
		seen[tag]++
		// scale constant > 0
		if k, ok := constFloat(call.Args[scaleIdx]); !ok || !(k > 0) {
			c.violate("C11.rule", "scale:"+sym, call.Pos, name, fmt.Sprintf("item %s has a reference value that is not a positive constant: value/reference would be negative, infinite or NaN", sym))
		} else {
			c.present("C11.rule", "scale:"+sym, call.Pos, fmt.Sprintf("reference value %g > 0", k))
		}
	}
	var tags []string
	for t := range want {
		tags = append(tags, t)
	}
	sort.Strings(tags)
	for _, t := range tags {
		switch seen[t] {
		case 1:
			c.hold("C11.bijection", "field:"+t, contents.Pos(), "shown by exactly one item")
		case 0:
			c.violate("C11.bijection", "field:"+t, contents.Pos(), name, "the JSON v1 measurement "+t+" is shown by no table/JSON v2 item: the formats would not present the same measurements")
		default:
			c.violate("C11.bijection", "field:"+t, contents.Pos(), name, fmt.Sprintf("the measurement %s is shown by %d items", t, seen[t]))
		}
	}
	for t := range seen {
		if !want[t] {
			c.violate("C11.bijection", "field:"+t, contents.Pos(), name, "an item shows "+t+", which is not a counter of the JSON v1 struct")
		}
	}
	for s, n := range syms {
		if n > 1 {
			c.violate("C11.bijection", "symbol:"+s, contents.Pos(), name, "the v2 symbol "+s+" is used by two items: one would overwrite the other in JSON v2")
		}
	}
	if groupItems != 1 {
		c.violate("C11.bijection", "group-item", contents.Pos(), name, fmt.Sprintf("expected one per-refgroup item site, found %d", groupItems))
	}
	// single source: contents called once by each renderer, by nobody else
	for _, m := range []string{"TableString", "JSON"} {
		f := c.fn("/sizes", "*HistorySize", m)
		if f == nil {
			c.violate("C11.bijection", "renderer:"+m, token.NoPos, "", "(*sizes.HistorySize)."+m+" not found")
			continue
		}
		if n := len(callsTo(f, contents)); n == 1 {
			c.hold("C11.bijection", "renderer:"+m, f.Pos(), m+" builds its rows from the shared item list")
		} else {
			c.violate("C11.bijection", "renderer:"+m, f.Pos(), fnName(f), fmt.Sprintf("%s calls the item list builder %d times", m, n))
		}
	}
	for _, ci := range c.Callers[contents] {
		n := ci.Parent().Name()
		if n != "TableString" && n != "JSON" {
			c.violate("C11.bijection", "caller:"+fnName(ci.Parent()), ci.Pos(), fnName(ci.Parent()), "the item list is also built by "+fnName(ci.Parent()))
		}
	}
	// v1 marshals the measurement struct itself; v2 the item map
	mainImpl := c.fn("", "", "mainImplementation")
	if mainImpl != nil {
		okV1, okV2 := false, false
		allInstrs(mainImpl, func(in ssa.Instruction) {
			call, ok := in.(*ssa.Call)
			if !ok {
				return
			}
			if calleeQ(&call.Call) == "encoding/json.MarshalIndent" {
				if mi, ok := call.Call.Args[0].(*ssa.MakeInterface); ok && isNamed(mi.X.Type(), modPath+"/sizes", "HistorySize") {
					okV1 = true
				}
			}
			if cal := call.Call.StaticCallee(); cal != nil && cal == c.fn("/sizes", "*HistorySize", "JSON") {
				okV2 = true
			}
		})
		if okV1 && okV2 {
			c.hold("C11.bijection", "json-sources", mainImpl.Pos(), "v1 = json.MarshalIndent(measurements), v2 = measurements.JSON(...)")
		} else {
			c.violate("C11.bijection", "json-sources", mainImpl.Pos(), fnName(mainImpl), fmt.Sprintf("JSON output is not produced from the measurement struct (v1 ok=%v, v2 ok=%v)", okV1, okV2))
		}
	}
}

func ruleC11SameValue(c *Ctx) {
	m := c.itemModel()
	emit := c.fn("/sizes", "*item", "Emit")
	if m == nil || emit == nil {
		c.violate("C11.same-value", "Emit", token.NoPos, "", "sizes.(*item).Emit not found")
		return
	}
	name := fnName(emit)
	st := m.T.Underlying().(*types.Struct)
	valName := vname(st.Field(m.ValueIdx))
	var loc, format, row *ssa.Call
	allInstrs(emit, func(in ssa.Instruction) {
		call, ok := in.(*ssa.Call)
		if !ok {
			return
		}
		if cal := call.Call.StaticCallee(); cal != nil {
			switch {
			case cal == c.fn("/sizes", "*item", "levelOfConcern"):
				loc = call
			case cal == c.fn("/counts", "*Humaner", "Format"):
				format = call
			case refName(cal) == "formatRow":
				row = call
			}
		}
	})
	if loc == nil || format == nil || row == nil {
		c.violate("C11.same-value", "Emit:shape", emit.Pos(), name, "a table row is not produced by levelOfConcern + Humaner.Format + formatRow")
		return
	}
	// levelOfConcern on the receiver with the table's threshold
	recvOK := c.resolve(loc.Call.Args[0]) == ssa.Value(emit.Params[0])
	_, tp := c.fieldPath(c.resolve(loc.Call.Args[1]))
	if recvOK && len(tp) == 1 && strings.Contains(strings.ToLower(tp[0]), "threshold") {
		c.hold("C11.same-value", "Emit:concern", loc.Pos(), "the row's concern is computed for this item with the table's threshold")
	} else {
		c.violate("C11.same-value", "Emit:concern", loc.Pos(), name, "the concern of a row is not computed for the row's own item with the table's threshold")
	}
	// Format(i.value, i.unit)
	okVal := false
	if b, p := c.fieldPath(c.resolve(format.Call.Args[1])); b != nil && len(p) == 1 && p[0] == valName && c.resolve(b) == ssa.Value(emit.Params[0]) {
		okVal = true
	}
	if okVal {
		c.hold("C11.same-value", "Emit:value", format.Pos(), "the value rendered is the item's own value (the one JSON emits and the concern rule judges)")
	} else {
		c.violate("C11.same-value", "Emit:value", format.Pos(), name, "the table renders something other than the item's value")
	}
	// row only if interesting; marks = levelOfConcern's string
	var interesting ssa.Value
	var marks ssa.Value
	for _, r := range *loc.Referrers() {
		if ex, ok := r.(*ssa.Extract); ok {
			if ex.Index == 1 {
				interesting = ex
			} else {
				marks = ex
			}
		}
	}
	shown := interesting != nil && guardedBy(row.Block(), func(cond ssa.Value, truth bool) bool { return cond == interesting && truth })
	if shown {
		c.hold("C11.same-value", "Emit:shown-iff", row.Pos(), "a row is formatted iff levelOfConcern reports it as shown")
	} else {
		c.violate("C11.same-value", "Emit:shown-iff", row.Pos(), name, "whether a row is emitted does not follow levelOfConcern's verdict")
	}
	// no other condition hides the row
	extra := 0
	for _, f := range factsAt(row.Block()) {
		cond, _ := normCond(f.Cond, f.Truth)
		if cond != interesting {
			extra++
		}
	}
	if extra > 0 {
		c.violate("C11.same-value", "Emit:only-if", row.Pos(), name, "emission of a row depends on a further condition besides the concern rule")
	}
	// the value and unit columns are the humaner's rendering of that value on every path
	nCol := 0
	for _, a := range row.Call.Args {
		ex, ok := c.resolve(a).(*ssa.Extract)
		if ok && ex.Tuple == ssa.Value(format) {
			nCol++
		}
	}
	if nCol >= 2 {
		c.hold("C11.same-value", "Emit:value-column", row.Pos(), "the value and unit columns are the two results of Humaner.Format(value, unit)")
	} else {
		c.violate("C11.same-value", "Emit:value-column", row.Pos(), name, "the value/unit columns are not, on every path, the results of Humaner.Format(value, unit): some values would be printed without (or with another) scaling than the exact JSON value's human-readable rendering")
	}
	// inside the row formatter the two columns are printed as they arrive
	if rowFn := row.Call.StaticCallee(); rowFn != nil && len(rowFn.Blocks) > 0 && len(rowFn.Params) == len(row.Call.Args) {
		for ai, a := range row.Call.Args {
			ex, ok := c.resolve(a).(*ssa.Extract)
			if !ok || ex.Tuple != ssa.Value(format) {
				continue
			}
			param := rowFn.Params[ai]
			printed := false
			for _, r := range *param.Referrers() {
				mi, isMI := r.(*ssa.MakeInterface)
				if !isMI {
					continue
				}
				for _, rr := range *mi.Referrers() {
					if st, isSt := rr.(*ssa.Store); isSt {
						if _, isElem := st.Addr.(*ssa.IndexAddr); isElem {
							printed = true
						}
					}
				}
			}
			key := fmt.Sprintf("row:column-%d-unaltered", ex.Index)
			if printed {
				c.hold("C11.same-value", key, rowFn.Pos(), "the row formatter prints the humaner's "+map[int]string{0: "numeral", 1: "unit"}[ex.Index]+" as it receives it")
			} else {
				c.violate("C11.same-value", key, rowFn.Pos(), fnName(rowFn), "the row formatter does not print the humaner's "+map[int]string{0: "numeral", 1: "unit"}[ex.Index]+" as it receives it: the column is cut, padded or rewritten after scaling, so what is shown is no longer the rounded value")
			}
		}
	}
	// a citation (and with it a footnote) is created only for a row that is shown
	allInstrs(emit, func(in ssa.Instruction) {
		call, ok := in.(*ssa.Call)
		if !ok || call.Call.StaticCallee() == nil || refName(call.Call.StaticCallee()) != "CreateCitation" {
			return
		}
		okShown := interesting != nil && guardedBy(call.Block(), func(cond ssa.Value, truth bool) bool { return cond == interesting && truth })
		if okShown {
			c.hold("C11.same-value", "Emit:citation-shown-only", call.Pos(), "footnotes are registered only for rows that pass the threshold")
		} else {
			c.violate("C11.same-value", "Emit:citation-shown-only", call.Pos(), name, "a citation is created before the row is known to be shown: hidden rows leave footnotes behind and shift the numbers of the visible ones")
		}
	})
	lastArg := row.Call.Args[len(row.Call.Args)-1]
	if marks != nil && c.resolve(lastArg) == marks {
		c.hold("C11.same-value", "Emit:marks", row.Pos(), "the concern column is levelOfConcern's string")
	} else {
		c.violate("C11.same-value", "Emit:marks", row.Pos(), name, "the concern column is not the string computed by levelOfConcern")
	}
	if mj := c.fn("/sizes", "*item", "MarshalJSON"); mj != nil {
		c.checkMarshalValue(mj)
	}
}

func ruleC11Empty(c *Ctx) {
	ts := c.fn("/sizes", "*HistorySize", "TableString")
	if ts == nil {
		c.violate("C11.empty", "TableString", token.NoPos, "", "(*sizes.HistorySize).TableString not found")
		return
	}
	name := fnName(ts)
	isBufLen := func(v ssa.Value) bool {
		call, ok := v.(*ssa.Call)
		return ok && (calleeQ(&call.Call) == "(*bytes.Buffer).Len" || calleeQ(&call.Call) == "(*strings.Builder).Len")
	}
	emptyFact := func(b *ssa.BasicBlock) (known, empty bool) {
		for _, f := range factsAt(b) {
			cond, truth := normCond(f.Cond, f.Truth)
			cmp, ok := cond.(*ssa.BinOp)
			if !ok || !isBufLen(cmp.X) {
				continue
			}
			n, ok := constInt(cmp.Y)
			if !ok || n != 0 {
				continue
			}
			switch cmp.Op {
			case token.EQL:
				return true, truth
			case token.NEQ, token.GTR:
				return true, !truth
			}
		}
		return false, false
	}
	var sawNoProblems, sawTable bool
	for _, ret := range returnsOf(ts) {
		known, empty := emptyFact(ret.Block())
		s, isConst := constStr(ret.Results[0])
		switch {
		case isConst && strings.HasPrefix(s, "No problems"):
			if known && empty {
				sawNoProblems = true
			} else {
				c.violate("C11.empty", "no-problems:guard", ret.Pos(), name, "the `No problems` line is returned without the table being known empty")
			}
		default:
			if known && !empty {
				sawTable = true
			} else {
				c.violate("C11.empty", "table:guard", ret.Pos(), name, "a table is returned on a path where no row may have been emitted (an empty table with only a header)")
			}
		}
	}
	if sawNoProblems && sawTable {
		c.hold("C11.empty", "no-problems", ts.Pos(), "`No problems…` iff the buffer is empty after emission; otherwise header + rows + footnotes")
	} else if !sawNoProblems {
		c.violate("C11.empty", "no-problems", ts.Pos(), name, "when no row qualifies no single `No problems` line is returned")
	}
	// section headers only together with rows
	add := c.fn("/sizes", "*table", "addSection")
	if add == nil {
		return
	}
	bad := false
	n := 0
	allInstrs(add, func(in ssa.Instruction) {
		call, ok := in.(*ssa.Call)
		if !ok {
			return
		}
		cal := call.Call.StaticCallee()
		q := calleeQ(&call.Call)
		isWrite := strings.HasPrefix(q, "fmt.Fprint") || (cal != nil && c.inRuleScope(cal) && (strings.HasPrefix(refName(cal), "format") || strings.HasPrefix(refName(cal), "emit")))
		if !isWrite {
			return
		}
		n++
		nonEmptySub := false
		for _, f := range factsAt(call.Block()) {
			cond, truth := normCond(f.Cond, f.Truth)
			cmp, ok := cond.(*ssa.BinOp)
			if !ok || !isBufLen(cmp.X) {
				continue
			}
			bl := cmp.X.(*ssa.Call)
			// the sub-table's buffer: receiver derives from the parameter, not from the receiver table
			if b, _ := c.fieldPath(c.resolveAddr(bl.Call.Args[0])); b != nil && c.resolve(b) == ssa.Value(add.Params[1]) {
				if (cmp.Op == token.GTR && truth) || (cmp.Op == token.NEQ && truth) || (cmp.Op == token.EQL && !truth) {
					nonEmptySub = true
				}
			}
		}
		if !nonEmptySub {
			bad = true
			c.violate("C11.empty", "section-header@"+c.lineKey(call), call.Pos(), fnName(add), "a section header / separator / copy is written although the section produced no rows")
		}
	})
	if !bad && n > 0 {
		c.hold("C11.empty", "section-header", add.Pos(), fmt.Sprintf("all %d writes of addSection happen only when the sub-table has rows", n))
	}
}

// resolveAddr: for `&x.f` arguments (method on an addressable field).
func (c *Ctx) resolveAddr(v ssa.Value) ssa.Value {
	if fa, ok := v.(*ssa.FieldAddr); ok {
		// pretend it is a load so that fieldPath can decompose it
		return &ssa.UnOp{Op: token.MUL, X: fa}
	}
	return v
}

// ---------------- C12 ----------------

type prefixRow struct {
	Name string
	Mult *big.Int
}

// humanerTables reads the prefix tables of the package-level Humaner values.
func (c *Ctx) humanerTables() map[string][]prefixRow {
	out := map[string][]prefixRow{}
	p := c.pkg("/counts")
	if p == nil {
		return out
	}
	for _, file := range p.Syntax {
		for _, d := range file.Decls {
			gd, ok := d.(*ast.GenDecl)
			if !ok || gd.Tok != token.VAR {
				continue
			}
			for _, sp := range gd.Specs {
				vs := sp.(*ast.ValueSpec)
				for i, nm := range vs.Names {
					if i >= len(vs.Values) {
						continue
					}
					cl, ok := vs.Values[i].(*ast.CompositeLit)
					if !ok || !isNamed(p.TypesInfo.TypeOf(cl), modPath+"/counts", "Humaner") {
						continue
					}
					var rows []prefixRow
					found := false
					for _, el := range cl.Elts {
						kv, ok := el.(*ast.KeyValueExpr)
						var val ast.Expr = el
						if ok {
							val = kv.Value
						}
						inner, ok := val.(*ast.CompositeLit)
						if !ok {
							continue
						}
						if _, isSlice := p.TypesInfo.TypeOf(inner).Underlying().(*types.Slice); !isSlice {
							continue
						}
						found = true
						for _, pe := range inner.Elts {
							pl, ok := pe.(*ast.CompositeLit)
							if !ok {
								continue
							}
							var row prefixRow
							for j, f := range pl.Elts {
								var fe ast.Expr = f
								fname := ""
								if kv, ok := f.(*ast.KeyValueExpr); ok {
									fe = kv.Value
									fname = kv.Key.(*ast.Ident).Name
								}
								tv := p.TypesInfo.Types[fe]
								if tv.Value == nil {
									continue
								}
								if tv.Value.Kind() == constant.String && (fname == "Name" || (fname == "" && j == 0)) {
									row.Name = constant.StringVal(tv.Value)
								} else if v := constant.ToInt(tv.Value); v.Kind() == constant.Int {
									bi, _ := new(big.Int).SetString(v.ExactString(), 10)
									row.Mult = bi
								}
							}
							rows = append(rows, row)
						}
					}
					if found {
						out[nm.Name] = rows
					}
				}
			}
		}
	}
	return out
}

var siNames = []string{"", "k", "M", "G", "T", "P", "E", "Z", "Y"}
var iecNames = []string{"", "Ki", "Mi", "Gi", "Ti", "Pi", "Ei", "Zi", "Yi"}

func ruleC12Tables(c *Ctx) {
	tabs := c.humanerTables()
	for _, spec := range []struct {
		v     string
		base  int64
		names []string
	}{{"Metric", 1000, siNames}, {"Binary", 1024, iecNames}} {
		rows, ok := tabs[spec.v]
		if !ok || len(rows) == 0 {
			c.violate("C12.tables", spec.v, token.NoPos, "", "counts."+spec.v+" has no (non-empty) prefix table")
			continue
		}
		good := true
		for i, r := range rows {
			want := new(big.Int).Exp(big.NewInt(spec.base), big.NewInt(int64(i)), nil)
			wantName := "?"
			if i < len(spec.names) {
				wantName = spec.names[i]
			}
			if r.Mult == nil || r.Mult.Cmp(want) != 0 || r.Name != wantName {
				good = false
				c.violate("C12.tables", fmt.Sprintf("%s[%d]", spec.v, i), token.NoPos, "counts", fmt.Sprintf("entry %d of counts.%s is {%q, %v}; the %d-based table needs {%q, %v}: values would be shown with the wrong prefix or scaled by the wrong factor", i, spec.v, r.Name, r.Mult, spec.base, wantName, want))
			}
			if want.BitLen() > 64 {
				good = false
				c.violate("C12.tables", fmt.Sprintf("%s[%d]:range", spec.v, i), token.NoPos, "counts", "a prefix multiplier exceeds 64 bits")
			}
		}
		if good {
			c.hold("C12.tables", spec.v, token.NoPos, fmt.Sprintf("%d entries: multiplier[i] = %d^i with the standard prefix names; non-empty, starts at 1, strictly increasing", len(rows), spec.base))
			c.sample(map[string]interface{}{"table": spec.v, "entries": len(rows), "last": rows[len(rows)-1].Name})
		}
	}
	// no other Humaner values are constructed in the module (so prefixes[0] exists)
	for _, f := range c.ModFns {
		if f.Name() == "init" && pkgOf(f) == modPath+"/counts" {
			continue
		}
		allInstrs(f, func(in ssa.Instruction) {
			if al, ok := in.(*ssa.Alloc); ok {
				if isNamed(al.Type().Underlying().(*types.Pointer).Elem(), modPath+"/counts", "Humaner") && pkgOf(f) != modPath+"/counts" {
					// copies of the package-level tables are fine (stores of a load of the global); a zero value is not
					zero := true
					for _, st := range storesTo(al) {
						if u, ok := st.Val.(*ssa.UnOp); ok {
							if _, isG := u.X.(*ssa.Global); isG {
								zero = false
							}
						}
						if _, isP := st.Val.(*ssa.Parameter); isP {
							zero = false
						}
					}
					if zero && len(storesTo(al)) == 0 {
						c.violate("C12.tables", "zero-humaner@"+fnName(f), al.Pos(), fnName(f), "a zero-valued Humaner (empty prefix table) is constructed: formatting with it indexes prefixes[0] out of range")
					}
				}
			}
		})
	}
}

func ruleC12Exact(c *Ctx) {
	f := c.fn("/counts", "*Humaner", "FormatNumber")
	if f == nil {
		c.violate("C12.exact", "FormatNumber", token.NoPos, "", "counts.(*Humaner).FormatNumber not found")
		return
	}
	name := fnName(f)
	n := f.Params[1]
	found := false
	for _, ret := range returnsOf(f) {
		one := guardedBy(ret.Block(), func(cond ssa.Value, truth bool) bool {
			cmp, ok := isCmp(cond, token.EQL, token.NEQ)
			if !ok || (cmp.Op == token.EQL) != truth {
				return false
			}
			k, ok := constUint(cmp.Y)
			return ok && k == 1
		})
		if !one {
			continue
		}
		found = true
		call, ok := c.resolve(ret.Results[0]).(*ssa.Call)
		okFmt := false
		if ok && calleeQ(&call.Call) == "fmt.Sprintf" {
			if fs, ok := constStr(call.Call.Args[0]); ok && (fs == "%d" || fs == "%v") {
				for _, el := range c.sliceElemValues(call.Call.Args[1]) {
					if mi, ok := el.(*ssa.MakeInterface); ok && mi.X == ssa.Value(n) {
						okFmt = true
					}
				}
			}
		}
		if ok && (calleeQ(&call.Call) == "strconv.FormatUint") && call.Call.Args[0] == ssa.Value(n) {
			okFmt = true
		}
		// a literal numeral on a path where the value is known to be that number
		if lit, isLit := constStr(c.resolve(ret.Results[0])); isLit {
			if guardedBy(ret.Block(), func(cond ssa.Value, truth bool) bool {
				cmp, isEq := isCmp(cond, token.EQL, token.NEQ)
				if !isEq || (cmp.Op == token.EQL) != truth || cmp.X != ssa.Value(n) {
					return false
				}
				k, isK := constUint(cmp.Y)
				return isK && strconv.FormatUint(k, 10) == lit
			}) {
				okFmt = true
			}
		}
		if okFmt {
			c.hold("C12.exact", "unit-prefix", ret.Pos(), "with multiplier 1 the integer itself is printed with an integer verb")
		} else {
			c.violate("C12.exact", "unit-prefix", ret.Pos(), name, "values below the first prefix are not printed exactly from the integer")
		}
	}
	if !found {
		c.violate("C12.exact", "unit-prefix", f.Pos(), name, "no exact path for values below the first prefix (multiplier == 1)")
	}
}

func ruleC12Selection(c *Ctx) {
	f := c.fn("/counts", "*Humaner", "FormatNumber")
	if f == nil {
		return
	}
	name := fnName(f)
	n := f.Params[1]
	var l *loop
	descending := false
	for _, x := range loopsOf(f) {
		if c.rangeOverField(f, x, "prefixes") || c.rangeOverFieldAny(f, x) {
			l = x
		}
	}
	if l == nil {
		// a descending index loop over the table that stops at the first fitting prefix is the same selection
		for _, x := range loopsOf(f) {
			head := x.Head
			iff, ok := head.Instrs[len(head.Instrs)-1].(*ssa.If)
			if !ok {
				continue
			}
			cmp, ok := iff.Cond.(*ssa.BinOp)
			if !ok || (cmp.Op != token.GEQ && cmp.Op != token.GTR) {
				continue
			}
			if phi, ok := cmp.X.(*ssa.Phi); ok && phi.Block() == head {
				for _, e := range phi.Edges {
					if bo, ok := e.(*ssa.BinOp); ok && bo.Op == token.SUB && bo.X == ssa.Value(phi) {
						l, descending = x, true
					}
				}
			}
		}
	}
	if l == nil {
		c.violate("C12.selection", "loop", f.Pos(), name, "no loop over the prefix table")
		return
	}
	okCond := false
	fitTruth := true
	var condPos token.Pos
	var fitIf *ssa.If
	for b := range l.Blocks {
		iff, ok := b.Instrs[len(b.Instrs)-1].(*ssa.If)
		if !ok || b == l.Head {
			continue
		}
		cmp, ok := iff.Cond.(*ssa.BinOp)
		if !ok {
			continue
		}
		// w >= 1, w > 0, w != 0 (or negated: w == 0, w < 1) with w = n / p.Multiplier ; or n >= p.Multiplier / n < p.Multiplier
		isQuot := func(v ssa.Value) bool {
			q, ok := v.(*ssa.BinOp)
			if !ok || q.Op != token.QUO || q.X != ssa.Value(n) {
				return false
			}
			_, p := c.fieldPath(c.resolve(q.Y))
			return len(p) > 0 && p[len(p)-1] == "Multiplier"
		}
		isMult := func(v ssa.Value) bool {
			_, p := c.fieldPath(c.resolve(v))
			return len(p) > 0 && p[len(p)-1] == "Multiplier"
		}
		k, isK := constUint(cmp.Y)
		matched := true
		switch {
		case isQuot(cmp.X) && isK && ((cmp.Op == token.GEQ && k == 1) || (cmp.Op == token.GTR && k == 0) || (cmp.Op == token.NEQ && k == 0)):
			fitTruth = true
		case isQuot(cmp.X) && isK && ((cmp.Op == token.EQL && k == 0) || (cmp.Op == token.LSS && k == 1)):
			fitTruth = false
		case cmp.X == ssa.Value(n) && isMult(cmp.Y) && cmp.Op == token.GEQ:
			fitTruth = true
		case cmp.X == ssa.Value(n) && isMult(cmp.Y) && cmp.Op == token.LSS:
			fitTruth = false
		case cmp.Y == ssa.Value(n) && isMult(cmp.X) && cmp.Op == token.LEQ:
			fitTruth = true
		case cmp.Y == ssa.Value(n) && isMult(cmp.X) && cmp.Op == token.GTR:
			fitTruth = false
		default:
			matched = false
		}
		if matched {
			okCond, condPos, fitIf = true, iff.Pos(), iff
		} else if condPos == token.NoPos {
			condPos = iff.Pos()
		}
	}
	if okCond && descending {
		// the fitting edge must leave the loop (first fit from the top = largest fitting prefix)
		leaves := false
		if fitIf != nil {
			cur := fitIf.Block().Succs[0]
			if !fitTruth {
				cur = fitIf.Block().Succs[1]
			}
			for steps := 0; steps < 6 && cur != nil; steps++ {
				if !l.Blocks[cur] {
					leaves = true
					break
				}
				if cur == l.Head || len(cur.Succs) != 1 {
					break
				}
				cur = cur.Succs[0]
			}
		}
		if leaves {
			c.hold("C12.selection", "keep-last-fitting", condPos, "descending scan stopping at the first prefix whose quotient is >= 1 (the largest not exceeding the value)")
		} else {
			c.violate("C12.selection", "keep-last-fitting", condPos, name, "a descending prefix scan must stop at the first fitting prefix; this one goes on to smaller prefixes")
		}
	} else if okCond {
		c.hold("C12.selection", "keep-last-fitting", condPos, "ascending scan keeping every prefix whose quotient is >= 1 (so the last kept is the largest not exceeding the value)")
	} else {
		c.violate("C12.selection", "keep-last-fitting", condPos, name, "the prefix loop does not keep a prefix exactly when value/multiplier >= 1")
	}
}

func (c *Ctx) rangeOverFieldAny(f *ssa.Function, l *loop) bool {
	head := l.Head
	iff, ok := head.Instrs[len(head.Instrs)-1].(*ssa.If)
	if !ok {
		return false
	}
	cmp, ok := iff.Cond.(*ssa.BinOp)
	if !ok || cmp.Op != token.LSS {
		return false
	}
	call, ok := cmp.Y.(*ssa.Call)
	if !ok || !isBuiltin(&call.Call, "len") {
		return false
	}
	if s, ok := call.Call.Args[0].Type().Underlying().(*types.Slice); ok {
		return isNamed(s.Elem(), modPath+"/counts", "Prefix")
	}
	return false
}

func digits(n uint64) int {
	d := 1
	for n >= 10 {
		n /= 10
		d++
	}
	return d
}

func ruleC12Precision(c *Ctx) {
	f := c.fn("/counts", "*Humaner", "FormatNumber")
	if f == nil {
		return
	}
	name := fnName(f)
	// the float formatting call: fmt.Sprintf with a format chosen among
	// constants "%.Nf", or strconv.FormatFloat(x, 'f', N, 64) with N chosen
	// among constants
	var sp *ssa.Call
	var sel ssa.Value // the selected format / precision
	viaStrconv := false
	allInstrs(f, func(in ssa.Instruction) {
		call, ok := in.(*ssa.Call)
		if !ok {
			return
		}
		switch calleeQ(&call.Call) {
		case "fmt.Sprintf":
			if _, isConst := constStr(call.Call.Args[0]); !isConst {
				sp, sel = call, call.Call.Args[0]
			}
		case "strconv.FormatFloat":
			sp, sel, viaStrconv = call, call.Call.Args[2], true
		}
	})
	if sp == nil {
		c.violate("C12.precision", "format", f.Pos(), name, "no precision-dependent formatting found")
		return
	}
	if viaStrconv {
		if k, ok := constInt(sp.Call.Args[1]); !ok || k != 'f' {
			c.violate("C12.precision", "verb:strconv", sp.Pos(), name, "strconv.FormatFloat is not used with the 'f' format: exponents or shortest-form output would appear in the value column")
			return
		}
		if k, ok := constInt(sp.Call.Args[3]); !ok || k != 64 {
			c.violate("C12.precision", "bitsize:strconv", sp.Pos(), name, "strconv.FormatFloat is told to round the mantissa as a 32-bit float first: values of nine or more digits next to a half-unit boundary are rounded the wrong way (106430463 B shows as 102 MiB)")
			return
		}
	}
	type branch struct {
		val  ssa.Value
		pred *ssa.BasicBlock
		to   *ssa.BasicBlock // the join the value flows into (nil: no phi)
	}
	var branches []branch
	if phi, ok := sel.(*ssa.Phi); ok {
		for i, e := range phi.Edges {
			branches = append(branches, branch{e, phi.Block().Preds[i], phi.Block()})
		}
	} else if _, isConst := sel.(*ssa.Const); isConst {
		branches = append(branches, branch{sel, sp.Block(), nil})
	} else {
		c.undecided("C12.precision", "format", sp.Pos(), name, "the float format is not selected among constants")
		return
	}
	tabs := c.humanerTables()
	// largest whole part over all tables: adjacent ratio - 1 for inner prefixes, floor((2^64-1)/mult) for the last
	maxWhole := uint64(0)
	maxU := new(big.Int).SetUint64(^uint64(0))
	for _, rows := range tabs {
		for i, r := range rows {
			if r.Mult == nil || i == 0 {
				continue
			}
			var u uint64
			if i+1 < len(rows) && rows[i+1].Mult != nil {
				u = new(big.Int).Sub(new(big.Int).Div(rows[i+1].Mult, r.Mult), big.NewInt(1)).Uint64()
			} else {
				u = new(big.Int).Div(maxU, r.Mult).Uint64()
			}
			if u > maxWhole {
				maxWhole = u
			}
		}
	}
	for i, br := range branches {
		e := br.val
		var P int
		var fs string
		if viaStrconv {
			k, ok := constInt(e)
			if !ok || k < 0 {
				c.undecided("C12.precision", fmt.Sprintf("branch%d", i), sp.Pos(), name, "a branch chooses a non-constant precision")
				continue
			}
			P = int(k)
			fs = fmt.Sprintf("%%.%df", P)
		} else {
			var ok bool
			fs, ok = constStr(e)
			if !ok {
				c.undecided("C12.precision", fmt.Sprintf("branch%d", i), sp.Pos(), name, "a branch chooses a non-constant format")
				continue
			}
			if _, err := fmt.Sscanf(fs, "%%.%df", &P); err != nil {
				c.violate("C12.precision", "verb:"+fs, sp.Pos(), name, "format "+fs+" is not of the form %.Nf")
				continue
			}
		}
		// bounds on the whole part in the predecessor block
		lo, hi := uint64(1), maxWhole
		facts := factsAt(br.pred)
		if br.to != nil {
			facts = factsOnEdge(br.pred, br.to)
		}
		for _, fct := range facts {
			cond, truth := normCond(fct.Cond, fct.Truth)
			cmp, ok := cond.(*ssa.BinOp)
			if !ok {
				continue
			}
			k, ok := constUint(cmp.Y)
			if !ok {
				continue
			}
			switch {
			case cmp.Op == token.GEQ && truth:
				if k > lo {
					lo = k
				}
			case cmp.Op == token.GEQ && !truth:
				if k-1 < hi {
					hi = k - 1
				}
			case cmp.Op == token.GTR && truth:
				if k+1 > lo {
					lo = k + 1
				}
			case cmp.Op == token.GTR && !truth:
				if k < hi {
					hi = k
				}
			case cmp.Op == token.LSS && truth:
				if k-1 < hi {
					hi = k - 1
				}
			case cmp.Op == token.LSS && !truth:
				if k > lo {
					lo = k
				}
			}
		}
		sig := digits(lo) + P
		width := digits(hi + 1)
		if P > 0 {
			width += P + 1
		}
		key := fmt.Sprintf("whole[%d,%d]:%s", lo, hi, fs)
		if sig >= 3 && width <= 5 {
			c.hold("C12.precision", key, sp.Pos(), fmt.Sprintf("at least %d significant digits, at most %d characters (after rounding up to %d)", sig, width, hi+1))
		} else {
			c.violate("C12.precision", key, sp.Pos(), name, fmt.Sprintf("with whole part in [%d,%d] the verb %s shows %d significant digit(s) and up to %d characters (need >= 3 and <= 5)", lo, hi, fs, sig, width))
		}
	}
}

// ruleC11Precision: the threshold the rows are compared with is parsed at
// the precision of the ratio it is compared with (float64), whether it
// comes from the option or from gitconfig.
func ruleC11Precision(c *Ctx) {
	n := 0
	for _, f := range c.ModFns {
		allInstrs(f, func(in ssa.Instruction) {
			call, ok := in.(*ssa.Call)
			if !ok || calleeQ(&call.Call) != "strconv.ParseFloat" {
				return
			}
			// does the result become a Threshold?
			isThreshold := false
			for _, r := range *call.Referrers() {
				if ex, ok := r.(*ssa.Extract); ok && ex.Index == 0 {
					for _, rr := range *ex.Referrers() {
						if cv, ok := rr.(*ssa.ChangeType); ok && isNamed(cv.Type(), modPath+"/sizes", "Threshold") {
							isThreshold = true
						}
						if cv, ok := rr.(*ssa.Convert); ok && isNamed(cv.Type(), modPath+"/sizes", "Threshold") {
							isThreshold = true
						}
					}
				}
			}
			if !isThreshold {
				return
			}
			n++
			bits, _ := constInt(call.Call.Args[1])
			if bits == 64 {
				c.hold("C11.rule", "threshold-precision@"+fnName(f), call.Pos(), "threshold parsed as float64, the type of value/reference")
			} else {
				c.violate("C11.rule", "threshold-precision@"+fnName(f), call.Pos(), fnName(f), fmt.Sprintf("the threshold is parsed with bit size %d and then compared with the float64 ratio value/reference: a row whose ratio equals the threshold as typed (e.g. 0.1) is hidden or shown depending on float32 rounding", bits))
			}
		})
	}
	if n < 2 {
		c.violate("C11.rule", "threshold-precision", token.NoPos, "", fmt.Sprintf("expected the option and the gitconfig threshold parsers, found %d", n))
	}
}

// ruleC12Mantissa: the number handed to the float verb is one correctly
// rounded division float64(value)/float64(multiplier of the chosen prefix);
// anything else (pre-truncated or re-composed mantissas) rounds twice.
func ruleC12Mantissa(c *Ctx) {
	f := c.fn("/counts", "*Humaner", "FormatNumber")
	if f == nil {
		return
	}
	name := fnName(f)
	n := f.Params[1]
	var sp *ssa.Call
	allInstrs(f, func(in ssa.Instruction) {
		if call, ok := in.(*ssa.Call); ok && calleeQ(&call.Call) == "fmt.Sprintf" {
			if _, isConst := constStr(call.Call.Args[0]); !isConst {
				sp = call
			}
		}
	})
	if sp == nil {
		return
	}
	good := false
	for _, el := range c.sliceElemValues(sp.Call.Args[1]) {
		mi, ok := el.(*ssa.MakeInterface)
		if !ok {
			continue
		}
		q, ok := mi.X.(*ssa.BinOp)
		if !ok || q.Op != token.QUO {
			continue
		}
		num, ok1 := q.X.(*ssa.Convert)
		den, ok2 := q.Y.(*ssa.Convert)
		if !ok1 || !ok2 || num.X != ssa.Value(n) {
			continue
		}
		_, p := c.fieldPath(c.resolve(den.X))
		if len(p) > 0 && p[len(p)-1] == "Multiplier" {
			good = true
		}
		if fld, ok := den.X.(*ssa.Field); ok && vname(fieldOfVal(fld).Var) == "Multiplier" {
			good = true
		}
	}
	if good {
		c.hold("C12.mantissa", "single-division", sp.Pos(), "the formatted number is float64(value)/float64(prefix.Multiplier): one rounding before fmt's own")
	} else {
		c.undecided("C12.mantissa", "single-division", sp.Pos(), name, "the number handed to the %.Nf verb is not the single division float64(value)/float64(multiplier of the chosen prefix): a truncated or re-composed mantissa is rounded twice and can be off by more than half a unit in the last digit")
	}
}

// ruleC12WholePart: the whole part that selects the number of decimals is
// value / multiplier of the prefix finally chosen (or the value itself when
// no prefix applies) — not a quantity scaled some other way.
func ruleC12WholePart(c *Ctx) {
	f := c.fn("/counts", "*Humaner", "FormatNumber")
	if f == nil {
		return
	}
	name := fnName(f)
	n := f.Params[1]
	// the value compared with the precision thresholds (constants >= 10)
	var w ssa.Value
	allInstrs(f, func(in ssa.Instruction) {
		cmp, ok := in.(*ssa.BinOp)
		if !ok || (cmp.Op != token.GEQ && cmp.Op != token.GTR && cmp.Op != token.LSS && cmp.Op != token.LEQ) {
			return
		}
		if k, ok := constUint(cmp.Y); ok && k >= 10 {
			if _, isLen := cmp.X.(*ssa.Call); !isLen {
				w = cmp.X
			}
		}
	})
	if w == nil {
		c.notDecided("C12.whole-part", "source", f.Pos(), "no comparison of a whole part with a precision threshold found")
		return
	}
	bad := ""
	seen := map[ssa.Value]bool{}
	var walk func(v ssa.Value)
	walk = func(v ssa.Value) {
		if seen[v] {
			return
		}
		seen[v] = true
		switch x := v.(type) {
		case *ssa.Phi:
			for _, e := range x.Edges {
				walk(e)
			}
		case *ssa.Parameter:
			if x != n {
				bad = "the whole part comes from parameter " + x.Name()
			}
		case *ssa.BinOp:
			okQ := false
			if x.Op == token.QUO && x.X == ssa.Value(n) {
				if _, p := c.fieldPath(c.resolve(x.Y)); len(p) > 0 && p[len(p)-1] == "Multiplier" {
					okQ = true
				}
				if fld, ok := x.Y.(*ssa.Field); ok && vname(fieldOfVal(fld).Var) == "Multiplier" {
					okQ = true
				}
			}
			if !okQ {
				bad = "the whole part is computed as `" + x.String() + "`, not as value / multiplier of a table entry: the number of decimals is chosen from the wrong magnitude (e.g. dividing by 1000 per step is wrong for the 1024-based prefixes)"
			}
		default:
			bad = fmt.Sprintf("the whole part has an unexpected source (%T)", v)
		}
	}
	walk(w)
	if bad == "" {
		c.hold("C12.whole-part", "source", w.Pos(), "the whole part is the value itself or value / Multiplier of a table entry on every path")
	} else {
		c.violate("C12.whole-part", "source", w.Pos(), name, bad)
	}
}

// ruleC12UnitSystem: powers of 1024 for bytes, of 1000 for counts — decided
// per report item: unit "B" <=> counts.Binary.
func ruleC12UnitSystem(c *Ctx) {
	contents := c.fn("/sizes", "*HistorySize", "contents")
	newItem := c.itemCtor()
	if contents == nil || newItem == nil {
		c.violate("C12.unit-system", "contents", token.NoPos, "", "the report's item list builder (contents/newItem) not found")
		return
	}
	humIdx, unitIdx := -1, -1
	for i, p := range newItem.Params {
		if isNamed(p.Type(), modPath+"/counts", "Humaner") || isPtrToNamed(p.Type(), modPath+"/counts", "Humaner") {
			humIdx = i
		}
		if b, ok := p.Type().Underlying().(*types.Basic); ok && b.Kind() == types.String && humIdx >= 0 && unitIdx < 0 {
			unitIdx = i
		}
	}
	if humIdx < 0 || unitIdx < 0 {
		c.violate("C12.unit-system", "newItem", newItem.Pos(), fnName(newItem), "newItem has no (Humaner, unit string) parameters")
		return
	}
	n := 0
	for _, row := range c.itemRows(contents, newItem) {
		sym, _ := constStr(row.Args[0])
		if sym == "" {
			sym = "refgroup"
		}
		unit, okUnit := constStr(row.Args[unitIdx])
		table := ""
		hv := c.resolve(row.Args[humIdx])
		if u, ok := hv.(*ssa.UnOp); ok && u.Op == token.MUL {
			hv = u.X
		}
		// the table itself (a copy of it) or its address
		if g, ok := hv.(*ssa.Global); ok && g.Pkg != nil && g.Pkg.Pkg.Path() == modPath+"/counts" {
			table = g.Name()
		}
		switch {
		case !okUnit || table == "":
			c.undecided("C12.unit-system", sym, row.Pos, fnName(contents), "the unit or the prefix table of item "+sym+" is not a constant / a package-level table of counts")
		case (unit == "B") != (table == "Binary"):
			c.violate("C12.unit-system", sym, row.Pos, fnName(contents), fmt.Sprintf("item %s has unit %q but is rendered with counts.%s: byte quantities need powers of 1024, counts powers of 1000", sym, unit, table))
		default:
			n++
			c.hold("C12.unit-system", sym, row.Pos, fmt.Sprintf("unit %q with counts.%s", unit, table))
		}
	}
	c.Stats["items"] += n
}

// ruleC11ThresholdSource: the threshold the rows are filtered with is the
// one given on the command line whenever an option of the threshold family
// was given (C14.families, reported here under C11's name): otherwise
// `--threshold=1` or `--no-verbose` would filter with gitconfig's value.
func ruleC11ThresholdSource(c *Ctx) {
	c.RuleAlias = map[string]string{"C14.families": "C11.threshold-source", "C14.constants": "C11.threshold-source"}
	defer func() { c.RuleAlias = nil }()
	ruleC14Families(c)
	// --verbose/--critical/--threshold write the threshold the rows are filtered with, in
	// command-line order, with their documented constants
	ruleC14Constants(c)
}

// ruleC12Borrowed: the value column of the table is Humaner.Format's result
// on every path (C11.same-value) and a value is shown as saturated only when
// the counter really is (C05.render) — both are part of "the rendered numeral
// is the value".
func ruleC12Borrowed(c *Ctx) {
	c.RuleAlias = map[string]string{"C11.same-value": "C12.rendered", "C05.render": "C12.rendered"}
	defer func() { c.RuleAlias = nil }()
	ruleC11SameValue(c)
	ruleC05Render(c)
}

// ruleC12EveryReturn: FormatNumber has two ways of producing a numeral, the
// exact integer (multiplier 1) and the mantissa rounded by the precision
// switch; a third path (an "integer fast path" with its own rounding) is
// outside what C12.precision and C12.mantissa decide.
func ruleC12EveryReturn(c *Ctx) {
	f := c.fn("/counts", "*Humaner", "FormatNumber")
	if f == nil {
		return
	}
	n := f.Params[1]
	nRet := 0
	for _, ret := range returnsOf(f) {
		if len(ret.Results) == 0 {
			continue
		}
		nRet++
		exact := guardedBy(ret.Block(), func(cond ssa.Value, truth bool) bool {
			cmp, ok := isCmp(cond, token.EQL, token.NEQ)
			if !ok || (cmp.Op == token.EQL) != truth {
				return false
			}
			k, ok := constUint(cmp.Y)
			return ok && (k == 1 || cmp.X == ssa.Value(n))
		})
		rounded := false
		for _, v := range c.resultValues(ret, 0) {
			if call, ok := c.resolve(v).(*ssa.Call); ok {
				switch calleeQ(&call.Call) {
				case "fmt.Sprintf":
					if _, isConst := constStr(call.Call.Args[0]); !isConst {
						rounded = true
					}
				case "strconv.FormatFloat":
					rounded = true
				}
			}
		}
		if !exact && !rounded {
			c.violate("C12.precision", "every-return@"+c.lineKey(ret), ret.Pos(), fnName(f), "a numeral is produced on a path that is neither the exact integer rendering (multiplier 1) nor the mantissa rounded by the precision switch: its digits and its carry into the next power of ten are decided by code of its own")
		}
	}
	if nRet > 0 && c.seenPrefix("C12.precision", "every-return@") == nil {
		c.hold("C12.precision", "every-return", f.Pos(), fmt.Sprintf("each of the %d returns is the exact integer or the precision-switch rendering of the mantissa", nRet))
	}
}
