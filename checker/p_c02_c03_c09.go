package main

import (
	"fmt"
	"go/token"
	"go/types"
	"sort"
	"strings"

	"golang.org/x/tools/go/ssa"
)

func init() {
	register("C02",
		"Structural necessary conditions of C02 decided from /repo's SSA: (max) AdjustMaxIfNecessary/IfPossible of both counter widths are interpreted over the three orderings of (old,arg) and must leave the larger value stored, return true only if arg>=old and leave the store unchanged when returning false; (effects) max_commit_size, max_parent_count, max_tree_entries and max_blob_size each receive exactly one MAX edge from the quantity the statement names (commit bytes, number of parent headers, per-tree entry counter, size field of the batch header) and nothing else, and the parent list is appended to exactly in the arm of the header literal `parent`; (uncond) each of those MAX updates executes exactly once on every path from the object's registration, so the position of the maximal object in the enumeration is irrelevant. Not decided: nothing numeric beyond the operator semantics.",
		[]string{"field-based heap model", "go/ssa models the source faithfully"},
		ruleC02Max, ruleC02Effects, ruleC02Uncond, ruleC02SizeSource)
	register("C03",
		"Structural necessary conditions of C03 decided from /repo's SSA: (order-flag) rev-list is run with one of --date-order/--topo-order/--author-date-order (no parent before all of its children); (reverse) the commit list is only appended in enumeration order, requested and read back by descending loops, and the reader compares each returned id with the list element of the same index; (no-silent-miss) the lookups of a parent's / tree's size panic when the size is absent instead of returning zero; (effects) per-commit depth = MAX over the parent list (exactly one MAX per parent, operand = the looked-up size of that parent) then +1 exactly once; max_history_depth = MAX of it; per-tag depth starts at 1 and adds the referent's depth only under referent type `tag`, identically in the immediate and the listener branch; max_tag_depth = MAX of it. Not decided: git's ordering guarantee itself, the equality with the longest chain on concrete DAGs.",
		[]string{"git rev-list --date-order/--topo-order/--author-date-order never shows a parent before all of its children", "field-based heap model"},
		ruleC03OrderFlag, ruleC03Reverse, ruleC03NoSilentMiss, ruleC03Effects, ruleC03FinalOnly, ruleC03KnownFinal)
	register("C09",
		"Structural necessary conditions of C09 decided from /repo's SSA: (siblings) at each Require{Tree,Tag}Size call site the size-affecting updates executed when the referent is already known equal, edge by edge and count by count, those executed by the deferred listener; (pending) the branch that registers a listener increments the record's pending counter exactly once and the immediate branch not at all, the listener decrements it exactly once and then calls the maybe-finalize step, initialisation ends in that step on every non-error path, and finalisation happens only under pending==0 followed by notification of every listener; (single-consumer) see C17.confinement. Not decided: invariance under root order, timestamps and storage layout (relations between runs).",
		[]string{"field-based heap model", "listeners are invoked with the final size of the referent (C01.once)"},
		ruleC09Siblings, ruleC09Pending, ruleC09FinalOnly, ruleC09Order, ruleC09Roots, ruleC09PendingWidth, ruleC09Records, ruleC09EffectsBorrowed)
}

// ---------------- C02 ----------------

func ruleC02Effects(c *Ctx) {
	checkEffects(c, "C02", "C02.effects")
	c.checkEntryCountOnce("C02.effects")
	c.checkHeaderAppend("C02.effects", "ParseCommit", "Parents", "parent")
}

// checkHeaderAppend: in git.<parser>, the slice stored into the exported
// field is appended to exactly in the arm of the header-key literal, with
// the id parsed from that header's value.
func (c *Ctx) checkHeaderAppend(rule, parser, field, literal string) {
	f := c.fn("/git", "", parser)
	if f == nil {
		c.violate(rule, parser, token.NoPos, "", "git."+parser+" not found")
		return
	}
	name := fnName(f)
	hnext := c.fn("/git", "*ObjectHeaderIter", "Next")
	var stored ssa.Value
	allInstrs(f, func(in ssa.Instruction) {
		if st, ok := in.(*ssa.Store); ok {
			if fa, ok := st.Addr.(*ssa.FieldAddr); ok && vname(fieldOfAddr(fa).Var) == field && token.IsExported(vname(fieldOfAddr(fa).Var)) {
				stored = st.Val
			}
		}
	})
	if stored == nil {
		c.violate(rule, parser+":"+field, f.Pos(), name, "git."+parser+" does not fill the "+field+" field")
		return
	}
	var appends []*ssa.Call
	seen := map[ssa.Value]bool{}
	var walk func(v ssa.Value)
	walk = func(v ssa.Value) {
		if seen[v] {
			return
		}
		seen[v] = true
		switch x := v.(type) {
		case *ssa.Phi:
			for _, e := range x.Edges {
				walk(e)
			}
		case *ssa.Call:
			if isBuiltin(&x.Call, "append") {
				appends = append(appends, x)
				walk(x.Call.Args[0])
			}
		case *ssa.UnOp:
			if cell := c.cellOf(x.X); cell != nil {
				for _, st := range c.cellStores(cell) {
					walk(st.Val)
				}
			} else if fa, isFA := x.X.(*ssa.FieldAddr); isFA {
				// the list kept in a field of a local accumulator struct
				if sts, ok := c.localFieldStores(fa); ok {
					for _, st := range sts {
						walk(st.Val)
					}
				}
			}
		}
	}
	walk(stored)
	if len(appends) == 0 {
		c.violate(rule, parser+":"+field+":append", f.Pos(), name, "nothing is ever appended to "+field+": no `"+literal+"` header is recorded")
		return
	}
	for _, ap := range appends {
		lit, hcall := c.headerKeyLiteralAt(ap.Block(), hnext)
		if lit != literal {
			c.violate(rule, parser+":"+field+":arm", ap.Pos(), name, fmt.Sprintf("%s is appended to under header key %q instead of %q", field, lit, literal))
			continue
		}
		// element = NewOID(value of the same header)
		okElem := false
		for _, el := range c.sliceElemValues(ap.Call.Args[1]) {
			if ex, ok := c.resolve(el).(*ssa.Extract); ok && ex.Index == 0 {
				if nc, ok := ex.Tuple.(*ssa.Call); ok && calleeQ(&nc.Call) == modQ("/git", "", "NewOID") {
					if v, ok := c.resolve(nc.Call.Args[0]).(*ssa.Extract); ok && v.Tuple == ssa.Value(hcall) && v.Index == 1 {
						okElem = true
					}
				}
			}
		}
		// … and under no further condition: every such header is recorded
		extra := ""
		l := innermostLoop(loopsOf(f), ap.Block())
		for _, fct := range factsAt(ap.Block()) {
			if l == nil || !l.Blocks[fct.If.Block()] || fct.If.Block() == l.Head {
				continue
			}
			cond, truth := normCond(fct.Cond, fct.Truth)
			if ex, ok := cond.(*ssa.Extract); ok && truth && hcall != nil && ex.Tuple == ssa.Value(hcall) && isBoolType(ex.Type()) {
				// the iterator's own "there was a header" result, whose
				// negation leaves the loop
				leaves := false
				for _, s := range fct.If.Block().Succs {
					if !l.Blocks[s] {
						leaves = true
					}
				}
				if leaves {
					continue
				}
			}
			if cmp, ok := cond.(*ssa.BinOp); ok {
				if _, isLit := constStr(cmp.Y); isLit {
					continue // header-key comparisons of the switch
				}
				if _, isLit := constStr(cmp.X); isLit {
					continue
				}
				if (isNilConst(cmp.Y) || isNilConst(cmp.X)) && (isErrorType(cmp.X.Type()) || isErrorType(cmp.Y.Type())) {
					continue // err != nil tests
				}
			}
			extra = strings.TrimSpace(cond.String())
		}
		if extra != "" {
			c.violate(rule, parser+":"+field+":every", ap.Pos(), name, fmt.Sprintf("whether a `%s` header is recorded depends on a further condition (%s): the count of %s would not be the number of such headers", literal, extra, field))
			continue
		}
		if okElem {
			c.hold(rule, parser+":"+field+":arm", ap.Pos(), fmt.Sprintf("one element per `%s` header, parsed from that header's value", literal))
		} else {
			c.violate(rule, parser+":"+field+":value", ap.Pos(), name, "the element appended is not the object id parsed from the value of the `"+literal+"` header just read")
		}
	}
}

// headerKeyLiteralAt: the literal L such that `key == L` is known at b,
// where key is result #0 of an ObjectHeaderIter.Next call.
func (c *Ctx) headerKeyLiteralAt(b *ssa.BasicBlock, hnext *ssa.Function) (string, *ssa.Call) {
	for _, f := range factsAt(b) {
		cond, truth := normCond(f.Cond, f.Truth)
		cmp, ok := isCmp(cond, token.EQL, token.NEQ)
		if !ok || (cmp.Op == token.EQL) != truth {
			continue
		}
		lit, ok := constStr(cmp.Y)
		val := cmp.X
		if !ok {
			lit, ok = constStr(cmp.X)
			val = cmp.Y
		}
		if !ok {
			continue
		}
		if ex, ok := c.resolve(val).(*ssa.Extract); ok && ex.Index == 0 {
			if call, ok := ex.Tuple.(*ssa.Call); ok && hnext != nil && call.Call.StaticCallee() == hnext {
				return lit, call
			}
		}
	}
	return "", nil
}

func ruleC02Uncond(c *Ctx) {
	e := c.effects()
	for _, row := range effectOracle {
		if row.Prop != "C02" {
			continue
		}
		for _, ed := range e.ByNode[row.Target] {
			c.checkUnconditional("C02.uncond", row.Target, ed)
		}
	}
	c.floor("C02.uncond", 4, "single-object maxima")
}

// ---------------- C03 ----------------

func ruleC03OrderFlag(c *Ctx) {
	sites := c.gitSites("rev-list")
	if len(sites) != 1 {
		c.violate("C03.order-flag", "rev-list:sites", token.NoPos, "", fmt.Sprintf("expected one rev-list site, found %d", len(sites)))
		return
	}
	s := sites[0]
	var flags []string
	for _, a := range s.Argv {
		switch a {
		case "--date-order", "--topo-order", "--author-date-order":
			flags = append(flags, a)
		case "--reverse":
			c.violate("C03.order-flag", "rev-list:--reverse", s.Call.Pos(), fnName(s.Fn), "--reverse flips the enumeration the descending loops rely on")
		}
	}
	if len(flags) == 0 {
		c.violate("C03.order-flag", "rev-list:order", s.Call.Pos(), fnName(s.Fn), "rev-list is run without --date-order/--topo-order/--author-date-order: with skewed timestamps a parent can be listed before its child and depths are computed from missing parents", "argv: "+strings.Join(s.Argv, " "))
		return
	}
	c.hold("C03.order-flag", "rev-list:order", s.Call.Pos(), "ordering flag "+strings.Join(flags, " "))
}

func ruleC03Reverse(c *Ctx) {
	si := c.scanModel()
	if si.Fn == nil || si.HeaderLoop == nil {
		c.violate("C03.reverse", "scan", token.NoPos, "", "cannot identify the scanner: "+strings.Join(si.Problems, "; "))
		return
	}
	name := fnName(si.Fn)
	var cl *listInfo
	for _, li := range si.Lists {
		if li.Literal == "commit" {
			cl = li
		}
	}
	if cl == nil {
		c.violate("C03.reverse", "commit-list", si.NextCall.Pos(), name, "no list collects the commit headers")
		return
	}
	// append-only
	stores := c.listDefs(cl.Var)
	if len(stores) == 1 && stores[0] == cl.Append {
		c.hold("C03.reverse", "append-only", cl.Append.Pos(), "the commit list is written only by the append in the header loop")
	} else {
		for _, st := range stores {
			if st != cl.Append {
				c.violate("C03.reverse", "append-only", st.Pos(), fnName(st.Parent()), "the commit list is rewritten outside the enumeration-order append")
			}
		}
	}
	if len(cl.FeedLoops) != 1 || len(cl.ReadLoops) != 1 {
		c.violate("C03.reverse", "loops", cl.Append.Pos(), name, fmt.Sprintf("expected one request loop and one read loop over the commit list, found %d and %d", len(cl.FeedLoops), len(cl.ReadLoops)))
		return
	}
	fl, rl := cl.FeedLoops[0], cl.ReadLoops[0]
	if fl.Desc() {
		c.hold("C03.reverse", "request-descending", posOf(fl.L.Head.Instrs[0]), "commits are requested from the end of the list (parents before children)")
	} else {
		c.violate("C03.reverse", "request-descending", posOf(fl.L.Head.Instrs[0]), fnName(fl.Fn), "commits are requested in enumeration order: children would be processed before their parents")
	}
	if rl.Desc() {
		c.hold("C03.reverse", "read-descending", posOf(rl.L.Head.Instrs[0]), "commits are read back from the end of the list")
	} else {
		c.violate("C03.reverse", "read-descending", posOf(rl.L.Head.Instrs[0]), name, "commits are read back in enumeration order while being requested in reverse")
	}
	// order cross-check: a panic/err block guarded by returned-oid != list[idx].oid
	batchNext := c.fn("/git", "*BatchObjectIter", "Next")
	found := false
	for _, b := range si.Fn.Blocks {
		if !endsInPanic(b) || !rl.L.Head.Dominates(b) || b.Idom() == nil || !rl.L.Blocks[b.Idom()] {
			continue
		}
		for _, f := range factsAt(b) {
			cond, truth := normCond(f.Cond, f.Truth)
			cmp, ok := isCmp(cond, token.EQL, token.NEQ)
			if !ok || (cmp.Op == token.NEQ) != truth {
				continue
			}
			for _, pair := range [][2]ssa.Value{{cmp.X, cmp.Y}, {cmp.Y, cmp.X}} {
				rb, rp := c.fieldPath(c.resolve(pair[0]))
				eb, ep := c.fieldPath(c.resolve(pair[1]))
				if rb == nil || eb == nil || rp[len(rp)-1] != "OID" || len(ep) == 0 {
					continue
				}
				fromNext := false
				for _, nx := range callsTo(si.Fn, batchNext) {
					if c.holdsResult(rb, nx, 0) {
						fromNext = true
					}
				}
				if fromNext && c.isLoopElement(eb, rl) {
					found = true
				}
			}
		}
	}
	if found {
		c.hold("C03.reverse", "order-crosscheck", posOf(rl.L.Head.Instrs[0]), "the reader panics unless the returned id equals the list element at the loop's own index")
	} else {
		c.violate("C03.reverse", "order-crosscheck", posOf(rl.L.Head.Instrs[0]), name, "the commit reader no longer checks the returned id against the list element of the same index: a request/read order mismatch would go unnoticed")
	}
}

func ruleC03NoSilentMiss(c *Ctx) {
	for _, m := range []string{"GetCommitSize", "GetTreeSize", "GetBlobSize"} {
		f := c.fn("/sizes", "*Graph", m)
		if f == nil {
			c.violate("C03.no-silent-miss", m, token.NoPos, "", "(*sizes.Graph)."+m+" not found")
			continue
		}
		var lookups []*ssa.Lookup
		allInstrs(f, func(in ssa.Instruction) {
			if lk, ok := in.(*ssa.Lookup); ok && lk.CommaOk {
				lookups = append(lookups, lk)
			}
		})
		if len(lookups) != 1 {
			c.undecided("C03.no-silent-miss", m, f.Pos(), fnName(f), fmt.Sprintf("expected one comma-ok map lookup, found %d", len(lookups)))
			continue
		}
		bad := false
		for _, ret := range returnsOf(f) {
			okKnown := guardedBy(ret.Block(), func(cond ssa.Value, truth bool) bool {
				ex, ok := cond.(*ssa.Extract)
				return ok && truth && ex.Index == 1 && ex.Tuple == ssa.Value(lookups[0])
			})
			if !okKnown {
				bad = true
				c.violate("C03.no-silent-miss", m, ret.Pos(), fnName(f), m+" can return normally when the object's size is not present: a mis-ordered history would silently shorten a chain / undercount instead of failing")
			}
		}
		if !bad {
			c.hold("C03.no-silent-miss", m, f.Pos(), "returns only on the found edge; the miss edge panics")
		}
	}
}

func ruleC03Effects(c *Ctx) {
	checkEffects(c, "C03", "C03.effects")
	e := c.effects()
	// per-parent MAX inside a loop over commit.Parents; +1 once per call
	reg := c.fn("/sizes", "*Graph", "RegisterCommit")
	getCS := c.fn("/sizes", "*Graph", "GetCommitSize")
	if reg == nil {
		c.violate("C03.effects", "RegisterCommit", token.NoPos, "", "(*sizes.Graph).RegisterCommit not found")
		return
	}
	isDepthMax := func(ed *effEdge) bool { return ed.Target == "C:max_ancestor_depth" && ed.Op == "MAX" }
	isDepthInc := func(ed *effEdge) bool {
		return ed.Target == "C:max_ancestor_depth" && ed.Op == "ADD" && termsKey(ed.Terms) == "const:1"
	}
	var parentLoop *loop
	for _, l := range loopsOf(reg) {
		sl := c.rangeOverField(reg, l, "Parents")
		if sl {
			parentLoop = l
		}
	}
	if parentLoop == nil {
		c.violate("C03.effects", "parent-loop", reg.Pos(), fnName(reg), "RegisterCommit has no loop over the commit's parent list")
	} else {
		ec := c.effectCounter(isDepthMax, false)
		r := ec.perIteration(parentLoop)
		if r.Min == 0 && r.Max == 1 {
			// a hand-written maximum stores only when the parent is deeper:
			// what happens once per parent is the comparison
			guards := map[ssa.Instruction]bool{}
			all := true
			for _, ed := range e.Edges {
				if isDepthMax(ed) && ed.Site != nil && parentLoop.Blocks[ed.Site.Block()] {
					if ed.Guard == nil {
						all = false
					} else {
						guards[ed.Guard] = true
					}
				}
			}
			if all && len(guards) > 0 {
				r = c.newEventCounter(func(in ssa.Instruction) int {
					if guards[in] {
						return 1
					}
					return 0
				}, false).perIteration(parentLoop)
			}
		}
		if r.Min == 1 && r.Max == 1 {
			c.hold("C03.effects", "per-parent-max", posOf(parentLoop.Head.Instrs[0]), "exactly one depth MAX per parent")
		} else {
			c.violate("C03.effects", "per-parent-max", posOf(parentLoop.Head.Instrs[0]), fnName(reg), fmt.Sprintf("the depth maximum is updated between %d and %d times per parent (must be exactly once)", r.Min, r.Max))
		}
		// operand provenance: the size combined is GetCommitSize(<this parent>)
		okProv := false
		for b := range parentLoop.Blocks {
			for _, in := range b.Instrs {
				call, ok := in.(*ssa.Call)
				if !ok || getCS == nil || call.Call.StaticCallee() != getCS {
					continue
				}
				if u, ok := c.resolve(call.Call.Args[1]).(*ssa.UnOp); ok {
					if ia, ok := u.X.(*ssa.IndexAddr); ok {
						if b, p := c.fieldPath(c.resolve(ia.X)); b != nil && p[len(p)-1] == "Parents" {
							okProv = true
						}
					}
				}
			}
		}
		if okProv {
			c.hold("C03.effects", "parent-lookup", posOf(parentLoop.Head.Instrs[0]), "the size combined is looked up for the parent of this iteration")
		} else {
			c.violate("C03.effects", "parent-lookup", posOf(parentLoop.Head.Instrs[0]), fnName(reg), "the parent loop does not look up the size of the parent it iterates over")
		}
		// no depth MAX outside the loop
		ecAll := c.effectCounter(isDepthMax, false)
		total := ecAll.function(reg)
		if total.Min != 0 && total.Min != total.Max {
			// handled by perIteration; nothing
		}
	}
	ecInc := c.effectCounter(isDepthInc, false)
	if r := ecInc.function(reg); r.Min == 1 && r.Max == 1 {
		c.hold("C03.effects", "plus-one-once", reg.Pos(), "the commit itself is added to its depth exactly once on every path")
	} else {
		c.violate("C03.effects", "plus-one-once", reg.Pos(), fnName(reg), fmt.Sprintf("`depth += 1` executes between %d and %d times per registered commit", r.Min, r.Max))
	}
	// the +1 comes after the parent loop (MAX then ADD, not ADD then MAX)
	if parentLoop != nil {
		for _, ed := range e.ByNode["C:max_ancestor_depth"] {
			if isDepthInc(ed) && ed.Fn == reg {
				if parentLoop.Blocks[ed.Site.Block()] || !parentLoop.Head.Dominates(ed.Site.Block()) {
					c.violate("C03.effects", "plus-one-after-parents", posOf(ed.Site), fnName(reg), "the +1 is applied before or inside the parent loop: depth would not be 1 + max(parents)")
				} else {
					c.hold("C03.effects", "plus-one-after-parents", posOf(ed.Site), "+1 is applied after all parents were combined")
				}
			}
		}
	}
	// the published commit size is stored after both
	c.checkUnconditional("C03.effects", "H:max_history_depth:uncond", e.firstEdge("H:max_history_depth"))
	if ed := e.firstEdge("H:max_tag_depth"); ed != nil {
		c.checkUnconditional("C03.effects", "H:max_tag_depth:uncond", ed)
	}
	// tag depth additions only for referent type "tag"
	roles, _ := e.bindRoles()
	g := roles["$G"]
	n := 0
	for _, ed := range e.ByNode[g] {
		if ed.Op != "ADD" {
			continue
		}
		n++
		site := ed.Site
		blk := site.Block()
		if ed.Fn.Parent() != nil {
			// listener closure: the guard is at its creation site
			for _, mc := range c.ClosureSites[ed.Fn] {
				blk = mc.Block()
			}
		}
		if c.referentTypeLiteralAt(blk) == "tag" {
			c.hold("C03.effects", "tag-add-guard@"+fnName(ed.Fn), posOf(site), "referent depth is added only when the referent type is `tag`")
		} else {
			c.violate("C03.effects", "tag-add-guard@"+fnName(ed.Fn), posOf(site), fnName(ed.Fn), "a referent's depth is added without the referent type being `tag`")
		}
	}
	if n < 2 {
		c.violate("C03.effects", "tag-add-sites", token.NoPos, "", fmt.Sprintf("tag depth is extended at %d site(s); both delivery orders (referent known / unknown) must add the referent's depth", n))
	}
}

func (e *effects) firstEdge(node string) *effEdge {
	eds := e.ByNode[node]
	if len(eds) == 0 {
		return &effEdge{Target: node, Op: "none", Fn: nil}
	}
	return eds[0]
}

// rangeOverField: l is a range loop over a load of field `field`.
func (c *Ctx) rangeOverField(f *ssa.Function, l *loop, field string) bool {
	head := l.Head
	iff, ok := head.Instrs[len(head.Instrs)-1].(*ssa.If)
	if !ok {
		return false
	}
	cmp, ok := iff.Cond.(*ssa.BinOp)
	if !ok || cmp.Op != token.LSS {
		return false
	}
	call, ok := cmp.Y.(*ssa.Call)
	if !ok || !isBuiltin(&call.Call, "len") {
		return false
	}
	_, p := c.fieldPath(c.resolve(call.Call.Args[0]))
	return len(p) > 0 && p[len(p)-1] == field
}

// referentTypeLiteralAt: literal L with `tag.ReferentType == L` known at b.
func (c *Ctx) referentTypeLiteralAt(b *ssa.BasicBlock) string {
	for _, f := range factsAt(b) {
		cond, truth := normCond(f.Cond, f.Truth)
		cmp, ok := isCmp(cond, token.EQL, token.NEQ)
		if !ok || (cmp.Op == token.EQL) != truth {
			continue
		}
		lit, ok := constStr(cmp.Y)
		val := cmp.X
		if !ok {
			lit, ok = constStr(cmp.X)
			val = cmp.Y
		}
		if !ok {
			continue
		}
		if _, p := c.fieldPath(c.resolve(val)); len(p) > 0 && p[len(p)-1] == "ReferentType" {
			return lit
		}
	}
	return ""
}

// ---------------- C09 ----------------

func ruleC09Siblings(c *Ctx) {
	sites := c.requireSites()
	e := c.effects()
	if len(sites) < 2 {
		c.violate("C09.siblings", "sites", token.NoPos, "", fmt.Sprintf("expected the tree and the tag Require*Size call sites, found %d", len(sites)))
	}
	for _, rs := range sites {
		key := rs.Kind + "@" + fnName(rs.Fn)
		if rs.Listener == nil || rs.OkIf == nil {
			c.undecided("C09.siblings", key, rs.Call.Pos(), fnName(rs.Fn), "cannot identify the listener closure or the known/unknown branch of this Require*Size call")
			continue
		}
		// all edge keys that either side may execute (the maybe-finalize
		// step is common to both delivery orders and not descended into)
		mfSkip := c.maybeFinalizeFns()
		keys := map[string]bool{}
		collect := func(fn *ssa.Function, blocks func(*ssa.BasicBlock) bool) {
			var visit func(f *ssa.Function, depth int, all bool)
			seenF := map[*ssa.Function]bool{}
			visit = func(f *ssa.Function, depth int, all bool) {
				if seenF[f] || depth > 6 {
					return
				}
				seenF[f] = true
				for _, b := range f.Blocks {
					if !all && !blocks(b) {
						continue
					}
					for _, in := range b.Instrs {
						for _, ed := range e.AllBySite[in] {
							if ed.Counter {
								keys[ed.Key()] = true
							}
						}
						if call, ok := in.(*ssa.Call); ok {
							if cal := call.Call.StaticCallee(); cal != nil && c.inRuleScope(cal) && len(cal.Blocks) > 0 && !mfSkip[cal] {
								visit(cal, depth+1, true)
							}
						}
					}
				}
			}
			visit(fn, 0, false)
		}
		immDom := func(b *ssa.BasicBlock) bool { return !rs.ImmEmpty && rs.ImmBlock.Dominates(b) }
		collect(rs.Fn, immDom)
		collect(rs.Listener, func(*ssa.BasicBlock) bool { return true })
		var klist []string
		for k := range keys {
			klist = append(klist, k)
		}
		sort.Strings(klist)
		good := true
		for _, k := range klist {
			k := k
			pred := func(ed *effEdge) bool { return ed.Key() == k }
			ecI := c.effectCounter(pred, false)
			var imm countRange
			if !rs.ImmEmpty {
				imm = ecI.region(rs.ImmBlock, 0, branchRegionEnds(rs.ImmBlock), nil)
			}
			ecL := c.effectCounter(pred, false)
			lis := ecL.function(rs.Listener)
			if imm != lis {
				good = false
				c.violate("C09.siblings", key+":"+k, rs.Call.Pos(), fnName(rs.Fn), fmt.Sprintf("update `%s` executes %s times when the referent is already known but %s times in the deferred listener: the result depends on delivery order", k, rangeStr(imm), rangeStr(lis)))
			}
		}
		if len(klist) == 0 {
			good = false
			c.violate("C09.siblings", key+":empty", rs.Call.Pos(), fnName(rs.Fn), "neither the immediate branch nor the listener combines the referent's size")
		}
		if good {
			c.hold("C09.siblings", key, rs.Call.Pos(), fmt.Sprintf("immediate branch and listener execute the same %d update edge(s), once each: %s", len(klist), strings.Join(klist, " ; ")))
			c.sample(map[string]interface{}{"require_site": c.pos(rs.Call.Pos()), "listener": fnName(rs.Listener), "edges": klist})
		}
	}
}

func rangeStr(r countRange) string {
	if r.Min == r.Max {
		return fmt.Sprint(r.Min)
	}
	mx := fmt.Sprint(r.Max)
	if r.Max >= unbounded {
		mx = "∞"
	}
	return fmt.Sprintf("%d..%s", r.Min, mx)
}

func ruleC09Pending(c *Ctx) {
	pv := c.pendingVars()
	if len(pv) < 2 {
		c.violate("C09.pending", "pending-fields", token.NoPos, "", fmt.Sprintf("expected a pending counter guarding each of the tree and tag finalizers, found %d", len(pv)))
	}
	// classify stores to pending fields: +1 / -1 / const
	delta := func(in ssa.Instruction) (int64, bool) {
		st, ok := in.(*ssa.Store)
		if !ok {
			return 0, false
		}
		fa, ok := st.Addr.(*ssa.FieldAddr)
		if !ok || !pv[fieldOfAddr(fa).Var] {
			return 0, false
		}
		bo, ok := st.Val.(*ssa.BinOp)
		if !ok {
			return 0, false
		}
		u, ok := bo.X.(*ssa.UnOp)
		if !ok {
			return 0, false
		}
		fa2, ok := u.X.(*ssa.FieldAddr)
		if !ok || fieldOfAddr(fa2).Var != fieldOfAddr(fa).Var {
			return 0, false
		}
		n, ok := constInt(bo.Y)
		if !ok {
			return 0, false
		}
		if bo.Op == token.SUB {
			n = -n
		} else if bo.Op != token.ADD {
			return 0, false
		}
		return n, true
	}
	counter := func(want int64) *eventCounter {
		return c.newEventCounter(func(in ssa.Instruction) int {
			if d, ok := delta(in); ok && d == want {
				return 1
			}
			return 0
		}, false)
	}
	anyDelta := c.newEventCounter(func(in ssa.Instruction) int {
		if _, ok := delta(in); ok {
			return 1
		}
		return 0
	}, false)
	for _, rs := range c.requireSites() {
		key := rs.Kind + "@" + fnName(rs.Fn)
		if rs.OkIf == nil || rs.Listener == nil {
			continue
		}
		// pending branch: exactly one +1
		var pend, imm countRange
		if !rs.PendEmpty {
			pend = counter(1).region(rs.PendBlock, 0, branchRegionEnds(rs.PendBlock), nil)
		}
		if !rs.ImmEmpty {
			imm = anyDelta.region(rs.ImmBlock, 0, branchRegionEnds(rs.ImmBlock), nil)
		}
		if pend.Min == 1 && pend.Max == 1 && imm.Max == 0 {
			c.hold("C09.pending", key+":increment", rs.Call.Pos(), "pending += 1 exactly once when a listener is registered, untouched when the size is already known")
		} else {
			c.violate("C09.pending", key+":increment", rs.Call.Pos(), fnName(rs.Fn), fmt.Sprintf("pending is incremented %s times on the listener-registered branch and changed %s times on the already-known branch (must be 1 and 0)", rangeStr(pend), rangeStr(imm)))
		}
		// listener: exactly one -1, then maybe-finalize
		dec := counter(-1).function(rs.Listener)
		inc := counter(1).function(rs.Listener)
		if dec.Min == 1 && dec.Max == 1 && inc.Max == 0 {
			c.hold("C09.pending", key+":decrement", rs.Listener.Pos(), "the listener decrements pending exactly once")
		} else {
			c.violate("C09.pending", key+":decrement", rs.Listener.Pos(), fnName(rs.Listener), fmt.Sprintf("the listener decrements pending %s times and increments it %s times (must be 1 and 0)", rangeStr(dec), rangeStr(inc)))
		}
		// after the decrement, a call to the function that holds the guarded finalizer call
		mf := c.maybeFinalizeFns()
		okAfter := false
		var decInstr ssa.Instruction
		allInstrs(rs.Listener, func(in ssa.Instruction) {
			if d, ok := delta(in); ok && d == -1 {
				decInstr = in
			}
		})
		if decInstr != nil {
			allInstrs(rs.Listener, func(in ssa.Instruction) {
				if c.isFinalizeStep(in) && instrDominates(decInstr, in) {
					okAfter = true
				}
			})
		}
		if okAfter {
			c.hold("C09.pending", key+":listener-finalize", rs.Listener.Pos(), "the listener re-evaluates finalisation after its decrement")
		} else {
			c.violate("C09.pending", key+":listener-finalize", rs.Listener.Pos(), fnName(rs.Listener), "the listener does not call the maybe-finalize step after decrementing pending: the record would never complete")
		}
		// the size-affecting updates in the listener precede the maybe-finalize call (size is final when published)
		e := c.effects()
		allInstrs(rs.Listener, func(in ssa.Instruction) {
			if !c.isFinalizeStep(in) {
				return
			}
			call := in
			allInstrs(rs.Listener, func(in2 ssa.Instruction) {
				if in2 == call || (in2.Block() != call.Block() && call.Block().Dominates(in2.Block())) {
					return // the step itself and what it guards
				}
				ec := c.effectCounter(func(ed *effEdge) bool { return ed.Counter }, false)
				if r := ec.instr(in2); r.Max > 0 || (e.BySite[in2] != nil && e.BySite[in2].Counter) {
					if !instrDominates(in2, call) {
						c.violate("C09.pending", key+":update-before-finalize", posOf(in2), fnName(rs.Listener), "a size update in the listener happens after the finalisation step: the published size would miss it")
					}
				}
			})
		})
		// initialisation function ends in maybe-finalize on all non-error paths
		init := rs.Fn
		ecMF := c.newEventCounter(func(in ssa.Instruction) int {
			if c.isFinalizeStep(in) {
				return 1
			}
			return 0
		}, false)
		c.checkEndsInFinalize(init, ecMF, mf, key)
	}
	// maybe-finalize: finalizer call then listener notification, both under pending==0
	for fn := range c.finalizeHosts() {
		var finCall ssa.Instruction
		fins := c.finalizers()
		allInstrs(fn, func(in ssa.Instruction) {
			if call, ok := in.(*ssa.Call); ok {
				for _, f := range fins {
					if call.Call.StaticCallee() == f {
						finCall = call
					}
				}
			}
		})
		// a loop over the listeners that calls each one, dominated by the guard
		notified := false
		for _, l := range loopsOf(fn) {
			if !c.rangeOverFieldType(l, "listeners") {
				continue
			}
			for b := range l.Blocks {
				for _, in := range b.Instrs {
					if call, ok := in.(*ssa.Call); ok && call.Call.StaticCallee() == nil && !call.Call.IsInvoke() {
						if c.isPendingZeroGuarded(call.Block()) && finCall != nil && instrDominates(finCall, call) {
							notified = true
						}
					}
				}
			}
		}
		if notified {
			c.hold("C09.pending", "notify@"+fnName(fn), fn.Pos(), "under pending==0: publish the final size, then call every registered listener")
		} else {
			c.violate("C09.pending", "notify@"+fnName(fn), fn.Pos(), fnName(fn), "the finalisation step does not call every registered listener after publishing the size (under pending==0): dependants delivered earlier would wait forever")
		}
	}
}

// finalizeHosts: functions containing a pending==0-guarded finalizer call.
func (c *Ctx) finalizeHosts() map[*ssa.Function]bool {
	out := map[*ssa.Function]bool{}
	for _, fin := range c.finalizers() {
		for _, ci := range c.Callers[fin] {
			if c.isPendingZeroGuarded(ci.Block()) {
				out[ci.Parent()] = true
			}
		}
	}
	return out
}

// maybeFinalizeFns: the functions event counting does not descend into
// because they are the finalisation step common to both delivery orders:
// dedicated maybe-finalize functions (hosts that are neither a record
// initialiser nor a listener) and the finalizers themselves (reached only
// through a pending==0 guard, wherever that guard is written).
func (c *Ctx) maybeFinalizeFns() map[*ssa.Function]bool {
	if v, ok := c.memo["mffns"]; ok {
		return v.(map[*ssa.Function]bool)
	}
	out := map[*ssa.Function]bool{}
	c.memo["mffns"] = out
	inline := map[*ssa.Function]bool{}
	for _, rs := range c.requireSites() {
		inline[rs.Fn] = true
		if rs.Listener != nil {
			inline[rs.Listener] = true
		}
	}
	for h := range c.finalizeHosts() {
		if !inline[h] {
			out[h] = true
		}
	}
	for _, fin := range c.finalizers() {
		out[fin] = true
	}
	return out
}

// isFinalizeStep: in is the finalisation step — a call of a maybe-finalize
// function, or the `if pending == 0` test that guards an inline finalizer call.
func (c *Ctx) isFinalizeStep(in ssa.Instruction) bool {
	if call, ok := in.(*ssa.Call); ok {
		cal := call.Call.StaticCallee()
		if cal == nil {
			return false
		}
		for _, fin := range c.finalizers() {
			if cal == fin {
				return false // the finalizer itself is not the step; its guard is
			}
		}
		return c.maybeFinalizeFns()[cal]
	}
	iff, ok := in.(*ssa.If)
	if !ok {
		return false
	}
	b := iff.Block()
	for _, fin := range c.finalizers() {
		for _, ci := range c.Callers[fin] {
			if ci.Parent() != b.Parent() || !c.isPendingZeroGuarded(ci.Block()) {
				continue
			}
			// is this If the guard of that call?
			for _, f := range factsAt(ci.Block()) {
				if f.If == iff {
					cond, truth := normCond(f.Cond, f.Truth)
					if cmp, ok := isCmp(cond, token.EQL, token.NEQ); ok && (cmp.Op == token.EQL) == truth {
						if n, isZero := constInt(cmp.Y); isZero && n == 0 {
							return true
						}
					}
				}
			}
		}
	}
	return false
}

func (c *Ctx) rangeOverFieldType(l *loop, hint string) bool {
	head := l.Head
	iff, ok := head.Instrs[len(head.Instrs)-1].(*ssa.If)
	if !ok {
		return false
	}
	cmp, ok := iff.Cond.(*ssa.BinOp)
	if !ok || cmp.Op != token.LSS {
		return false
	}
	call, ok := cmp.Y.(*ssa.Call)
	if !ok || !isBuiltin(&call.Call, "len") {
		return false
	}
	// a slice of func values held in a field of the record
	_, p := c.fieldPath(c.resolve(call.Call.Args[0]))
	return len(p) > 0
}

func (c *Ctx) checkEndsInFinalize(init *ssa.Function, ec *eventCounter, mf map[*ssa.Function]bool, key string) {
	// every return whose error result is nil (or which has no results) must be preceded by a maybe-finalize call on all paths
	bad := false
	for _, ret := range returnsOf(init) {
		isErr := false
		for i := range ret.Results {
			if isErrorType(init.Signature.Results().At(i).Type()) {
				for _, v := range c.resultValues(ret, i) {
					if !isNilConst(v) {
						isErr = true
					}
				}
			}
		}
		if isErr {
			continue
		}
		r := ec.region(init.Blocks[0], 0, map[*ssa.BasicBlock]bool{ret.Block(): true}, nil)
		if r.Min < 1 {
			bad = true
			c.violate("C09.pending", key+":init-finalize", ret.Pos(), fnName(init), "a success return of the record initialiser is reachable without the maybe-finalize step: a tree/tag with no pending dependency would never be counted")
		}
	}
	if !bad {
		c.hold("C09.pending", key+":init-finalize", init.Pos(), "every success path of the initialiser passes through the maybe-finalize step")
	}
}

// ruleC09FinalOnly: a quantity that deferred listeners still change may be
// folded into the history-wide metrics only by the finalisation path
// (behind the pending==0 guard), never while dependencies are outstanding.
func ruleC09FinalOnly(c *Ctx) { finalOnly(c, "C09.final-only", nil, 8) }

// the same clause restricted to the tag-depth metric (C03) and to the
// checkout maxima (C04)
func ruleC03FinalOnly(c *Ctx) {
	finalOnly(c, "C03.final-only", map[string]bool{"H:max_tag_depth": true}, 1)
}

func ruleC04FinalOnly(c *Ctx) {
	finalOnly(c, "C04.final-only", map[string]bool{"H:max_path_depth": true, "H:max_path_length": true, "H:max_expanded_tree_count": true, "H:max_expanded_blob_count": true, "H:max_expanded_blob_size": true, "H:max_expanded_link_count": true, "H:max_expanded_submodule_count": true}, 7)
}

func finalOnly(c *Ctx, rule string, only map[string]bool, floor int) {
	e := c.effects()
	// D: nodes updated from inside listener closures (directly or through callees)
	D := map[string]bool{}
	for _, rs := range c.requireSites() {
		if rs.Listener == nil {
			continue
		}
		seen := map[*ssa.Function]bool{}
		var visit func(f *ssa.Function, depth int)
		mf := c.maybeFinalizeFns()
		visit = func(f *ssa.Function, depth int) {
			if seen[f] || depth > 6 {
				return
			}
			seen[f] = true
			allInstrs(f, func(in ssa.Instruction) {
				for _, ed := range e.AllBySite[in] {
					if ed.Counter {
						D[ed.Target] = true
					}
				}
				if call, ok := in.(*ssa.Call); ok {
					if cal := call.Call.StaticCallee(); cal != nil && c.inRuleScope(cal) && len(cal.Blocks) > 0 && !mf[cal] {
						visit(cal, depth+1)
					}
				}
			})
		}
		visit(rs.Listener, 0)
	}
	if len(D) == 0 {
		c.violate(rule, "deferred-nodes", token.NoPos, "", "no quantity is updated by a deferred listener")
		return
	}
	n := 0
	for _, ed := range e.Edges {
		if !strings.HasPrefix(ed.Target, "H:") || (only != nil && !only[ed.Target]) {
			continue
		}
		dep := ""
		for _, t := range ed.Terms {
			for _, a := range t.atoms() {
				if D[a] {
					dep = a
				}
			}
		}
		if dep == "" {
			continue
		}
		n++
		var chain []string
		// every caller chain must pass a pending==0 guard
		var allGuarded func(f *ssa.Function, at ssa.Instruction, depth int) bool
		allGuarded = func(f *ssa.Function, at ssa.Instruction, depth int) bool {
			chain = append(chain, fnName(f))
			if c.isPendingZeroGuarded(at.Block()) {
				return true
			}
			callers := c.Callers[f]
			if len(callers) == 0 || depth >= 8 {
				return false
			}
			for _, cal := range callers {
				if !allGuarded(cal.Parent(), cal, depth+1) {
					return false
				}
			}
			return true
		}
		guarded := allGuarded(ed.Fn, ed.Site, 0)
		chain = uniq(chain)
		if guarded {
			c.hold(rule, ed.Target, posOf(ed.Site), fmt.Sprintf("%s is folded in only behind the pending==0 guard (%s)", dep, strings.Join(chain, " <- ")))
		} else {
			c.violate(rule, ed.Target, posOf(ed.Site), fnName(ed.Fn), fmt.Sprintf("`%s` reads %s, which deferred listeners still change, on a path that does not pass the pending==0 guard (%s): when the referent is delivered later the metric is computed from a partial value", ed.Key(), dep, strings.Join(chain, " <- ")))
		}
	}
	if n < floor {
		c.violate(rule, "floor", token.NoPos, "", fmt.Sprintf("only %d history-wide updates read listener-dependent quantities (reference tree: %d)", n, floor))
	}
}

// ruleC09Order: independence from commit timestamps needs the ordering
// flag and the reverse processing of C03, reported under C09's name.
func ruleC09Order(c *Ctx) {
	c.RuleAlias = map[string]string{"C03.order-flag": "C09.order-flag", "C03.reverse": "C09.reverse", "C03.no-silent-miss": "C09.no-silent-miss"}
	defer func() { c.RuleAlias = nil }()
	ruleC03OrderFlag(c)
	ruleC03Reverse(c)
	ruleC03NoSilentMiss(c)
}

// ruleC09Roots: independence from the order of the roots needs every walked
// root to be fed, whatever precedes it (C01.roots, reported under C09's name).
func ruleC09Roots(c *Ctx) {
	c.RuleAlias = map[string]string{"C01.roots": "C09.roots"}
	defer func() { c.RuleAlias = nil }()
	ruleC01Roots(c)
}

// ruleC09PendingWidth: a pending counter that is incremented inside a loop
// (once per still-unknown subtree of a tree) must be wide enough for any
// number of entries a tree held in memory can have; a narrow integer wraps,
// passes through zero early and the record is finalised twice.
func ruleC09PendingWidth(c *Ctx) { pendingWidth(c, "C09.pending") }

func pendingWidth(c *Ctx, rule string) {
	pv := c.pendingVars()
	for v := range pv {
		inLoop := false
		for _, f := range c.ModFns {
			loops := loopsOf(f)
			allInstrs(f, func(in ssa.Instruction) {
				st, ok := in.(*ssa.Store)
				if !ok {
					return
				}
				fa, ok := st.Addr.(*ssa.FieldAddr)
				if !ok || fieldOfAddr(fa).Var != v {
					return
				}
				if bo, ok := st.Val.(*ssa.BinOp); ok && bo.Op == token.ADD && innermostLoop(loops, st.Block()) != nil {
					inLoop = true
				}
			})
		}
		b, ok := v.Type().Underlying().(*types.Basic)
		if !ok {
			c.undecided(rule, "width:"+v.Name()+"@"+typeNameOfVarOwner(v), token.NoPos, "", "the pending counter is not an integer")
			continue
		}
		wide := false
		switch b.Kind() {
		case types.Int, types.Int32, types.Int64, types.Uint, types.Uint32, types.Uint64, types.Uintptr:
			wide = true
		}
		key := "width:" + v.Pkg().Name() + "." + v.Name() + ":" + b.Name()
		switch {
		case !inLoop:
			c.hold(rule, key, v.Pos(), "incremented at most once per record; any integer width is enough")
		case wide:
			c.hold(rule, key, v.Pos(), "incremented once per unresolved entry of a tree; "+b.Name()+" cannot wrap for a tree that fits in memory")
		default:
			c.violate(rule, key, v.Pos(), "", "the pending counter is incremented once per still-unknown entry of a tree but is only an "+b.Name()+": a tree with more unresolved subtrees than that wraps the counter through zero, so the tree is finalised (and counted) twice when its subtrees are delivered after it")
		}
	}
}

func typeNameOfVarOwner(v *types.Var) string { return v.Pkg().Name() }

// ruleC02SizeSource: the blob size that enters the maximum is the header's
// size parsed at full width and clamped, never wrapped: a wrapped size makes
// a smaller blob the reported maximum. The clause is C05.siblings, reported
// here under C02's name.
func ruleC02SizeSource(c *Ctx) {
	c.RuleAlias = map[string]string{"C05.siblings": "C02.size-source"}
	ruleC05Siblings(c)
	c.RuleAlias = nil
	// the size recorded for a commit / tag is the length of the object as it
	// was handed to the parser, not of a normalised or extended copy
	for _, name := range []string{"ParseCommit", "ParseTag"} {
		f := c.fn("/git", "", name)
		if f == nil {
			continue
		}
		var data *ssa.Parameter
		for _, p := range f.Params {
			if isStringish(p.Type()) {
				data = p
			}
		}
		if data == nil {
			continue
		}
		n := 0
		allInstrs(f, func(in ssa.Instruction) {
			st, ok := in.(*ssa.Store)
			if !ok {
				return
			}
			fa, ok := st.Addr.(*ssa.FieldAddr)
			if !ok || vname(fieldOfAddr(fa).Var) != "Size" || countKind(fieldOfAddr(fa).Var.Type()) == "" {
				return
			}
			n++
			// NewCount32(uint64(len(X)))
			okLen := false
			var walk func(v ssa.Value, depth int)
			walk = func(v ssa.Value, depth int) {
				if depth > 6 {
					return
				}
				switch x := c.resolve(v).(type) {
				case *ssa.Convert:
					walk(x.X, depth+1)
				case *ssa.ChangeType:
					walk(x.X, depth+1)
				case *ssa.Call:
					if isBuiltin(&x.Call, "len") {
						if c.resolve(x.Call.Args[0]) == ssa.Value(data) {
							okLen = true
						}
						return
					}
					for _, a := range x.Call.Args {
						walk(a, depth+1)
					}
				}
			}
			walk(st.Val, 0)
			key := "object-length:" + name
			if okLen {
				c.hold("C02.size-source", key, st.Pos(), "Size = len(the object data handed to "+name+")")
			} else {
				c.violate("C02.size-source", key, st.Pos(), fnName(f), "the recorded size is not the length of the object data as passed in: a normalised, trimmed or extended copy is measured, so the reported maximum is off by the difference")
			}
		})
		if n == 0 {
			c.notDecided("C02.size-source", "object-length:"+name, f.Pos(), name+" stores no Size field")
		}
	}
	// references that point directly at a blob or tree are roots of the walk too
	c.checkCollect("C02.roots")
}

// ruleC09Records: the protocol between an object and the objects waiting
// for it, whatever the delivery order.
//   - known-final: Require*Size answers "known" only with the value found in
//     the map of FINAL sizes (the map the finalizer writes); a record that
//     exists but is still waiting for its own referents is not known.
//   - published: a record created because nothing was found in the records
//     map is stored in that map, so that a dependant arriving later finds it
//     (and waits on it) instead of creating a second record nobody completes.
func ruleC09Records(c *Ctx) { recordsProtocol(c, "C09.records") }

// the known-final clause under C03's name (tag depth of a chain delivered
// middle-first)
func ruleC03KnownFinal(c *Ctx) {
	c.RuleAlias = map[string]string{"C09.records": "C03.known-final"}
	defer func() { c.RuleAlias = nil }()
	recordsProtocol(c, "C09.records")
}

func recordsProtocol(c *Ctx, rule string) {
	// the final-size maps: map fields written by the finalizers
	finalMaps := map[*types.Var]bool{}
	for _, fin := range c.finalizers() {
		allInstrs(fin, func(in ssa.Instruction) {
			if mu, ok := in.(*ssa.MapUpdate); ok {
				if u, ok := mu.Map.(*ssa.UnOp); ok {
					if fa, ok := u.X.(*ssa.FieldAddr); ok {
						finalMaps[fieldOfAddr(fa).Var] = true
					}
				}
			}
		})
	}
	mapField := func(v ssa.Value) *types.Var {
		if u, ok := v.(*ssa.UnOp); ok {
			if fa, ok := u.X.(*ssa.FieldAddr); ok {
				return fieldOfAddr(fa).Var
			}
		}
		return nil
	}
	nKnown := 0
	seenFn := map[*ssa.Function]bool{}
	for _, rs := range c.requireSites() {
		f := rs.Call.Call.StaticCallee()
		if f == nil || seenFn[f] {
			continue
		}
		seenFn[f] = true
		name := fnName(f)
		bad := ""
		for _, ret := range returnsOf(f) {
			if len(ret.Results) != 2 {
				continue
			}
			okV := c.resolve(ret.Results[1])
			sizeV := c.resolve(ret.Results[0])
			fromFinal := func() bool {
				ex, ok := sizeV.(*ssa.Extract)
				if !ok || ex.Index != 0 {
					return false
				}
				lk, ok := ex.Tuple.(*ssa.Lookup)
				return ok && lk.CommaOk && finalMaps[mapField(lk.X)]
			}
			if k, isConst := okV.(*ssa.Const); isConst {
				if k.Value != nil && k.Value.String() == "true" && !fromFinal() {
					bad = "a return answers `known` with a value that was not found in the map of final sizes (" + c.pos(ret.Pos()) + ")"
				}
				continue
			}
			// `return size, ok` of one lookup
			if ex, ok := okV.(*ssa.Extract); ok && ex.Index == 1 {
				if lk, ok := ex.Tuple.(*ssa.Lookup); ok && finalMaps[mapField(lk.X)] && fromFinal() {
					continue
				}
			}
			bad = "a return answers with a computed `known` flag (" + c.pos(ret.Pos()) + ")"
		}
		nKnown++
		if bad == "" {
			c.hold(rule, "known-final:"+name, f.Pos(), "`known` is answered only with the entry of the final-sizes map")
		} else {
			c.violate(rule, "known-final:"+name, f.Pos(), name, bad+": a dependant delivered while its referent is still waiting for its own referents would be finalised from a partial size — the result would depend on the delivery order")
		}
	}
	if nKnown < 2 {
		c.notDecided(rule, "known-final", token.NoPos, fmt.Sprintf("%d Require*Size functions found", nKnown))
	}
	// published: every record constructor result is stored into a map
	nPub := 0
	for _, f := range c.ModFns {
		if pkgOf(f) != modPath+"/sizes" {
			continue
		}
		allInstrs(f, func(in ssa.Instruction) {
			call, ok := in.(*ssa.Call)
			if !ok {
				return
			}
			cal := call.Call.StaticCallee()
			if cal == nil || !c.inRuleScope(cal) || cal.Signature.Results().Len() != 1 {
				return
			}
			rt := cal.Signature.Results().At(0).Type()
			if !isPtrToNamed(rt, modPath+"/sizes", "treeRecord") && !isPtrToNamed(rt, modPath+"/sizes", "tagRecord") {
				return
			}
			if f.Signature.Recv() == nil || !isPtrToNamed(f.Signature.Recv().Type(), modPath+"/sizes", "Graph") {
				return
			}
			nPub++
			stored := false
			for _, r := range *call.Referrers() {
				if mu, ok := r.(*ssa.MapUpdate); ok && mu.Value == ssa.Value(call) && (mu.Block() == call.Block() || call.Block().Dominates(mu.Block())) {
					stored = true
				}
			}
			key := "published:" + fnName(f)
			if stored {
				c.hold(rule, key, call.Pos(), "the new record is entered in the records map")
			} else {
				c.violate(rule, key, call.Pos(), fnName(f), "a new record is created but not entered in the records map: a dependant delivered before this object is complete creates a second record that is never completed, so the dependant is never counted — the result depends on the delivery order")
			}
		})
	}
	if nPub < 4 {
		c.notDecided(rule, "published", token.NoPos, fmt.Sprintf("%d record creations found in the Graph methods (Register/Require × tree/tag expected)", nPub))
	}
}

// ruleC09EffectsBorrowed: a history-wide maximum must be MAX-accumulated,
// never assigned from "the object processed last": that is C03's effect
// table, read here as independence from the enumeration order.
func ruleC09EffectsBorrowed(c *Ctx) {
	c.RuleAlias = map[string]string{"C03.effects": "C09.effects", "C04.descend": "C09.combine"}
	defer func() { c.RuleAlias = nil }()
	ruleC03Effects(c)
	// combining a finished subtree into its parent must look at the child
	// only: a guard on what the parent has accumulated so far makes the
	// result depend on the order of the entries
	ruleC04Descend(c)
}
