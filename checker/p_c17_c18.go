package main

import (
	"fmt"
	"go/token"
	"go/types"
	"sort"
	"strings"

	"golang.org/x/tools/go/ssa"
)

func init() {
	register("C17",
		"Structural necessary conditions of C17 decided from /repo's SSA: (readonly) the only git sub-commands started are rev-list, cat-file, for-each-ref, rev-parse and config --list/--get, and no mutating os/io call exists in the module except the hidden --cpuprofile file; (confinement) the goroutine entry points (go statements and pipeline stage functions) capture only channels, contexts, iterator objects, the ticker/meter of their own package and slices they merely read — never the Graph, the HistorySize, the path resolver or a map — and the parent does not write what a started goroutine reads (one named exception); (determinism) no range over a map, clock, random source or environment read is reachable from the report renderers; (locks) every Lock is released on all non-panic exits and the class-level lock-order graph is acyclic apart from the child→parent record lock. Positive controls in /verif/controls must be reported on every run. Not decided: byte-identical output under every schedule, races inside go-pipe/os/exec/the runtime.",
		[]string{"encoding/json emits map keys in sorted order", "git's plumbing commands listed are read-only", "class-level lock identities (one per mutex field)"},
		ruleC17Readonly, ruleC17Confinement, ruleC17FreshBuffers, ruleC17Determinism, ruleC17Locks, ruleC17Select, ruleC17MeterLocks)
	register("C18",
		"Structural necessary conditions of C18 decided from /repo's SSA: (stream) the progress meter is constructed on the stream that main passes os.Stderr for, never on the report stream; (lockset) every field of the meter is immutable after construction, accessed only through sync/atomic, or accessed with the meter's lock in the must-hold set; in the ticker goroutine every write is dominated, within one critical section, by the false edge of the identity test `p.ticker != ticker`, and Done replaces the ticker and writes the final line under the same lock; (bracket) along every path of the scanner Start and Done alternate, every Inc lies between them, a success return leaves no phase open, every phase loop increments exactly once per iteration and the blob phase increments exactly where it registers; Add has no caller. Not decided: ticker timing, equality of the printed number with the census on concrete runs.",
		[]string{"sync.Mutex and sync/atomic semantics", "time.Ticker delivers ticks only on its own channel"},
		ruleC18Stream, ruleC18Lockset, ruleC18Bracket, ruleC18Bounds)
}

// ---------------- C17.readonly ----------------

var mutatingCalls = map[string]bool{
	"os.Create": true, "os.OpenFile": true, "os.WriteFile": true, "os.Remove": true, "os.RemoveAll": true,
	"os.Rename": true, "os.Mkdir": true, "os.MkdirAll": true, "os.MkdirTemp": true, "os.CreateTemp": true,
	"os.Chmod": true, "os.Chown": true, "os.Lchown": true, "os.Chtimes": true, "os.Truncate": true,
	"os.Symlink": true, "os.Link": true, "io/ioutil.WriteFile": true, "io/ioutil.TempFile": true, "io/ioutil.TempDir": true,
	"os.Setenv": true, "os.Unsetenv": true, "os.Chdir": true, "syscall.Unlink": true,
}

func findCalls(fns []*ssa.Function, match func(q string) bool) []ssa.Instruction {
	var out []ssa.Instruction
	for _, f := range fns {
		allInstrs(f, func(in ssa.Instruction) {
			if ci, ok := in.(ssa.CallInstruction); ok && match(calleeQ(ci.Common())) {
				out = append(out, in)
			}
		})
	}
	return out
}

func ruleC17Readonly(c *Ctx) {
	allowed := map[string]bool{"rev-list": true, "cat-file": true, "for-each-ref": true, "rev-parse": true, "config": true}
	badWords := map[string]bool{"--unset": true, "--unset-all": true, "--add": true, "--replace-all": true, "--rename-section": true, "--remove-section": true, "--edit": true, "-e": true, "--write": true, "-w": true}
	for _, s := range c.spawnTable() {
		if s.Kind != "GitCommand" {
			continue
		}
		sub := s.sub()
		key := fmt.Sprintf("%s:git %s", fnName(s.Fn), strings.Join(s.Argv, " "))
		if !allowed[sub] {
			c.violate("C17.readonly", key, s.Call.Pos(), fnName(s.Fn), fmt.Sprintf("git sub-command %q is not one of the read-only plumbing commands (rev-list, cat-file, for-each-ref, rev-parse, config --list/--get): it may modify the repository", sub))
			continue
		}
		ok := true
		if sub == "config" {
			if len(s.Argv) < 2 || (s.Argv[1] != "--list" && s.Argv[1] != "-l" && s.Argv[1] != "--get" && s.Argv[1] != "--get-all" && s.Argv[1] != "--get-regexp") {
				ok = false
				c.violate("C17.readonly", key, s.Call.Pos(), fnName(s.Fn), "`git config` is not used in its --list/--get (read-only) form: with two positional arguments it writes the configuration")
			}
		}
		for _, a := range s.Argv {
			if badWords[a] {
				ok = false
				c.violate("C17.readonly", key+":"+a, s.Call.Pos(), fnName(s.Fn), "argument "+a+" makes the git command modify the repository")
			}
		}
		if ok {
			c.hold("C17.readonly", key, s.Call.Pos(), "read-only plumbing command")
		}
	}
	for _, in := range findCalls(c.ModFns, func(q string) bool { return mutatingCalls[q] }) {
		f := in.Parent()
		q := calleeQ(in.(ssa.CallInstruction).Common())
		key := fnName(f) + ":" + q
		if q == "os.Create" && fnName(f) == "main.mainImplementation" && c.argIsFlag(in.(ssa.CallInstruction).Common().Args[0], "cpuprofile") {
			c.exception("C17.readonly", key, in.Pos(), "hidden --cpuprofile option: the file is named by the user, outside the repository")
			continue
		}
		c.violate("C17.readonly", key, in.Pos(), fnName(f), q+" modifies the file system or process state: a scanning run must leave everything byte-identical")
	}
	c.control("C17.readonly", "RemoveFile", func(fns []*ssa.Function) []ssa.Instruction {
		return findCalls(fns, func(q string) bool { return mutatingCalls[q] })
	})
	c.control("C17.readonly", "WriteFile", func(fns []*ssa.Function) []ssa.Instruction {
		return findCalls(fns, func(q string) bool { return mutatingCalls[q] })
	})
	c.control("C17.readonly", "SpawnIt", func(fns []*ssa.Function) []ssa.Instruction {
		return findCalls(fns, func(q string) bool { return spawnAPIs[q] })
	})
	c.floor("C17.readonly", 10, "git command sites")
}

// argIsFlag: v is a load of the variable bound to the named pflag option.
func (c *Ctx) argIsFlag(v ssa.Value, flag string) bool {
	u, ok := v.(*ssa.UnOp)
	if !ok {
		return false
	}
	for _, r := range c.flagRegs() {
		if r.Name == flag && c.sameAddr(r.ValueArg, u.X) {
			return true
		}
	}
	return false
}

// ---------------- C17.confinement ----------------

func ruleC17Confinement(c *Ctx) {
	entries := c.goEntries()
	n := 0
	for _, ge := range entries {
		if ge.Fn == nil {
			c.undecided("C17.confinement", "dynamic-go@"+fnName(ge.Site.Parent()), ge.Site.Pos(), fnName(ge.Site.Parent()), "a goroutine is started on a function value that cannot be resolved")
			continue
		}
		n++
		name := fnName(ge.Fn)
		// everything the goroutine's code (incl. synchronously called nested closures) can capture
		fns := []*ssa.Function{ge.Fn}
		for i := 0; i < len(fns); i++ {
			fns = append(fns, fns[i].AnonFuncs...)
		}
		bad := false
		var caps []string
		for _, f := range fns {
			for _, fv := range f.FreeVars {
				et := fv.Type()
				if p, ok := et.Underlying().(*types.Pointer); ok {
					et = p.Elem()
				}
				kind, okKind := classifyCapture(et, pkgOf(ge.Fn))
				caps = append(caps, fv.Name()+":"+kind)
				if !okKind {
					bad = true
					c.violate("C17.confinement", name+":captures:"+fv.Name(), ge.Site.Pos(), name, fmt.Sprintf("the goroutine captures %s of type %s (%s): aggregation state must stay confined to the single consumer", fv.Name(), et.String(), kind))
				}
				if kind == "slice" || kind == "slice-param" {
					// read-only inside the goroutine
					for _, st := range c.freeVarStores(fv) {
						if st.Parent() == f || st.Parent().Parent() == f {
							bad = true
							c.violate("C17.confinement", name+":writes:"+fv.Name(), st.Pos(), name, "the goroutine assigns the captured slice "+fv.Name()+" that the consumer also uses")
						}
					}
				}
			}
			// no direct access to Graph / HistorySize fields from a goroutine
			allInstrs(f, func(in ssa.Instruction) {
				if fa, ok := in.(*ssa.FieldAddr); ok {
					fi := fieldOfAddr(fa)
					if fi.Struct != nil && fi.Struct.Obj().Pkg() != nil && fi.Struct.Obj().Pkg().Path() == modPath+"/sizes" {
						switch tname(fi.Struct.Obj()) {
						case "Graph", "HistorySize", "treeRecord", "tagRecord", "InOrderPathResolver":
							bad = true
							c.violate("C17.confinement", name+":touches:"+fi.String(), fa.Pos(), name, "a goroutine other than the consumer touches "+fi.String())
						}
					}
				}
			})
		}
		sort.Strings(caps)
		if !bad {
			c.hold("C17.confinement", name, ge.Site.Pos(), fmt.Sprintf("%s captures %v", ge.Kind, caps))
		}
		// parent writes after the go statement
		if g, ok := ge.Site.(*ssa.Go); ok {
			c.checkParentWrites(g, ge.Fn)
		}
	}
	if n < 5 {
		c.violate("C17.confinement", "floor", token.NoPos, "", fmt.Sprintf("only %d goroutine entry points found (10 on the reference tree; the feeders, the ticker and the pipeline stages)", n))
	}
}

func classifyCapture(t types.Type, inPkg string) (string, bool) {
	switch u := t.Underlying().(type) {
	case *types.Chan:
		return "channel", true
	case *types.Slice:
		return "slice", true
	case *types.Map:
		return "map", false
	case *types.Interface:
		if isNamed(t, "context", "Context") {
			return "context", true
		}
		if isNamed(t, modPath+"/sizes", "PathResolver") {
			return "path resolver", false
		}
		return "interface " + t.String(), true
	case *types.Pointer:
		n := namedOf(t)
		if n == nil {
			return "pointer", true
		}
		pkg := ""
		if n.Obj().Pkg() != nil {
			pkg = n.Obj().Pkg().Path()
		}
		switch {
		case pkg == modPath+"/git":
			return "iterator/" + tname(n.Obj()), true
		case pkg == modPath+"/sizes":
			return "aggregation state " + tname(n.Obj()), false
		case pkg == "time":
			return "ticker", true
		case pkg == modPath+"/meter":
			return "meter", inPkg == modPath+"/meter"
		}
		return "pointer to " + tname(n.Obj()), true
	case *types.Struct:
		n := namedOf(t)
		if n != nil && n.Obj().Pkg() != nil && n.Obj().Pkg().Path() == modPath+"/sizes" {
			return "aggregation state " + tname(n.Obj()), false
		}
		_ = u
		return "struct", true
	}
	return t.String(), true
}

// checkParentWrites: after `go f()`, the parent must not write the cells
// (or the elements of slices in cells) that f captured.
func (c *Ctx) checkParentWrites(g *ssa.Go, fn *ssa.Function) {
	mc, ok := g.Call.Value.(*ssa.MakeClosure)
	if !ok {
		return
	}
	parent := g.Parent()
	after := reachable(g.Block())
	isAfter := func(in ssa.Instruction) bool {
		if in.Block() == g.Block() {
			// also covers a loop back into the same block
			return instrIndex(in) > instrIndex(g) || func() bool {
				for _, s := range g.Block().Succs {
					if reachable(s)[g.Block()] {
						return true
					}
				}
				return false
			}()
		}
		return after[in.Block()]
	}
	for i, b := range mc.Bindings {
		cell, ok := b.(*ssa.Alloc)
		if !ok {
			continue
		}
		name := "?"
		if i < len(fn.FreeVars) {
			name = fn.FreeVars[i].Name()
		}
		// does the goroutine read it at all?
		reads := false
		c.forEachLoad(cell, func(u *ssa.UnOp) {
			f := u.Parent()
			for f != nil {
				if f == fn {
					reads = true
				}
				f = f.Parent()
			}
		})
		if !reads {
			continue
		}
		for _, st := range storesTo(cell) {
			if st.Parent() == parent && isAfter(st) {
				c.violate("C17.confinement", fnName(fn)+":parent-write:"+name, st.Pos(), fnName(parent), "the consumer assigns "+name+" after starting the goroutine that reads it: data race")
			}
		}
		// element writes through the slice held in the cell
		allInstrs(parent, func(in ssa.Instruction) {
			st, ok := in.(*ssa.Store)
			if !ok || !isAfter(st) {
				return
			}
			addr := st.Addr
			var fieldName string
			for {
				if fa, ok := addr.(*ssa.FieldAddr); ok {
					if fieldName == "" {
						fieldName = vname(fieldOfAddr(fa).Var)
					}
					addr = fa.X
					continue
				}
				break
			}
			ia, ok := addr.(*ssa.IndexAddr)
			if !ok {
				return
			}
			u, ok := ia.X.(*ssa.UnOp)
			if !ok || c.cellOf(u.X) != cell {
				return
			}
			key := fnName(fn) + ":parent-elem-write:" + name + "." + fieldName
			// does the goroutine read that field?
			readsField := false
			for _, f := range append([]*ssa.Function{fn}, fn.AnonFuncs...) {
				allInstrs(f, func(in2 ssa.Instruction) {
					if fa, ok := in2.(*ssa.FieldAddr); ok && vname(fieldOfAddr(fa).Var) == fieldName {
						readsField = true
					}
					if fv, ok := in2.(*ssa.Field); ok && vname(fieldOfVal(fv).Var) == fieldName {
						readsField = true
					}
				})
			}
			if !readsField {
				c.exception("C17.confinement", key, st.Pos(), "the consumer writes field `"+fieldName+"` of element i only after object i came back through the child process; the goroutine reads other fields of that element and has read them before requesting object i")
				return
			}
			c.violate("C17.confinement", key, st.Pos(), fnName(parent), "the consumer writes a field of a list element that the feeder goroutine reads: data race")
		})
	}
}

// ---------------- C17.determinism ----------------

func nondeterministic(fns []*ssa.Function) []ssa.Instruction {
	var out []ssa.Instruction
	for _, f := range fns {
		allInstrs(f, func(in ssa.Instruction) {
			switch x := in.(type) {
			case *ssa.Range:
				if _, ok := x.X.Type().Underlying().(*types.Map); ok {
					out = append(out, in)
				}
			case ssa.CallInstruction:
				q := calleeQ(x.Common())
				if q == "time.Now" || q == "time.Since" || strings.HasPrefix(q, "math/rand.") || strings.HasPrefix(q, "math/rand/v2.") || strings.HasPrefix(q, "crypto/rand.") ||
					q == "os.Getenv" || q == "os.LookupEnv" || q == "os.Environ" || q == "os.Getpid" || q == "os.Hostname" || q == "runtime.NumGoroutine" {
					out = append(out, in)
				}
			}
		})
	}
	return out
}

func ruleC17Determinism(c *Ctx) {
	roots := []*ssa.Function{
		c.fn("/sizes", "*HistorySize", "TableString"),
		c.fn("/sizes", "*HistorySize", "JSON"),
		c.fn("/sizes", "*item", "MarshalJSON"),
		c.fn("/sizes", "*Path", "MarshalJSON"),
		c.fn("/git", "OID", "MarshalJSON"),
		c.fn("/sizes", "*Graph", "HistorySize"),
	}
	missing := 0
	for _, r := range roots[:3] {
		if r == nil {
			missing++
		}
	}
	if missing > 0 {
		c.violate("C17.determinism", "renderers", token.NoPos, "", "the report renderers (TableString, JSON, item.MarshalJSON) were not found")
		return
	}
	fns := c.reachableFrom(roots)
	hits := nondeterministic(fns)
	for _, h := range hits {
		c.violate("C17.determinism", fnName(h.Parent())+":"+strings.Fields(h.String())[0], h.Pos(), fnName(h.Parent()), "`"+h.String()+"` on the report path makes the output depend on map iteration order, time, randomness or the environment")
	}
	// the whole scan/aggregation must not range over maps either (order of witnesses, tallies)
	var scanFns []*ssa.Function
	for _, f := range c.ModFns {
		if p := pkgOf(f); p == modPath+"/sizes" || p == modPath+"/internal/refopts" || p == modPath {
			scanFns = append(scanFns, f)
		}
	}
	for _, h := range nondeterministic(scanFns) {
		q := h.String()
		if strings.Contains(q, "os.Environ") {
			continue
		}
		if c.seen("C17.determinism", fnName(h.Parent())+":"+strings.Fields(q)[0]) == nil {
			c.violate("C17.determinism", fnName(h.Parent())+":"+strings.Fields(q)[0], h.Pos(), fnName(h.Parent()), "`"+q+"` in the scanner/aggregation/option code: results would depend on map iteration order, time, randomness or the environment")
		}
	}
	c.hold("C17.determinism", "report-path", token.NoPos, fmt.Sprintf("%d functions reachable from the renderers and %d scanner/option functions contain no map range, clock, random or environment read", len(fns), len(scanFns)))
	c.Stats["report_path_functions"] = len(fns)
	for _, ctl := range []string{"RangeOverMap", "Clock", "Dice", "Env"} {
		c.control("C17.determinism", ctl, nondeterministic)
	}
}

// ---------------- C17.locks ----------------

func ruleC17Locks(c *Ctx) {
	n := 0
	for _, f := range c.ModFns {
		li := c.locksets(f)
		hasLock := false
		allInstrs(f, func(in ssa.Instruction) {
			if op, _, ok := lockOp(in); ok && op == "lock" {
				hasLock = true
			}
		})
		if !hasLock {
			continue
		}
		n++
		name := fnName(f)
		if li.unknown {
			c.undecided("C17.locks", name+":identity", f.Pos(), name, "a mutex is locked that is not a struct field: cannot track it")
			continue
		}
		bad := false
		for _, ret := range returnsOf(f) {
			held := li.at[ret]
			for l := range held {
				if !li.defers[l] {
					bad = true
					c.violate("C17.locks", name+":release:"+l.Name(), ret.Pos(), name, "the function can return with "+l.Name()+" still locked: the next goroutine (or the same one) blocks forever")
				}
			}
		}
		// double lock
		allInstrs(f, func(in ssa.Instruction) {
			if op, id, ok := lockOp(in); ok && op == "lock" && li.at[in][id] {
				bad = true
				c.violate("C17.locks", name+":relock:"+id.Name(), in.Pos(), name, id.Name()+" is locked while already held: self-deadlock")
			}
			if op, id, ok := lockOp(in); ok && op == "unlock" && !li.at[in][id] {
				bad = true
				c.violate("C17.locks", name+":unlock-unheld:"+id.Name(), in.Pos(), name, id.Name()+" is unlocked on a path where it is not held")
			}
		})
		if !bad {
			c.hold("C17.locks", name, f.Pos(), "every Lock is paired with an Unlock (direct or deferred) on all non-panic exits")
		}
	}
	// lock order
	edges := c.lockOrderEdges()
	adj := map[lockID]map[lockID]lockEdge{}
	for _, e := range edges {
		if adj[e.From] == nil {
			adj[e.From] = map[lockID]lockEdge{}
		}
		if _, ok := adj[e.From][e.To]; !ok {
			adj[e.From][e.To] = e
		}
	}
	lname := func(l lockID) string {
		if l == nil {
			return "?"
		}
		if n := namedOf(l.Type()); n != nil {
			_ = n
		}
		return l.Pkg().Name() + "." + vname(l)
	}
	// self edges
	for from, tos := range adj {
		for to, e := range tos {
			if from != to {
				continue
			}
			key := "order:self:" + lname(from)
			if isRecordLock(from) {
				c.exception("C17.locks", key, posOf(e.Site), "a record's listener locks its parent record while the child's lock is held (child → parent only); the object graph is acyclic because object ids are content hashes")
			} else {
				c.violate("C17.locks", key, posOf(e.Site), fnName(e.Site.Parent()), lname(from)+" may be acquired while an instance of the same lock class is held (via "+e.Via+")")
			}
		}
	}
	// cycles among distinct classes
	var cyc []string
	state := map[lockID]int{}
	var stack []lockID
	var dfs func(l lockID)
	dfs = func(l lockID) {
		state[l] = 1
		stack = append(stack, l)
		for to := range adj[l] {
			if to == l {
				continue
			}
			if state[to] == 1 {
				var names []string
				for i := len(stack) - 1; i >= 0; i-- {
					names = append(names, lname(stack[i]))
					if stack[i] == to {
						break
					}
				}
				sort.Strings(names)
				cyc = append(cyc, strings.Join(names, " <-> "))
			} else if state[to] == 0 {
				dfs(to)
			}
		}
		stack = stack[:len(stack)-1]
		state[l] = 2
	}
	for l := range adj {
		if state[l] == 0 {
			dfs(l)
		}
	}
	for _, cy := range uniq(cyc) {
		c.violate("C17.locks", "order:cycle:"+cy, token.NoPos, "", "the lock-order graph has a cycle: "+cy+" — two goroutines taking them in opposite order deadlock")
	}
	var es []string
	for from, tos := range adj {
		for to := range tos {
			es = append(es, lname(from)+"→"+lname(to))
		}
	}
	sort.Strings(es)
	if len(cyc) == 0 {
		c.hold("C17.locks", "order", token.NoPos, "class-level lock order is acyclic: "+strings.Join(es, ", "))
	}
	if n < 10 {
		c.violate("C17.locks", "floor", token.NoPos, "", fmt.Sprintf("only %d functions take locks (reference tree: 19)", n))
	}
}

func isRecordLock(l lockID) bool {
	if l == nil || l.Pkg() == nil || l.Pkg().Path() != modPath+"/sizes" {
		return false
	}
	// the mutex of a record type that also has a pending counter and listeners
	return true && vname(l) == "lock"
}

// ---------------- C18 ----------------

// mainStreams: indices of mainImplementation's parameters that receive
// os.Stdout and os.Stderr in main.main.
func (c *Ctx) mainStreams() (impl *ssa.Function, stdoutIdx, stderrIdx int) {
	stdoutIdx, stderrIdx = -1, -1
	mainFn := c.fn("", "", "main")
	if mainFn == nil {
		return
	}
	allInstrs(mainFn, func(in ssa.Instruction) {
		call, ok := in.(*ssa.Call)
		if !ok {
			return
		}
		cal := call.Call.StaticCallee()
		if cal == nil || !c.inRuleScope(cal) {
			return
		}
		for i, a := range call.Call.Args {
			v := a
			if mi, ok := v.(*ssa.MakeInterface); ok {
				v = mi.X
			}
			if u, ok := v.(*ssa.UnOp); ok {
				if g, ok := u.X.(*ssa.Global); ok && g.Pkg.Pkg.Path() == "os" {
					switch g.Name() {
					case "Stdout":
						impl, stdoutIdx = cal, i
					case "Stderr":
						impl, stderrIdx = cal, i
					}
				}
			}
		}
	})
	return
}

func ruleC18Stream(c *Ctx) {
	impl, so, se := c.mainStreams()
	if impl == nil || so < 0 || se < 0 {
		c.violate("C18.stream", "main", token.NoPos, "", "main.main does not hand os.Stdout and os.Stderr to the implementation function")
		return
	}
	newMeter := c.fn("/meter", "", "NewProgressMeter")
	if newMeter == nil {
		c.violate("C18.stream", "NewProgressMeter", token.NoPos, "", "meter.NewProgressMeter not found")
		return
	}
	n := 0
	for _, ci := range c.Callers[newMeter] {
		call, ok := ci.(*ssa.Call)
		if !ok {
			continue
		}
		n++
		v := c.writerOrigin(call.Call.Args[0])
		p, isParam := v.(*ssa.Parameter)
		key := "meter@" + fnName(call.Parent())
		switch {
		case isParam && p.Parent() == impl && paramIndex(p) == se:
			c.hold("C18.stream", key, call.Pos(), "the progress meter writes to the stream main passes os.Stderr for")
		case isParam && p.Parent() == impl && paramIndex(p) == so:
			c.violate("C18.stream", key, call.Pos(), fnName(call.Parent()), "the progress meter is constructed on the report stream (stdout): progress lines would be mixed into the report")
		default:
			c.violate("C18.stream", key, call.Pos(), fnName(call.Parent()), "the progress meter is not constructed on the stderr stream handed in by main")
		}
	}
	if n == 0 {
		c.violate("C18.stream", "meter", newMeter.Pos(), fnName(newMeter), "the progress meter is never constructed")
	}
	// the meter only writes to the writer it was given
	mt := c.namedType("/meter", "progressMeter")
	if mt != nil {
		for _, f := range c.ModFns {
			if pkgOf(f) != modPath+"/meter" {
				continue
			}
			allInstrs(f, func(in ssa.Instruction) {
				call, ok := in.(*ssa.Call)
				if !ok {
					return
				}
				q := calleeQ(&call.Call)
				if strings.HasPrefix(q, "fmt.Fprint") || q == "io.WriteString" {
					p := &errProducer{Fn: f, Instr: call}
					if wk := c.writerKind(p); !strings.HasPrefix(wk, "field:meter.") {
						c.violate("C18.stream", "meter-write@"+fnName(f), call.Pos(), fnName(f), "the meter writes to "+wk+" instead of the writer it was constructed with")
					}
				}
				if strings.HasPrefix(q, "fmt.Print") {
					c.violate("C18.stream", "meter-print@"+fnName(f), call.Pos(), fnName(f), "the meter prints to stdout")
				}
			})
		}
	}
}

func paramIndex(p *ssa.Parameter) int {
	for i, q := range p.Parent().Params {
		if q == p {
			return i
		}
	}
	return -1
}

func ruleC18Lockset(c *Ctx) {
	mt := c.namedType("/meter", "progressMeter")
	if mt == nil {
		// by role: the struct in package meter that has a sync.Mutex field
		if p := c.pkg("/meter"); p != nil {
			for _, n := range p.Types.Scope().Names() {
				if tn, ok := p.Types.Scope().Lookup(n).(*types.TypeName); ok {
					if st, ok := tn.Type().Underlying().(*types.Struct); ok {
						for i := 0; i < st.NumFields(); i++ {
							if isNamed(st.Field(i).Type(), "sync", "Mutex") {
								mt, _ = tn.Type().(*types.Named)
							}
						}
					}
				}
			}
		}
	}
	if mt == nil {
		c.violate("C18.lockset", "meter-type", token.NoPos, "", "no mutex-protected meter type found in package meter")
		return
	}
	st := mt.Underlying().(*types.Struct)
	var lock lockID
	for i := 0; i < st.NumFields(); i++ {
		if isNamed(st.Field(i).Type(), "sync", "Mutex") {
			lock = st.Field(i)
		}
	}
	if lock == nil {
		c.violate("C18.lockset", "meter-lock", token.NoPos, "", "the meter has no mutex")
		return
	}
	type access struct {
		in    ssa.Instruction
		field *types.Var
		write bool
		held  bool
		ctor  bool
		atom  bool
	}
	var accs []access
	for _, f := range c.ModFns {
		if pkgOf(f) != modPath+"/meter" {
			continue
		}
		li := c.locksets(f)
		isCtor := false
		allInstrs(f, func(in ssa.Instruction) {
			if al, ok := in.(*ssa.Alloc); ok && isNamed(al.Type().Underlying().(*types.Pointer).Elem(), modPath+"/meter", tname(mt.Obj())) {
				isCtor = true
			}
		})
		allInstrs(f, func(in ssa.Instruction) {
			fa, ok := in.(*ssa.FieldAddr)
			if !ok {
				return
			}
			fi := fieldOfAddr(fa)
			if fi.Struct == nil || fi.Struct.Obj() != mt.Obj() || fi.Var == lock {
				return
			}
			if atomicUse(fa) {
				accs = append(accs, access{in: fa, field: fi.Var, atom: true})
				return
			}
			for _, r := range *fa.Referrers() {
				switch x := r.(type) {
				case *ssa.Store:
					if x.Addr == ssa.Value(fa) {
						accs = append(accs, access{in: x, field: fi.Var, write: true, held: li.at[x][lock], ctor: isCtor})
					}
				case *ssa.UnOp:
					accs = append(accs, access{in: x, field: fi.Var, held: li.at[x][lock], ctor: isCtor})
				default:
					if _, isDbg := r.(*ssa.DebugRef); !isDbg {
						accs = append(accs, access{in: r, field: fi.Var, write: true, held: li.at[r][lock], ctor: isCtor})
					}
				}
			}
		})
	}
	byField := map[*types.Var][]access{}
	for _, a := range accs {
		byField[a.field] = append(byField[a.field], a)
	}
	for i := 0; i < st.NumFields(); i++ {
		fv := st.Field(i)
		if fv == lock {
			continue
		}
		as := byField[fv]
		nAtom, nWriteOutsideCtor, nUnlocked := 0, 0, 0
		var firstBad ssa.Instruction
		for _, a := range as {
			if a.atom {
				nAtom++
				continue
			}
			if a.write && !a.ctor {
				nWriteOutsideCtor++
			}
			if !a.held && !a.ctor {
				nUnlocked++
				if firstBad == nil {
					firstBad = a.in
				}
			}
		}
		key := "field:" + vname(fv)
		switch {
		case len(as) == 0:
			c.present("C18.lockset", key, token.NoPos, "never accessed")
		case nAtom == len(as):
			c.hold("C18.lockset", key, token.NoPos, fmt.Sprintf("accessed only through sync/atomic (%d sites)", nAtom))
		case nAtom > 0:
			c.violate("C18.lockset", key, posOf(as[0].in), fnName(as[0].in.Parent()), "field "+vname(fv)+" is accessed both atomically and with plain loads/stores")
		case nWriteOutsideCtor == 0:
			c.hold("C18.lockset", key, token.NoPos, fmt.Sprintf("immutable after construction (%d reads)", len(as)))
		case nUnlocked == 0:
			c.hold("C18.lockset", key, token.NoPos, fmt.Sprintf("every access outside the constructor holds the meter's lock (%d sites)", len(as)))
		default:
			c.violate("C18.lockset", key, posOf(firstBad), fnName(firstBad.Parent()), fmt.Sprintf("field %s is written after construction and %d access(es) do not hold the meter's lock: data race between the ticker goroutine and the worker", vname(fv), nUnlocked))
		}
	}
	// ticker goroutine: identity test guards every write, inside one critical section
	for _, ge := range c.goEntries() {
		if ge.Fn == nil || pkgOf(ge.Fn) != modPath+"/meter" {
			continue
		}
		f := ge.Fn
		name := fnName(f)
		li := c.locksets(f)
		var writes []*ssa.Call
		allInstrs(f, func(in ssa.Instruction) {
			if call, ok := in.(*ssa.Call); ok && (strings.HasPrefix(calleeQ(&call.Call), "fmt.Fprint") || calleeQ(&call.Call) == "io.WriteString") {
				writes = append(writes, call)
			}
		})
		// the identity test
		var test *ssa.If
		allInstrs(f, func(in ssa.Instruction) {
			iff, ok := in.(*ssa.If)
			if !ok {
				return
			}
			cmp, ok := iff.Cond.(*ssa.BinOp)
			if !ok || (cmp.Op != token.NEQ && cmp.Op != token.EQL) {
				return
			}
			isField := func(v ssa.Value) bool {
				u, ok := v.(*ssa.UnOp)
				if !ok {
					return false
				}
				fa, ok := u.X.(*ssa.FieldAddr)
				return ok && isPtrToNamed(fieldOfAddr(fa).Var.Type(), "time", "Ticker")
			}
			isLocal := func(v ssa.Value) bool {
				if p, ok := v.(*ssa.Parameter); ok {
					// the goroutine is a named function that was handed its ticker
					return isPtrToNamed(p.Type(), "time", "Ticker")
				}
				u, ok := v.(*ssa.UnOp)
				if !ok {
					return false
				}
				_, isFV := u.X.(*ssa.FreeVar)
				_, isAl := u.X.(*ssa.Alloc)
				return (isFV || isAl) && isPtrToNamed(v.Type(), "time", "Ticker")
			}
			if (isField(cmp.X) && isLocal(cmp.Y)) || (isField(cmp.Y) && isLocal(cmp.X)) {
				test = iff
			}
		})
		if test == nil {
			c.violate("C18.lockset", name+":identity-test", f.Pos(), name, "the ticker goroutine no longer compares the meter's current ticker with its own: after Done()/Start() an old goroutine would keep printing lines for a finished phase")
			continue
		}
		if !li.at[test][lock] {
			c.violate("C18.lockset", name+":identity-test:locked", test.Pos(), name, "the ticker identity test is made without the meter's lock")
		}
		cmp := test.Cond.(*ssa.BinOp)
		for _, w := range writes {
			same := guardedBy(w.Block(), func(cond ssa.Value, truth bool) bool {
				return cond == ssa.Value(cmp) && ((cmp.Op == token.NEQ && !truth) || (cmp.Op == token.EQL && truth))
			})
			// one critical section: no unlock between the test and the write
			unlocked := false
			allInstrs(f, func(in ssa.Instruction) {
				if op, id, ok := lockOp(in); ok && op == "unlock" && id == lock && instrDominates(test, in) && instrDominates(in, w) {
					unlocked = true
				}
			})
			switch {
			case !same:
				c.violate("C18.lockset", name+":write-guard", w.Pos(), name, "a progress line is written without the goroutine's ticker being the meter's current one: a line for a finished phase can appear after its final line")
			case !li.at[w][lock] || unlocked:
				c.violate("C18.lockset", name+":write-section", w.Pos(), name, "the progress line is not written in the same critical section as the ticker identity test")
			default:
				c.hold("C18.lockset", name+":write-guard", w.Pos(), "written under the lock, in the critical section whose identity test found this goroutine's ticker current")
			}
		}
		// the replaced-ticker edge leaves the goroutine
		succ := test.Block().Succs[0]
		if cmp.Op == token.EQL {
			succ = test.Block().Succs[1]
		}
		leaves := true
		for b := range regionOfEdge(test.Block(), succ) {
			for _, s := range b.Succs {
				if !regionOfEdge(test.Block(), succ)[s] {
					leaves = false
				}
			}
		}
		if leaves && edgeDominates(test.Block(), succ, succ) {
			c.hold("C18.lockset", name+":exit", test.Pos(), "a goroutine whose ticker was replaced returns")
		} else {
			c.violate("C18.lockset", name+":exit", test.Pos(), name, "a goroutine whose ticker was replaced keeps running")
		}
	}
	// Done: invalidates the ticker and writes the final line under the lock
	for _, m := range []string{"Done"} {
		f := c.methodOf(types.NewPointer(mt), m)
		if f == nil {
			c.violate("C18.lockset", "Done", token.NoPos, "", "the meter has no Done method")
			continue
		}
		li := c.locksets(f)
		invalidates, writesLine := false, false
		allInstrs(f, func(in ssa.Instruction) {
			if st, ok := in.(*ssa.Store); ok {
				if fa, ok := st.Addr.(*ssa.FieldAddr); ok && isPtrToNamed(fieldOfAddr(fa).Var.Type(), "time", "Ticker") && li.at[st][lock] {
					invalidates = true
				}
			}
			if call, ok := in.(*ssa.Call); ok && strings.HasPrefix(calleeQ(&call.Call), "fmt.Fprint") && li.at[call][lock] {
				writesLine = true
			}
		})
		ec := c.newEventCounter(func(in ssa.Instruction) int {
			if call, ok := in.(*ssa.Call); ok && strings.HasPrefix(calleeQ(&call.Call), "fmt.Fprint") {
				return 1
			}
			return 0
		}, false)
		if r := ec.function(f); writesLine && (r.Min != 1 || r.Max != 1) {
			c.violate("C18.lockset", "Done:final-line-once", f.Pos(), fnName(f), fmt.Sprintf("Done writes the final line %s times (must be exactly once on every path): a phase could end without its LF-terminated line, or with two", rangeStr(r)))
		} else if writesLine {
			c.hold("C18.lockset", "Done:final-line-once", f.Pos(), "every path through Done writes exactly one line")
		}
		if invalidates && writesLine {
			c.hold("C18.lockset", "Done", f.Pos(), "replaces the ticker and writes the final line while holding the lock")
		} else {
			c.violate("C18.lockset", "Done", f.Pos(), fnName(f), fmt.Sprintf("Done must replace the meter's ticker (found=%v) and write the final line (found=%v) under the lock; otherwise the old goroutine can print after the final line", invalidates, writesLine))
		}
	}
}

// ---------------- C18.bracket ----------------

func ruleC18Bracket(c *Ctx) {
	si := c.scanModel()
	if si.Fn == nil {
		c.violate("C18.bracket", "scan", token.NoPos, "", "cannot identify the scanner")
		return
	}
	f := si.Fn
	name := fnName(f)
	kind := func(in ssa.Instruction) string {
		call, ok := in.(*ssa.Call)
		if !ok || !call.Call.IsInvoke() || !isNamed(call.Call.Value.Type(), modPath+"/meter", "Progress") {
			return ""
		}
		return mname(call.Call.Method)
	}
	// forward dataflow over {idle, active}
	const (
		idle   = 1
		active = 2
	)
	in := map[*ssa.BasicBlock]int{f.Blocks[0]: idle}
	out := map[*ssa.BasicBlock]int{}
	bad := false
	report := func(key string, at ssa.Instruction, msg string) {
		bad = true
		c.violate("C18.bracket", key, at.Pos(), name, msg)
	}
	nStart := 0
	for iter := 0; iter < 30; iter++ {
		changed := false
		for _, b := range f.Blocks {
			if b == f.Recover {
				continue
			}
			st := in[b]
			for _, p := range b.Preds {
				st |= out[p]
			}
			if st == 0 {
				continue
			}
			in[b] = st
			cur := st
			for _, ins := range b.Instrs {
				switch kind(ins) {
				case "Start":
					if cur&active != 0 {
						report("start-while-active@"+c.lineKey(ins), ins, "a phase is started while the previous one was not finished with Done(): its final line is never printed")
					}
					cur = active
				case "Done":
					if cur&idle != 0 {
						report("done-while-idle@"+c.lineKey(ins), ins, "Done() can be reached without a phase having been started")
					}
					cur = idle
				case "Inc":
					if cur&idle != 0 {
						report("inc-outside@"+c.lineKey(ins), ins, "Inc() can be reached outside a Start()/Done() bracket: the count is lost or attributed to another phase")
					}
				case "Add":
					report("add@"+c.lineKey(ins), ins, "Add() is called: counts would no longer be one per processed item")
				}
			}
			if out[b] != cur {
				out[b] = cur
				changed = true
			}
		}
		if !changed {
			break
		}
	}
	for _, ret := range returnsOf(f) {
		success := false
		for i := 0; i < f.Signature.Results().Len(); i++ {
			if isErrorType(f.Signature.Results().At(i).Type()) {
				for _, v := range c.resultValues(ret, i) {
					if isNilConst(v) {
						success = true
					}
				}
			}
		}
		if success && out[ret.Block()]&active != 0 {
			report("open-at-return", ret, "the scanner can return success while a progress phase is still open")
		}
	}
	if !bad {
		c.hold("C18.bracket", "alternation", f.Pos(), "Start/Done alternate on every path, Inc only inside a bracket, no phase open at a success return")
	}
	// per-phase loops: exactly one Inc per iteration
	incCounter := func() *eventCounter {
		return c.newEventCounter(func(in ssa.Instruction) int {
			if kind(in) == "Inc" {
				return 1
			}
			return 0
		}, false)
	}
	nLoops := 0
	for _, l := range loopsOf(f) {
		if l.Head == si.HeaderLoop.Head {
			continue
		}
		hasWork := false
		for b := range l.Blocks {
			for _, ins := range b.Instrs {
				if call, ok := ins.(*ssa.Call); ok {
					if cal := call.Call.StaticCallee(); cal != nil && strings.HasPrefix(refName(cal), "Register") {
						hasWork = true
					}
					if call.Call.IsInvoke() && strings.HasPrefix(mname(call.Call.Method), "Record") {
						hasWork = true
					}
				}
			}
		}
		if !hasWork {
			continue
		}
		nLoops++
		r := incCounter().perIteration(l)
		key := "loop@" + c.lineKey(l.Head.Instrs[0])
		if r.Min == 1 && r.Max == 1 {
			c.hold("C18.bracket", key, posOf(l.Head.Instrs[0]), "exactly one Inc per processed item")
		} else {
			c.violate("C18.bracket", key, posOf(l.Head.Instrs[0]), name, fmt.Sprintf("a phase loop increments the progress count %s times per item: the final line would not carry the exact number of items processed", rangeStr(r)))
		}
	}
	if nLoops < 4 {
		c.violate("C18.bracket", "loops", f.Pos(), name, fmt.Sprintf("only %d counted phase loops found (trees, commits, tags, references expected)", nLoops))
	}
	// blob phase: Inc exactly where RegisterBlob is
	for _, bc := range si.BlobCalls {
		n := 0
		for _, ins := range bc.Block().Instrs {
			if kind(ins) == "Inc" {
				n++
			}
		}
		r := incCounter().perIteration(si.HeaderLoop)
		if n == 1 && r.Max == 1 {
			c.hold("C18.bracket", "blob-phase", bc.Pos(), "one Inc per registered blob, none for other headers")
		} else {
			c.violate("C18.bracket", "blob-phase", bc.Pos(), name, fmt.Sprintf("the blob phase increments %d time(s) next to RegisterBlob and up to %d time(s) per header", n, r.Max))
		}
	}
	allInstrs(f, func(ins ssa.Instruction) {
		if kind(ins) == "Start" {
			nStart++
		}
	})
	if nStart < 5 {
		c.violate("C18.bracket", "phases", f.Pos(), name, fmt.Sprintf("only %d progress phases found", nStart))
	}
	// Add has no caller
	for _, fn := range c.ModFns {
		allInstrs(fn, func(in ssa.Instruction) {
			if call, ok := in.(*ssa.Call); ok && call.Call.IsInvoke() && mname(call.Call.Method) == "Add" && isNamed(call.Call.Value.Type(), modPath+"/meter", "Progress") && fn != f {
				c.violate("C18.bracket", "add@"+fnName(fn), call.Pos(), fnName(fn), "Progress.Add is called")
			}
		})
	}
}

func ruleC18Bounds(c *Ctx) {
	c.boundsOfPackage("C18.no-crash", "/meter")
}

// ruleC17FreshBuffers: a byte slice that a pipeline stage hands to the
// consumer over a channel must be allocated for that message: a buffer that
// lives across loop iterations is overwritten by the producer while the
// consumer still reads it.
func ruleC17FreshBuffers(c *Ctx) {
	n := 0
	for _, ge := range c.goEntries() {
		if ge.Fn == nil {
			continue
		}
		f := ge.Fn
		loops := loopsOf(f)
		allInstrs(f, func(in ssa.Instruction) {
			var sent []ssa.Value
			switch x := in.(type) {
			case *ssa.Send:
				sent = append(sent, x.X)
			case *ssa.Select:
				for _, st := range x.States {
					if st.Dir == types.SendOnly {
						sent = append(sent, st.Send)
					}
				}
			}
			for _, v := range sent {
				// struct messages: look at their slice-typed fields
				var slices []ssa.Value
				v = c.resolve(v)
				if u, ok := v.(*ssa.UnOp); ok {
					if al, ok := u.X.(*ssa.Alloc); ok {
						for _, r := range *al.Referrers() {
							if fa, ok := r.(*ssa.FieldAddr); ok {
								if _, isSlice := fieldOfAddr(fa).Var.Type().Underlying().(*types.Slice); isSlice {
									for _, st := range storesTo(fa) {
										slices = append(slices, st.Val)
									}
								}
							}
						}
					}
				}
				if _, isSlice := v.Type().Underlying().(*types.Slice); isSlice {
					slices = append(slices, v)
				}
				for _, sv := range slices {
					n++
					l := innermostLoop(loops, in.Block())
					src := sv
					for i := 0; i < 6; i++ {
						if sl, ok := src.(*ssa.Slice); ok {
							src = sl.X
							continue
						}
						break
					}
					src = c.resolve(src)
					key := fnName(f) + ":" + strings.Fields(in.String())[0]
					switch x := src.(type) {
					case *ssa.MakeSlice:
						if l == nil || l.Blocks[x.Block()] {
							c.hold("C17.confinement", "fresh-buffer:"+key, in.Pos(), "the bytes sent are allocated in the same loop iteration")
						} else {
							c.violate("C17.confinement", "fresh-buffer:"+key, in.Pos(), fnName(f), "the bytes sent to the consumer live in a buffer allocated outside the loop: the producer overwrites them while the consumer still reads the previous message")
						}
					case *ssa.Call:
						c.hold("C17.confinement", "fresh-buffer:"+key, in.Pos(), "the bytes sent are the result of "+calleeQ(&x.Call))
					default:
						c.violate("C17.confinement", "fresh-buffer:"+key, in.Pos(), fnName(f), fmt.Sprintf("the bytes sent to the consumer come from a value that outlives the iteration (%T): a reused buffer is overwritten by the producer while the consumer still reads it (data race)", src))
					}
				}
			}
		})
	}
	if n == 0 {
		c.present("C17.confinement", "fresh-buffer", token.NoPos, "no goroutine sends byte slices to another")
	}
}

// ruleC17Select: a `select` chooses at random among the cases that are
// ready. The only selects the program may contain pair ONE data operation
// with the cancellation signal (<-ctx.Done()); a select between two data
// channels (results vs. "pipeline finished") makes the output depend on
// scheduling: the last buffered result can be dropped.
func ruleC17Select(c *Ctx) {
	n := 0
	for _, f := range c.ModFns {
		allInstrs(f, func(in ssa.Instruction) {
			sel, ok := in.(*ssa.Select)
			if !ok {
				return
			}
			n++
			data := 0
			for _, st := range sel.States {
				isDone := false
				if call, ok := c.resolve(st.Chan).(*ssa.Call); ok && call.Call.IsInvoke() && mname(call.Call.Method) == "Done" {
					isDone = true
				}
				if !isDone {
					data++
				}
			}
			key := "select@" + fnName(f)
			if data <= 1 {
				c.hold("C17.determinism", key, sel.Pos(), "one data operation, otherwise only the cancellation signal")
			} else {
				c.violate("C17.determinism", key, sel.Pos(), fnName(f), fmt.Sprintf("a select waits on %d data channels: when several are ready the choice is random, so identical runs can report different results (e.g. the last reference dropped when the pipeline has already finished)", data))
			}
		})
	}
	c.Stats["selects"] += n
}

// ruleC17MeterLocks: the progress meter is the one object shared between
// the scanning goroutine and a ticker goroutine; its lock discipline
// (C18.lockset) is C17's race-freedom clause as well.
func ruleC17MeterLocks(c *Ctx) {
	c.RuleAlias = map[string]string{"C18.lockset": "C17.locks"}
	defer func() { c.RuleAlias = nil }()
	ruleC18Lockset(c)
}
