package main

import (
	"fmt"
	"go/constant"
	"go/token"
	"go/types"
	"sort"
	"strings"

	"golang.org/x/tools/go/ssa"
)

// E8: bounds obligations. Every index / slice operation on a string, slice
// or array must be discharged from facts on dominating branch edges and
// post-conditions of instructions that strictly dominate the site, in a
// zone (difference-bound) domain over integer SSA values and len(k) atoms.

type zAtom string

const zInf = int64(1) << 50

type zone struct {
	idx map[zAtom]int
	d   [][]int64 // d[i][j] = upper bound on atom_i - atom_j
	neq [][2]zAtom
	// post-conditions that hold only once another fact is established
	// (the result of Index is at most len-len(sep) only when it is not -1)
	pending []func()
}

func newZone() *zone { z := &zone{idx: map[zAtom]int{}}; z.get("0"); return z }

func (z *zone) get(a zAtom) int {
	if i, ok := z.idx[a]; ok {
		return i
	}
	n := len(z.d)
	for i := range z.d {
		z.d[i] = append(z.d[i], zInf)
	}
	row := make([]int64, n+1)
	for i := range row {
		row[i] = zInf
	}
	row[n] = 0
	z.d = append(z.d, row)
	z.idx[a] = n
	if strings.HasPrefix(string(a), "len:") || strings.HasPrefix(string(a), "u:") {
		z.add("0", a, 0) // lengths and unsigned values are >= 0
	}
	return n
}

// add constraint x - y <= c
func (z *zone) add(x, y zAtom, c int64) {
	i, j := z.get(x), z.get(y)
	if c >= zInf || c <= -zInf {
		return // outside the representable range: no information
	}
	if c < z.d[i][j] {
		z.d[i][j] = c
	}
}

func (z *zone) close() {
	n := len(z.d)
	for it := 0; it < 4; it++ {
		for k := 0; k < n; k++ {
			for i := 0; i < n; i++ {
				if z.d[i][k] >= zInf {
					continue
				}
				for j := 0; j < n; j++ {
					if z.d[k][j] >= zInf {
						continue
					}
					if s := z.d[i][k] + z.d[k][j]; s < z.d[i][j] {
						z.d[i][j] = s
					}
				}
			}
		}
		changed := false
		for _, p := range z.neq {
			i, j := z.get(p[0]), z.get(p[1])
			if z.d[i][j] == 0 {
				z.d[i][j] = -1
				changed = true
			}
			if z.d[j][i] == 0 {
				z.d[j][i] = -1
				changed = true
			}
		}
		if !changed {
			break
		}
	}
}

// le proves x - y <= c.
func (z *zone) le(x, y zAtom, c int64) bool {
	i, j := z.get(x), z.get(y)
	z.close()
	// an absent bound is zInf, whatever the constant it is compared with
	return z.d[i][j] < zInf && z.d[i][j] <= c
}

type zLin struct {
	a   zAtom
	k   int64
	neg bool // value = k - a instead of a + k
}

type bfn struct {
	c      *Ctx
	f      *ssa.Function
	loadEq map[ssa.Value]ssa.Value
	notes  []string
	// subst replaces a join by the alternative under consideration (phiSplit)
	subst map[ssa.Value]ssa.Value
	// inInduction: phis whose step is being examined (no nested induction)
	inInduction map[*ssa.Phi]bool
}

func (F *bfn) rep(v ssa.Value) ssa.Value {
	if r, ok := F.subst[v]; ok {
		v = r
	}
	for i := 0; i < 8; i++ {
		r, ok := F.loadEq[v]
		if !ok || r == v {
			break
		}
		v = r
	}
	// look through string(x) / []byte(x) conversions and change-types
	switch x := v.(type) {
	case *ssa.Convert:
		if isStringish(x.Type()) && isStringish(x.X.Type()) {
			return F.rep(x.X)
		}
	case *ssa.ChangeType:
		return F.rep(x.X)
	}
	return v
}

func isStringish(t types.Type) bool {
	switch u := t.Underlying().(type) {
	case *types.Basic:
		return u.Info()&types.IsString != 0
	case *types.Slice:
		if b, ok := u.Elem().Underlying().(*types.Basic); ok {
			return b.Kind() == types.Byte || b.Kind() == types.Uint8
		}
	}
	return false
}

func (F *bfn) key(v ssa.Value) string {
	v = F.rep(v)
	if s, ok := constStr(v); ok {
		return fmt.Sprintf("conststr%d", len(s))
	}
	if g, ok := v.(*ssa.Global); ok {
		return "G:" + g.String()
	}
	return v.Name() + "@" + fnName(F.f)
}

// lenLin: the length of a string/slice/array value as a linear form.
func (F *bfn) lenLin(v ssa.Value) zLin {
	v = F.rep(v)
	if s, ok := constStr(v); ok {
		return zLin{a: "0", k: int64(len(s))}
	}
	if n, ok := staticLen(v.Type()); ok {
		return zLin{a: "0", k: n}
	}
	// load of a package-level slice that is never reassigned: length of its literal
	if n, ok := F.c.globalSliceLen(v); ok {
		return zLin{a: "0", k: n}
	}
	return zLin{a: zAtom("len:" + F.key(v))}
}

func staticLen(t types.Type) (int64, bool) {
	switch u := t.Underlying().(type) {
	case *types.Pointer:
		if a, ok := u.Elem().Underlying().(*types.Array); ok {
			return a.Len(), true
		}
	case *types.Array:
		return u.Len(), true
	}
	return 0, false
}

// globalSliceLen: v is a load of a package-level slice variable initialised
// once with a literal of n elements and never stored to elsewhere.
func (c *Ctx) globalSliceLen(v ssa.Value) (int64, bool) {
	u, ok := v.(*ssa.UnOp)
	if !ok || u.Op != token.MUL {
		return 0, false
	}
	g, ok := u.X.(*ssa.Global)
	if !ok || g.Pkg == nil || !isRulePkgPath(g.Pkg.Pkg.Path()) {
		return 0, false
	}
	var n int64 = -1
	stores := 0
	for _, f := range c.Prog.Package(g.Pkg.Pkg).Members {
		fn, ok := f.(*ssa.Function)
		if !ok {
			continue
		}
		allInstrs(fn, func(in ssa.Instruction) {
			if st, ok := in.(*ssa.Store); ok && st.Addr == ssa.Value(g) {
				stores++
				if sl, ok := st.Val.(*ssa.Slice); ok && sl.Low == nil && sl.High == nil {
					if k, ok := staticLen(sl.X.Type()); ok {
						n = k
					}
				}
			}
		})
	}
	for _, fn := range c.ModFns {
		if fn.Name() == "init" {
			continue
		}
		allInstrs(fn, func(in ssa.Instruction) {
			if st, ok := in.(*ssa.Store); ok && st.Addr == ssa.Value(g) {
				stores += 100
			}
		})
	}
	if stores == 1 && n >= 0 {
		return n, true
	}
	return 0, false
}

func (F *bfn) linear(v ssa.Value) zLin {
	v = F.rep(v)
	if n, ok := constInt(v); ok {
		return zLin{a: "0", k: n}
	}
	switch x := v.(type) {
	case *ssa.BinOp:
		if x.Op == token.SUB {
			if n, ok := constInt(F.rep(x.X)); ok {
				r := F.linear(x.Y)
				if !r.neg {
					return zLin{a: r.a, k: n - r.k, neg: true}
				}
			}
		}
		if x.Op == token.ADD || x.Op == token.SUB {
			if n, ok := constInt(F.rep(x.Y)); ok {
				l := F.linear(x.X)
				if x.Op == token.SUB {
					n = -n
				}
				return zLin{a: l.a, k: l.k + n, neg: l.neg}
			}
			if x.Op == token.ADD {
				if n, ok := constInt(F.rep(x.X)); ok {
					r := F.linear(x.Y)
					return zLin{a: r.a, k: r.k + n, neg: r.neg}
				}
			}
		}
	case *ssa.Call:
		if isBuiltin(&x.Call, "len") {
			return F.lenLin(x.Call.Args[0])
		}
	case *ssa.Convert:
		fb, ok1 := x.X.Type().Underlying().(*types.Basic)
		tb, ok2 := x.Type().Underlying().(*types.Basic)
		if ok1 && ok2 && fb.Info()&types.IsInteger != 0 && tb.Info()&types.IsInteger != 0 {
			return F.linear(x.X)
		}
	}
	pre := "v:"
	if F.structNonNeg(v, 0) {
		pre = "u:" // structurally non-negative (sum of lengths, unsigned value)
	}
	return zLin{a: zAtom(pre + v.Name() + "@" + fnName(F.f))}
}

// structNonNeg: v is a length, an unsigned value, or a sum of such.
func (F *bfn) structNonNeg(v ssa.Value, depth int) bool {
	if depth > 6 {
		return false
	}
	v = F.rep(v)
	if n, ok := constInt(v); ok {
		return n >= 0
	}
	if b, ok := v.Type().Underlying().(*types.Basic); ok && b.Info()&types.IsUnsigned != 0 {
		return true
	}
	switch x := v.(type) {
	case *ssa.Call:
		return isBuiltin(&x.Call, "len") || isBuiltin(&x.Call, "cap")
	case *ssa.BinOp:
		if x.Op == token.ADD || x.Op == token.MUL {
			return F.structNonNeg(x.X, depth+1) && F.structNonNeg(x.Y, depth+1)
		}
	case *ssa.Convert:
		if fb, ok := x.X.Type().Underlying().(*types.Basic); ok && fb.Info()&types.IsInteger != 0 {
			return F.structNonNeg(x.X, depth+1)
		}
	}
	return false
}

// addLE records A + strict <= B for possibly negated linear forms, when a
// difference constraint can express it.
func (z *zone) addLE(A, B zLin, strict int64) {
	switch {
	case !A.neg && !B.neg:
		z.add(A.a, B.a, B.k-A.k-strict)
	case A.neg && !B.neg && B.a == "0": // kA - a <= kB  <=>  0 - a <= kB - kA
		z.add("0", A.a, B.k-A.k-strict)
	case !A.neg && A.a == "0" && B.neg: // kA <= kB - b  <=>  b - 0 <= kB - kA
		z.add(B.a, "0", B.k-A.k-strict)
	case A.neg && B.neg: // kA - a <= kB - b  <=>  b - a <= kB - kA
		z.add(B.a, A.a, B.k-A.k-strict)
	}
}

// proveLE proves A <= B for possibly negated linear forms.
func (z *zone) proveLE(A, B zLin) bool {
	switch {
	case !A.neg && !B.neg:
		return z.le(A.a, B.a, B.k-A.k)
	case A.neg && !B.neg && B.a == "0":
		return z.le("0", A.a, B.k-A.k)
	case !A.neg && A.a == "0" && B.neg:
		return z.le(B.a, "0", B.k-A.k)
	case A.neg && B.neg:
		return z.le(B.a, A.a, B.k-A.k)
	}
	return false
}

var indexFns = map[string]bool{
	"strings.IndexByte": true, "bytes.IndexByte": true, "strings.LastIndexByte": true, "bytes.LastIndexByte": true,
	"strings.Index": true, "bytes.Index": true, "strings.LastIndex": true, "bytes.LastIndex": true,
	"strings.IndexRune": true, "strings.IndexAny": true,
}

// defFacts adds post-conditions of instructions that strictly dominate site.
func (F *bfn) defFacts(z *zone, site ssa.Instruction) {
	for _, b := range F.f.Blocks {
		for _, in := range b.Instrs {
			if in == site || !instrDominates(in, site) {
				continue
			}
			switch x := in.(type) {
			case *ssa.Call:
				name := calleeQ(&x.Call)
				switch {
				case indexFns[name]:
					r := F.linear(x)
					s := F.lenLin(x.Call.Args[0])
					k := int64(1)
					if strings.HasSuffix(name, ".Index") || strings.HasSuffix(name, ".LastIndex") {
						k = 0
						sep := F.rep(x.Call.Args[1])
						if str, ok := constStr(sep); ok {
							k = int64(len(str))
						} else if str, ok := F.c.sepBytes(sep); ok {
							k = int64(len(str))
						}
					}
					// r <= len - 1 always (r is -1 or a position); r <= len - k
					// for a longer separator only when something was found
					k1 := k
					if k1 > 1 {
						k1 = 1
					}
					z.add(r.a, s.a, s.k-k1-r.k)
					z.add("0", r.a, 1+r.k) // r >= -1
					// the last occurrence is not before the first one
					if strings.Contains(name, ".Last") && len(x.Call.Args) == 2 {
						if sepL, okL := F.oneByteSep(x.Call.Args[1]); okL {
							strL := F.rep(x.Call.Args[0])
							lastLin := r
							for _, b2 := range F.f.Blocks {
								for _, in2 := range b2.Instrs {
									ic, isCall := in2.(*ssa.Call)
									if !isCall || ic == x || in2 == site || !instrDominates(in2, site) {
										continue
									}
									n2 := calleeQ(&ic.Call)
									if !indexFns[n2] || strings.Contains(n2, ".Last") || len(ic.Call.Args) != 2 || F.rep(ic.Call.Args[0]) != strL {
										continue
									}
									if s2, ok2 := F.oneByteSep(ic.Call.Args[1]); !ok2 || s2 != sepL {
										continue
									}
									firstLin := F.linear(ic)
									z.pending = append(z.pending, func() {
										if z.le("0", firstLin.a, firstLin.k) { // found at all
											z.addLE(firstLin, lastLin, 0)
										}
									})
								}
							}
						}
					}
					if k > 1 {
						kk := k
						z.pending = append(z.pending, func() {
							if z.le("0", r.a, r.k) { // r >= 0
								z.add(r.a, s.a, s.k-kk-r.k)
							}
						})
					}
				case name == "strings.Split" || name == "bytes.Split" || name == "strings.SplitN" || name == "bytes.SplitN":
					nonEmptySep := false
					if sep, ok := constStr(F.rep(x.Call.Args[1])); ok && sep != "" {
						nonEmptySep = true
					} else if _, ok := F.c.sepByte(x.Call.Args[1]); ok {
						nonEmptySep = true
					}
					if nonEmptySep {
						l := F.lenLin(x)
						if strings.HasSuffix(name, "N") {
							if n, ok := constInt(x.Call.Args[2]); ok && n != 0 {
								z.add("0", l.a, l.k-1) // len >= 1
								if n > 0 {
									z.add(l.a, "0", n-l.k) // len <= n
								}
							}
						} else {
							z.add("0", l.a, l.k-1)
						}
					}
				case name == "encoding/hex.EncodedLen":
					r := F.linear(x)
					z.add("0", r.a, r.k)
				case name == "strings.Count" || name == "bytes.Count":
					// Count(s, c) >= 1 => Index(s, c) >= 0 and LastIndex(s, c) >= 0;
					// Count(s, c) >= 2 => LastIndex(s, c) >= Index(s, c) + 1
					// (c one byte long: occurrences cannot overlap)
					sep, ok := F.oneByteSep(x.Call.Args[1])
					if !ok {
						break
					}
					cnt := F.linear(x)
					z.add("0", cnt.a, cnt.k) // cnt >= 0
					str := F.rep(x.Call.Args[0])
					cx := x
					z.pending = append(z.pending, func() {
						if !z.le("0", cnt.a, cnt.k-1) { // cnt >= 1
							return
						}
						var first, last []zLin
						for _, b2 := range F.f.Blocks {
							for _, in2 := range b2.Instrs {
								ic, isCall := in2.(*ssa.Call)
								if !isCall || ic == cx || in2 == site || !instrDominates(in2, site) {
									continue
								}
								n2 := calleeQ(&ic.Call)
								if !indexFns[n2] || len(ic.Call.Args) != 2 || F.rep(ic.Call.Args[0]) != str {
									continue
								}
								if s2, ok2 := F.oneByteSep(ic.Call.Args[1]); !ok2 || s2 != sep {
									continue
								}
								r := F.linear(ic)
								z.add("0", r.a, r.k) // found: r >= 0
								if strings.Contains(n2, ".Last") {
									last = append(last, r)
								} else {
									first = append(first, r)
								}
							}
						}
						if z.le("0", cnt.a, cnt.k-2) { // cnt >= 2
							for _, f1 := range first {
								for _, l1 := range last {
									z.add(f1.a, l1.a, l1.k-f1.k-1) // first + 1 <= last
								}
							}
						} else {
							for _, f1 := range first {
								for _, l1 := range last {
									z.add(f1.a, l1.a, l1.k-f1.k) // first <= last
								}
							}
						}
					})
				}
			case *ssa.MakeSlice:
				l := F.linear(x.Len)
				me := F.lenLin(x)
				z.add(me.a, l.a, l.k-me.k)
				z.add(l.a, me.a, me.k-l.k)
				// make([]T, p+q) with q >= 0: the length is at least p (and symmetrically)
				if bo, ok := F.rep(x.Len).(*ssa.BinOp); ok && bo.Op == token.ADD {
					for _, pq := range [][2]ssa.Value{{bo.X, bo.Y}, {bo.Y, bo.X}} {
						if F.structNonNeg(pq[1], 0) {
							pl := F.linear(pq[0])
							if !pl.neg && !me.neg {
								z.add(pl.a, me.a, me.k-pl.k) // p <= len
							}
						}
					}
				}
			case *ssa.Slice:
				// make([]T, p+q)[p:] has q elements
				if msl, ok := F.rep(x.X).(*ssa.MakeSlice); ok && x.Low != nil && x.High == nil {
					if sum, ok := F.rep(msl.Len).(*ssa.BinOp); ok && sum.Op == token.ADD {
						lo := F.linear(x.Low)
						for _, pq := range [][2]ssa.Value{{sum.X, sum.Y}, {sum.Y, sum.X}} {
							if F.linear(pq[0]) == lo {
								rest, me := F.linear(pq[1]), F.lenLin(x)
								if !rest.neg && !me.neg {
									z.add(me.a, rest.a, rest.k-me.k)
									z.add(rest.a, me.a, me.k-rest.k)
								}
							}
						}
					}
				}
				me := F.lenLin(x)
				src := F.lenLin(x.X)
				lo := zLin{a: "0"}
				if x.Low != nil {
					lo = F.linear(x.Low)
				}
				if x.High == nil {
					if lo.a == "0" {
						z.add(me.a, src.a, src.k-lo.k-me.k)
						z.add(src.a, me.a, me.k+lo.k-src.k)
					} else {
						z.add(me.a, src.a, src.k-me.k)
					}
				} else {
					hi := F.linear(x.High)
					if lo.a == "0" {
						z.add(me.a, hi.a, hi.k-lo.k-me.k)
						z.add(hi.a, me.a, me.k+lo.k-hi.k)
					} else {
						z.add(me.a, hi.a, hi.k-me.k)
					}
				}
			case *ssa.Phi:
				F.phiFacts(z, x)
				// counters kept in step: their difference is constant
				for _, in2 := range x.Block().Instrs {
					y, isPhi := in2.(*ssa.Phi)
					if !isPhi {
						break
					}
					if y == x || !types.Identical(x.Type(), y.Type()) {
						continue
					}
					same := func(a, b ssa.Value) bool {
						la, lb := F.linear(a), F.linear(b)
						return la == lb
					}
					if d, ok := lockstep(x, y, same); ok {
						lx, ly := F.linear(x), F.linear(y)
						if !lx.neg && !ly.neg {
							z.add(lx.a, ly.a, d+ly.k-lx.k)  // x - y <= d
							z.add(ly.a, lx.a, -d+lx.k-ly.k) // y - x <= -d
						}
					}
				}
			case *ssa.BinOp:
				if x.Op == token.QUO {
					// unsigned x / y <= x (y == 0 panics, so y >= 1 wherever the result exists)
					if bt, ok := x.Type().Underlying().(*types.Basic); ok && bt.Info()&types.IsUnsigned != 0 {
						r, lhs := F.linear(x), F.linear(x.X)
						if !r.neg && !lhs.neg {
							z.add(r.a, lhs.a, lhs.k-r.k)
						}
					}
				}
				if x.Op == token.ADD {
					// a + b <= len(Y) + c when b <= len(Y[a:]) + c: a position
					// found in the tail that starts at a, counted from the start
					// (only for `int`, the type of positions and lengths, which
					// cannot wrap; unsigned sums wrap and are tested for it)
					if bt, isB := x.Type().Underlying().(*types.Basic); !isB || bt.Kind() != types.Int {
						break
					}
					if _, k1 := constInt(F.rep(x.X)); !k1 {
						if _, k2 := constInt(F.rep(x.Y)); !k2 {
							sum := x
							for _, pair := range [][2]ssa.Value{{x.X, x.Y}, {x.Y, x.X}} {
								// a + b >= a when b >= 0
								la, lb0, lt0 := F.linear(pair[0]), F.linear(pair[1]), F.linear(sum)
								z.pending = append(z.pending, func() {
									if z.proveLE(zLin{a: "0"}, lb0) {
										z.addLE(la, lt0, 0)
									}
								})
							}
							for _, pair := range [][2]ssa.Value{{x.X, x.Y}, {x.Y, x.X}} {
								a, b := F.rep(pair[0]), pair[1]
								for _, b2 := range F.f.Blocks {
									for _, in2 := range b2.Instrs {
										sl, isSl := in2.(*ssa.Slice)
										if !isSl || sl.High != nil || sl.Low == nil || F.rep(sl.Low) != a || in2 == site || !instrDominates(in2, site) {
											continue
										}
										ls, ly, lb, lt := F.lenLin(sl), F.lenLin(sl.X), F.linear(b), F.linear(sum)
										z.pending = append(z.pending, func() {
											for _, c := range []int64{-2, -1, 0} {
												if z.proveLE(lb, zLin{a: ls.a, k: ls.k + c, neg: ls.neg}) {
													z.addLE(lt, zLin{a: ly.a, k: ly.k + c, neg: ly.neg}, 0)
													break
												}
											}
										})
									}
								}
							}
						}
					}
				}
				if x.Op == token.SUB {
					// x - y <= x for y >= 0 (lengths and sums of lengths), when
					// the difference is not itself a linear form of one atom
					if bt, ok := x.Type().Underlying().(*types.Basic); ok && bt.Info()&types.IsInteger != 0 && bt.Info()&types.IsUnsigned == 0 && F.structNonNeg(x.Y, 0) {
						if _, isConst := constInt(F.rep(x.Y)); !isConst {
							r, lhs := F.linear(x), F.linear(x.X)
							switch {
							case r.neg:
							case !lhs.neg:
								if lhs.a != r.a {
									z.add(r.a, lhs.a, lhs.k-r.k)
								}
							case strings.HasPrefix(string(lhs.a), "u:") || z.le("0", lhs.a, 0):
								// lhs = k - a with a >= 0, so lhs <= k
								z.add(r.a, "0", lhs.k-r.k)
							}
						}
					}
				}
				if x.Op == token.REM {
					r := F.linear(x)
					rhs := F.linear(x.Y)
					lhs := F.linear(x.X)
					if F.nonNeg(z, x.X, lhs) {
						z.add("0", r.a, r.k)           // r >= 0
						z.add(r.a, rhs.a, rhs.k-1-r.k) // r <= rhs-1
					}
				}
			case *ssa.Extract:
				// ReadString/ReadBytes post-condition is added with the err==nil fact
			}
		}
	}
}

// diffNonNeg: v is p - q and a comparison of these same two values that holds
// on the way to block b says q <= p (`if len(s) >= width { return }` …
// `width - len(s)`), whatever forms p and q have.
func (F *bfn) diffNonNeg(v ssa.Value, b *ssa.BasicBlock) bool {
	bo, ok := F.rep(v).(*ssa.BinOp)
	if !ok || bo.Op != token.SUB {
		return false
	}
	if bt, isB := bo.Type().Underlying().(*types.Basic); !isB || bt.Kind() != types.Int {
		return false
	}
	p, q := F.rep(bo.X), F.rep(bo.Y)
	for _, f := range factsAt(b) {
		cond, truth := normCond(f.Cond, f.Truth)
		cmp, isCmp := cond.(*ssa.BinOp)
		if !isCmp {
			continue
		}
		same := func(a, b ssa.Value) bool { return a == b || F.linear(a) == F.linear(b) }
		x, y := F.rep(cmp.X), F.rep(cmp.Y)
		op := cmp.Op
		if !truth {
			switch op {
			case token.LSS:
				op = token.GEQ
			case token.LEQ:
				op = token.GTR
			case token.GTR:
				op = token.LEQ
			case token.GEQ:
				op = token.LSS
			default:
				continue
			}
		}
		// q <= p ?
		switch {
		case same(x, q) && same(y, p) && (op == token.LSS || op == token.LEQ):
			return true
		case same(x, p) && same(y, q) && (op == token.GTR || op == token.GEQ):
			return true
		}
	}
	return false
}

// nonNeg: v >= 0 provable now, or v is (load of a non-negative field)+const.
func (F *bfn) nonNeg(z *zone, v ssa.Value, l zLin) bool {
	if z.le("0", l.a, l.k) {
		return true
	}
	v = F.rep(v)
	if bo, ok := v.(*ssa.BinOp); ok && bo.Op == token.ADD {
		if n, ok := constInt(bo.Y); ok && n >= 0 {
			return F.nonNeg(z, bo.X, F.linear(bo.X))
		}
	}
	if u, ok := v.(*ssa.UnOp); ok && u.Op == token.MUL {
		if fa, ok := u.X.(*ssa.FieldAddr); ok && F.c.fieldNonNeg(fieldOfAddr(fa).Var) {
			F.notes = append(F.notes, "field "+fieldOfAddr(fa).String()+" is only ever assigned non-negative values")
			return true
		}
	}
	return false
}

// fieldNonNeg: every store to the int field in the module is a
// non-negative constant or (that field + c) % n with c >= 0 (inductive
// invariant starting from the zero value).
func (c *Ctx) fieldNonNeg(fv *types.Var) bool {
	key := "nonneg:" + fv.String() + fv.Pkg().Path()
	if v, ok := c.memo[key]; ok {
		return v.(bool)
	}
	ok := true
	n := 0
	for _, f := range c.ModFns {
		allInstrs(f, func(in ssa.Instruction) {
			st, isSt := in.(*ssa.Store)
			if !isSt {
				return
			}
			fa, isFa := st.Addr.(*ssa.FieldAddr)
			if !isFa || fieldOfAddr(fa).Var != fv {
				return
			}
			n++
			if k, isC := constInt(st.Val); isC && k >= 0 {
				return
			}
			if bo, isB := st.Val.(*ssa.BinOp); isB && bo.Op == token.REM {
				if add, isA := bo.X.(*ssa.BinOp); isA && add.Op == token.ADD {
					if k, isC := constInt(add.Y); isC && k >= 0 {
						if u, isU := add.X.(*ssa.UnOp); isU {
							if fa2, isF := u.X.(*ssa.FieldAddr); isF && fieldOfAddr(fa2).Var == fv {
								return
							}
						}
					}
				}
			}
			ok = false
		})
	}
	// address taken?
	c.memo[key] = ok && n > 0
	return ok && n > 0
}

// phiFacts: induction variables: phi = [init, phi±c ...] is bounded by init.
func (F *bfn) phiFacts(z *zone, x *ssa.Phi) {
	var init ssa.Value
	dir := 0
	if F.inInduction[x] {
		return
	}
	for ei, e := range x.Edges {
		if bo, ok := e.(*ssa.BinOp); ok && bo.Op == token.ADD && (bo.X == ssa.Value(x) || bo.Y == ssa.Value(x)) {
			// phi + d with d not a constant but non-negative where the step
			// is taken (`start += n + 1` after `n != -1`)
			d := bo.Y
			if bo.Y == ssa.Value(x) {
				d = bo.X
			}
			bt, isB := x.Type().Underlying().(*types.Basic)
			if _, isConst := constInt(d); !isConst && ei < len(x.Block().Preds) && isB && bt.Kind() == types.Int {
				pred := x.Block().Preds[ei]
				if F.inInduction == nil {
					F.inInduction = map[*ssa.Phi]bool{}
				}
				F.inInduction[x] = true
				z2 := newZone()
				F.defFacts(z2, pred.Instrs[len(pred.Instrs)-1])
				F.pathFacts(z2, pred)
				okStep := z2.proveLE(zLin{a: "0"}, F.linear(d)) && !z2.proveLE(zLin{a: "0", k: 1}, zLin{a: "0"})
				delete(F.inInduction, x)
				if !okStep {
					return
				}
				if dir < 0 {
					return
				}
				dir = 1
				continue
			}
		}
		if bo, ok := e.(*ssa.BinOp); ok && bo.X == ssa.Value(x) && (bo.Op == token.ADD || bo.Op == token.SUB) {
			n, ok := constInt(bo.Y)
			if !ok || n <= 0 {
				return
			}
			d := 1
			if bo.Op == token.SUB {
				d = -1
			}
			if dir != 0 && dir != d {
				return
			}
			dir = d
			continue
		}
		if init != nil && init != e {
			return
		}
		init = e
	}
	if init == nil || dir == 0 {
		return
	}
	p := F.linear(x)
	in := F.linear(init)
	if dir < 0 {
		z.add(p.a, in.a, in.k-p.k) // phi <= init
	} else {
		z.add(in.a, p.a, p.k-in.k) // phi >= init
	}
}

func (F *bfn) condFacts(z *zone, cond ssa.Value, truth bool) {
	switch x := cond.(type) {
	case *ssa.UnOp:
		if x.Op == token.NOT {
			F.condFacts(z, x.X, !truth)
		}
	case *ssa.BinOp:
		op := x.Op
		// err == nil for ReadString / ReadBytes
		if (op == token.EQL || op == token.NEQ) && isErrorType(x.X.Type()) {
			if m, isNil := errNilFact(x, truth, x.X); m && isNil {
				if ex, ok := x.X.(*ssa.Extract); ok {
					if call, ok := ex.Tuple.(*ssa.Call); ok {
						q := calleeQ(&call.Call)
						if q == "(*bufio.Reader).ReadString" || q == "(*bufio.Reader).ReadBytes" || q == "(*bufio.Reader).ReadSlice" {
							for _, r := range *call.Referrers() {
								if e0, ok := r.(*ssa.Extract); ok && e0.Index == 0 {
									l := F.lenLin(e0)
									z.add("0", l.a, l.k-1) // ends with the delimiter: len >= 1
								}
							}
						}
					}
				}
			}
			return
		}
		if bt, ok := x.X.Type().Underlying().(*types.Basic); ok && bt.Info()&types.IsString != 0 {
			if s, ok := constStr(F.rep(x.Y)); ok && s == "" && (op == token.NEQ || op == token.EQL) {
				if (op == token.NEQ) == truth {
					l := F.lenLin(x.X)
					z.add("0", l.a, l.k-1)
				} else {
					l := F.lenLin(x.X)
					z.add(l.a, "0", -l.k)
				}
			}
			return
		}
		bt, ok := x.X.Type().Underlying().(*types.Basic)
		if !ok || bt.Info()&types.IsInteger == 0 {
			return
		}
		if !truth {
			switch op {
			case token.LSS:
				op = token.GEQ
			case token.LEQ:
				op = token.GTR
			case token.GTR:
				op = token.LEQ
			case token.GEQ:
				op = token.LSS
			case token.EQL:
				op = token.NEQ
			case token.NEQ:
				op = token.EQL
			}
		}
		l, r := F.linear(x.X), F.linear(x.Y)
		if l.neg || r.neg {
			// forms `k - a`: only the combinations a zone can express
			switch op {
			case token.LSS:
				z.addLE(l, r, 1)
			case token.LEQ:
				z.addLE(l, r, 0)
			case token.GTR:
				z.addLE(r, l, 1)
			case token.GEQ:
				z.addLE(r, l, 0)
			case token.EQL:
				z.addLE(l, r, 0)
				z.addLE(r, l, 0)
			}
			return
		}
		switch op {
		case token.LSS:
			z.add(l.a, r.a, r.k-l.k-1)
		case token.LEQ:
			z.add(l.a, r.a, r.k-l.k)
		case token.GTR:
			z.add(r.a, l.a, l.k-r.k-1)
		case token.GEQ:
			z.add(r.a, l.a, l.k-r.k)
		case token.EQL:
			z.add(l.a, r.a, r.k-l.k)
			z.add(r.a, l.a, l.k-r.k)
		case token.NEQ:
			if l.k == r.k {
				z.neq = append(z.neq, [2]zAtom{l.a, r.a})
			} else if r.a == "0" || l.a == "0" {
				// x + a != c  with a bound equal to that value: sharpen
				va, vk := l.a, r.k-l.k
				if l.a == "0" {
					va, vk = r.a, l.k-r.k
				}
				z.close()
				i, j := z.get("0"), z.get(va)
				if z.d[i][j] == -vk { // va >= vk
					z.d[i][j] = -vk - 1
				}
				if z.d[j][i] == vk { // va <= vk
					z.d[j][i] = vk - 1
				}
			}
		}
	case *ssa.Call:
		name := calleeQ(&x.Call)
		if truth && (name == "strings.HasPrefix" || name == "strings.HasSuffix" || name == "bytes.HasPrefix" || name == "bytes.HasSuffix") {
			s := F.lenLin(x.Call.Args[0])
			p := F.lenLin(x.Call.Args[1])
			z.add(p.a, s.a, s.k-p.k)
		}
	}
}

// oneByteSep: v is a separator one byte long (a byte constant or a constant
// string of length 1).
func (F *bfn) oneByteSep(v ssa.Value) (byte, bool) {
	v = F.rep(v)
	if s, ok := constStr(v); ok {
		if len(s) == 1 {
			return s[0], true
		}
		return 0, false
	}
	if k, ok := constInt(v); ok && k >= 0 && k < 256 {
		return byte(k), true
	}
	if b, ok := F.c.sepByte(v); ok {
		return byte(b), true
	}
	return 0, false
}

func (F *bfn) pathFacts(z *zone, b *ssa.BasicBlock) {
	for _, f := range factsAt(b) {
		F.condFacts(z, f.Cond, f.Truth)
	}
	for _, p := range z.pending {
		p()
	}
}

// ---- load equivalence (go/ssa has no CSE) and store-to-load forwarding ----

func (F *bfn) addrKey(a ssa.Value) string {
	// a pointer read from a local that is known to hold a field's address
	// (`cursor.unread = &iter.data` … `*cursor.unread`)
	if u, isLoad := a.(*ssa.UnOp); isLoad && u.Op == token.MUL {
		if r, ok := F.loadEq[a]; ok && r != a {
			switch r.(type) {
			case *ssa.FieldAddr, *ssa.Alloc:
				return F.addrKey(r)
			}
		}
	}
	switch x := a.(type) {
	case *ssa.FieldAddr:
		base := x.X
		if u, ok := base.(*ssa.UnOp); ok && u.Op == token.MUL {
			base = F.rep(u)
		}
		if al, ok := base.(*ssa.Alloc); ok && !al.Heap {
			return fmt.Sprintf("FL(%s)#%s.%d", base.Name(), x.X.Type().String(), x.Field)
		}
		if fa2, ok := base.(*ssa.FieldAddr); ok {
			if k2 := F.addrKey(fa2); strings.HasPrefix(k2, "FL(") {
				return fmt.Sprintf("FL(%s)#%s.%d", k2, x.X.Type().String(), x.Field)
			}
		}
		return fmt.Sprintf("F(%s)#%s.%d", base.Name(), x.X.Type().String(), x.Field)
	case *ssa.Alloc:
		return "A(" + x.Name() + ")"
	case *ssa.FreeVar:
		return "V(" + x.Name() + ")"
	case *ssa.Global:
		return "G(" + x.String() + ")"
	}
	return ""
}

var pureCallPrefixes = []string{"strings.", "bytes.", "strconv.", "errors.", "fmt.Errorf", "fmt.Sprintf", "fmt.Sprint", "encoding/hex.", "unicode", "math.", "(*bytes.Buffer).", "(*strings.Builder)."}

// writesOnlyBuffer: fmt.Fprint* into an in-memory buffer writes nothing else.
func writesOnlyBuffer(cc *ssa.CallCommon) bool {
	n := calleeQ(cc)
	if n != "fmt.Fprintf" && n != "fmt.Fprint" && n != "fmt.Fprintln" {
		return false
	}
	if len(cc.Args) == 0 {
		return false
	}
	mi, ok := cc.Args[0].(*ssa.MakeInterface)
	if !ok {
		return false
	}
	return isPtrToNamed(mi.X.Type(), "bytes", "Buffer") || isPtrToNamed(mi.X.Type(), "strings", "Builder")
}

func (F *bfn) kills(in ssa.Instruction, key string) bool {
	switch s := in.(type) {
	case *ssa.Store:
		k := F.addrKey(s.Addr)
		if k == key {
			return true
		}
		// a store to the same field of the same struct type through another base may alias
		if strings.HasPrefix(key, "F(") {
			if fa, ok := s.Addr.(*ssa.FieldAddr); ok && strings.HasSuffix(key, fmt.Sprintf("#%s.%d", fa.X.Type().String(), fa.Field)) {
				return true
			}
		}
		return false
	case *ssa.Call:
		n := calleeQ(&s.Call)
		if strings.HasPrefix(n, "builtin ") {
			return false
		}
		for _, p := range pureCallPrefixes {
			if strings.HasPrefix(n, p) {
				return false
			}
		}
		if writesOnlyBuffer(&s.Call) {
			return false
		}
		if strings.HasPrefix(key, "FL(") {
			return false // field of a non-escaping local: only direct stores write it
		}
		if strings.HasPrefix(key, "V(") {
			// a captured cell is shared with the enclosing function only; a
			// call writes it only if the cell itself is handed over
			for _, a := range s.Call.Args {
				if fv, ok := a.(*ssa.FreeVar); ok && "V("+fv.Name()+")" == key {
					return true
				}
			}
			return false
		}
		if strings.HasPrefix(key, "F(") {
			// a field reached through a pointer: a statically known module
			// function writes it only if it (or what it calls) stores to that
			// field of that struct type
			if i := strings.LastIndex(key, "#"); i >= 0 {
				if cal := s.Call.StaticCallee(); cal != nil && len(cal.Blocks) > 0 && F.c.inRuleScope(cal) {
					if !F.c.mayWriteField(cal, key[i:], map[*ssa.Function]bool{}) {
						return false
					}
				}
			}
		}
		if strings.HasPrefix(key, "A(") {
			// a local is killed only if its address is passed or captured by a called closure
			for _, a := range s.Call.Args {
				if al, ok := a.(*ssa.Alloc); ok && "A("+al.Name()+")" == key {
					return true
				}
			}
			if mc, ok := s.Call.Value.(*ssa.MakeClosure); ok {
				for _, b := range mc.Bindings {
					if al, ok := b.(*ssa.Alloc); ok && "A("+al.Name()+")" == key {
						return true
					}
				}
			}
			return false
		}
		return true
	case *ssa.Go, *ssa.Defer:
		return !strings.HasPrefix(key, "A(")
	}
	return false
}

// mayWriteField: f, or something it may call, stores to the field named by
// suffix ("#<struct type>.<index>"). Calls that are not statically resolved
// to a module function with a body count as writers.
func (c *Ctx) mayWriteField(f *ssa.Function, suffix string, seen map[*ssa.Function]bool) bool {
	if seen[f] {
		return false
	}
	top := len(seen) == 0 // only a complete exploration is remembered
	seen[f] = true
	key := "maywrite:" + f.String() + suffix
	if v, ok := c.memo[key]; ok {
		return v.(bool)
	}
	res := false
	for _, b := range f.Blocks {
		for _, in := range b.Instrs {
			switch x := in.(type) {
			case *ssa.Store:
				if fa, ok := x.Addr.(*ssa.FieldAddr); ok && fmt.Sprintf("#%s.%d", fa.X.Type().String(), fa.Field) == suffix {
					res = true
				}
			case ssa.CallInstruction:
				com := x.Common()
				n := calleeQ(com)
				if strings.HasPrefix(n, "builtin ") {
					continue
				}
				pure := false
				for _, p := range pureCallPrefixes {
					if strings.HasPrefix(n, p) {
						pure = true
					}
				}
				if pure || writesOnlyBuffer(com) {
					continue
				}
				cal := com.StaticCallee()
				switch {
				case cal != nil && len(cal.Blocks) > 0 && c.inRuleScope(cal):
					if c.mayWriteField(cal, suffix, seen) {
						res = true
					}
				case cal != nil && !c.inRuleScope(cal):
					// a library function: writes our struct only through a
					// pointer, interface, map, func or slice handed to it
					for _, a := range com.Args {
						switch a.Type().Underlying().(type) {
						case *types.Basic:
						default:
							if sl, isSl := a.Type().Underlying().(*types.Slice); isSl {
								if _, basic := sl.Elem().Underlying().(*types.Basic); basic {
									continue
								}
							}
							res = true
						}
					}
				default:
					res = true
				}
			}
			if res {
				break
			}
		}
		if res {
			break
		}
	}
	if top || res {
		c.memo[key] = res
	}
	return res
}

func (F *bfn) noKillBetween(first, second ssa.Instruction, key string) bool {
	b1, b2 := first.Block(), second.Block()
	if b1 == b2 {
		on := false
		for _, i2 := range b1.Instrs {
			if i2 == first {
				on = true
				continue
			}
			if i2 == second {
				break
			}
			if on && F.kills(i2, key) {
				return false
			}
		}
		// if the block is in a cycle, a path first→…→back→second would need to leave and re-enter; first dominates second in straight line
		return true
	}
	// blocks on a path from `first` to `second` that does not execute `first`
	// again in between (a path that comes back to b1 re-establishes the value)
	r1 := map[*ssa.BasicBlock]bool{b1: true}
	{
		st := append([]*ssa.BasicBlock{}, b1.Succs...)
		for len(st) > 0 {
			x := st[len(st)-1]
			st = st[:len(st)-1]
			if r1[x] {
				continue
			}
			r1[x] = true
			st = append(st, x.Succs...)
		}
	}
	canReach := map[*ssa.BasicBlock]bool{}
	st := append([]*ssa.BasicBlock{}, b2.Preds...)
	for len(st) > 0 {
		x := st[len(st)-1]
		st = st[:len(st)-1]
		if canReach[x] {
			continue
		}
		canReach[x] = true
		if x != b1 {
			st = append(st, x.Preds...)
		}
	}
	for blk := range r1 {
		if blk != b1 && blk != b2 && canReach[blk] {
			for _, i2 := range blk.Instrs {
				if F.kills(i2, key) {
					return false
				}
			}
		}
	}
	on := false
	for _, i2 := range b1.Instrs {
		if i2 == first {
			on = true
			continue
		}
		if on && F.kills(i2, key) {
			return false
		}
	}
	for _, i2 := range b2.Instrs {
		if i2 == second {
			break
		}
		if F.kills(i2, key) {
			return false
		}
	}
	inCycle := func(b *ssa.BasicBlock) bool {
		for _, s := range b.Succs {
			if reachable(s)[b] {
				return true
			}
		}
		return false
	}
	if canReach[b1] && inCycle(b1) {
		for _, i2 := range b1.Instrs {
			if i2 == first {
				break
			}
			if F.kills(i2, key) {
				return false
			}
		}
	}
	if r1[b2] && canReach[b2] && inCycle(b2) {
		for _, i2 := range b2.Instrs {
			if F.kills(i2, key) {
				return false
			}
		}
	}
	return true
}

func (F *bfn) computeLoadEq() {
	F.loadEq = map[ssa.Value]ssa.Value{}
	type src struct {
		in  ssa.Instruction
		val ssa.Value
		key string
	}
	var sources []src
	var order []*ssa.BasicBlock
	var walk func(b *ssa.BasicBlock)
	walk = func(b *ssa.BasicBlock) {
		order = append(order, b)
		for _, c := range b.Dominees() {
			walk(c)
		}
	}
	if len(F.f.Blocks) > 0 {
		walk(F.f.Blocks[0])
	}
	for _, b := range order {
		for _, in := range b.Instrs {
			switch x := in.(type) {
			case *ssa.Store:
				if k := F.addrKey(x.Addr); k != "" {
					sources = append(sources, src{x, x.Val, k})
				}
			case *ssa.UnOp:
				if x.Op != token.MUL {
					continue
				}
				k := F.addrKey(x.X)
				if k == "" {
					continue
				}
				// latest dominating source with the same key and no kill between
				found := false
				for i := len(sources) - 1; i >= 0; i-- {
					s := sources[i]
					if s.key != k || !instrDominates(s.in, x) {
						continue
					}
					if F.noKillBetween(s.in, x, k) {
						F.loadEq[x] = F.rep(s.val)
						found = true
						break
					}
				}
				// a field of a local struct that was assigned as a whole from
				// another local struct (the copy a value receiver is): the
				// field of the original at the time of the copy
				if fa, isFA := x.X.(*ssa.FieldAddr); isFA && !found && strings.HasPrefix(k, "FL(") {
					if dst, isAlloc := fa.X.(*ssa.Alloc); isAlloc {
						var whole *ssa.Store
						n := 0
						for _, r := range *dst.Referrers() {
							if st, isSt := r.(*ssa.Store); isSt && st.Addr == ssa.Value(dst) {
								whole = st
								n++
							}
						}
						if n == 1 && instrDominates(whole, x) {
							if ld, isLd := whole.Val.(*ssa.UnOp); isLd && ld.Op == token.MUL {
								if srcAl, isAl := ld.X.(*ssa.Alloc); isAl && !srcAl.Heap {
									k2 := fmt.Sprintf("FL(%s)#%s.%d", srcAl.Name(), srcAl.Type().String(), fa.Field)
									for i := len(sources) - 1; i >= 0; i-- {
										s := sources[i]
										if s.key != k2 || !instrDominates(s.in, ld) {
											continue
										}
										if F.noKillBetween(s.in, ld, k2) {
											F.loadEq[x] = F.rep(s.val)
											break
										}
									}
								}
							}
						}
					}
				}
				sources = append(sources, src{x, x, k})
			}
		}
	}
}

// ---- obligations ----

type boundsOb struct {
	Fn    *ssa.Function
	In    ssa.Instruction
	Kind  string
	Expr  string
	OK    bool
	Why   string
	Notes []string
	// SharedInt: the index is computed from an integer variable shared between a
	// closure and its enclosing function (a length cached outside the closure):
	// relating it to the slice's length needs inter-procedural memory reasoning
	// this engine does not do
	SharedInt bool
	// Fields: names of the struct fields the checked quantity is computed from
	// (lets an exception name the one quantity it is about)
	Fields []string
}

// fieldsIn lists the struct fields loaded while computing v (shallow).
func fieldsIn(v ssa.Value, depth int) []string {
	if v == nil || depth > 5 {
		return nil
	}
	switch x := v.(type) {
	case *ssa.UnOp:
		if fa, ok := x.X.(*ssa.FieldAddr); ok {
			return []string{vname(fieldOfAddr(fa).Var)}
		}
		return fieldsIn(x.X, depth+1)
	case *ssa.BinOp:
		return append(fieldsIn(x.X, depth+1), fieldsIn(x.Y, depth+1)...)
	case *ssa.Convert:
		return fieldsIn(x.X, depth+1)
	case *ssa.Field:
		return []string{vname(fieldOfVal(x).Var)}
	}
	return nil
}

func (c *Ctx) boundsObligations(keep func(f *ssa.Function) bool) []*boundsOb {
	var out []*boundsOb
	for _, f := range c.ModFns {
		if !keep(f) {
			continue
		}
		F := &bfn{c: c, f: f}
		F.computeLoadEq()
		for _, b := range f.Blocks {
			for _, in := range b.Instrs {
				var X, lo, hi, idx ssa.Value
				kind := ""
				switch x := in.(type) {
				case *ssa.Slice:
					X, lo, hi, kind = x.X, x.Low, x.High, "slice"
					if x.Low == nil && x.High == nil {
						continue
					}
				case *ssa.IndexAddr:
					X, idx, kind = x.X, x.Index, "index"
				case *ssa.Index:
					X, idx, kind = x.X, x.Index, "index"
				case *ssa.Lookup:
					if _, isMap := x.X.Type().Underlying().(*types.Map); isMap {
						continue
					}
					X, idx, kind = x.X, x.Index, "index"
				case *ssa.Call:
					// library preconditions that panic when violated
					q := calleeQ(&x.Call)
					if q == "strings.Repeat" || q == "bytes.Repeat" {
						if _, isConst := constInt(x.Call.Args[1]); isConst {
							continue
						}
						F.notes = nil
						z := newZone()
						F.defFacts(z, in)
						F.pathFacts(z, b)
						cnt := F.linear(x.Call.Args[1])
						F.floatFacts(z, x.Call.Args[1], b)
						ob := &boundsOb{Fn: f, In: in, Kind: "repeat-count", OK: true, Fields: fieldsIn(x.Call.Args[1], 0)}
						if !z.proveLE(zLin{a: "0"}, cnt) && !F.diffNonNeg(x.Call.Args[1], b) {
							ob.OK = false
							ob.Why = " count>=0 not established (strings.Repeat panics on a negative count);"
						}
						ob.Notes = append(ob.Notes, F.notes...)
						ob.Expr = exprText(in)
						out = append(out, ob)
					}
					continue
				default:
					continue
				}
				// variadic-argument arrays and composite literals: constant index into a fresh array
				if al, ok := X.(*ssa.Alloc); ok && idx != nil {
					if n, ok := staticLen(al.Type()); ok {
						if k, ok := constInt(idx); ok && k >= 0 && k < n {
							continue
						}
					}
				}
				F.notes = nil
				z := newZone()
				F.defFacts(z, in)
				F.pathFacts(z, b)
				ob := &boundsOb{Fn: f, In: in, Kind: kind, OK: true}
				ob.OK, ob.Why = F.proveOb(z, kind, X, idx, lo, hi, b)
				if !ob.OK && F.phiSplit(in, b, kind, X, idx, lo, hi) {
					ob.OK, ob.Why = true, ""
					F.notes = append(F.notes, "proved separately for each value a clamped bound can take")
				}
				if !ob.OK && idx != nil && F.c.usesSharedInt(idx, b, 0) {
					ob.SharedInt = true
				}
				ob.Notes = append(ob.Notes, F.notes...)
				ob.Expr = exprText(in)
				out = append(out, ob)
			}
		}
	}
	sort.SliceStable(out, func(i, j int) bool { return posOf(out[i].In) < posOf(out[j].In) })
	return out
}

// proveOb discharges the obligations of one index / slice expression in z.
func (F *bfn) proveOb(z *zone, kind string, X, idx, lo, hi ssa.Value, fb *ssa.BasicBlock) (bool, string) {
	L := F.lenLin(X)
	zero := zLin{a: "0"}
	ok, why := true, ""
	if kind == "index" {
		i := F.linear(idx)
		F.floatFacts(z, idx, fb)
		if !z.proveLE(zero, i) {
			ok = false
			why += " index>=0 not established;"
		}
		if !z.proveLE(zLin{a: i.a, k: i.k + 1, neg: i.neg}, L) {
			ok = false
			why += " index<len not established;"
		}
		// s := make([]T, p+q); s[p+j] with 0 <= j < q
		if !ok && F.sumIndexProof(z, idx, X) {
			ok, why = true, ""
			F.notes = append(F.notes, "index p+j into make(…, p+q): 0 <= j < q, p >= 0")
		}
		return ok, why
	}
	l := zero
	if lo != nil {
		l = F.linear(lo)
		F.floatFacts(z, lo, fb)
	}
	h := L
	if hi != nil {
		h = F.linear(hi)
		F.floatFacts(z, hi, fb)
	}
	if !z.proveLE(zero, l) {
		ok = false
		why += " low>=0 not established;"
	}
	if !z.proveLE(l, h) {
		ok = false
		why += " low<=high not established;"
	}
	if !z.proveLE(h, L) {
		ok = false
		why += " high<=len not established;"
	}
	return ok, why
}

// phiSplit: a bound that is a join of alternatives (`if n > len(s) { n =
// len(s) }`) is proved for each alternative under the facts of the path it
// arrives on.
func (F *bfn) phiSplit(in ssa.Instruction, b *ssa.BasicBlock, kind string, X, idx, lo, hi ssa.Value) bool {
	var phi *ssa.Phi
	for _, v := range []ssa.Value{idx, lo, hi} {
		if v == nil {
			continue
		}
		w := F.rep(v)
		if bo, ok := w.(*ssa.BinOp); ok && (bo.Op == token.ADD || bo.Op == token.SUB) {
			if _, isK := constInt(bo.Y); isK {
				w = F.rep(bo.X)
			}
		}
		if p, ok := w.(*ssa.Phi); ok {
			phi = p
			break
		}
	}
	if phi == nil {
		return false
	}
	pb := phi.Block()
	if pb != b && !pb.Dominates(b) {
		return false
	}
	for _, pred := range pb.Preds {
		if pb.Dominates(pred) {
			return false // a loop-carried value
		}
	}
	defer func() { F.subst = nil }()
	for i, pred := range pb.Preds {
		F.subst = map[ssa.Value]ssa.Value{phi: phi.Edges[i]}
		z := newZone()
		F.defFacts(z, in)
		for _, f := range factsAt(pred) {
			F.condFacts(z, f.Cond, f.Truth)
		}
		for _, f := range factsOnEdge(pred, pb) {
			F.condFacts(z, f.Cond, f.Truth)
		}
		F.pathFacts(z, b)
		for _, v := range []ssa.Value{idx, lo, hi} {
			if v != nil {
				F.floatFacts(z, v, pred)
			}
		}
		if ok, _ := F.proveOb(z, kind, X, idx, lo, hi, b); !ok {
			return false
		}
	}
	return true
}

// floatFacts: int(x) for a float x bounded by dominating comparisons with
// constants; x = float(unsigned)/y is taken as >= 0 (y > 0 is checked by
// C11.rule's scale-constant clause).
func (F *bfn) floatFacts(z *zone, v ssa.Value, b *ssa.BasicBlock) {
	cv, ok := F.rep(v).(*ssa.Convert)
	if !ok {
		return
	}
	fb, ok := cv.X.Type().Underlying().(*types.Basic)
	if !ok || fb.Info()&types.IsFloat == 0 {
		return
	}
	me := F.linear(cv)
	x := cv.X
	for _, f := range factsAt(b) {
		cond, truth := normCond(f.Cond, f.Truth)
		cmp, ok := cond.(*ssa.BinOp)
		if !ok {
			continue
		}
		op := cmp.Op
		var k float64
		switch {
		case cmp.X == x:
			k, ok = constFloat(cmp.Y)
		case cmp.Y == x:
			k, ok = constFloat(cmp.X)
			switch op { // mirror: k OP x  ==  x OP' k
			case token.LSS:
				op = token.GTR
			case token.LEQ:
				op = token.GEQ
			case token.GTR:
				op = token.LSS
			case token.GEQ:
				op = token.LEQ
			}
		default:
			continue
		}
		if !ok {
			continue
		}
		fl := int64(k)
		cmp = &ssa.BinOp{Op: op, X: cmp.X, Y: cmp.Y}
		switch {
		case (cmp.Op == token.GTR && !truth) || (cmp.Op == token.LEQ && truth):
			z.add(me.a, "0", fl-me.k) // x <= k => int(x) <= floor(k)
		case (cmp.Op == token.GEQ && !truth) || (cmp.Op == token.LSS && truth):
			z.add(me.a, "0", fl-me.k)
		case (cmp.Op == token.LSS && !truth) || (cmp.Op == token.GEQ && truth):
			if k >= 0 {
				z.add("0", me.a, me.k-fl)
			}
		}
	}
	// ratio of an unsigned quantity and a scale
	inner := x
	if c2, ok := inner.(*ssa.Convert); ok {
		inner = c2.X
	}
	if ct, ok := inner.(*ssa.ChangeType); ok {
		inner = ct.X
	}
	if c2, ok := inner.(*ssa.Convert); ok {
		inner = c2.X
	}
	if q, ok := inner.(*ssa.BinOp); ok && q.Op == token.QUO {
		if num, ok := q.X.(*ssa.Convert); ok {
			if nb, ok := num.X.Type().Underlying().(*types.Basic); ok && nb.Info()&types.IsUnsigned != 0 {
				z.add("0", me.a, me.k)
				F.notes = append(F.notes, "float(unsigned)/scale >= 0 assuming scale > 0 (verified by C11.rule:scales)")
			}
		}
	}
}

func exprText(in ssa.Instruction) string {
	s := in.String()
	if v, ok := in.(ssa.Value); ok {
		s = v.Name() + " = " + s
	}
	return s
}

func constVal(v ssa.Value) constant.Value {
	if c, ok := v.(*ssa.Const); ok {
		return c.Value
	}
	return nil
}

// checkBounds runs the obligations of the selected functions under rule.
func (c *Ctx) checkBounds(rule string, keep func(f *ssa.Function) bool, exceptions map[string]string) int {
	obs := c.boundsObligations(keep)
	n := 0
	per := map[string]int{}
	for _, ob := range obs {
		n++
		fname := fnName(ob.Fn)
		per[fname]++
		key := fmt.Sprintf("%s#%d", fname, per[fname])
		if ob.OK {
			note := ob.Expr
			if len(ob.Notes) > 0 {
				note += " [" + strings.Join(uniq(ob.Notes), "; ") + "]"
			}
			c.hold(rule, key, posOf(ob.In), note)
			continue
		}
		exKey := fname + ":" + ob.Kind
		if why, ok := exceptions[exKey]; ok {
			c.exception(rule, key, posOf(ob.In), why)
			continue
		}
		if ob.SharedInt {
			c.notDecided(rule, fmt.Sprintf("%s:%s@%s", fname, ob.Kind, c.lineKey(ob.In)), posOf(ob.In), "the index (or its loop bound) is an integer variable shared between a closure and the enclosing function (a length cached outside the closure); the bounds engine reasons within one function only")
			continue
		}
		excepted := false
		for _, fld := range ob.Fields {
			if why, ok := exceptions[exKey+":"+fld]; ok && !excepted {
				c.exception(rule, key, posOf(ob.In), why)
				excepted = true
			}
		}
		if excepted {
			continue
		}
		c.violate(rule, fmt.Sprintf("%s:%s@%s", fname, ob.Kind, c.lineKey(ob.In)), posOf(ob.In), fname, fmt.Sprintf("%s expression `%s` is not proved in bounds:%s an input reaching this site with the missing fact false panics", ob.Kind, ob.Expr, ob.Why))
	}
	c.Stats["bounds_obligations"] += n
	return n
}

func init() {
	dumpers["bounds"] = func(c *Ctx) {
		obs := c.boundsObligations(func(f *ssa.Function) bool { return true })
		ok := 0
		for _, ob := range obs {
			if ob.OK {
				ok++
				continue
			}
			fmt.Printf("UNDISCHARGED %s %s in %s: %s  %s\n", c.pos(posOf(ob.In)), ob.Kind, fnName(ob.Fn), ob.Expr, ob.Why)
		}
		fmt.Printf("obligations %d discharged %d\n", len(obs), ok)
	}
}

// sumIndexProof: idx = t + j and the indexed slice was made with length
// t + q (the same t), with 0 <= j, j+1 <= q and t >= 0 provable.
func (F *bfn) sumIndexProof(z *zone, idx, X ssa.Value) bool {
	ib, ok := F.rep(idx).(*ssa.BinOp)
	if !ok || ib.Op != token.ADD {
		return false
	}
	mk, ok := F.c.resolve(F.rep(X)).(*ssa.MakeSlice)
	if !ok {
		return false
	}
	lb, ok := F.rep(mk.Len).(*ssa.BinOp)
	if !ok || lb.Op != token.ADD {
		return false
	}
	same := func(a, b ssa.Value) bool {
		if F.rep(a) == F.rep(b) {
			return true
		}
		la, lbb := F.linear(a), F.linear(b)
		return la == lbb
	}
	zero := zLin{a: "0"}
	for _, it := range [][2]ssa.Value{{ib.X, ib.Y}, {ib.Y, ib.X}} {
		for _, lt := range [][2]ssa.Value{{lb.X, lb.Y}, {lb.Y, lb.X}} {
			if !same(it[0], lt[0]) {
				continue
			}
			j, q, t := F.linear(it[1]), F.linear(lt[1]), F.linear(it[0])
			tNonNeg := F.structNonNeg(it[0], 0) || z.proveLE(zero, t)
			if tNonNeg && z.proveLE(zero, j) && z.proveLE(zLin{a: j.a, k: j.k + 1, neg: j.neg}, q) {
				return true
			}
		}
	}
	return false
}

// usesSharedInt: v (or the loop bound its counter is compared with) is
// loaded from an integer cell that a closure shares with its parent.
func (c *Ctx) usesSharedInt(v ssa.Value, at *ssa.BasicBlock, depth int) bool {
	if depth > 5 || v == nil {
		return false
	}
	isInt := func(t types.Type) bool {
		b, ok := t.Underlying().(*types.Basic)
		return ok && b.Info()&types.IsInteger != 0
	}
	switch x := v.(type) {
	case *ssa.UnOp:
		if x.Op != token.MUL || !isInt(x.Type()) {
			return false
		}
		if _, ok := x.X.(*ssa.FreeVar); ok {
			return true
		}
		if al, ok := x.X.(*ssa.Alloc); ok {
			for _, r := range *al.Referrers() {
				if _, ok := r.(*ssa.MakeClosure); ok {
					return true
				}
			}
		}
	case *ssa.BinOp:
		return c.usesSharedInt(x.X, at, depth+1) || c.usesSharedInt(x.Y, at, depth+1)
	case *ssa.Convert:
		return c.usesSharedInt(x.X, at, depth+1)
	case *ssa.Phi:
		// a loop counter: look at what it is compared with in the loop head
		if iff, ok := x.Block().Instrs[len(x.Block().Instrs)-1].(*ssa.If); ok {
			if cmp, ok := iff.Cond.(*ssa.BinOp); ok {
				if cmp.X == ssa.Value(x) {
					return c.usesSharedInt(cmp.Y, at, depth+1)
				}
				if bo, ok := cmp.X.(*ssa.BinOp); ok && bo.X == ssa.Value(x) {
					return c.usesSharedInt(cmp.Y, at, depth+1)
				}
			}
		}
	}
	return false
}
